(** Structural facts about the tree returned by [Check.from_grammar] (statement in
    Proofs/TreeFacts.v): no [DistDescr] is left, composite words are flat, every leaf carries the
    index of its innermost [||] branch, and no [|] / [||] lost all its operands.

    One group of lemmas per pass of the pipeline
    [distribute_descriptions ; specialize ; resolve ; collapse ; propagate]. *)
From CG Require Import Base.Prelude Model.Ast Model.Check Spec.Lang Proofs.TreeFacts.

(** *** [forallb] over mapped lists *)

Lemma forallb_map {A B} (f : B -> bool) (g : A -> B) (l : list A) :
  forallb f (map g l) = forallb (fun x => f (g x)) l.
Proof. induction l as [|x l IH]; cbn; [reflexivity|]. now rewrite IH. Qed.

Lemma forallb_map_all {A B} (f : B -> bool) (g : A -> B) (l : list A) :
  Forall (fun x => f (g x) = true) l -> forallb f (map g l) = true.
Proof. induction 1 as [|x l H _ IH]; cbn; [reflexivity|]. now rewrite H, IH. Qed.

Lemma forallb_map_pres {A B} (p : A -> bool) (f : B -> bool) (g : A -> B) (l : list A) :
  Forall (fun x => p x = true -> f (g x) = true) l ->
  forallb p l = true -> forallb f (map g l) = true.
Proof.
  induction 1 as [|x l H _ IH]; cbn; [reflexivity|].
  intro E; apply andb_true_iff in E as [E1 E2]. now rewrite H, IH.
Qed.

Lemma map_not_nil {A B} (g : A -> B) (l : list A) : l <> [] -> map g l <> [].
Proof. destruct l; cbn; [congruence|discriminate]. Qed.

(** *** The shape of [alts_nonempty] at [|] and [||] *)

Lemma alts_alt cs sp :
  alts_nonempty (Alternative cs sp) = true <-> cs <> [] /\ forallb alts_nonempty cs = true.
Proof.
  cbn [alts_nonempty]. destruct cs as [|c cs].
  - split; [discriminate|intros [H _]; congruence].
  - split; [intro H; split; [discriminate|exact H]|intros [_ H]; exact H].
Qed.

Lemma alts_fb cs sp :
  alts_nonempty (Fallback cs sp) = true <-> cs <> [] /\ forallb alts_nonempty cs = true.
Proof.
  cbn [alts_nonempty]. destruct cs as [|c cs].
  - split; [discriminate|intros [H _]; congruence].
  - split; [intro H; split; [discriminate|exact H]|intros [_ H]; exact H].
Qed.

(** *** distribute *)

(** The inner loop of [distribute] on [Sequence] and [Fallback], named. *)
Fixpoint dist_list (l : list expr) (d : option string) : list expr * option string :=
  match l with
  | [] => ([], d)
  | c :: r => let (c', d1) := distribute c d in
              let (r', d2) := dist_list r d1 in (c' :: r', d2)
  end.

Lemma distribute_Sequence cs sp d :
  distribute (Sequence cs sp) d = let (cs', d') := dist_list cs d in (Sequence cs' sp, d').
Proof. reflexivity. Qed.

Lemma distribute_Fallback cs sp d :
  distribute (Fallback cs sp) d = let (cs', d') := dist_list cs d in (Fallback cs' sp, d').
Proof. reflexivity. Qed.

Lemma dist_list_all (Q : expr -> bool) cs :
  Forall (fun c => forall d, Q (fst (distribute c d)) = true) cs ->
  forall d, forallb Q (fst (dist_list cs d)) = true.
Proof.
  induction 1 as [|c cs H _ IH]; intro d; cbn [dist_list]; [reflexivity|].
  specialize (H d). destruct (distribute c d) as [c' d1].
  specialize (IH d1). destruct (dist_list cs d1) as [r' d2].
  cbn in *. now rewrite H, IH.
Qed.

Lemma dist_list_pres (Q : expr -> bool) cs :
  Forall (fun c => forall d, Q c = true -> Q (fst (distribute c d)) = true) cs ->
  forall d, forallb Q cs = true -> forallb Q (fst (dist_list cs d)) = true.
Proof.
  induction 1 as [|c cs H _ IH]; intros d E; cbn [dist_list]; [reflexivity|].
  cbn in E. apply andb_true_iff in E as [E1 E2].
  specialize (H d E1). destruct (distribute c d) as [c' d1].
  specialize (IH d1 E2). destruct (dist_list cs d1) as [r' d2].
  cbn in *. now rewrite H, IH.
Qed.

Lemma dist_list_not_nil cs d : cs <> [] -> fst (dist_list cs d) <> [].
Proof.
  destruct cs as [|c cs]; [congruence|]. intros _. cbn [dist_list].
  destruct (distribute c d) as [c' d1]. destruct (dist_list cs d1) as [r' d2]. discriminate.
Qed.

Lemma distribute_dd_free e : forall d, dd_free (fst (distribute e d)) = true.
Proof.
  induction e as [t dd l sp|n l sp|c z l sp|cs sp IH|cs sp IH|c sp IH|c sp IH|c dd sp IH
                  |cs sp IH|c l sp IH] using expr_ind'; intro d.
  - destruct dd, d; reflexivity.
  - reflexivity.
  - reflexivity.
  - rewrite distribute_Sequence. pose proof (dist_list_all dd_free cs IH d) as H.
    destruct (dist_list cs d) as [cs' d']. exact H.
  - cbn [distribute fst dd_free]. apply forallb_map_all.
    eapply Forall_impl; [|exact IH]. intros c H. apply H.
  - cbn [distribute]. specialize (IH d). destruct (distribute c d). exact IH.
  - cbn [distribute]. specialize (IH d). destruct (distribute c d). exact IH.
  - cbn [distribute fst]. apply IH.
  - rewrite distribute_Fallback. pose proof (dist_list_all dd_free cs IH d) as H.
    destruct (dist_list cs d) as [cs' d']. exact H.
  - cbn [distribute]. specialize (IH d). destruct (distribute c d). exact IH.
Qed.

Lemma distribute_alts e :
  forall d, alts_nonempty e = true -> alts_nonempty (fst (distribute e d)) = true.
Proof.
  induction e as [t dd l sp|n l sp|c z l sp|cs sp IH|cs sp IH|c sp IH|c sp IH|c dd sp IH
                  |cs sp IH|c l sp IH] using expr_ind'; intros d E.
  - destruct dd, d; reflexivity.
  - reflexivity.
  - reflexivity.
  - rewrite distribute_Sequence. pose proof (dist_list_pres alts_nonempty cs IH d E) as H.
    destruct (dist_list cs d) as [cs' d']. exact H.
  - cbn [distribute fst]. apply alts_alt in E as [E1 E2]. apply alts_alt. split.
    + apply map_not_nil, E1.
    + apply forallb_map_pres with (p := alts_nonempty); [|exact E2].
      eapply Forall_impl; [|exact IH]. intros c H. apply H.
  - cbn [distribute]. specialize (IH d E). destruct (distribute c d). exact IH.
  - cbn [distribute]. specialize (IH d E). destruct (distribute c d). exact IH.
  - cbn [distribute fst]. apply IH, E.
  - rewrite distribute_Fallback. apply alts_fb in E as [E1 E2].
    pose proof (dist_list_pres alts_nonempty cs IH d E2) as H.
    pose proof (dist_list_not_nil cs d E1) as H1.
    destruct (dist_list cs d) as [cs' d']. apply alts_fb. split; assumption.
  - cbn [distribute]. specialize (IH d E). destruct (distribute c d). exact IH.
Qed.

(** *** specialize *)

Section SpecializeFacts.
  Variable target : shell.
  Variable user_specs : list (string * user_spec).
  Variable builtins : list (string * string).
  Variable fallbacks : list (string * (string * span)).
  Variable plain : list string.

  Let spec := specialize target user_specs builtins fallbacks plain.

  Lemma specialize_ref_leaf n l sp :
    (exists c z, specialize_ref target user_specs builtins fallbacks plain n l sp
                 = Command c z l sp) \/
    specialize_ref target user_specs builtins fallbacks plain n l sp = NontermRef n l sp.
  Proof.
    unfold specialize_ref.
    destruct (assoc n user_specs) as [s|]; [left; eauto|].
    destruct (assoc n fallbacks) as [[cmd ?]|]; [left; eauto|].
    destruct (mem_str n plain); [right; reflexivity|].
    destruct (assoc n builtins) as [cmd|]; [left; eauto|right; reflexivity].
  Qed.

  Lemma specialize_dd_free e : dd_free e = true -> dd_free (spec e) = true.
  Proof.
    subst spec.
    induction e as [t dd l sp|n l sp|c z l sp|cs sp IH|cs sp IH|c sp IH|c sp IH|c dd sp IH
                    |cs sp IH|c l sp IH] using expr_ind'; cbn [specialize dd_free]; intro E;
      try reflexivity; try discriminate;
      try (apply IH; exact E);
      try (apply forallb_map_pres with (p := dd_free); assumption).
    destruct (specialize_ref_leaf n l sp) as [(c & z & ->)| ->]; reflexivity.
  Qed.

  Lemma specialize_alts e : alts_nonempty e = true -> alts_nonempty (spec e) = true.
  Proof.
    subst spec.
    induction e as [t dd l sp|n l sp|c z l sp|cs sp IH|cs sp IH|c sp IH|c sp IH|c dd sp IH
                    |cs sp IH|c l sp IH] using expr_ind'; cbn [specialize]; intro E;
      try reflexivity;
      try (cbn [alts_nonempty] in *; apply IH; exact E).
    - destruct (specialize_ref_leaf n l sp) as [(c & z & ->)| ->]; reflexivity.
    - cbn [alts_nonempty] in *. apply forallb_map_pres with (p := alts_nonempty); assumption.
    - apply alts_alt in E as [E1 E2]. apply alts_alt. split; [apply map_not_nil, E1|].
      apply forallb_map_pres with (p := alts_nonempty); assumption.
    - apply alts_fb in E as [E1 E2]. apply alts_fb. split; [apply map_not_nil, E1|].
      apply forallb_map_pres with (p := alts_nonempty); assumption.
  Qed.
End SpecializeFacts.

(** *** resolve / resolve_in_order *)

Definition rhs_all (P : expr -> bool) (t : list (string * expr)) : Prop :=
  Forall (fun p => P (snd p) = true) t.

Lemma assoc_rhs_all P t n rhs : rhs_all P t -> assoc n t = Some rhs -> P rhs = true.
Proof.
  induction 1 as [|[k v] t H _ IH]; cbn [assoc]; [discriminate|].
  destruct (String.eqb n k); [intro E; injection E as <-; exact H|exact IH].
Qed.

Lemma resolve_dd_free t e : rhs_all dd_free t -> dd_free e = true -> dd_free (resolve t e) = true.
Proof.
  intro Ht.
  induction e as [tt dd l sp|n l sp|c z l sp|cs sp IH|cs sp IH|c sp IH|c sp IH|c dd sp IH
                  |cs sp IH|c l sp IH] using expr_ind'; cbn [resolve dd_free]; intro E;
    try reflexivity; try discriminate;
    try (apply IH; exact E);
    try (apply forallb_map_pres with (p := dd_free); assumption).
  destruct (assoc n t) as [rhs|] eqn:A; [|reflexivity].
  eapply assoc_rhs_all; eassumption.
Qed.

Lemma resolve_alts t e :
  rhs_all alts_nonempty t -> alts_nonempty e = true -> alts_nonempty (resolve t e) = true.
Proof.
  intro Ht.
  induction e as [tt dd l sp|n l sp|c z l sp|cs sp IH|cs sp IH|c sp IH|c sp IH|c dd sp IH
                  |cs sp IH|c l sp IH] using expr_ind'; cbn [resolve]; intro E;
    try reflexivity;
    try (cbn [alts_nonempty] in *; apply IH; exact E).
  - destruct (assoc n t) as [rhs|] eqn:A; [|reflexivity].
    eapply assoc_rhs_all; eassumption.
  - cbn [alts_nonempty] in *. apply forallb_map_pres with (p := alts_nonempty); assumption.
  - apply alts_alt in E as [E1 E2]. apply alts_alt. split; [apply map_not_nil, E1|].
    apply forallb_map_pres with (p := alts_nonempty); assumption.
  - apply alts_fb in E as [E1 E2]. apply alts_fb. split; [apply map_not_nil, E1|].
    apply forallb_map_pres with (p := alts_nonempty); assumption.
Qed.

Lemma update_def_all P n rhs t :
  P rhs = true -> rhs_all P t -> rhs_all P (update_def n rhs t).
Proof.
  intros Hr Ht. unfold update_def, rhs_all. apply Forall_map.
  eapply Forall_impl; [|exact Ht]. intros [k v] H. cbn [fst].
  destruct (String.eqb k n); [exact Hr|exact H].
Qed.

Lemma resolve_in_order_all (P : expr -> bool)
      (Hres : forall t e, rhs_all P t -> P e = true -> P (resolve t e) = true) ord :
  forall t, rhs_all P t -> rhs_all P (resolve_in_order ord t).
Proof.
  induction ord as [|n ord IH]; intros t Ht; cbn [resolve_in_order]; [exact Ht|].
  destruct (assoc n t) as [rhs|] eqn:A; [|apply IH, Ht].
  apply IH, update_def_all; [|exact Ht].
  apply Hres; [exact Ht|]. eapply assoc_rhs_all; eassumption.
Qed.

(** *** flatten / collapse *)

Lemma flatten_subword_free e : subword_free (flatten e) = true.
Proof.
  induction e as [t dd l sp|n l sp|c z l sp|cs sp IH|cs sp IH|c sp IH|c sp IH|c dd sp IH
                  |cs sp IH|c l sp IH] using expr_ind'; cbn [flatten subword_free];
    try reflexivity; try exact IH; apply forallb_map_all; exact IH.
Qed.

Lemma flatten_dd_free e : dd_free e = true -> dd_free (flatten e) = true.
Proof.
  induction e as [t dd l sp|n l sp|c z l sp|cs sp IH|cs sp IH|c sp IH|c sp IH|c dd sp IH
                  |cs sp IH|c l sp IH] using expr_ind'; cbn [flatten dd_free]; intro E;
    try reflexivity; try discriminate;
    try (apply IH; exact E);
    apply forallb_map_pres with (p := dd_free); assumption.
Qed.

Lemma flatten_alts e : alts_nonempty e = true -> alts_nonempty (flatten e) = true.
Proof.
  induction e as [t dd l sp|n l sp|c z l sp|cs sp IH|cs sp IH|c sp IH|c sp IH|c dd sp IH
                  |cs sp IH|c l sp IH] using expr_ind'; cbn [flatten]; intro E;
    try reflexivity;
    try (cbn [alts_nonempty] in *; apply IH; exact E).
  - cbn [alts_nonempty] in *. apply forallb_map_pres with (p := alts_nonempty); assumption.
  - apply alts_alt in E as [E1 E2]. apply alts_alt. split; [apply map_not_nil, E1|].
    apply forallb_map_pres with (p := alts_nonempty); assumption.
  - apply alts_fb in E as [E1 E2]. apply alts_fb. split; [apply map_not_nil, E1|].
    apply forallb_map_pres with (p := alts_nonempty); assumption.
Qed.

Lemma collapse_flat_subwords e : flat_subwords (collapse e) = true.
Proof.
  induction e as [t dd l sp|n l sp|c z l sp|cs sp IH|cs sp IH|c sp IH|c sp IH|c dd sp IH
                  |cs sp IH|c l sp IH] using expr_ind'; cbn [collapse flat_subwords];
    try reflexivity; try exact IH;
    try (apply forallb_map_all; exact IH).
  apply flatten_subword_free.
Qed.

Lemma collapse_dd_free e : dd_free e = true -> dd_free (collapse e) = true.
Proof.
  induction e as [t dd l sp|n l sp|c z l sp|cs sp IH|cs sp IH|c sp IH|c sp IH|c dd sp IH
                  |cs sp IH|c l sp IH] using expr_ind'; cbn [collapse dd_free]; intro E;
    try reflexivity; try discriminate;
    try (apply IH; exact E);
    try (apply forallb_map_pres with (p := dd_free); assumption).
  apply flatten_dd_free, E.
Qed.

Lemma collapse_alts e : alts_nonempty e = true -> alts_nonempty (collapse e) = true.
Proof.
  induction e as [t dd l sp|n l sp|c z l sp|cs sp IH|cs sp IH|c sp IH|c sp IH|c dd sp IH
                  |cs sp IH|c l sp IH] using expr_ind'; cbn [collapse]; intro E;
    try reflexivity;
    try (cbn [alts_nonempty] in *; apply IH; exact E).
  - cbn [alts_nonempty] in *. apply forallb_map_pres with (p := alts_nonempty); assumption.
  - apply alts_alt in E as [E1 E2]. apply alts_alt. split; [apply map_not_nil, E1|].
    apply forallb_map_pres with (p := alts_nonempty); assumption.
  - apply alts_fb in E as [E1 E2]. apply alts_fb. split; [apply map_not_nil, E1|].
    apply forallb_map_pres with (p := alts_nonempty); assumption.
  - cbn [alts_nonempty] in *. apply flatten_alts, E.
Qed.

(** *** propagate *)

(** The inner loops of [propagate] and [levels_ok] on [Fallback], named. *)
Fixpoint prop_list (i : N) (l : list expr) : list expr :=
  match l with
  | [] => []
  | c :: r => propagate c i :: prop_list (N.succ i) r
  end.

Fixpoint lv_list (i : N) (l : list expr) : bool :=
  match l with
  | [] => true
  | c :: r => levels_ok i c && lv_list (N.succ i) r
  end.

Lemma propagate_Fallback cs sp lvl : propagate (Fallback cs sp) lvl = Fallback (prop_list 0 cs) sp.
Proof. reflexivity. Qed.

Lemma levels_ok_Fallback lvl cs sp : levels_ok lvl (Fallback cs sp) = lv_list 0 cs.
Proof. reflexivity. Qed.

Lemma prop_list_pres (Q : expr -> bool) cs :
  Forall (fun c => forall lvl, Q c = true -> Q (propagate c lvl) = true) cs ->
  forall i, forallb Q cs = true -> forallb Q (prop_list i cs) = true.
Proof.
  induction 1 as [|c cs H _ IH]; intros i E; cbn [prop_list forallb]; [reflexivity|].
  cbn in E. apply andb_true_iff in E as [E1 E2]. now rewrite H, IH.
Qed.

Lemma prop_list_not_nil i cs : cs <> [] -> prop_list i cs <> [].
Proof. destruct cs; cbn; [congruence|discriminate]. Qed.

Lemma prop_list_levels cs :
  Forall (fun c => forall lvl, levels_ok lvl (propagate c lvl) = true) cs ->
  forall i, lv_list i (prop_list i cs) = true.
Proof.
  induction 1 as [|c cs H _ IH]; intro i; cbn [prop_list lv_list]; [reflexivity|].
  now rewrite H, IH.
Qed.

Lemma propagate_levels e : forall lvl, levels_ok lvl (propagate e lvl) = true.
Proof.
  induction e as [t dd l sp|n l sp|c z l sp|cs sp IH|cs sp IH|c sp IH|c sp IH|c dd sp IH
                  |cs sp IH|c l sp IH] using expr_ind'; intro lvl.
  - cbn [propagate levels_ok]. apply N.eqb_refl.
  - cbn [propagate levels_ok]. apply N.eqb_refl.
  - cbn [propagate levels_ok]. apply N.eqb_refl.
  - cbn [propagate levels_ok]. apply forallb_map_all.
    eapply Forall_impl; [|exact IH]. intros c H. apply H.
  - cbn [propagate levels_ok]. apply forallb_map_all.
    eapply Forall_impl; [|exact IH]. intros c H. apply H.
  - cbn [propagate levels_ok]. apply IH.
  - cbn [propagate levels_ok]. apply IH.
  - cbn [propagate levels_ok]. apply IH.
  - rewrite propagate_Fallback, levels_ok_Fallback. apply prop_list_levels, IH.
  - cbn [propagate levels_ok]. rewrite N.eqb_refl. apply IH.
Qed.

Lemma propagate_dd_free e : forall lvl, dd_free e = true -> dd_free (propagate e lvl) = true.
Proof.
  induction e as [t dd l sp|n l sp|c z l sp|cs sp IH|cs sp IH|c sp IH|c sp IH|c dd sp IH
                  |cs sp IH|c l sp IH] using expr_ind'; intros lvl E;
    try (rewrite propagate_Fallback); cbn [propagate dd_free] in *;
    try reflexivity; try discriminate;
    try (apply IH; exact E);
    try (apply forallb_map_pres with (p := dd_free); [|exact E];
         eapply Forall_impl; [|exact IH]; intros c H; apply H).
  apply prop_list_pres; assumption.
Qed.

Lemma propagate_subword_free e :
  forall lvl, subword_free e = true -> subword_free (propagate e lvl) = true.
Proof.
  induction e as [t dd l sp|n l sp|c z l sp|cs sp IH|cs sp IH|c sp IH|c sp IH|c dd sp IH
                  |cs sp IH|c l sp IH] using expr_ind'; intros lvl E;
    try (rewrite propagate_Fallback); cbn [propagate subword_free] in *;
    try reflexivity; try discriminate;
    try (apply IH; exact E);
    try (apply forallb_map_pres with (p := subword_free); [|exact E];
         eapply Forall_impl; [|exact IH]; intros c H; apply H).
  apply prop_list_pres; assumption.
Qed.

Lemma propagate_flat_subwords e :
  forall lvl, flat_subwords e = true -> flat_subwords (propagate e lvl) = true.
Proof.
  induction e as [t dd l sp|n l sp|c z l sp|cs sp IH|cs sp IH|c sp IH|c sp IH|c dd sp IH
                  |cs sp IH|c l sp IH] using expr_ind'; intros lvl E;
    try (rewrite propagate_Fallback); cbn [propagate flat_subwords] in *;
    try reflexivity;
    try (apply IH; exact E);
    try (apply forallb_map_pres with (p := flat_subwords); [|exact E];
         eapply Forall_impl; [|exact IH]; intros c H; apply H).
  - apply prop_list_pres; assumption.
  - apply propagate_subword_free, E.
Qed.

Lemma propagate_alts e :
  forall lvl, alts_nonempty e = true -> alts_nonempty (propagate e lvl) = true.
Proof.
  induction e as [t dd l sp|n l sp|c z l sp|cs sp IH|cs sp IH|c sp IH|c sp IH|c dd sp IH
                  |cs sp IH|c l sp IH] using expr_ind'; intros lvl E;
    try (rewrite propagate_Fallback); cbn [propagate];
    try reflexivity;
    try (cbn [alts_nonempty] in *; apply IH; exact E).
  - cbn [alts_nonempty] in *. apply forallb_map_pres with (p := alts_nonempty); [|exact E].
    eapply Forall_impl; [|exact IH]. intros c H. apply H.
  - apply alts_alt in E as [E1 E2]. apply alts_alt. split; [apply map_not_nil, E1|].
    apply forallb_map_pres with (p := alts_nonempty); [|exact E2].
    eapply Forall_impl; [|exact IH]. intros c H. apply H.
  - apply alts_fb in E as [E1 E2]. apply alts_fb. split; [apply prop_list_not_nil, E1|].
    apply prop_list_pres; assumption.
Qed.

(** *** The statements of the grammar *)

Lemma all_defs_alts g :
  grammar_alts_nonempty g = true ->
  Forall (fun x => alts_nonempty (snd x) = true) (all_defs g).
Proof.
  unfold grammar_alts_nonempty, all_defs.
  induction g as [|s g IH]; cbn [forallb flat_map]; intro E; [constructor|].
  apply andb_true_iff in E as [E1 E2].
  destruct s as [n sp e|n sp osh rhs]; cbn [app]; [apply IH, E2|].
  constructor; [exact E1|apply IH, E2].
Qed.

Lemma call_variants_alts g :
  grammar_alts_nonempty g = true ->
  Forall (fun e => alts_nonempty e = true) (map snd (call_variants g)).
Proof.
  unfold grammar_alts_nonempty, call_variants.
  induction g as [|s g IH]; cbn [forallb flat_map map]; intro E; [constructor|].
  apply andb_true_iff in E as [E1 E2].
  destruct s as [n sp e|n sp osh rhs]; cbn [app map snd]; [|apply IH, E2].
  constructor; [exact E1|apply IH, E2].
Qed.

Lemma collect_plain_all (P : expr -> bool) ds :
  forall acc r, collect_plain_defs ds acc = Ok r ->
    Forall (fun x => P (snd x) = true) ds ->
    Forall (fun d => P (d_rhs d) = true) acc ->
    Forall (fun d => P (d_rhs d) = true) r.
Proof.
  induction ds as [|[[[n nsp] osh] rhs] ds IH]; intros acc r H Hds Hacc; cbn in H.
  - injection H as <-. exact Hacc.
  - inversion Hds as [|x l Hx Hl]; subst. cbn [snd] in Hx.
    destruct osh as [sh|]; [eapply IH; eassumption|].
    destruct (find _ acc); [discriminate|].
    eapply IH; [exact H|exact Hl|].
    apply Forall_app. split; [exact Hacc|]. constructor; [exact Hx|constructor].
Qed.

Lemma forallb_of_Forall {A} (p : A -> bool) l : Forall (fun x => p x = true) l -> forallb p l = true.
Proof. induction 1 as [|x l H _ IH]; cbn; [reflexivity|]. now rewrite H, IH. Qed.

(** *** The pipeline after the root expression and the definitions are known *)

Section Pipeline.
  Variable target : shell.
  Variable user_specs : list (string * user_spec).
  Variable builtins : list (string * string).
  Variable fallbacks : list (string * (string * span)).
  Variable plain : list string.
  Variable defs0 : list defn.
  Variable expr0 : expr.
  Variable ord : list string.

  Let spec := specialize target user_specs builtins fallbacks plain.
  Let defs1 := map (fun d => mkdefn (d_name d) (d_span d) (distribute_descriptions (d_rhs d))) defs0.
  Let defs2 := map (fun d => mkdefn (d_name d) (d_span d) (spec (d_rhs d))) defs1.
  Let table := resolve_in_order ord (map (fun d => (d_name d, d_rhs d)) defs2).
  Let result := propagate (collapse (resolve table (spec (distribute_descriptions expr0)))) 0.

  Lemma table_dd_free : rhs_all dd_free table.
  Proof.
    subst table. apply resolve_in_order_all; [exact resolve_dd_free|].
    unfold rhs_all. subst defs2 defs1. rewrite !map_map. apply Forall_map. cbn.
    apply Forall_forall. intros d _. apply specialize_dd_free, distribute_dd_free.
  Qed.

  Lemma table_alts :
    Forall (fun d => alts_nonempty (d_rhs d) = true) defs0 -> rhs_all alts_nonempty table.
  Proof.
    intro H0. subst table. apply resolve_in_order_all; [exact resolve_alts|].
    unfold rhs_all. subst defs2 defs1. rewrite !map_map. apply Forall_map. cbn.
    eapply Forall_impl; [|exact H0]. intros d Hd.
    apply specialize_alts, distribute_alts, Hd.
  Qed.

  Lemma pipeline_facts :
    dd_free result = true /\ flat_subwords result = true /\ levels_ok 0 result = true /\
    (Forall (fun d => alts_nonempty (d_rhs d) = true) defs0 -> alts_nonempty expr0 = true ->
     alts_nonempty result = true).
  Proof.
    subst result. repeat split.
    - apply propagate_dd_free, collapse_dd_free, resolve_dd_free; [exact table_dd_free|].
      apply specialize_dd_free, distribute_dd_free.
    - apply propagate_flat_subwords, collapse_flat_subwords.
    - apply propagate_levels.
    - intros H0 He. apply propagate_alts, collapse_alts, resolve_alts; [exact (table_alts H0)|].
      apply specialize_alts, distribute_alts, He.
  Qed.
End Pipeline.

(** The root expression. *)
Definition root_expr (es : list expr) : expr :=
  match es with
  | [] => Alternative [] (mkspan 0 0 0)
  | [e] => e
  | e :: e' :: r => Alternative (e :: e' :: r) (expr_span e)
  end.

Lemma root_expr_alts es :
  es <> [] -> Forall (fun e => alts_nonempty e = true) es -> alts_nonempty (root_expr es) = true.
Proof.
  intros Hne H. destruct es as [|e [|e' es]]; [congruence| |].
  - inversion H; subst. assumption.
  - unfold root_expr. apply alts_alt. split; [discriminate|]. apply forallb_of_Forall, H.
Qed.

Theorem check_tree : check_tree_statement.
Proof.
  intros builtins g sh v H. unfold from_grammar in H.
  destruct (dedup_names [] _) as [|[command command_span] more] eqn:Hd; [discriminate|].
  destruct more as [|? ?]; [|discriminate].
  destruct (contains_char slash command); [discriminate|].
  destruct (collect_plain_defs (all_defs g) []) as [defs0| | |] eqn:Hc;
    cbn [obind] in H; try discriminate.
  destruct (get_specializations g sh) as [[us fs]| | |]; cbn [obind] in H; try discriminate.
  destruct (resolution_order _) as [ord| | |]; cbn [obind] in H; try discriminate.
  destruct (spaces _ _ _ _ _) as [[]| | |]; cbn [obind] in H; try discriminate.
  injection H as <-. cbn [v_expr].
  pose proof (pipeline_facts sh us (builtins sh) fs
                (map d_name (map (fun d => mkdefn (d_name d) (d_span d)
                                                  (distribute_descriptions (d_rhs d))) defs0))
                defs0 (root_expr (map snd (call_variants g))) ord) as (P1 & P2 & P3 & P4).
  repeat split; [exact P1|exact P2|exact P3|].
  intro Hg. apply P4.
  - eapply collect_plain_all; [exact Hc| |constructor].
    apply all_defs_alts, Hg.
  - apply root_expr_alts; [|apply call_variants_alts, Hg].
    destruct (call_variants g); [discriminate Hd|discriminate].
Qed.

Print Assumptions check_tree.
