(** C16 on what the pipeline produces, --regex side, part 2: the well-built, covered arena of
    [Proofs/DotFromExpr.v] seen through the view [Model/DotOfRegex.v] satisfies the executable
    hypotheses [rx_total_b] and [rx_wf_b] of [C16_regex_dot]. *)
From CG Require Import Base.Prelude Model.Dfa Model.Dot.
From CG Require Import Proofs.DotStates Proofs.DotRegex Proofs.DotRegexTotal.
From CG Require Model.Regex Model.DotOfRegex Proofs.FromExpr Proofs.DotFromExpr.
Import DotOfRegex.

(** ** The view commutes with lookups *)
Lemma nthN_map {A B} (f : A -> B) l m : nthN (map f l) m = option_map f (nthN l m).
Proof. unfold nthN. revert l. induction (N.to_nat m) as [|k IH]; intros [|x r]; cbn; auto. Qed.

Lemma lenN_map {A B} (f : A -> B) l : lenN (map f l) = lenN l.
Proof. unfold lenN. now rewrite map_length. Qed.

Lemma conv_pool_assoc P : forall i rid,
  assocN rid (conv_pool_from i P) = if rid <? i then None else option_map conv_regex (nthN P (rid - i)).
Proof.
  induction P as [|r rest IH]; intros i rid; cbn [conv_pool_from assocN].
  - unfold nthN. destruct (N.to_nat (rid - i)); destruct (rid <? i); reflexivity.
  - destruct (rid =? i) eqn:E.
    + apply N.eqb_eq in E. subst. rewrite N.ltb_irrefl, N.sub_diag. reflexivity.
    + apply N.eqb_neq in E. rewrite IH. destruct (rid <? i) eqn:L.
      * apply N.ltb_lt in L. assert (H : rid <? N.succ i = true) by (apply N.ltb_lt; lia). now rewrite H.
      * apply N.ltb_ge in L. assert (H : rid <? N.succ i = false) by (apply N.ltb_ge; lia). rewrite H.
        unfold nthN. assert (Hs : rid - i = N.succ (rid - N.succ i)) by lia. rewrite Hs, N2Nat.inj_succ. reflexivity.
Qed.

Lemma conv_pool_lookup P rid : assocN rid (conv_pool P) = option_map conv_regex (nthN P rid).
Proof.
  unfold conv_pool. rewrite conv_pool_assoc. destruct (rid <? 0) eqn:L; [apply N.ltb_lt in L; lia|]. now rewrite N.sub_0_r.
Qed.

Lemma conv_pool_in P : forall i q, In q (conv_pool_from i P) -> exists sr, In sr P /\ snd q = conv_regex sr.
Proof.
  induction P as [|r rest IH]; intros i q H; [destruct H|]. cbn in H. destruct H as [<-|H].
  - exists r. split; [now left|reflexivity].
  - destruct (IH _ _ H) as [sr [A B]]. exists sr. split; [now right|exact B].
Qed.

(** ** Nodes *)
Lemma node_ok_conv I P m x :
  DotFromExpr.nd_ok I P m x ->
  rx_node_ok (conv_pool P) (mkregex 0 (map conv_input I) []) m (conv_node x) = true.
Proof.
  destruct x; cbn [DotFromExpr.nd_ok conv_node rx_node_ok r_inputs]; try reflexivity.
  - intros [t [d [l [sp H]]]]. rewrite nthN_map, H. reflexivity.
  - intros [n [l [sp H]]]. rewrite nthN_map, H. reflexivity.
  - intros [c [z [l [sp H]]]]. rewrite nthN_map, H. reflexivity.
  - intros [rid [l [sp [H [sr Hs]]]]]. rewrite nthN_map, H. cbn. rewrite conv_pool_lookup, Hs. reflexivity.
  - intro H. apply forallb_forall. intros c Hc. apply N.ltb_lt. now apply H.
  - intro H. apply forallb_forall. intros c Hc. apply N.ltb_lt. now apply H.
Qed.

(** [rx_node_ok] only looks at the inputs of the regex *)
Lemma rx_node_ok_inputs pool r r' m x : r_inputs r = r_inputs r' -> rx_node_ok pool r m x = rx_node_ok pool r' m x.
Proof. intro E. destruct x; cbn [rx_node_ok]; rewrite ?E; reflexivity. Qed.

Lemma rx_nodes_ok_intro pool r l : forall n0,
  (forall k x, nth_error l k = Some x -> rx_node_ok pool r (n0 + N.of_nat k) x = true) ->
  rx_nodes_ok pool r n0 l = true.
Proof.
  induction l as [|y rest IH]; intros n0 H; [reflexivity|]. cbn [rx_nodes_ok]. apply andb_true_iff. split.
  - specialize (H 0%nat y eq_refl). now rewrite N.add_0_r in H.
  - apply IH. intros k x E. specialize (H (S k) x E). replace (n0 + 1 + N.of_nat k) with (n0 + N.of_nat (S k)) by lia. exact H.
Qed.

Lemma arena_ok_conv P r : DotFromExpr.rgood P r -> rx_arena_ok (conv_pool P) (conv_regex r) = true.
Proof.
  intros [Hroot [Hn _]]. unfold rx_arena_ok, conv_regex. cbn [r_root r_nodes]. apply andb_true_iff. split.
  - apply N.ltb_lt. now rewrite lenN_map.
  - apply rx_nodes_ok_intro. intros k x E. rewrite N.add_0_l.
    rewrite nth_error_map in E. destruct (nth_error (Regex.r_arena r) k) as [y|] eqn:Ey; [|discriminate]. injection E as <-.
    rewrite (rx_node_ok_inputs _ _ (mkregex 0 (map conv_input (Regex.r_inputs r)) [])) by reflexivity.
    apply node_ok_conv. apply Hn. unfold nthN. now rewrite Nat2N.id.
Qed.

Lemma flat_conv r : DotFromExpr.sgood r -> rx_flat_b (conv_regex r) = true.
Proof.
  intros [_ [Hn _]]. unfold rx_flat_b, conv_regex. cbn [r_nodes]. apply forallb_forall. intros x Hx.
  apply in_map_iff in Hx as [y [<- Hy]]. apply In_nth_error in Hy as [k Hk].
  assert (E : nthN (Regex.r_arena r) (N.of_nat k) = Some y) by (unfold nthN; now rewrite Nat2N.id).
  specialize (Hn _ _ E). destruct y; cbn [conv_node]; try reflexivity.
  cbn [DotFromExpr.nd_ok] in Hn. destruct Hn as [rid [l [sp [_ [sr Hs]]]]]. unfold nthN in Hs. destruct (N.to_nat rid); discriminate.
Qed.

(** ** Coverage *)
Lemma reach_conv r n m : DotFromExpr.reach (Regex.r_arena r) n m -> reach_from (conv_regex r) n m.
Proof.
  induction 1 as [n|n l c m E Hc _ IH|n l c m E Hc _ IH].
  - constructor.
  - apply (rf_cat _ n l c m); [|exact Hc|exact IH]. unfold conv_regex. cbn [r_nodes]. now rewrite nthN_map, E.
  - apply (rf_or _ n l c m); [|exact Hc|exact IH]. unfold conv_regex. cbn [r_nodes]. now rewrite nthN_map, E.
Qed.

Lemma rx_reach_complete r :
  (forall m x, nthN (r_nodes r) m = Some x -> match x with RCat l | ROr l => forall c, In c l -> c < m | _ => True end) ->
  forall n m, reach_from r n m -> forall f, (N.to_nat n < f)%nat -> In m (rx_reach f r n).
Proof.
  intros Hlt n m H. induction H as [n|n l c m E Hc _ IH|n l c m E Hc _ IH]; intros f Hf.
  - destruct f; [lia|]. now left.
  - destruct f; [lia|]. cbn [rx_reach]. right. rewrite E. apply in_flat_map. exists c. split; [exact Hc|].
    apply IH. pose proof (Hlt n _ E c Hc). lia.
  - destruct f; [lia|]. cbn [rx_reach]. right. rewrite E. apply in_flat_map. exists c. split; [exact Hc|].
    apply IH. pose proof (Hlt n _ E c Hc). lia.
Qed.

Lemma rnode_leaf_eqb_refl inp p : rnode_leaf_eqb (rx_leaf_for inp p) (rx_leaf_for inp p) = true.
Proof. destruct inp; cbn; apply N.eqb_refl. Qed.

Lemma rx_cover_from_intro r reachl : forall inputs p0,
  (forall k inp, nth_error inputs k = Some inp ->
                 exists m, In m reachl /\ nthN (r_nodes r) m = Some (rx_leaf_for inp (p0 + N.of_nat k))) ->
  rx_cover_from r reachl p0 inputs = true.
Proof.
  induction inputs as [|inp rest IH]; intros p0 H; [reflexivity|]. cbn [rx_cover_from]. apply andb_true_iff. split.
  - destruct (H 0%nat inp eq_refl) as [m [Hm E]]. apply existsb_exists. exists m. split; [exact Hm|].
    rewrite E, N.add_0_r. apply rnode_leaf_eqb_refl.
  - apply IH. intros k i E. destruct (H (S k) i E) as [m [Hm En]]. exists m. split; [exact Hm|].
    rewrite En. do 2 f_equal. lia.
Qed.

Lemma leaf_conv inp p : conv_node (DotFromExpr.leaf_of inp p) = rx_leaf_for (conv_input inp) p.
Proof. destruct inp; reflexivity. Qed.

Lemma cover_conv P r : DotFromExpr.rgood P r -> rx_cover_b (conv_regex r) = true.
Proof.
  intros [Hroot [Hn Hc]]. unfold rx_cover_b. apply rx_cover_from_intro. intros k inp E. rewrite N.add_0_l.
  unfold conv_regex in E. cbn [r_inputs] in E. rewrite nth_error_map in E.
  destruct (nth_error (Regex.r_inputs r) k) as [i0|] eqn:Ei; [|discriminate]. injection E as <-.
  destruct (Hc (N.of_nat k) i0) as [m [Hr Hm]]; [unfold nthN; now rewrite Nat2N.id|].
  exists m. split.
  - apply (rx_reach_complete (conv_regex r)); [|now apply reach_conv|].
    + intros m' x Ex. unfold conv_regex in Ex. cbn [r_nodes] in Ex. rewrite nthN_map in Ex.
      destruct (nthN (Regex.r_arena r) m') as [y|] eqn:Ey; [|discriminate]. injection Ex as <-.
      specialize (Hn _ _ Ey). destruct y; cbn [conv_node]; try exact I; exact Hn.
    + unfold conv_regex. cbn [r_nodes r_root]. rewrite map_length. unfold lenN in Hroot. lia.
  - unfold conv_regex. cbn [r_nodes]. rewrite nthN_map, Hm. cbn [option_map]. now rewrite leaf_conv.
Qed.

(** ** The hypotheses of [C16_regex_dot] *)
Theorem rgood_rx_hyps P r :
  DotFromExpr.rgood P r -> Forall DotFromExpr.sgood P ->
  rx_total_b (conv_pool P) (conv_regex r) = true /\ rx_wf_b (conv_pool P) (conv_regex r) = true.
Proof.
  intros Hr Hp. rewrite Forall_forall in Hp.
  assert (Hq : forall q, In q (conv_pool P) -> exists sr, DotFromExpr.sgood sr /\ snd q = conv_regex sr).
  { intros q Hq. destruct (conv_pool_in P 0 q Hq) as [sr [A B]]. exists sr. split; [now apply Hp|exact B]. }
  assert (Hmono : forall sr, DotFromExpr.sgood sr -> DotFromExpr.rgood P sr).
  { intros sr [A [B C]]. split; [exact A|]. split; [|exact C]. intros m x E.
    apply (DotFromExpr.nd_ok_mono (Regex.r_inputs sr) (Regex.r_inputs sr) [] P m x (FromExpr.prefix_refl _));
      [exists P; reflexivity|now apply B]. }
  split.
  - unfold rx_total_b. rewrite (arena_ok_conv P r Hr). cbn [andb]. apply forallb_forall. intros q Hin.
    destruct (Hq q Hin) as [sr [Hs ->]]. rewrite (arena_ok_conv P sr (Hmono sr Hs)), (flat_conv sr Hs). reflexivity.
  - unfold rx_wf_b. rewrite (cover_conv P r Hr). cbn [andb]. apply forallb_forall. intros q Hin.
    destruct (Hq q Hin) as [sr [Hs ->]]. rewrite (flat_conv sr Hs), (cover_conv [] sr Hs). reflexivity.
Qed.

Theorem from_expr_rx_hyps e pl r pl' :
  TreeFacts.flat_subwords e = true -> Forall DotFromExpr.sgood pl -> Regex.from_expr e pl = Ok (r, pl') ->
  rx_total_b (conv_pool pl') (conv_regex r) = true /\ rx_wf_b (conv_pool pl') (conv_regex r) = true.
Proof.
  intros Hf Hp H. destruct (DotFromExpr.from_expr_rgood e pl r pl' Hf Hp H) as [A B]. now apply rgood_rx_hyps.
Qed.
