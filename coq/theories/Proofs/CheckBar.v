(** Replacing every [||] by [|] in the *source* grammar commutes with the passes of the model of
    check.rs ([Model.Check]) up to what matching cannot see: || levels, descriptions, and the
    [Fallback]/[Alternative] distinction itself.

    [norm] forgets exactly that (levels := 0, descriptions := none, [Fallback] := [Alternative]).
    Every pass of [Check.from_grammar] that rewrites trees -- [distribute_descriptions],
    [specialize], [resolve] (+ [resolve_in_order]), [collapse], [propagate] -- commutes with
    [norm]; [bar_of_barbar] is invisible to [norm]; and [Spec.Meaning.tr] of a normalised tree is
    the erased translation of the tree ([tr_norm]).  Hence the validated tree computed for the
    [|] grammar and the one computed for the [||] grammar are matched by the same command lines
    ([expand_bar_matched]). *)
From CG Require Import Base.Prelude Model.Ast Model.Check Spec.Rx Spec.Meaning
     Proofs.RxFacts Proofs.MeaningFacts Proofs.MeaningLevels.

Fixpoint norm (e : expr) : expr :=
  match e with
  | Terminal t _ _ sp => Terminal t None 0 sp
  | NontermRef n _ sp => NontermRef n 0 sp
  | Command c z _ sp => Command c z 0 sp
  | Sequence cs sp => Sequence (map norm cs) sp
  | Alternative cs sp => Alternative (map norm cs) sp
  | Fallback cs sp => Alternative (map norm cs) sp
  | Optional c sp => Optional (norm c) sp
  | Many1 c sp => Many1 (norm c) sp
  | DistDescr c d sp => DistDescr (norm c) d sp
  | Subword c _ sp => Subword (norm c) 0 sp
  end.

(** Removal of the [DistributiveDescription] nodes. *)
Fixpoint undd (e : expr) : expr :=
  match e with
  | Terminal _ _ _ _ | NontermRef _ _ _ | Command _ _ _ _ => e
  | Sequence cs sp => Sequence (map undd cs) sp
  | Alternative cs sp => Alternative (map undd cs) sp
  | Fallback cs sp => Fallback (map undd cs) sp
  | Optional c sp => Optional (undd c) sp
  | Many1 c sp => Many1 (undd c) sp
  | DistDescr c _ _ => undd c
  | Subword c l sp => Subword (undd c) l sp
  end.

Lemma Forall_map_eq' {A B} (f g : A -> B) l : Forall (fun x => f x = g x) l -> map f l = map g l.
Proof. induction 1; cbn; [reflexivity | congruence]. Qed.

(** *** [||] -> [|] is invisible *)
Lemma norm_bar e : norm (bar_of_barbar e) = norm e.
Proof.
  induction e using expr_ind'; cbn [bar_of_barbar norm]; try reflexivity;
    try (rewrite map_map; f_equal; apply Forall_map_eq'; assumption);
    try (rewrite IHe; reflexivity).
Qed.

(** *** distribute_descriptions *)
Definition dist_list :=
  fix go (l : list expr) (d : option string) : list expr * option string :=
    match l with
    | [] => ([], d)
    | c :: r => let (c', d1) := distribute c d in
                let (r', d2) := go r d1 in (c' :: r', d2)
    end.

Lemma dist_list_norm cs :
  Forall (fun e => forall d, norm (fst (distribute e d)) = undd (norm e)) cs ->
  forall d, map norm (fst (dist_list cs d)) = map (fun c => undd (norm c)) cs.
Proof.
  induction 1 as [| c r Hc Hr IH]; intro d; [reflexivity |].
  cbn [dist_list]. specialize (Hc d). destruct (distribute c d) as [c' d1].
  specialize (IH d1). destruct (dist_list r d1) as [r' d2].
  cbn [fst map] in *. rewrite Hc, IH. reflexivity.
Qed.

Lemma norm_distribute e : forall d, norm (fst (distribute e d)) = undd (norm e).
Proof.
  induction e using expr_ind'; intro d0.
  - cbn [distribute]. destruct d as [x |]; [reflexivity |]. destruct d0; reflexivity.
  - reflexivity.
  - reflexivity.
  - cbn [distribute]. change (fix go (l : list expr) (d : option string) {struct l} : list expr * option string :=
                               match l with
                               | [] => ([], d)
                               | c :: r => let (c', d1) := distribute c d in let (r', d2) := go r d1 in (c' :: r', d2)
                               end) with dist_list.
    pose proof (dist_list_norm cs H d0) as E. destruct (dist_list cs d0) as [cs' d'].
    cbn [fst norm undd] in *. rewrite E, map_map. reflexivity.
  - cbn [distribute fst norm undd]. rewrite !map_map. f_equal. apply Forall_map_eq'.
    eapply Forall_impl; [| eassumption]. cbn. intros a Ha. apply Ha.
  - cbn [distribute]. specialize (IHe d0). destruct (distribute e d0) as [c' d'].
    cbn [fst norm undd] in *. rewrite IHe. reflexivity.
  - cbn [distribute]. specialize (IHe d0). destruct (distribute e d0) as [c' d'].
    cbn [fst norm undd] in *. rewrite IHe. reflexivity.
  - cbn [distribute fst norm undd]. apply IHe.
  - cbn [distribute]. change (fix go (l : list expr) (d : option string) {struct l} : list expr * option string :=
                               match l with
                               | [] => ([], d)
                               | c :: r => let (c', d1) := distribute c d in let (r', d2) := go r d1 in (c' :: r', d2)
                               end) with dist_list.
    pose proof (dist_list_norm cs H d0) as E. destruct (dist_list cs d0) as [cs' d'].
    cbn [fst norm undd] in *. rewrite E, map_map. reflexivity.
  - cbn [distribute]. specialize (IHe d0). destruct (distribute e d0) as [c' d'].
    cbn [fst norm undd] in *. rewrite IHe. reflexivity.
Qed.

Corollary norm_distribute_descriptions e : norm (distribute_descriptions e) = undd (norm e).
Proof. apply norm_distribute. Qed.

(** *** specialize *)
Section Spec.
  Variable target : shell.
  Variable user_specs : list (string * user_spec).
  Variable builtins : list (string * string).
  Variable fallbacks : list (string * (string * span)).
  Variable plain : list string.

  Notation spec := (specialize target user_specs builtins fallbacks plain).

  Lemma norm_specialize_ref n l sp :
    norm (specialize_ref target user_specs builtins fallbacks plain n l sp)
    = specialize_ref target user_specs builtins fallbacks plain n 0 sp.
  Proof.
    unfold specialize_ref.
    destruct (assoc n user_specs); [reflexivity |].
    destruct (assoc n fallbacks) as [[c s] |]; [reflexivity |].
    destruct (mem_str n plain); [reflexivity |].
    destruct (assoc n builtins); reflexivity.
  Qed.

  Lemma norm_specialize e : norm (spec e) = spec (norm e).
  Proof.
    induction e using expr_ind'; cbn [specialize norm]; try reflexivity;
      try (rewrite !map_map; f_equal; apply Forall_map_eq'; assumption);
      try (rewrite IHe; reflexivity).
    apply norm_specialize_ref.
  Qed.
End Spec.

(** *** resolve *)
Definition norm_defs (defs : list (string * expr)) : list (string * expr) :=
  map (fun p => (fst p, norm (snd p))) defs.

Lemma assoc_norm_defs n defs :
  assoc n (norm_defs defs) = option_map norm (assoc n defs).
Proof.
  induction defs as [| [k v] r IH]; [reflexivity |].
  cbn [norm_defs map assoc fst snd]. destruct (String.eqb n k); [reflexivity | apply IH].
Qed.

Lemma norm_resolve defs e : norm (resolve defs e) = resolve (norm_defs defs) (norm e).
Proof.
  induction e using expr_ind'; cbn [resolve norm]; try reflexivity;
    try (rewrite !map_map; f_equal; apply Forall_map_eq'; assumption);
    try (rewrite IHe; reflexivity).
  rewrite assoc_norm_defs. destruct (assoc n defs); reflexivity.
Qed.

Lemma norm_update_def n rhs defs :
  norm_defs (update_def n rhs defs) = update_def n (norm rhs) (norm_defs defs).
Proof.
  unfold update_def, norm_defs. rewrite !map_map. apply map_ext. intros [k v]. cbn [fst snd].
  destruct (String.eqb k n); reflexivity.
Qed.

Lemma norm_resolve_in_order ord : forall defs,
    norm_defs (resolve_in_order ord defs) = resolve_in_order ord (norm_defs defs).
Proof.
  induction ord as [| n r IH]; intro defs; [reflexivity |].
  cbn [resolve_in_order]. rewrite assoc_norm_defs. destruct (assoc n defs) as [rhs |]; cbn [option_map].
  - rewrite IH, norm_update_def, norm_resolve. reflexivity.
  - apply IH.
Qed.

(** *** collapse_subwords *)
Lemma norm_flatten e : norm (flatten e) = flatten (norm e).
Proof.
  induction e using expr_ind'; cbn [flatten norm]; try reflexivity;
    try (rewrite !map_map; f_equal; apply Forall_map_eq'; assumption);
    try (rewrite IHe; reflexivity).
Qed.

Lemma norm_collapse e : norm (collapse e) = collapse (norm e).
Proof.
  induction e using expr_ind'; cbn [collapse norm]; try reflexivity;
    try (rewrite !map_map; f_equal; apply Forall_map_eq'; assumption);
    try (rewrite IHe; reflexivity).
  rewrite norm_flatten. reflexivity.
Qed.

(** *** propagate_fallback_levels *)
Lemma norm_propagate e : forall l, norm (propagate e l) = norm e.
Proof.
  induction e using expr_ind'; intro l0; try reflexivity.
  - cbn [propagate norm]. rewrite map_map. f_equal. apply Forall_map_eq'.
    eapply Forall_impl; [| eassumption]. cbn. intros a Ha. apply Ha.
  - cbn [propagate norm]. rewrite map_map. f_equal. apply Forall_map_eq'.
    eapply Forall_impl; [| eassumption]. cbn. intros a Ha. apply Ha.
  - cbn [propagate norm]. rewrite IHe. reflexivity.
  - cbn [propagate norm]. rewrite IHe. reflexivity.
  - cbn [propagate norm]. rewrite IHe. reflexivity.
  - rewrite propagate_fb. cbn [norm]. f_equal. generalize 0 as i.
    induction H as [| c r Hc Hr IH]; intro i; [reflexivity |].
    cbn [prop_fb map]. rewrite Hc, IH. reflexivity.
  - cbn [propagate norm]. rewrite IHe. reflexivity.
Qed.

(** *** The specification sees only the normal form *)
Lemma tr_norm e : tr (norm e) = erase (tr e) /\ trw (norm e) = erase_ww (trw e).
Proof.
  induction e using expr_ind'; cbn [norm].
  - split; reflexivity.
  - split; reflexivity.
  - split; reflexivity.
  - rewrite !tr_seq, !trw_seq, erase_fold_cat, erase_ww_fold_cat, !map_map. split; f_equal; apply Forall_map_eq';
      (eapply Forall_impl; [| eassumption]); cbn; intros a [H1 H2]; assumption.
  - rewrite !tr_alt, !trw_alt, erase_fold_alt, erase_ww_fold_alt, !map_map. split; f_equal; apply Forall_map_eq';
      (eapply Forall_impl; [| eassumption]); cbn; intros a [H1 H2]; assumption.
  - destruct IHe as [H1 H2]. cbn [tr trw erase erase_ww rmap]. rewrite H1, H2. split; reflexivity.
  - destruct IHe as [H1 H2]. cbn [tr trw erase erase_ww rmap]. rewrite H1, H2. split; reflexivity.
  - destruct IHe as [H1 H2]. cbn [tr trw]. split; assumption.
  - rewrite tr_alt, trw_alt, tr_fb, trw_fb, erase_fold_alt, erase_ww_fold_alt, !map_map. split; f_equal; apply Forall_map_eq';
      (eapply Forall_impl; [| eassumption]); cbn; intros a [H1 H2]; assumption.
  - destruct IHe as [H1 H2]. cbn [tr trw erase rmap erase_l]. rewrite H2. split; reflexivity.
Qed.

Theorem matched_norm en e ws : matched en (norm e) ws = matched en e ws.
Proof.
  rewrite !matched_as_rx. destruct (tr_norm e) as [H _]. rewrite H. apply matched_rx_erase.
Qed.

Corollary matched_of_norm_eq en e e' ws : norm e = norm e' -> matched en e ws = matched en e' ws.
Proof. intro H. rewrite <- (matched_norm en e), <- (matched_norm en e'), H. reflexivity. Qed.

(** *** The tree-rewriting part of [Check.from_grammar], as one function of the call-variant
    expression [e], the plain definitions [defs] and the resolution order [ord]. *)
Section Expand.
  Variable target : shell.
  Variable user_specs : list (string * user_spec).
  Variable builtins : list (string * string).
  Variable fallbacks : list (string * (string * span)).
  Variable plain : list string.

  Notation spec := (specialize target user_specs builtins fallbacks plain).

  Definition prepared_defs (defs : list (string * expr)) : list (string * expr) :=
    map (fun p => (fst p, spec (distribute_descriptions (snd p)))) defs.

  Definition expand (defs : list (string * expr)) (ord : list string) (e : expr) : expr :=
    let table := resolve_in_order ord (prepared_defs defs) in
    propagate (collapse (resolve table (spec (distribute_descriptions e)))) 0.

  Definition bar_defs (defs : list (string * expr)) : list (string * expr) :=
    map (fun p => (fst p, bar_of_barbar (snd p))) defs.

  Lemma norm_prepared_bar defs :
    norm_defs (prepared_defs (bar_defs defs)) = norm_defs (prepared_defs defs).
  Proof.
    unfold norm_defs, prepared_defs, bar_defs. rewrite !map_map. apply map_ext. intros [n rhs].
    cbn [fst snd]. f_equal.
    rewrite !norm_specialize, !norm_distribute_descriptions, norm_bar. reflexivity.
  Qed.

  Lemma norm_expand defs ord e :
    norm (expand defs ord e)
    = collapse (resolve (resolve_in_order ord (norm_defs (prepared_defs defs)))
                        (spec (undd (norm e)))).
  Proof.
    unfold expand. rewrite norm_propagate, norm_collapse, norm_resolve, norm_resolve_in_order,
      norm_specialize, norm_distribute_descriptions. reflexivity.
  Qed.

  (** The validated tree of the [|] grammar and the one of the [||] grammar have the same normal form ... *)
  Theorem expand_bar defs ord e :
    norm (expand (bar_defs defs) ord (bar_of_barbar e)) = norm (expand defs ord e).
  Proof. rewrite !norm_expand, norm_prepared_bar, norm_bar. reflexivity. Qed.

  (** ... hence are matched by the same command lines. *)
  Theorem expand_bar_matched en defs ord e ws :
    matched en (expand (bar_defs defs) ord (bar_of_barbar e)) ws = matched en (expand defs ord e) ws.
  Proof. apply matched_of_norm_eq. apply expand_bar. Qed.
End Expand.

(** The resolution order does not depend on [||] vs [|] either: it is computed from the
    references of the prepared definitions, which the normal form determines. *)
Lemma nonterm_refs_norm e : nonterm_refs (norm e) = nonterm_refs e.
Proof.
  induction e using expr_ind'; cbn [norm nonterm_refs]; try reflexivity; try assumption.
  - rewrite flat_map_map. induction H as [| c r Hc Hr IH]; [reflexivity |]. cbn [flat_map]. rewrite Hc, IH. reflexivity.
  - rewrite flat_map_map. induction H as [| c r Hc Hr IH]; [reflexivity |]. cbn [flat_map]. rewrite Hc, IH. reflexivity.
  - rewrite flat_map_map. induction H as [| c r Hc Hr IH]; [reflexivity |]. cbn [flat_map]. rewrite Hc, IH. reflexivity.
Qed.

Lemma nonterm_refs_of_norm_eq e e' : norm e = norm e' -> nonterm_refs e = nonterm_refs e'.
Proof. intro H. rewrite <- (nonterm_refs_norm e), <- (nonterm_refs_norm e'), H. reflexivity. Qed.

(** *** [Check.from_grammar] computes [expand] *)
Definition call_expr (g : grammar) : expr :=
  match map snd (call_variants g) with
  | [e] => e
  | es => Alternative es (match es with e :: _ => expr_span e | [] => mkspan 0 0 0 end)
  end.

Definition plain_of (defs0 : list defn) : list (string * expr) :=
  map (fun d => (d_name d, d_rhs d)) defs0.

Definition prepared_defns sh us bs fs (defs0 : list defn) : list defn :=
  map (fun d => mkdefn (d_name d) (d_span d)
                       (specialize sh us bs fs (map d_name defs0) (distribute_descriptions (d_rhs d)))) defs0.

Theorem from_grammar_expand builtins g sh v :
  from_grammar builtins g sh = Ok v ->
  exists defs0 us fs ord,
    collect_plain_defs (all_defs g) [] = Ok defs0
    /\ get_specializations g sh = Ok (us, fs)
    /\ resolution_order (prepared_defns sh us (builtins sh) fs defs0) = Ok ord
    /\ v_expr v = expand sh us (builtins sh) fs (map d_name defs0) (plain_of defs0) ord (call_expr g).
Proof.
  unfold from_grammar.
  destruct (dedup_names [] (map (fun x => (fst (fst x), snd (fst x))) (call_variants g))) as [| [command cspan] more];
    [discriminate |].
  destruct more; [| discriminate].
  destruct (contains_char slash command); [discriminate |].
  fold (call_expr g).
  destruct (collect_plain_defs (all_defs g) []) as [defs0 | | |] eqn:Ed; cbn [obind]; try discriminate.
  destruct (get_specializations g sh) as [[us fs] | | |] eqn:Es; cbn [obind]; try discriminate.
  match goal with |- context [resolution_order ?d] => destruct (resolution_order d) as [ord | | |] eqn:Eo end;
    cbn [obind]; try discriminate.
  match goal with |- context [spaces ?t ?f ?e ?tr ?w] => destruct (spaces t f e tr w) as [[] | | |] end;
    cbn [obind]; try discriminate.
  intro H. inversion H; subst; clear H. cbn [v_expr].
  exists defs0, us, fs, ord. split; [reflexivity | split; [reflexivity | split]].
  - unfold prepared_defns. rewrite <- Eo. rewrite !map_map. cbn [d_name d_span d_rhs]. reflexivity.
  - unfold expand, prepared_defs, plain_of. rewrite !map_map. cbn [d_name d_rhs fst snd].
    reflexivity.
Qed.

(** *** The source-level replacement *)
Definition bar_stmt (s : statement) : statement :=
  match s with
  | CallVariant n sp e => CallVariant n sp (bar_of_barbar e)
  | NontermDef n sp sh rhs => NontermDef n sp sh (bar_of_barbar rhs)
  end.

Definition bar_grammar (g : grammar) : grammar := map bar_stmt g.

Lemma expr_span_bar e : expr_span (bar_of_barbar e) = expr_span e.
Proof. destruct e; reflexivity. Qed.

Lemma call_variants_bar g :
  call_variants (bar_grammar g) = map (fun x => (fst x, bar_of_barbar (snd x))) (call_variants g).
Proof.
  induction g as [| s g IH]; [reflexivity |].
  destruct s; cbn [bar_grammar map bar_stmt call_variants flat_map app] in *; [f_equal |]; apply IH.
Qed.

Lemma all_defs_bar g :
  all_defs (bar_grammar g)
  = map (fun x => (fst x, bar_of_barbar (snd x))) (all_defs g).
Proof.
  induction g as [| s g IH]; [reflexivity |].
  destruct s; cbn [bar_grammar map bar_stmt all_defs flat_map app] in *; [| f_equal]; apply IH.
Qed.

Lemma call_expr_bar g : call_expr (bar_grammar g) = bar_of_barbar (call_expr g).
Proof.
  unfold call_expr. rewrite call_variants_bar, map_map. cbn [snd].
  rewrite <- (map_map snd bar_of_barbar).
  destruct (map snd (call_variants g)) as [| e1 [| e2 r]]; cbn [map bar_of_barbar]; try reflexivity.
  rewrite expr_span_bar. reflexivity.
Qed.

Definition bar_defn (d : defn) : defn := mkdefn (d_name d) (d_span d) (bar_of_barbar (d_rhs d)).

Lemma collect_plain_defs_bar ds : forall acc,
    collect_plain_defs (map (fun x => (fst x, bar_of_barbar (snd x))) ds) (map bar_defn acc)
    = match collect_plain_defs ds acc with
      | Ok r => Ok (map bar_defn r)
      | Err e => Err e
      | Panic s => Panic s
      | OutOfFuel => OutOfFuel
      end.
Proof.
  induction ds as [| [[[n nsp] sh] rhs] r IH]; intro acc; [reflexivity |].
  cbn [map fst snd collect_plain_defs]. destruct sh as [s |]; [apply IH |].
  assert (E : find (fun d => String.eqb (d_name d) n) (map bar_defn acc)
              = option_map bar_defn (find (fun d => String.eqb (d_name d) n) acc)).
  { clear. induction acc as [| d acc IHa]; [reflexivity |]. cbn [map find bar_defn d_name].
    destruct (String.eqb (d_name d) n); [reflexivity | apply IHa]. }
  rewrite E. destruct (find (fun d => String.eqb (d_name d) n) acc) as [dup |]; cbn [option_map].
  - reflexivity.
  - change (map bar_defn acc ++ [mkdefn n nsp (bar_of_barbar rhs)]) with (map bar_defn acc ++ map bar_defn [mkdefn n nsp rhs]).
    rewrite <- map_app. apply IH.
Qed.

Lemma get_user_specs_bar target ds : forall acc,
    get_user_specs target (map (fun x => (fst x, bar_of_barbar (snd x))) ds) acc = get_user_specs target ds acc.
Proof.
  induction ds as [| [[[n nsp] sh] rhs] r IH]; intro acc; [reflexivity |].
  cbn [map fst snd get_user_specs]. destruct sh as [[shn shsp] |]; [| apply IH].
  destruct rhs; cbn [bar_of_barbar expr_span]; try reflexivity.
  destruct (shell_of_string shn); [| reflexivity].
  destruct (shell_eqb s target); [| apply IH].
  destruct (assoc n acc); [reflexivity | apply IH].
Qed.

Lemma get_fallback_specs_bar specialized ds : forall acc,
    get_fallback_specs specialized (map (fun x => (fst x, bar_of_barbar (snd x))) ds) acc
    = get_fallback_specs specialized ds acc.
Proof.
  induction ds as [| [[[n nsp] sh] rhs] r IH]; intro acc; [reflexivity |].
  cbn [map fst snd get_fallback_specs]. destruct sh as [s |]; [apply IH |].
  destruct (mem_str n specialized); [| apply IH].
  destruct rhs; cbn [bar_of_barbar expr_span]; try reflexivity.
  destruct (assoc n acc) as [[c p] |]; [reflexivity | apply IH].
Qed.

Lemma get_specializations_bar g sh : get_specializations (bar_grammar g) sh = get_specializations g sh.
Proof.
  unfold get_specializations. rewrite all_defs_bar, get_user_specs_bar.
  destruct (get_user_specs sh (all_defs g) []); cbn [obind]; try reflexivity.
  rewrite get_fallback_specs_bar. reflexivity.
Qed.

(** [resolution_order] only looks at names, spans and references. *)
Lemma map_pair_ext {A B C} (f : A -> B) (g : A -> C) : forall l l',
    map f l' = map f l -> map g l' = map g l -> map (fun x => (f x, g x)) l' = map (fun x => (f x, g x)) l.
Proof.
  induction l as [| a l IH]; intros [| a' l'] Hf Hg; cbn [map] in *; try discriminate.
  - reflexivity.
  - inversion Hf. inversion Hg. rewrite (IH l') by assumption. congruence.
Qed.

Lemma resolution_order_ext (defs defs' : list defn) :
  map d_name defs' = map d_name defs -> map d_span defs' = map d_span defs ->
  map (fun d => get_nonterm_refs (d_rhs d)) defs' = map (fun d => get_nonterm_refs (d_rhs d)) defs ->
  resolution_order defs' = resolution_order defs.
Proof.
  intros Hn Hs Hr. unfold resolution_order.
  assert (Hlen : List.length defs' = List.length defs).
  { rewrite <- (map_length d_name defs'), Hn. apply map_length. }
  rewrite Hn, Hlen.
  set (names := map d_name defs).
  assert (Hg : map (fun d => (d_name d, filter (fun p => mem_str (fst p) names) (get_nonterm_refs (d_rhs d)))) defs'
               = map (fun d => (d_name d, filter (fun p => mem_str (fst p) names) (get_nonterm_refs (d_rhs d)))) defs).
  { apply (map_pair_ext d_name (fun d => filter (fun p => mem_str (fst p) names) (get_nonterm_refs (d_rhs d)))); [assumption |].
    rewrite <- (map_map (fun d => get_nonterm_refs (d_rhs d)) (filter (fun p => mem_str (fst p) names))).
    rewrite <- (map_map (fun d => get_nonterm_refs (d_rhs d)) (filter (fun p => mem_str (fst p) names)) defs).
    rewrite Hr. reflexivity. }
  assert (Hv : map (fun d => (d_name d, d_span d)) defs' = map (fun d => (d_name d, d_span d)) defs).
  { apply (map_pair_ext d_name d_span); assumption. }
  rewrite Hg, Hv. reflexivity.
Qed.

Lemma get_nonterm_refs_of_norm_eq e e' : norm e = norm e' -> get_nonterm_refs e = get_nonterm_refs e'.
Proof. intro H. unfold get_nonterm_refs. rewrite (nonterm_refs_of_norm_eq _ _ H). reflexivity. Qed.

(** Replacing every [||] by [|] in the source never changes which command lines the validated
    grammar (as the model of check.rs computes it) matches. *)
Theorem from_grammar_bar_matched builtins g sh v v' en ws :
  from_grammar builtins g sh = Ok v ->
  from_grammar builtins (bar_grammar g) sh = Ok v' ->
  matched en (v_expr v') ws = matched en (v_expr v) ws.
Proof.
  intros H H'.
  apply from_grammar_expand in H. destruct H as [defs0 [us [fs [ord [Ed [Es [Eo Ev]]]]]]].
  apply from_grammar_expand in H'. destruct H' as [defs0' [us' [fs' [ord' [Ed' [Es' [Eo' Ev']]]]]]].
  rewrite get_specializations_bar, Es in Es'. inversion Es'; subst us' fs'.
  rewrite all_defs_bar in Ed'. pose proof (collect_plain_defs_bar (all_defs g) []) as C.
  cbn [map] in C. rewrite Ed, Ed' in C. inversion C; subst defs0'. clear C.
  assert (Hnames : map d_name (map bar_defn defs0) = map d_name defs0).
  { rewrite map_map. reflexivity. }
  assert (Hplain : plain_of (map bar_defn defs0) = bar_defs (plain_of defs0)).
  { unfold plain_of, bar_defs. rewrite !map_map. reflexivity. }
  (* the two resolution orders coincide *)
  assert (Eord : ord' = ord).
  { assert (R : resolution_order (prepared_defns sh us (builtins sh) fs (map bar_defn defs0))
                = resolution_order (prepared_defns sh us (builtins sh) fs defs0)).
    { apply resolution_order_ext; unfold prepared_defns; rewrite Hnames, !map_map; cbn [d_name d_span d_rhs bar_defn];
        try reflexivity.
      apply map_ext. intro d. apply get_nonterm_refs_of_norm_eq.
      rewrite !norm_specialize, !norm_distribute_descriptions, norm_bar. reflexivity. }
    rewrite R, Eo in Eo'. inversion Eo'. reflexivity. }
  subst ord'. rewrite Ev, Ev', Hnames, Hplain, call_expr_bar.
  apply expand_bar_matched.
Qed.
