(** C08, cycles: the dependency graph searched by the model is the [depends] relation of
    Spec/Mistakes.v, and [from_grammar] reports a cycle exactly when [Mistakes.cyclic] holds
    (when the earlier mistake classes are absent). *)
From CG Require Import Base.Prelude Model.Ast Model.Check Spec.Choice Spec.Mistakes.
From CG Require Import Proofs.CheckChoice Proofs.CheckMistakes Proofs.CheckLemmas Proofs.CheckWarnings.
From CG Require Import Proofs.CheckCycle Proofs.CheckTotal Proofs.CheckFront.

(** *** Bounded reachability against the graph *)
Section Bounded.
  Variable dep : string -> string -> bool.
  Variable V : list string.
  Variable graph : list (string * list (string * span)).
  Hypothesis Hdep : forall x y, dep x y = true <-> edge graph x y.
  Hypothesis HV : forall x y, edge graph x y -> In y V.

  Fixpoint reachesb (n : nat) (x y : string) : bool :=
    dep x y ||
    match n with
    | O => false
    | S k => existsb (fun z => dep x z && reachesb k z y) V
    end.

  Lemma reachesb_reach n : forall x y, reachesb n x y = true -> reach graph x y.
  Proof.
    induction n as [|k IH]; intros x y H; cbn [reachesb] in H; apply orb_true_iff in H;
      destruct H as [H|H]; try (apply reach_one; apply Hdep; exact H); [discriminate|].
    apply existsb_exists in H. destruct H as [z [_ Hz]]. apply andb_true_iff in Hz.
    destruct Hz as [Hxz Hzy]. eapply reach_step; [apply Hdep; exact Hxz|apply IH; exact Hzy].
  Qed.

  Lemma reachesb_S n : forall x y, reachesb n x y = true -> reachesb (S n) x y = true.
  Proof.
    induction n as [|k IH]; intros x y H; cbn [reachesb] in H; apply orb_true_iff in H;
      destruct H as [H|H]; try (cbn [reachesb]; rewrite H; reflexivity); [discriminate|].
    apply existsb_exists in H. destruct H as [z [Hz Hzz]]. apply andb_true_iff in Hzz.
    destruct Hzz as [Hxz Hzy]. apply IH in Hzy.
    change (reachesb (S (S k)) x y) with
      (dep x y || existsb (fun z => dep x z && reachesb (S k) z y) V).
    apply orb_true_iff. right. apply existsb_exists. exists z. split; [exact Hz|].
    rewrite Hxz, Hzy. reflexivity.
  Qed.

  Lemma reachesb_mono n m x y : (n <= m)%nat -> reachesb n x y = true -> reachesb m x y = true.
  Proof. induction 1 as [|m Hle IH]; [auto|]. intro Hr. apply reachesb_S. auto. Qed.

  Lemma reachesb_snoc k : forall x y z,
    reachesb k x y = true -> dep y z = true -> In y V -> reachesb (S k) x z = true.
  Proof.
    induction k as [|k IH]; intros x y z H Hyz Hy; cbn [reachesb] in H; apply orb_true_iff in H;
      destruct H as [H|H].
    - cbn [reachesb]. apply orb_true_iff. right. apply existsb_exists. exists y.
      split; [exact Hy|]. rewrite H, Hyz. reflexivity.
    - discriminate.
    - change (reachesb (S (S k)) x z) with
        (dep x z || existsb (fun w => dep x w && reachesb (S k) w z) V).
      apply orb_true_iff. right. apply existsb_exists. exists y. split; [exact Hy|].
      rewrite H. cbn [andb reachesb]. rewrite Hyz. reflexivity.
    - apply existsb_exists in H. destruct H as [w [Hw Hww]]. apply andb_true_iff in Hww.
      destruct Hww as [Hxw Hwy].
      change (reachesb (S (S k)) x z) with
        (dep x z || existsb (fun w => dep x w && reachesb (S k) w z) V).
      apply orb_true_iff. right. apply existsb_exists. exists w. split; [exact Hw|].
      rewrite Hxw. cbn [andb]. eapply IH; eauto.
  Qed.

  Lemma chain_edge a b sb : In (b, sb) (children graph a) -> edge graph a b.
  Proof. intro H. apply in_map_iff. exists (b, sb). split; [reflexivity|exact H]. Qed.

  Lemma chain_reachesb a rest :
    chain graph a rest -> rest <> [] ->
    reachesb (List.length rest - 1) a (last (map fst rest) a) = true.
  Proof.
    revert a. induction rest as [|[b sb] r IH]; intros a Hc Hne; [congruence|].
    cbn [chain] in Hc. destruct Hc as [Hb Hc]. apply (chain_edge a b sb) in Hb.
    cbn [map fst]. rewrite last_cons.
    destruct r as [|p r'] eqn:E.
    - cbn. rewrite (proj2 (Hdep a b) Hb). reflexivity.
    - rewrite <- E in *. assert (Hr : r <> []) by (rewrite E; discriminate).
      specialize (IH b Hc Hr).
      replace (List.length ((b, sb) :: r) - 1)%nat with (S (List.length r - 1)).
      2:{ rewrite E. cbn. lia. }
      cbn [reachesb]. apply orb_true_iff. right. apply existsb_exists. exists b.
      split; [eapply HV; exact Hb|]. rewrite (proj2 (Hdep a b) Hb), IH. reflexivity.
  Qed.

  Lemma chain_targets a rest : chain graph a rest -> forall x, In x (map fst rest) -> In x V.
  Proof.
    revert a. induction rest as [|[b sb] r IH]; intros a Hc x Hx; [destruct Hx|].
    cbn [chain] in Hc. destruct Hc as [Hb Hc]. destruct Hx as [Hx|Hx].
    - cbn in Hx. subst x. eapply HV. eapply chain_edge. exact Hb.
    - eapply IH; eauto.
  Qed.

  Lemma last_In {A} (l : list A) d : l <> [] -> In (last l d) l.
  Proof.
    induction l as [|x l IH]; [congruence|]. intros _. destruct l as [|y l']; [left; reflexivity|].
    right. change (last (x :: y :: l') d) with (last (y :: l') d). apply IH. discriminate.
  Qed.

  Lemma cycle_report_bounded verts e :
    incl (map fst verts) V -> cycle_report graph verts e ->
    existsb (fun x => reachesb (List.length V) x x) V = true.
  Proof.
    intros Hverts (r & rsp & rest & c & sp & Hv & Hch & Hnd & Hc & Hin & He).
    pose proof (chain_edge _ _ _ Hc) as Hvc.
    assert (HcV : In c V) by (eapply HV; exact Hvc).
    assert (HrV : In r V).
    { apply Hverts. apply in_map_iff. exists (r, rsp). split; [reflexivity|exact Hv]. }
    assert (Hlen : (S (List.length rest) <= List.length V)%nat).
    { assert (Hi : incl (r :: map fst rest) V).
      { intros x [Hx|Hx]; [subst x; exact HrV|eapply chain_targets; eauto]. }
      pose proof (NoDup_incl_length Hnd Hi) as Hl. cbn in Hl. rewrite map_length in Hl. exact Hl. }
    apply existsb_exists. exists c. split; [exact HcV|].
    set (v := last (map fst rest) r) in *.
    assert (HvV : In v V).
    { unfold v. destruct rest as [|p rest'] eqn:E; [exact HrV|].
      rewrite <- E in *. eapply chain_targets; [exact Hch|].
      apply last_In. rewrite E. discriminate. }
    assert (Hvc' : dep v c = true) by (apply Hdep; exact Hvc).
    (* the part of the path from [c] to [v] *)
    assert (Hpath : c = v \/ exists l2, l2 <> [] /\ chain graph c l2 /\ last (map fst l2) c = v
                                        /\ (List.length l2 <= List.length rest)%nat).
    { destruct Hin as [Hin|Hin].
      - subst c. destruct rest as [|p rest']; [left; reflexivity|].
        right. exists (p :: rest'). split; [discriminate|]. split; [exact Hch|].
        split; [reflexivity|apply Nat.le_refl].
      - apply in_map_iff in Hin. destruct Hin as [[c' sc] [Hc' Hin]]. cbn in Hc'. subst c'.
        apply in_split in Hin. destruct Hin as [l1 [l2 Heq]].
        pose proof (chain_suffix _ _ _ Hch _ _ _ _ Heq) as Hc2.
        assert (Hl : last (map fst l2) c = v).
        { unfold v. rewrite Heq, map_app. cbn [map fst]. rewrite last_app_cons. reflexivity. }
        destruct l2 as [|p l2'] eqn:E; [left; exact Hl|].
        right. exists l2. rewrite <- E in *. repeat split; auto.
        + rewrite E. discriminate.
        + rewrite Heq, app_length. cbn. lia. }
    destruct Hpath as [Heq|(l2 & Hne & Hc2 & Hl & Hlen2)].
    - subst c. cbn [reachesb]. destruct (List.length V); cbn [reachesb]; rewrite Hvc'; reflexivity.
    - pose proof (chain_reachesb _ _ Hc2 Hne) as Hr. rewrite Hl in Hr.
      pose proof (reachesb_snoc _ _ _ _ Hr Hvc' HvV) as Hr2.
      eapply reachesb_mono; [|exact Hr2].
      destruct l2; [congruence|]. cbn in *. lia.
  Qed.
End Bounded.

Lemma existsb_ext' {A} (f g : A -> bool) l : (forall x, f x = g x) -> existsb f l = existsb g l.
Proof. intro H. induction l as [|a l IH]; cbn; [reflexivity|]. rewrite H, IH. reflexivity. Qed.

Lemma reaches_reachesb g sh n x y :
  reaches g sh n x y = reachesb (depends g sh) (plain_names g) n x y.
Proof.
  revert x y. induction n as [|k IH]; intros x y; cbn [reaches reachesb]; [reflexivity|].
  f_equal. apply existsb_ext'. intro z. rewrite IH. reflexivity.
Qed.

(** *** The graph of the model is [depends] *)
Section Keeps.
  Variable sh : shell.
  Variable us : list (string * user_spec).
  Variable bi : list (string * string).
  Variable fs : list (string * (string * span)).
  Variable plain : list string.

  Definition keeps (n : string) : bool :=
    match assoc n us with
    | Some _ => false
    | None => match assoc n fs with
              | Some _ => false
              | None => mem_str n plain || match assoc n bi with Some _ => false | None => true end
              end
    end.

  Lemma specialize_ref_refs n l sp :
    all_refs (specialize_ref sh us bi fs plain n l sp) = if keeps n then [n] else [].
  Proof.
    unfold specialize_ref, keeps. destruct (assoc n us); [reflexivity|].
    destruct (assoc n fs) as [[c s]|]; [reflexivity|].
    destruct (mem_str n plain); [reflexivity|]. destruct (assoc n bi); reflexivity.
  Qed.

  Lemma specialize_refs e :
    all_refs (specialize sh us bi fs plain e) = filter keeps (all_refs e).
  Proof.
    induction e using expr_ind'; cbn [specialize all_refs filter]; try reflexivity; try assumption.
    - rewrite specialize_ref_refs. destruct (keeps n); reflexivity.
    - induction H; cbn; [reflexivity|]. rewrite filter_app, H, IHForall. reflexivity.
    - induction H; cbn; [reflexivity|]. rewrite filter_app, H, IHForall. reflexivity.
    - induction H; cbn; [reflexivity|]. rewrite filter_app, H, IHForall. reflexivity.
  Qed.
End Keeps.

Lemma distribute_descriptions_all_refs e :
  all_refs (distribute_descriptions e) = all_refs e.
Proof.
  rewrite <- (dd_free_refs (distribute_descriptions e)) by apply distribute_dd_free.
  apply distribute_descriptions_refs.
Qed.

Lemma assoc_plain_table (F : expr -> expr) ds x :
  assoc x (map (fun d => (d_name d, F (d_rhs d))) (plain_defs_of ds)) = option_map F (pd ds x).
Proof.
  unfold plain_defs_of. induction ds as [|[[[n nsp] [[shn shsp]|]] rhs] r IH]; cbn; [reflexivity|exact IH|].
  rewrite (String.eqb_sym x n). destruct (String.eqb n x); [reflexivity|exact IH].
Qed.

Lemma plain_names_pd g y : In y (plain_names g) <-> plain_definition g y <> None.
Proof.
  rewrite pd_all_defs, plain_names_all_defs. induction (all_defs g) as [|[[[n nsp] [[shn shsp]|]] rhs] r IH];
    cbn; [split; [tauto|congruence]|exact IH|].
  destruct (String.eqb n y) eqn:E.
  - apply String.eqb_eq in E. subst. split; [discriminate|auto].
  - apply String.eqb_neq in E. rewrite <- IH. split; [intros [H|H]; [congruence|exact H]|auto].
Qed.

Section ModelGraph.
  Variable builtins : shell -> list (string * string).
  Variable g : grammar.
  Variable sh : shell.
  Variable defs0 : list defn.
  Variable us : list (string * user_spec).
  Variable fs : list (string * (string * span)).
  Hypothesis Hcollect : collect_plain_defs (all_defs g) [] = Ok defs0.
  Hypothesis Hspecs : get_specializations g sh = Ok (us, fs).

  Let defs1 := defs1_of defs0.
  Let spec := spec_of builtins sh us fs defs1.
  Let defs2 := defs2_of spec defs1.

  Lemma defs0_eq : defs0 = plain_defs_of (all_defs g).
  Proof. apply collect_plain_defs_eq in Hcollect. exact Hcollect. Qed.

  Lemma defs2_names_plain : map d_name defs2 = plain_names g.
  Proof.
    unfold defs2, defs1. rewrite defs2_names. unfold defs1_of. rewrite map_map. cbn.
    rewrite defs0_eq, plain_defs_of_names, plain_names_all_defs. reflexivity.
  Qed.

  Lemma table0_assoc x :
    assoc x (table0_of defs2)
    = option_map (fun rhs => spec (distribute_descriptions rhs)) (plain_definition g x).
  Proof.
    unfold table0_of, defs2, defs2_of, defs1, defs1_of. rewrite !map_map. cbn.
    rewrite defs0_eq, pd_all_defs.
    apply (assoc_plain_table (fun rhs => spec (distribute_descriptions rhs))).
  Qed.

  Lemma us_none_iff y : assoc y us = None <-> shell_definition g sh y = None.
  Proof.
    unfold get_specializations in Hspecs.
    destruct (get_user_specs sh (all_defs g) []) as [us'| | |] eqn:Hus; cbn in Hspecs; try discriminate.
    destruct (get_fallback_specs (map fst us') (all_defs g) []) as [fs'| | |] eqn:Hfs;
      cbn in Hspecs; try discriminate.
    inversion Hspecs; subst us' fs'.
    destruct (get_user_specs_spec _ _ _ _ y Hus) as [H1 H2]. cbn in H1, H2.
    rewrite sd_all_defs. split; intro H.
    - rewrite H in H1. cbn in H1. destruct (sd (all_defs g) sh y) eqn:E; [|reflexivity].
      exfalso. apply H2; [reflexivity|discriminate|]. rewrite <- H1. reflexivity.
    - rewrite H in H1. cbn in H1. destruct (assoc y us); [discriminate|reflexivity].
  Qed.

  Lemma fs_none y : assoc y us = None -> assoc y fs = None.
  Proof.
    intro H. unfold get_specializations in Hspecs.
    destruct (get_user_specs sh (all_defs g) []) as [us'| | |] eqn:Hus; cbn in Hspecs; try discriminate.
    destruct (get_fallback_specs (map fst us') (all_defs g) []) as [fs'| | |] eqn:Hfs;
      cbn in Hspecs; try discriminate.
    inversion Hspecs; subst us' fs'.
    destruct (assoc y fs) eqn:E; [|reflexivity]. exfalso.
    destruct (get_fallback_specs_keys _ _ _ _ y Hfs) as [Ha|Hm].
    - rewrite E. discriminate.
    - apply Ha. reflexivity.
    - rewrite mem_str_assoc, H in Hm. discriminate.
  Qed.

  Lemma keeps_plain y :
    In y (plain_names g) ->
    keeps us (builtins sh) fs (map d_name defs1) y = true <-> shell_definition g sh y = None.
  Proof.
    intro Hy. rewrite <- us_none_iff. unfold keeps.
    destruct (assoc y us) eqn:E; [split; discriminate|].
    rewrite (fs_none y E).
    assert (Hm : mem_str y (map d_name defs1) = true).
    { apply mem_str_In. unfold defs1, defs1_of. rewrite map_map. cbn.
      rewrite defs0_eq, plain_defs_of_names, <- plain_names_all_defs. exact Hy. }
    rewrite Hm. cbn. tauto.
  Qed.

  Theorem model_graph_depends x y :
    edge (graph_of defs2) x y <-> depends g sh x y = true.
  Proof.
    unfold edge, children, graph_of. rewrite assoc_graph_of', table0_assoc.
    unfold depends, plain_chosen.
    destruct (plain_definition g x) as [rhs|] eqn:Ex; cbn [option_map]; [|split; [intros []|discriminate]].
    rewrite in_map_iff. rewrite andb_true_iff, mem_str_In. split.
    - intros [[y' sp] [Hy Hin]]. cbn in Hy. subst y'. apply filter_In in Hin. destruct Hin as [Hin Hm].
      cbn in Hm. apply mem_str_In in Hm. rewrite defs2_names_plain in Hm.
      assert (Hr : In y (map fst (get_nonterm_refs (spec (distribute_descriptions rhs))))).
      { apply in_map_iff. exists (y, sp). split; [reflexivity|exact Hin]. }
      apply get_nonterm_refs_names in Hr.
      rewrite dd_free_refs in Hr by (apply specialize_dd_free; apply distribute_dd_free).
      unfold spec, spec_of in Hr. rewrite specialize_refs in Hr. apply filter_In in Hr.
      destruct Hr as [Hr Hk]. rewrite distribute_descriptions_all_refs in Hr.
      split; [exact Hr|]. apply (keeps_plain y Hm) in Hk. rewrite Hk.
      apply plain_names_pd in Hm. destruct (plain_definition g y); [reflexivity|congruence].
    - intros [Hr Hch].
      destruct (shell_definition g sh y) eqn:Es; [discriminate|].
      assert (Hm : In y (plain_names g)).
      { apply plain_names_pd. destruct (plain_definition g y); [discriminate|discriminate]. }
      assert (Hr' : In y (map fst (get_nonterm_refs (spec (distribute_descriptions rhs))))).
      { apply get_nonterm_refs_names.
        rewrite dd_free_refs by (apply specialize_dd_free; apply distribute_dd_free).
        unfold spec, spec_of. rewrite specialize_refs. apply filter_In.
        rewrite distribute_descriptions_all_refs. split; [exact Hr|].
        apply (keeps_plain y Hm). exact Es. }
      apply in_map_iff in Hr'. destruct Hr' as [[y' sp] [Hy Hin]]. cbn in Hy. subst y'.
      exists (y, sp). split; [reflexivity|]. apply filter_In. split; [exact Hin|].
      cbn. apply mem_str_In. rewrite defs2_names_plain. exact Hm.
  Qed.

  Lemma model_graph_targets x y : edge (graph_of defs2) x y -> In y (plain_names g).
  Proof. intro H. apply graph_of_closed in H. rewrite defs2_names_plain in H. exact H. Qed.

  Theorem cyclic_iff_search :
    cyclic g sh = true <-> exists spans, resolution_order defs2 = Err (NonterminalDefinitionsCycle spans).
  Proof.
    assert (Hdep : forall x y, depends g sh x y = true <-> edge (graph_of defs2) x y).
    { intros. symmetry. apply model_graph_depends. }
    split.
    - unfold cyclic. intro H. apply existsb_exists in H. destruct H as [x [_ Hx]].
      rewrite reaches_reachesb in Hx.
      apply (reachesb_reach _ _ (graph_of defs2) Hdep) in Hx.
      destruct (resolution_order_total defs2) as [[ord Ho]|[e He]].
      + exfalso. apply resolution_order_ok in Ho. destruct Ho as [Ha _].
        eapply acyclic_no_cycle; eassumption.
      + pose proof (resolution_order_err _ _ He) as Hr.
        destruct Hr as (r & rsp & rest & c & sp & _ & _ & _ & _ & _ & Heq). subst e.
        eexists. exact He.
    - intros [spans He]. apply resolution_order_err in He.
      unfold cyclic.
      rewrite (existsb_ext' _ (fun x => reachesb (depends g sh) (plain_names g)
                                                  (List.length (plain_names g)) x x)).
      2:{ intro x. apply reaches_reachesb. }
      eapply (cycle_report_bounded _ _ (graph_of defs2) Hdep model_graph_targets); [|exact He].
      rewrite verts_of_names, defs2_names_plain. apply incl_refl.
  Qed.
End ModelGraph.

(** *** [spaces] only reports [SubwordSpaces] *)
Definition is_spaces_error (e : cerror) : Prop :=
  match e with SubwordSpaces _ _ _ => True | _ => False end.

Lemma sp_all_err rec cs e :
  Forall (fun c => forall e, rec c = Err e -> is_spaces_error e) cs ->
  sp_all rec cs = Err e -> is_spaces_error e.
Proof.
  induction 1 as [|x l Hx Hl IH]; cbn; [discriminate|].
  destruct (rec x) as [[]|e'| |] eqn:E; cbn; try discriminate.
  - exact IH.
  - intro H. inversion H; subst. apply Hx. reflexivity.
Qed.

Lemma expr_head_no_err follow f : forall e err, expr_head follow f e <> Err err.
Proof.
  induction f as [|f IH]; intros e err; [discriminate|]. rewrite expr_head_S.
  destruct e; try discriminate; try apply IH.
  - destruct (followed follow name); [apply IH|discriminate].
  - destruct children; [discriminate|apply IH].
Qed.

Lemma expr_tail_no_err follow f : forall e err, expr_tail follow f e <> Err err.
Proof.
  induction f as [|f IH]; intros e err; [discriminate|]. rewrite expr_tail_S.
  destruct e; try discriminate; try apply IH.
  - destruct (followed follow name); [apply IH|discriminate].
  - destruct (last_opt children); [apply IH|discriminate].
Qed.

Lemma adjacent_terminals_no_err follow f cs : forall err, adjacent_terminals follow f cs <> Err err.
Proof.
  induction cs as [|a r IH]; intro err; [discriminate|]. destruct r as [|b r']; [discriminate|].
  cbn [adjacent_terminals].
  destruct (expr_tail follow f a) as [ta|e1| |] eqn:Ea; cbn [obind];
    [|exfalso; eapply expr_tail_no_err; eauto|discriminate|discriminate].
  destruct (expr_head follow f b) as [hb|e2| |] eqn:Eb; cbn [obind];
    [|exfalso; eapply expr_head_no_err; eauto|discriminate|discriminate].
  destruct ta; try apply IH. destruct hb; try apply IH. discriminate.
Qed.

Lemma spaces_err_kind table f : forall e trace within juxt err,
  spaces table f e trace within juxt = Err err -> is_spaces_error err.
Proof.
  induction f as [|f IH]; intros e trace within juxt err H; [discriminate|].
  rewrite spaces_S in H.
  assert (Hall : forall cs err, sp_all (fun c => spaces table f c trace within false) cs = Err err ->
                                is_spaces_error err).
  { intros cs err' H'. eapply sp_all_err; [|exact H']. apply Forall_forall. intros c _ e' He'.
    eapply IH; eauto. }
  destruct e; try discriminate; try (eapply IH; eauto; fail); try (eapply Hall; eauto; fail).
  - destruct (assoc name table); [eapply IH; eauto|discriminate].
  - destruct (sp_all _ children) as [[]|e'| |] eqn:E; cbn [obind] in H; try discriminate.
    + destruct within; [|discriminate].
      destruct (adjacent_terminals _ f children) as [[[l r]|]|e'| |] eqn:Ea; cbn [obind] in H;
        try discriminate.
      * inversion H. exact I.
      * exfalso. eapply adjacent_terminals_no_err; eauto.
    + inversion H; subst. eapply Hall; eauto.
Qed.

(** *** The verdict of [from_grammar] *)
Theorem cycle_rejected builtins g sh :
  no_call_variant g = false -> varying_names g = false -> slash_in_name g = false ->
  duplicate_plain g = false ->
  unknown_shell g = false -> non_command_for_shell g = false -> duplicate_for_shell g sh = false ->
  specs_have_command_plain g = true ->
  (cyclic g sh = true <->
   exists spans, from_grammar builtins g sh = Err (NonterminalDefinitionsCycle spans)).
Proof.
  intros Hn Hv Hsl Hdp H1 H2 H3 Hsp.
  destruct (dedup_single g Hn Hv) as (command & cspan & Hd & Hin).
  pose proof (no_slash g command Hsl Hin) as Hs.
  destruct (duplicate_plain_collect g Hdp) as [defs0 Hc].
  destruct (get_specializations_ok g sh Hdp H1 H2 H3 Hsp) as (us & fs & Hspecs).
  rewrite (from_grammar_front builtins g sh _ _ _ Hd Hs Hc), Hspecs. cbn [obind fst snd].
  rewrite (cyclic_iff_search builtins g sh defs0 us fs Hc Hspecs).
  cbn zeta.
  set (defs2 := defs2_of (spec_of builtins sh us fs (defs1_of defs0)) (defs1_of defs0)).
  destruct (resolution_order defs2) as [ord|e| |] eqn:Ho; cbn [obind].
  - split; [intros [spans H]; discriminate|]. intros [spans H].
    match type of H with context [spaces ?t ?f ?e [] false false] =>
      destruct (spaces t f e [] false false) as [[]|e'| |] eqn:Es end; cbn [obind] in H; try discriminate.
    inversion H; subst e'. apply spaces_err_kind in Es. destruct Es.
  - split; intros [spans H]; inversion H; subst; eexists; reflexivity.
  - split; intros [spans H]; discriminate.
  - split; intros [spans H]; discriminate.
Qed.

(** A grammar free of every class decided before the walk of [check_subword_spaces] can only be
    rejected by that walk. *)
Theorem clean_verdict builtins g sh :
  no_call_variant g = false -> varying_names g = false -> slash_in_name g = false ->
  duplicate_plain g = false ->
  unknown_shell g = false -> non_command_for_shell g = false -> duplicate_for_shell g sh = false ->
  specs_have_command_plain g = true -> cyclic g sh = false ->
  (exists v, from_grammar builtins g sh = Ok v) \/
  (exists l r trace, from_grammar builtins g sh = Err (SubwordSpaces l r trace)).
Proof.
  intros Hn Hv Hsl Hdp H1 H2 H3 Hsp Hcyc.
  destruct (from_grammar_total builtins g sh) as [[v Hv']|[e He]]; [left; eauto|right].
  assert (Hnc : forall spans, e <> NonterminalDefinitionsCycle spans).
  { intros spans Heq. subst e.
    assert (cyclic g sh = true) by (apply (cycle_rejected builtins g sh); eauto). congruence. }
  destruct (dedup_single g Hn Hv) as (command & cspan & Hd & Hin).
  pose proof (no_slash g command Hsl Hin) as Hs.
  destruct (duplicate_plain_collect g Hdp) as [defs0 Hc].
  destruct (get_specializations_ok g sh Hdp H1 H2 H3 Hsp) as (us & fs & Hspecs).
  pose proof He as He0.
  rewrite (from_grammar_front builtins g sh _ _ _ Hd Hs Hc), Hspecs in He. cbn [obind fst snd] in He.
  cbn zeta in He.
  destruct (resolution_order _) as [ord|e0| |] eqn:Ho; cbn [obind] in He; try discriminate.
  - match type of He with context [spaces ?t ?f ?x [] false false] =>
      destruct (spaces t f x [] false false) as [[]|e'| |] eqn:Es end; cbn [obind] in He; try discriminate.
    inversion He; subst e'. apply spaces_err_kind in Es. destruct e; try destruct Es.
    rewrite He0. eauto.
  - inversion He; subst e0. apply resolution_order_err_cycle in Ho. destruct Ho as [[spans Heq] _].
    exfalso. eapply Hnc; eauto.
Qed.
