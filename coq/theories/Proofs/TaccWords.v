(** The two descriptions of what a within-word automaton reads coincide: the token-level language
    of [Spec.TokAut] ([tacc] over [Spec.Ambig.dnext]/[dfinal]) is the set of typed words read
    ([Proofs.ReadWords.wreads]) by the item sequences the automaton accepts
    ([Spec.Lang.waccepts]). *)
From CG Require Import Base.Prelude Model.Ast Model.Dfa Spec.TokAut Spec.Ambig Spec.Lang
  Proofs.ReadWords Proofs.TablesSound.

Definition labelled (d : dfa) (ids : list N) (v : list witem) : Prop :=
  Forall2 (fun i a => exists x, nthN (d_inputs d) i = Some x /\ wlab x = Some a) ids v.

(** the entries of [dnext] are the transitions on inputs that have a token *)
Lemma dnext_in d q tk q' :
  dfa_wf d ->
  (In (tk, q') (dnext d q) <->
   exists i x, step d q i = Some q' /\ nthN (d_inputs d) i = Some x /\ tok_of_inp x = Some tk).
Proof.
  intros [Hnd Hrows]. unfold dnext, step.
  destruct (assocN q (d_trans d)) as [tos|] eqn:E.
  - pose proof (assocN_in _ _ _ E) as Hin. destruct (Hrows _ _ Hin) as [Hnd2 _].
    rewrite in_flat_map. split.
    + intros [[i t] [Hit H]]. cbn [fst snd] in H.
      destruct (nthN (d_inputs d) i) as [x|] eqn:Ex; [|destruct H].
      destruct (tok_of_inp x) as [tk'|] eqn:Et; [|destruct H].
      destruct H as [H|[]]. inversion H; subst.
      exists i, x. split; [|split]; auto. apply in_assocN; assumption.
    + intros [i [x [Hs [Hx Ht]]]]. exists (i, q'). split.
      * apply assocN_in. exact Hs.
      * cbn [fst snd]. rewrite Hx, Ht. left. reflexivity.
  - split.
    + intros [].
    + intros [i [x [Hs _]]]. discriminate.
Qed.

Lemma accepts_from_cons d q i q' ids :
  step d q i = Some q' -> Dfa.accepts_from d q (i :: ids) = Dfa.accepts_from d q' ids.
Proof. intros H. unfold Dfa.accepts_from. cbn [run]. rewrite H. reflexivity. Qed.

Lemma tacc_to_words d : dfa_wf d -> forall q w,
  tacc N (dnext d) (dfinal d) q w ->
  exists ids v, Dfa.accepts_from d q ids = true /\ labelled d ids v /\ wreads v w.
Proof.
  intros Hwf q w H. induction H as [q Hf | q t q' w Hin Ht _ IH | q q' u w Hin Hu _ IH].
  - exists [], []. split; [|split].
    + unfold Dfa.accepts_from. cbn [run]. exact Hf.
    + constructor.
    + constructor.
  - destruct IH as [ids [v [Ha [Hl Hr]]]].
    apply (dnext_in _ _ _ _ Hwf) in Hin. destruct Hin as [i [x [Hs [Hx Hk]]]].
    destruct x as [t' de l|k l|c l|c l|]; cbn in Hk; try discriminate.
    inversion Hk; subst t'.
    exists (i :: ids), (WLit t de l :: v). split; [|split].
    + rewrite (accepts_from_cons _ _ _ _ _ Hs). exact Ha.
    + constructor; [|exact Hl]. exists (ILit t de l). split; [exact Hx|reflexivity].
    + constructor; [|exact Hr]. cbn. split; [reflexivity|exact Ht].
  - destruct IH as [ids [v [Ha [Hl Hr]]]].
    apply (dnext_in _ _ _ _ Hwf) in Hin. destruct Hin as [i [x [Hs [Hx Hk]]]].
    assert (Hw : exists a, wlab x = Some a /\ tok_reads a u).
    { destruct x as [t' de l|k l|c l|c l|]; cbn in Hk; try discriminate.
      - eexists. split; [reflexivity|exact Hu].
      - eexists. split; [reflexivity|exact Hu].
      - eexists. split; [reflexivity|exact Hu]. }
    destruct Hw as [a [Hla Hra]].
    exists (i :: ids), (a :: v). split; [|split].
    + rewrite (accepts_from_cons _ _ _ _ _ Hs). exact Ha.
    + constructor; [|exact Hl]. exists x. split; assumption.
    + constructor; assumption.
Qed.

Lemma words_to_tacc d : dfa_wf d -> forall ids q v w,
  Dfa.accepts_from d q ids = true -> labelled d ids v -> wreads v w ->
  tacc N (dnext d) (dfinal d) q w.
Proof.
  intros Hwf ids. induction ids as [|i ids IH]; intros q v w Ha Hl Hr.
  - inversion Hl; subst. inversion Hr; subst. apply tacc_nil.
    unfold Dfa.accepts_from in Ha. cbn [run] in Ha. exact Ha.
  - inversion Hl as [|i' a ids' v' [x [Hx Hla]] Hl']; subst.
    inversion Hr as [|a' v'' u w' Hra Hr']; subst.
    unfold Dfa.accepts_from in Ha. cbn [run] in Ha.
    destruct (step d q i) as [q'|] eqn:Hs; [|discriminate].
    assert (Ht : tacc N (dnext d) (dfinal d) q' w') by (apply (IH q' v' w'); assumption).
    destruct x as [t de l|k l|c l|c l|]; cbn in Hla; try discriminate;
      inversion Hla; subst a; cbn in Hra.
    + destruct Hra as [-> Hne]. apply tacc_lit with (q' := q'); auto.
      apply (dnext_in _ _ _ _ Hwf). exists i, (ILit t de l). auto.
    + apply tacc_wild with (q' := q'); auto.
      apply (dnext_in _ _ _ _ Hwf). exists i, (ICmd c l). auto.
    + apply tacc_wild with (q' := q'); auto.
      apply (dnext_in _ _ _ _ Hwf). exists i, (ICompadd c l). auto.
    + apply tacc_wild with (q' := q'); auto.
      apply (dnext_in _ _ _ _ Hwf). exists i, IStar. auto.
Qed.

Theorem tacc_words_from : forall d, dfa_wf d -> forall q w,
  tacc N (dnext d) (dfinal d) q w <->
  exists ids v, Dfa.accepts_from d q ids = true /\
    Forall2 (fun i a => exists x, nthN (d_inputs d) i = Some x /\ wlab x = Some a) ids v /\
    wreads v w.
Proof.
  intros d Hwf q w. split.
  - apply tacc_to_words. exact Hwf.
  - intros [ids [v [Ha [Hl Hr]]]]. eapply words_to_tacc; eauto.
Qed.

Theorem tacc_waccepts : forall d, dfa_wf d -> forall w,
  tacc N (dnext d) (dfinal d) (d_start d) w <-> exists v, waccepts d v /\ wreads v w.
Proof.
  intros d Hwf w. rewrite (tacc_words_from d Hwf). unfold waccepts, accepts. split.
  - intros [ids [v [Ha [Hl Hr]]]]. exists v. split; [|exact Hr]. exists ids. split; assumption.
  - intros [v [[ids [Ha Hl]] Hr]]. exists ids, v. split; [|split]; assumption.
Qed.

Print Assumptions tacc_waccepts.
