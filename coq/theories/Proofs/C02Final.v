(** [C02_total_model] with the panic-freedom of the ambiguity check added. *)
From CG Require Import Base.Prelude Model.Ast Model.Dfa Model.Regex Model.Subset Model.Check Model.Minimize Spec.Lang.
From CG Require Import Spec.DfaEquiv Spec.MinimizeSpec.
From CG Require Import Proofs.TreeFacts Proofs.CheckTree Proofs.C02Total Proofs.RegexNoPanic.

Theorem C02_total_full : forall builtins g sh v,
  from_grammar builtins g sh = Ok v -> grammar_alts_nonempty g = true ->
  exists r pl,
    from_expr (v_expr v) [] = Ok (r, pl) /\
    (check_ambiguities r pl = Ok tt \/
     exists a b, check_ambiguities r pl = Err (UnboundedMatchable a b)) /\
    forall pick fuel submap,
      (forall rid l sp, In (RSub rid l sp) (r_inputs r) -> assocN rid submap <> None) ->
      (pow2 (S (List.length (r_inputs r))) < fuel)%nat ->
      exists d states m,
        dfa_from_regex pick fuel submap r = Ok (d, states) /\
        wf d /\ trim d /\
        minimize d = Ok m /\
        (forall ids, accepts m ids = accepts d ids) /\
        trim m /\ pairwise_distinguishable m /\ minimal_size m /\
        forall subs, subs_minimised submap pl subs ->
          forall w, accepts_items (mkcdfa m subs) w <-> denotes (v_expr v) w.
Proof.
  intros builtins g sh v Hv Hga.
  destruct (C02_total_model builtins g sh v Hv Hga) as [r [pl [E [_ H]]]].
  destruct (check_tree builtins g sh v Hv) as [_ [Hflat _]].
  exists r, pl. split; [exact E|]. split; [|exact H].
  eapply check_ambiguities_result; eauto.
Qed.
