(** The model of the Hopcroft loop (Model/Minimize.v: intern pool, set ids, hash sets) takes
    exactly the abstract steps of Proofs/HopcroftAbs.v.  [abs] forgets the pool and the ids. *)
From CG Require Import Base.Prelude Model.Dfa Model.Minimize Spec.DfaEquiv Spec.MinimizeSpec
  Proofs.MinimizeBasics Proofs.HopcroftAbs.

Definition content (pool : list (list N)) (id : N) : list N :=
  match pool_lookup pool id with Some b => b | None => [] end.

Definition abs (h : hop) : astate :=
  map (fun id => (content (h_pool h) id, memN id (h_work h))) (h_parts h).

Record Good (U : list N) (h : hop) : Prop := mkGood {
  g_pool : NoDup (h_pool h);
  g_work : incl (h_work h) (h_parts h);
  g_part : APart U (abs h)
}.

Definition stable_lookup (h h' : hop) : Prop :=
  forall j b, pool_lookup (h_pool h) j = Some b -> pool_lookup (h_pool h') j = Some b.

Lemma stable_refl h : stable_lookup h h.
Proof. intros j b H. exact H. Qed.

Lemma stable_trans h1 h2 h3 : stable_lookup h1 h2 -> stable_lookup h2 h3 -> stable_lookup h1 h3.
Proof. intros A B j b H. apply B, A, H. Qed.

Lemma blocks_abs h : blocks (abs h) = map (content (h_pool h)) (h_parts h).
Proof. unfold blocks, abs. rewrite map_map. reflexivity. Qed.

Lemma map_filter_commute {A B} (f : A -> B) (p : A -> bool) (q : B -> bool) l :
  (forall x, In x l -> p x = q (f x)) -> map f (filter p l) = filter q (map f l).
Proof.
  induction l as [|x r IH]; intro H; cbn [filter map]; [reflexivity|].
  rewrite <- (H x (or_introl eq_refl)). destruct (p x); cbn [map]; rewrite IH; auto.
  - intros y Hy. apply H. right. exact Hy.
  - intros y Hy. apply H. right. exact Hy.
Qed.

Lemma NoDup_map_inj {A B} (f : A -> B) l x y :
  NoDup (map f l) -> In x l -> In y l -> f x = f y -> x = y.
Proof.
  induction l as [|z r IH]; cbn [map In]; intros ND Hx Hy E; [contradiction|].
  inversion ND as [|? ? Hn Hr]; subst.
  destruct Hx as [Hx|Hx], Hy as [Hy|Hy]; subst; auto.
  - exfalso. apply Hn. rewrite E. apply in_map. exact Hy.
  - exfalso. apply Hn. rewrite <- E. apply in_map. exact Hx.
Qed.

Section Sim.
  Variable U : list N.

  Lemma good_lookup h id :
    Good U h -> In id (h_parts h) ->
    exists b, pool_lookup (h_pool h) id = Some b /\ b <> [] /\ In b (blocks (abs h)).
  Proof.
    intros G Hid.
    assert (Hb : In (content (h_pool h) id) (blocks (abs h))).
    { rewrite blocks_abs. apply in_map. exact Hid. }
    assert (Hn := ap_nonempty _ _ (g_part _ _ G) _ Hb).
    unfold content in *. destruct (pool_lookup (h_pool h) id) as [b|]; [|congruence].
    exists b. auto.
  Qed.

  Lemma good_parts_nodup h : Good U h -> NoDup (h_parts h).
  Proof.
    intro G. assert (ND := ap_nodup _ _ (g_part _ _ G)). rewrite blocks_abs in ND.
    eapply NoDup_map_inv. exact ND.
  Qed.

  Lemma content_inj h i j :
    Good U h -> In i (h_parts h) -> In j (h_parts h) ->
    content (h_pool h) i = content (h_pool h) j -> i = j.
  Proof.
    intros G Hi Hj E. assert (ND := ap_nodup _ _ (g_part _ _ G)). rewrite blocks_abs in ND.
    eapply NoDup_map_inj; eauto.
  Qed.

  Lemma aflag_abs h id B :
    Good U h -> In id (h_parts h) -> pool_lookup (h_pool h) id = Some B ->
    aflag B (abs h) = memN id (h_work h).
  Proof.
    intros G Hid HB.
    assert (C : content (h_pool h) id = B) by (unfold content; rewrite HB; reflexivity).
    destruct (memN id (h_work h)) eqn:E.
    - apply aflag_true. unfold abs. apply in_map_iff. exists id. rewrite C, E. auto.
    - destruct (aflag B (abs h)) eqn:F; [|reflexivity].
      apply aflag_true in F. unfold abs in F. apply in_map_iff in F. destruct F as [j [Ej Hj]].
      inversion Ej as [[E1 E2]]. assert (j = id).
      { apply (content_inj h); auto. congruence. }
      subst. congruence.
  Qed.

  Lemma aremove_abs h id B (pool' : list (list N)) (work' : list N) :
    Good U h -> In id (h_parts h) -> pool_lookup (h_pool h) id = Some B ->
    (forall j b, pool_lookup (h_pool h) j = Some b -> pool_lookup pool' j = Some b) ->
    (forall j, In j (h_parts h) -> j <> id -> memN j work' = memN j (h_work h)) ->
    map (fun j => (content pool' j, memN j work')) (hs_remove id (h_parts h)) = aremove B (abs h).
  Proof.
    intros G Hid HB St Hw.
    assert (C : content (h_pool h) id = B) by (unfold content; rewrite HB; reflexivity).
    unfold aremove, abs, hs_remove.
    rewrite <- (map_filter_commute (fun j => (content (h_pool h) j, memN j (h_work h)))
                  (fun y => negb (N.eqb y id))).
    - apply map_ext_in. intros j Hj. apply filter_In in Hj. destruct Hj as [Hj Hne].
      apply negb_true_iff, N.eqb_neq in Hne.
      destruct (good_lookup h j G Hj) as [b [Lb _]].
      unfold content. rewrite Lb, (St _ _ Lb), (Hw j Hj Hne). reflexivity.
    - intros j Hj. cbn [fst]. destruct (N.eqb_spec j id) as [->|Hne].
      + rewrite C, (proj2 (bm_eqb_iff B B) eq_refl). reflexivity.
      + destruct (bm_eqb (content (h_pool h) j) B) eqn:E; [|reflexivity].
        apply bm_eqb_iff in E. exfalso. apply Hne. apply (content_inj h); auto. congruence.
  Qed.

  Lemma memN_hs_insert x y s : memN x (hs_insert y s) = N.eqb x y || memN x s.
  Proof.
    destruct (memN x (hs_insert y s)) eqn:E.
    - apply memN_iff, hs_insert_In in E. symmetry. apply orb_true_iff.
      destruct E as [->|E]; [left; apply N.eqb_refl|right; apply memN_iff; exact E].
    - symmetry. apply orb_false_iff. apply memN_false in E. rewrite hs_insert_In in E.
      split; [apply N.eqb_neq; tauto|apply memN_false; tauto].
  Qed.

  Lemma memN_hs_remove x y s : memN x (hs_remove y s) = negb (N.eqb x y) && memN x s.
  Proof.
    destruct (memN x (hs_remove y s)) eqn:E.
    - apply memN_iff, hs_remove_In in E. symmetry. apply andb_true_iff.
      split; [apply negb_true_iff, N.eqb_neq; tauto|apply memN_iff; tauto].
    - symmetry. apply memN_false in E. rewrite hs_remove_In in E.
      destruct (N.eqb_spec x y); cbn [negb andb]; [reflexivity|].
      apply memN_false. tauto.
  Qed.

  (** *** one split *)
  Lemma split_group_sim h fs id B :
    Good U h -> In id (h_parts h) -> pool_lookup (h_pool h) id = Some B ->
    (exists z, In z B /\ In z fs) ->
    exists h', split_group fs h id = Ok h' /\ Good U h' /\ abs h' = asplit (abs h) fs B
               /\ stable_lookup h h'
               /\ (forall j, In j (h_parts h) -> j <> id -> In j (h_parts h')).
  Proof.
    intros G Hid HB Hov.
    assert (P := g_part _ _ G).
    assert (HBb : In B (blocks (abs h))).
    { rewrite blocks_abs. apply in_map_iff. exists id. unfold content. rewrite HB. auto. }
    destruct (inter_diff_facts (fun _ => true) B fs (ap_sorted _ _ P _ HBb)) as [S1 [S2 [Hu [Hd [E1 E2]]]]].
    unfold split_group, asplit. rewrite HB.
    destruct (bm_diff B (bm_inter B fs)) as [|y0 r0] eqn:ED.
    { exists h. split; [reflexivity|]. split; [exact G|]. split; [reflexivity|]. split; [apply stable_refl|auto]. }
    assert (H2' := HBb).
    assert (N2 : bm_diff B (bm_inter B fs) <> []) by (rewrite ED; discriminate).
    rewrite <- ED in *. clear ED.
    set (B1 := bm_inter B fs) in *. set (B2 := bm_diff B B1) in *.
    assert (N1 : B1 <> []).
    { destruct Hov as [z [Hz Hzf]]. intro F. assert (In z B1) by (apply E1; auto). rewrite F in H. contradiction. }
    destruct (pool_intern (h_pool h) B1) as [pool1 id1] eqn:I1.
    destruct (pool_intern pool1 B2) as [pool2 id2] eqn:I2.
    destruct (pool_intern_spec _ _ _ _ I1) as [L1 [_ [ND1 St1]]].
    destruct (pool_intern_spec _ _ _ _ I2) as [L2 [_ [ND2 St2]]].
    assert (L1' : pool_lookup pool2 id1 = Some B1) by (apply St2; exact L1).
    assert (St : forall j b, pool_lookup (h_pool h) j = Some b -> pool_lookup pool2 j = Some b).
    { intros j b Hj. apply St2, St1, Hj. }
    (* the halves are not blocks, so their ids are not in the partition *)
    assert (NB1 : B1 <> B) by (apply (B1_neq_B [] B B1 B2 true true); assumption).
    assert (NB2 : B2 <> B) by (apply (B2_neq_B [] B B1 B2 true true); assumption).
    assert (NB12 : B1 <> B2) by (apply (B1_neq_B2 [] B B1 B2 true true); assumption).
    assert (Hfresh : forall j Bj, pool_lookup pool2 j = Some Bj -> Bj <> B ->
                                 (Bj = B1 \/ Bj = B2) -> ~ In j (h_parts h)).
    { intros j Bj Lj Hne Hh Hj. destruct (good_lookup h j G Hj) as [b [Lb [_ Hb]]].
      assert (b = Bj) by (specialize (St _ _ Lb); congruence). subst b.
      destruct (half_not_block U (abs h) B B1 B2 true true P H2' N1 N2 S1 S2 Hu Hd Bj Hb Hne) as [F1 F2].
      destruct Hh; contradiction. }
    assert (Hid1 : ~ In id1 (h_parts h)) by (apply (Hfresh id1 B1); auto).
    assert (Hid2 : ~ In id2 (h_parts h)) by (apply (Hfresh id2 B2); auto).
    assert (Hid12 : id1 <> id2) by (intro F; subst; congruence).
    set (parts1 := hs_remove id (h_parts h)).
    assert (Pp : hs_insert id2 (hs_insert id1 parts1) = parts1 ++ [id1; id2]).
    { rewrite (hs_insert_new id1 parts1).
      - rewrite hs_insert_new.
        + rewrite <- app_assoc. reflexivity.
        + rewrite in_app_iff. cbn [In]. unfold parts1. rewrite hs_remove_In. intros [[_ F]|[F|[]]]; auto.
      - unfold parts1. rewrite hs_remove_In. tauto. }
    set (work' := if memN id (h_work h)
                  then hs_insert id2 (hs_insert id1 (hs_remove id (h_work h)))
                  else if Nat.leb (List.length B1) (List.length B2) then hs_insert id1 (h_work h)
                       else hs_insert id2 (h_work h)).
    exists (mkhop pool2 (hs_insert id2 (hs_insert id1 parts1)) work').
    assert (Hw1 : ~ In id1 (h_work h)) by (intro F; apply Hid1, (g_work _ _ G), F).
    assert (Hw2 : ~ In id2 (h_work h)) by (intro F; apply Hid2, (g_work _ _ G), F).
    assert (Wold : forall j, In j (h_parts h) -> j <> id -> memN j work' = memN j (h_work h)).
    { intros j Hj Hne. assert (j <> id1) by (intro; subst; contradiction).
      assert (j <> id2) by (intro; subst; contradiction).
      unfold work'. destruct (memN id (h_work h)).
      - rewrite !memN_hs_insert, memN_hs_remove.
        rewrite (proj2 (N.eqb_neq j id2)), (proj2 (N.eqb_neq j id1)), (proj2 (N.eqb_neq j id)); auto.
      - destruct (Nat.leb _ _); rewrite memN_hs_insert.
        + rewrite (proj2 (N.eqb_neq j id1)); auto.
        + rewrite (proj2 (N.eqb_neq j id2)); auto. }
    assert (Fl : aflag B (abs h) = memN id (h_work h)) by (apply aflag_abs; assumption).
    assert (W1 : memN id1 work' = aflag B (abs h) || Nat.leb (List.length B1) (List.length B2)).
    { rewrite Fl. unfold work'. destruct (memN id (h_work h)); cbn [orb].
      - rewrite !memN_hs_insert, N.eqb_refl. apply orb_true_r.
      - destruct (Nat.leb _ _); rewrite memN_hs_insert.
        + rewrite N.eqb_refl. reflexivity.
        + rewrite (proj2 (N.eqb_neq id1 id2)); auto. apply memN_false. exact Hw1. }
    assert (W2 : memN id2 work' = aflag B (abs h) || negb (Nat.leb (List.length B1) (List.length B2))).
    { rewrite Fl. unfold work'. destruct (memN id (h_work h)); cbn [orb].
      - rewrite !memN_hs_insert, N.eqb_refl. reflexivity.
      - destruct (Nat.leb _ _); rewrite memN_hs_insert; cbn [negb].
        + rewrite (proj2 (N.eqb_neq id2 id1)); auto. apply memN_false. exact Hw2.
        + rewrite N.eqb_refl. reflexivity. }
    assert (Habs : abs (mkhop pool2 (hs_insert id2 (hs_insert id1 parts1)) work')
                   = areplace (abs h) B B1 B2
                       (aflag B (abs h) || Nat.leb (List.length B1) (List.length B2))
                       (aflag B (abs h) || negb (Nat.leb (List.length B1) (List.length B2)))).
    { unfold abs at 1. cbn [h_pool h_parts h_work]. rewrite Pp, map_app. unfold areplace. f_equal.
      - apply aremove_abs; assumption.
      - cbn [map]. unfold content. rewrite L1', L2, W1, W2. reflexivity. }
    split; [reflexivity|]. split; [|split; [exact Habs|split; [exact St|]]].
    - constructor; cbn [h_pool h_parts h_work].
      + apply ND2, ND1, (g_pool _ _ G).
      + rewrite Pp. intros j Hj. rewrite in_app_iff. cbn [In]. unfold parts1. rewrite hs_remove_In.
        unfold work' in Hj. destruct (memN id (h_work h)) eqn:Em.
        * apply hs_insert_In in Hj. destruct Hj as [->|Hj]; [auto|].
          apply hs_insert_In in Hj. destruct Hj as [->|Hj]; [auto|].
          apply hs_remove_In in Hj. left. split; [tauto|]. apply (g_work _ _ G). tauto.
        * apply memN_false in Em.
          destruct (Nat.leb _ _); apply hs_insert_In in Hj; destruct Hj as [->|Hj]; auto;
            left; (split; [intro; subst; contradiction|apply (g_work _ _ G); exact Hj]).
      + rewrite Habs. apply areplace_APart; assumption.
    - cbn [h_parts]. intros j Hj Hne. rewrite Pp, in_app_iff. left. unfold parts1. apply hs_remove_In. auto.
  Qed.

  (** *** the inner loops *)
  Lemma overlapping_sets_eq pool fs l :
    (forall id, In id l -> exists b, pool_lookup pool id = Some b) ->
    overlapping_sets pool fs l
    = Ok (filter (fun id => negb (bm_is_disjoint (content pool id) fs)) l).
  Proof.
    induction l as [|id r IH]; intro H; cbn [overlapping_sets filter]; [reflexivity|].
    destruct (H id (or_introl eq_refl)) as [b Hb]. unfold content at 1. rewrite Hb.
    rewrite IH by (intros j Hj; apply H; right; exact Hj). cbn [obind].
    destruct (bm_is_disjoint b fs); reflexivity.
  Qed.

  Lemma aov_abs h fs :
    map (content (h_pool h)) (filter (fun id => negb (bm_is_disjoint (content (h_pool h) id) fs)) (h_parts h))
    = aov (abs h) fs.
  Proof.
    unfold aov. rewrite blocks_abs. apply map_filter_commute. reflexivity.
  Qed.

  Lemma content_stable h h' j :
    Good U h -> In j (h_parts h) -> stable_lookup h h' -> content (h_pool h') j = content (h_pool h) j.
  Proof.
    intros G Hj St. destruct (good_lookup h j G Hj) as [b [Lb _]].
    unfold content. rewrite Lb, (St _ _ Lb). reflexivity.
  Qed.

  Lemma ofold_split_sim fs : forall ov h,
    Good U h -> NoDup ov ->
    (forall id, In id ov -> In id (h_parts h) /\ exists z, In z (content (h_pool h) id) /\ In z fs) ->
    exists h', ofold (split_group fs) ov h = Ok h' /\ Good U h'
               /\ abs h' = fold_left (fun A B => asplit A fs B) (map (content (h_pool h)) ov) (abs h)
               /\ stable_lookup h h'.
  Proof.
    induction ov as [|id r IH]; intros h G ND Hov; cbn [ofold map fold_left].
    - exists h. split; [reflexivity|]. split; [exact G|]. split; [reflexivity|apply stable_refl].
    - inversion ND as [|? ? Hn Hr]; subst.
      destruct (Hov id (or_introl eq_refl)) as [Hid Hz].
      destruct (good_lookup h id G Hid) as [B [LB _]].
      assert (C : content (h_pool h) id = B) by (unfold content; rewrite LB; reflexivity).
      rewrite C in *.
      destruct (split_group_sim h fs id B G Hid LB Hz) as [h1 [E1 [G1 [A1 [St1 K1]]]]].
      rewrite E1. cbn [obind].
      destruct (IH h1 G1 Hr) as [h' [E' [G' [A' St']]]].
      { intros j Hj. destruct (Hov j (or_intror Hj)) as [Hjp Hjz].
        assert (j <> id) by (intro; subst; contradiction).
        split; [apply K1; assumption|]. rewrite (content_stable h h1 j G Hjp St1). exact Hjz. }
      exists h'. split; [exact E'|]. split; [exact G'|]. split; [|eapply stable_trans; eassumption].
      rewrite A', A1. f_equal. apply map_ext_in. intros j Hj.
      destruct (Hov j (or_intror Hj)) as [Hjp _]. apply (content_stable h h1 j G Hjp St1).
  Qed.

  Lemma refine_with_sim h fs :
    Good U h ->
    exists h', refine_with h fs = Ok h' /\ Good U h' /\ abs h' = arefine (abs h) fs /\ stable_lookup h h'.
  Proof.
    intro G. unfold refine_with.
    rewrite overlapping_sets_eq.
    2:{ intros id Hid. destruct (good_lookup h id G Hid) as [b [Lb _]]. eauto. }
    cbn [obind].
    destruct (ofold_split_sim fs (filter (fun id => negb (bm_is_disjoint (content (h_pool h) id) fs)) (h_parts h)) h G) as [h' [E [G' [A' St]]]].
    - apply NoDup_filter. apply good_parts_nodup. exact G.
    - intros id Hid. apply filter_In in Hid. destruct Hid as [Hid Hd]. split; [exact Hid|].
      apply negb_true_iff, bm_is_disjoint_false in Hd. exact Hd.
    - exists h'. split; [exact E|]. split; [exact G'|]. split; [|exact St].
      rewrite A'. unfold arefine. rewrite aov_abs. reflexivity.
  Qed.

  Lemma ofold_refine_sim : forall Xs h,
    Good U h ->
    exists h', ofold refine_with Xs h = Ok h' /\ Good U h' /\ abs h' = fold_left arefine Xs (abs h)
               /\ stable_lookup h h'.
  Proof.
    induction Xs as [|X r IH]; intros h G; cbn [ofold fold_left].
    - exists h. split; [reflexivity|]. split; [exact G|]. split; [reflexivity|apply stable_refl].
    - destruct (refine_with_sim h X G) as [h1 [E1 [G1 [A1 St1]]]]. rewrite E1. cbn [obind].
      destruct (IH h1 G1) as [h' [E' [G' [A' St']]]].
      exists h'. split; [exact E'|]. split; [exact G'|]. split; [rewrite A', A1; reflexivity|].
      eapply stable_trans; eassumption.
  Qed.

  (** *** one iteration of the outer loop *)
  Definition aprocess (image : list transition) (A : astate) (G : list N) : astate :=
    match bm_min G, bm_max G with
    | Some gmin, Some gmax =>
        match find_bounds image gmin gmax with
        | None => A
        | Some ts => fold_left arefine (map snd (transitions_to_group ts G)) A
        end
    | _, _ => A
    end.

  Lemma process_group_sim image h gid G :
    Good U h -> pool_lookup (h_pool h) gid = Some G -> G <> [] ->
    exists h', process_group image h gid = Ok h' /\ Good U h' /\ abs h' = aprocess image (abs h) G.
  Proof.
    intros Gd LG Hne. unfold process_group, aprocess. rewrite LG.
    destruct (bm_min_some G Hne) as [mn ->]. destruct (bm_max_some G Hne) as [mx ->].
    destruct (find_bounds image mn mx) as [ts|].
    - destruct (ofold_refine_sim (map snd (transitions_to_group ts G)) h Gd) as [h' [E [G' [A' _]]]].
      exists h'. auto.
    - exists h. auto.
  Qed.

  Lemma abs_pop h gid G :
    Good U h -> In gid (h_parts h) -> pool_lookup (h_pool h) gid = Some G ->
    let h1 := mkhop (h_pool h) (h_parts h) (hs_remove gid (h_work h)) in
    Good U h1 /\ abs h1 = aclear G (abs h).
  Proof.
    intros Gd Hg LG h1.
    assert (C : content (h_pool h) gid = G) by (unfold content; rewrite LG; reflexivity).
    assert (E : abs h1 = aclear G (abs h)).
    { unfold abs, aclear, h1. cbn [h_pool h_parts h_work]. rewrite map_map. apply map_ext_in.
      intros j Hj. cbn [fst]. rewrite memN_hs_remove.
      destruct (N.eqb_spec j gid) as [->|Hn].
      - rewrite C, (proj2 (bm_eqb_iff G G) eq_refl). reflexivity.
      - destruct (bm_eqb (content (h_pool h) j) G) eqn:EG; [|reflexivity].
        apply bm_eqb_iff in EG. exfalso. apply Hn. apply (content_inj h); auto. congruence. }
    split; [|exact E]. constructor; cbn [h_pool h_parts h_work].
    - apply (g_pool _ _ Gd).
    - intros j Hj. apply hs_remove_In in Hj. apply (g_work _ _ Gd). tauto.
    - rewrite E. apply aclear_APart. apply (g_part _ _ Gd).
  Qed.
End Sim.
