(** Totality of [check_ambiguity_best_effort] (Model/Ambiguity.v): on an automaton whose
    transitions only mention input ids of the input pool the walk returns [Ok tt] or an [Err],
    never [Panic] (the only site is [input_of]) and never [OutOfFuel].

    Fuel measure: the number of entries (with multiplicity) of [trans_states d] that are not yet
    visited.  A recursive call is made on a target [to] of a row of [d_trans d] that has not been
    visited, and marks it, so the measure strictly decreases; the visited list returned by a call
    extends the one given, so the measure never increases along the inner loop. *)
From CG Require Import Base.Prelude Model.Dfa Model.Ambiguity Spec.MinimizeSpec.

(** every input id on a transition that the walk can look at names an input *)
Definition inputs_in_range (d : dfa) : Prop :=
  forall s i t, In (i, t) (transitions_from d s) -> i < lenN (d_inputs d).

(** *** Small facts *)

Lemma amb_assocN_Some_In {V} k (v : V) l : assocN k l = Some v -> In (k, v) l.
Proof.
  induction l as [|[k' v'] l IH]; cbn [assocN]; intros H; [discriminate|].
  destruct (N.eqb_spec k k') as [->|Hne].
  - inversion H; subst. now left.
  - right. now apply IH.
Qed.

Lemma amb_memN_In k l : memN k l = true <-> In k l.
Proof.
  unfold memN. rewrite existsb_exists. split.
  - intros [x [Hin Heq]]. apply N.eqb_eq in Heq. subst; assumption.
  - intros Hin. exists k. split; [assumption|apply N.eqb_refl].
Qed.

Lemma transitions_from_row d s i t :
  In (i, t) (transitions_from d s) ->
  exists row, In (s, row) (d_trans d) /\ In (i, t) row.
Proof.
  unfold transitions_from. destruct (assocN s (d_trans d)) as [row|] eqn:E.
  - intros H. exists row. split; [apply amb_assocN_Some_In; exact E|exact H].
  - intros [].
Qed.

Lemma wf_inputs_in_range : forall d, wf d -> inputs_in_range d.
Proof.
  intros d W s i t H. destruct (transitions_from_row _ _ _ _ H) as [row [Hr Hi]].
  exact (wf_inputs d W s row i t Hr Hi).
Qed.

Lemma transitions_from_target d s i t :
  In (i, t) (transitions_from d s) -> In t (trans_states d).
Proof.
  intros H. destruct (transitions_from_row _ _ _ _ H) as [row [Hr Hi]].
  unfold trans_states. apply in_flat_map. exists (s, row). split; [exact Hr|].
  cbn [fst snd]. right. change t with (snd (i, t)). apply in_map. exact Hi.
Qed.

(** *** Outcomes that are [Ok] or [Err] *)

Definition total {E A} (x : outcome E A) : Prop :=
  (exists a, x = Ok a) \/ (exists e, x = Err e).

Lemma total_Ok {E A} (a : A) : total (@Ok E A a).
Proof. left. exists a. reflexivity. Qed.

Lemma total_Err {E A} (e : E) : total (@Err E A e).
Proof. right. exists e. reflexivity. Qed.

Lemma obind_total {E A B} (x : outcome E A) (f : A -> outcome E B) :
  total x -> (forall a, x = Ok a -> total (f a)) -> total (obind x f).
Proof.
  intros [[a ->]|[e ->]] Hf; cbn [obind].
  - apply Hf. reflexivity.
  - apply total_Err.
Qed.

Lemma omap_total {E A B} (f : A -> outcome E B) (l : list A) :
  (forall a, In a l -> total (f a)) -> total (omap f l).
Proof.
  induction l as [|a l IH]; intros Hf; cbn [omap]; [apply total_Ok|].
  apply obind_total; [apply Hf; left; reflexivity|]. intros y _.
  apply obind_total; [apply IH; intros b Hb; apply Hf; right; exact Hb|].
  intros ys _. apply total_Ok.
Qed.

Lemma input_of_ok d i : i < lenN (d_inputs d) -> exists x, input_of d i = Ok x.
Proof.
  intros Hlt. unfold input_of, nthN.
  destruct (nth_error (d_inputs d) (N.to_nat i)) as [x|] eqn:E.
  - exists x. reflexivity.
  - exfalso. apply nth_error_None in E. unfold lenN in Hlt. lia.
Qed.

Lemma check_state_total d s path : inputs_in_range d -> total (check_state d s path).
Proof.
  intros Hr. unfold check_state.
  apply obind_total.
  - apply omap_total. intros [i t] Hin. cbn [fst snd].
    destruct (input_of_ok d i (Hr s i t Hin)) as [x ->]. cbn [obind]. apply total_Ok.
  - intros ins _. cbv zeta.
    match goal with |- total (if ?c then _ else _) => destruct c end; [apply total_Err|].
    match goal with |- total (match ?c with _ => _ end) => destruct c as [[[t l] r]|] end;
      [apply total_Err|apply total_Ok].
Qed.

(** *** The measure *)

Definition unvisited (l : list N) (visited : list N) : nat :=
  List.length (filter (fun x => negb (memN x visited)) l).

Lemma memN_mono k (v v' : list N) :
  (forall x, In x v -> In x v') -> memN k v = true -> memN k v' = true.
Proof. intros Hi Hm. apply amb_memN_In. apply Hi. apply amb_memN_In. exact Hm. Qed.

Lemma unvisited_le_length l v : (unvisited l v <= List.length l)%nat.
Proof.
  unfold unvisited. induction l as [|e l IH]; cbn [filter List.length]; [lia|].
  destruct (negb (memN e v)); cbn [List.length]; lia.
Qed.

Lemma unvisited_antitone l v v' :
  (forall x, In x v -> In x v') -> (unvisited l v' <= unvisited l v)%nat.
Proof.
  intros Hi. unfold unvisited. induction l as [|e l IH]; cbn [filter List.length]; [lia|].
  destruct (memN e v) eqn:Hm.
  - rewrite (memN_mono _ _ _ Hi Hm). cbn [negb]. exact IH.
  - cbn [negb]. destruct (negb (memN e v')); cbn [List.length]; lia.
Qed.

Lemma memN_cons_same p v : memN p (p :: v) = true.
Proof. apply amb_memN_In. left; reflexivity. Qed.

Lemma unvisited_mark (l : list N) p v :
  memN p v = false -> In p l -> (unvisited l (p :: v) < unvisited l v)%nat.
Proof.
  intros Hm. unfold unvisited. induction l as [|k l IH]; intros Hin; [destruct Hin|].
  cbn [filter].
  pose proof (unvisited_antitone l v (p :: v) (fun x H => or_intror H)) as Hle.
  unfold unvisited in Hle.
  destruct Hin as [->|Hin].
  - rewrite Hm, memN_cons_same. cbn [negb List.length]. lia.
  - specialize (IH Hin).
    destruct (memN k v) eqn:Hkv.
    + rewrite (memN_mono k v (p :: v) (fun x H => or_intror H) Hkv). cbn [negb]. exact IH.
    + cbn [negb]. destruct (negb (memN k (p :: v))); cbn [List.length]; lia.
Qed.

(** *** The walk *)

Definition walk_good (visited : list N) (x : ares (list N)) : Prop :=
  (exists v', x = Ok v' /\ forall y, In y visited -> In y v') \/ (exists e, x = Err e).

Section WalkTotal.
  Variable d : dfa.
  Hypothesis Hrange : inputs_in_range d.

  Lemma walk_total_gen : forall fuel s visited path,
    (unvisited (trans_states d) visited < fuel)%nat ->
    walk_good visited (walk fuel d s visited path).
  Proof.
    induction fuel as [|f IHf]; intros s visited path Hlt; [lia|].
    cbn [walk].
    destruct (check_state_total d s path Hrange) as [[u ->]|[e ->]]; cbn [obind];
      [|right; exists e; reflexivity].
    assert (Hle : (unvisited (trans_states d) visited <= f)%nat) by lia. clear Hlt.
    assert (Hts : forall i t, In (i, t) (transitions_from d s) ->
                    i < lenN (d_inputs d) /\ In t (trans_states d)).
    { intros i t H. split; [exact (Hrange s i t H)|exact (transitions_from_target d s i t H)]. }
    revert Hts. generalize (transitions_from d s). intros ts.
    revert visited Hle. induction ts as [|[i to] rest IHts]; intros visited Hle Hts.
    - left. exists visited. split; [reflexivity|auto].
    - cbn -[memN unvisited walk In].
      assert (Hrest : forall i t, In (i, t) rest ->
                        i < lenN (d_inputs d) /\ In t (trans_states d)).
      { intros i' t' H. apply Hts. right; exact H. }
      destruct (memN to visited) eqn:Hm; [apply IHts; assumption|].
      destruct (Hts i to (or_introl eq_refl)) as [Hi Hto].
      destruct (input_of_ok d i Hi) as [x ->]. cbn [obind].
      assert (Hlt : (unvisited (trans_states d) (to :: visited) < f)%nat).
      { pose proof (unvisited_mark (trans_states d) to visited Hm Hto). lia. }
      destruct (IHf to (to :: visited) (path ++ [x]) Hlt) as [[v1 [-> Hext]]|[e ->]];
        cbn [obind]; [|right; exists e; reflexivity].
      assert (Hinc : forall y, In y visited -> In y v1).
      { intros y Hy. apply Hext. right; exact Hy. }
      assert (Hle1 : (unvisited (trans_states d) v1 <= f)%nat).
      { pose proof (unvisited_antitone (trans_states d) visited v1 Hinc). lia. }
      destruct (IHts v1 Hle1 Hrest) as [[v2 [E2 Hext2]]|[e E2]].
      + left. exists v2. split; [exact E2|]. intros y Hy. apply Hext2. apply Hinc. exact Hy.
      + right. exists e. exact E2.
  Qed.
End WalkTotal.

Theorem check_ambiguity_total : forall d, inputs_in_range d ->
  check_ambiguity_best_effort d = Ok tt \/ exists e, check_ambiguity_best_effort d = Err e.
Proof.
  intros d Hr. unfold check_ambiguity_best_effort.
  assert (Hlt : (unvisited (trans_states d) [] < S (S (List.length (trans_states d))))%nat).
  { pose proof (unvisited_le_length (trans_states d) []). lia. }
  destruct (walk_total_gen d Hr _ (d_start d) [] [] Hlt) as [[v [-> _]]|[e ->]]; cbn [obind].
  - left. reflexivity.
  - right. exists e. reflexivity.
Qed.

(** never [Panic], never [OutOfFuel] *)
Corollary check_ambiguity_no_panic : forall d, inputs_in_range d ->
  forall site, check_ambiguity_best_effort d <> Panic site.
Proof. intros d Hr site. destruct (check_ambiguity_total d Hr) as [->|[e ->]]; discriminate. Qed.

Corollary check_ambiguity_fuel : forall d, inputs_in_range d ->
  check_ambiguity_best_effort d <> OutOfFuel.
Proof. intros d Hr. destruct (check_ambiguity_total d Hr) as [->|[e ->]]; discriminate. Qed.

Corollary check_ambiguity_total_wf : forall d, wf d ->
  check_ambiguity_best_effort d = Ok tt \/ exists e, check_ambiguity_best_effort d = Err e.
Proof. intros d W. apply check_ambiguity_total. apply wf_inputs_in_range. exact W. Qed.

Print Assumptions check_ambiguity_total.
Print Assumptions check_ambiguity_total_wf.
