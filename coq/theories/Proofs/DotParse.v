(** C16, syntactic level: the text [Model.Dot.render_doc] makes of a list of well-formed lines is
    read by [Spec.DotRead] (lexer, then parser) as exactly the statements the lines stand for.
    This is the codec theorem shared by the two printers ([read_render_doc]). *)
From CG Require Import Base.Prelude Spec.DotRead Model.Dot Proofs.DotLex.
Local Open Scope string_scope.

(** ** Induction on nested items *)
Section ItemInd.
  Variable P : item -> Prop.
  Hypothesis Hline : forall l, P (ILine l).
  Hypothesis Hblock : forall name body, Forall P body -> P (IBlock name body).
  Fixpoint item_ind2 (i : item) : P i :=
    match i with
    | ILine l => Hline l
    | IBlock name body =>
        Hblock name body
          ((fix go (l : list item) : Forall P l :=
              match l with
              | [] => Forall_nil _
              | x :: r => Forall_cons _ (item_ind2 x) (go r)
              end) body)
    end.
End ItemInd.

Inductive item_ok : item -> Prop :=
| ok_line l : line_ok l -> item_ok (ILine l)
| ok_block name body : id_ok name -> Forall item_ok body -> item_ok (IBlock name body).

(** ** Tokens and statements of items *)
Fixpoint item_toks (i : item) : list tok :=
  match i with
  | ILine l => line_toks l
  | IBlock name body =>
      ([TId "subgraph"; TId name; TLB] ++ flat_map item_toks body ++ [TRB])%list
  end.
Definition items_toks (l : list item) : list tok := flat_map item_toks l.

Definition line_stmts (l : line) : list stmt :=
  match l with
  | LBlank => []
  | LNodeDefault sh => [SAttr KNode [("shape", sh)]]
  | LNode i b => [SNode i [("label", qdec b)]]
  | LEdge a b => [SEdge [a; b] []]
  | LEdgeQ a b k body => [SEdge [a; b] [(k, qdec body)]]
  | LAssign k v => [SAssign k v]
  | LAssignQ k body => [SAssign k (qdec body)]
  end.

Fixpoint item_stmts (i : item) : list stmt :=
  match i with
  | ILine l => line_stmts l
  | IBlock name body => [SSub (Some name) (flat_map item_stmts body)]
  end.
Definition items_stmts (l : list item) : list stmt := flat_map item_stmts l.

(** ** Lexing items *)
Lemma render_block depth name body :
  render_item depth (IBlock name body)
  = tabs (S depth) ++ "subgraph " ++ name ++ " {" ++ nl ++ render_items (S depth) body
    ++ tabs (S depth) ++ "}" ++ nl.
Proof.
  cbn [render_item].
  assert (H : (fix go (l : list item) : string :=
                 match l with [] => "" | x :: r => render_item (S depth) x ++ go r end) body
              = render_items (S depth) body).
  { induction body as [|x r IH]; [reflexivity|]. cbn [render_items]. now rewrite IH. }
  now rewrite H.
Qed.

Lemma lex_item : forall i, item_ok i -> forall depth,
  lsteps L0 (render_item depth i) = Some (L0, item_toks i).
Proof.
  induction i as [l|name body IH] using item_ind2; intros Hok depth.
  - inversion Hok as [l' Hl|]; subst. destruct l as [|sh|i b|a b|a b k q|k v|k q].
    + reflexivity.
    + change (render_item depth (ILine (LNodeDefault sh))) with (tabs (S depth) ++ render_line (LNodeDefault sh) ++ nl).
      apply (lsteps_cat L0 _ _ L0 [] L0 _ (lsteps_tabs _)). exact (lex_line_body _ Hl).
    + change (render_item depth (ILine (LNode i b))) with (tabs (S depth) ++ render_line (LNode i b) ++ nl).
      apply (lsteps_cat L0 _ _ L0 [] L0 _ (lsteps_tabs _)). exact (lex_line_body _ Hl).
    + change (render_item depth (ILine (LEdge a b))) with (tabs (S depth) ++ render_line (LEdge a b) ++ nl).
      apply (lsteps_cat L0 _ _ L0 [] L0 _ (lsteps_tabs _)). exact (lex_line_body _ Hl).
    + change (render_item depth (ILine (LEdgeQ a b k q))) with (tabs (S depth) ++ render_line (LEdgeQ a b k q) ++ nl).
      apply (lsteps_cat L0 _ _ L0 [] L0 _ (lsteps_tabs _)). exact (lex_line_body _ Hl).
    + change (render_item depth (ILine (LAssign k v))) with (tabs (S depth) ++ render_line (LAssign k v) ++ nl).
      apply (lsteps_cat L0 _ _ L0 [] L0 _ (lsteps_tabs _)). exact (lex_line_body _ Hl).
    + change (render_item depth (ILine (LAssignQ k q))) with (tabs (S depth) ++ render_line (LAssignQ k q) ++ nl).
      apply (lsteps_cat L0 _ _ L0 [] L0 _ (lsteps_tabs _)). exact (lex_line_body _ Hl).
  - inversion Hok as [|n b [Hid _] Hbody]; subst.
    rewrite render_block.
    apply (lsteps_cat L0 _ _ L0 [] L0 _ (lsteps_tabs _)).
    change (item_toks (IBlock name body))
      with ([TId "subgraph"] ++ ([TId name; TLB] ++ (items_toks body ++ [TRB])))%list.
    apply (lsteps_cat L0 "subgraph " _ L0 [TId "subgraph"]); [reflexivity|].
    replace (name ++ " {" ++ nl ++ render_items (S depth) body ++ tabs (S depth) ++ "}" ++ nl)
      with (name ++ String " "%char ("{" ++ nl ++ render_items (S depth) body ++ tabs (S depth) ++ "}" ++ nl))
      by reflexivity.
    eapply lsteps_ident_then; [exact Hid|reflexivity|].
    apply (lsteps_cat (LIdent name) (String " "%char ("{" ++ nl)) _ L0 [TId name; TLB]); [reflexivity|].
    apply (lsteps_cat L0 (render_items (S depth) body) _ L0 (items_toks body)).
    + clear Hok Hid. induction body as [|x r IHr]; [reflexivity|].
      inversion IH as [|? ? Hx Hr]; subst. inversion Hbody as [|? ? Hx' Hr']; subst.
      cbn [render_items items_toks flat_map].
      apply (lsteps_cat L0 _ _ L0 _ L0 _ (Hx Hx' _)). exact (IHr Hr Hr').
    + apply (lsteps_cat L0 _ _ L0 [] L0 _ (lsteps_tabs _)). reflexivity.
Qed.

Lemma lex_items l : Forall item_ok l -> forall depth,
  lsteps L0 (render_items depth l) = Some (L0, items_toks l).
Proof.
  induction 1 as [|x r Hx Hr IH]; intro depth; [reflexivity|].
  cbn [render_items items_toks flat_map].
  apply (lsteps_cat L0 _ _ L0 _ L0 _ (lex_item x Hx depth)). apply IH.
Qed.

(** ** Parsing the tokens of items *)
Lemma tok_id_ok i : id_ok i -> tok_id (TId i) = Some i.
Proof. intros [_ H]. unfold tok_id. now rewrite H. Qed.

Lemma tok_kw_ok i : id_ok i -> tok_kw (TId i) = None.
Proof. intros [_ H]. exact H. Qed.

Lemma kw_node : keyword_of "node" = Some KwNode. Proof. reflexivity. Qed.
Lemma kw_subgraph : keyword_of "subgraph" = Some KwSubgraph. Proof. reflexivity. Qed.
Lemma kw_digraph : keyword_of "digraph" = Some KwDigraph. Proof. reflexivity. Qed.
Lemma kw_shape : keyword_of "shape" = None. Proof. reflexivity. Qed.
Lemma kw_label : keyword_of "label" = None. Proof. reflexivity. Qed.

Ltac kw :=
  repeat (first [ rewrite kw_node | rewrite kw_subgraph | rewrite kw_digraph | rewrite kw_shape | rewrite kw_label
                | match goal with H : keyword_of _ = None |- _ => rewrite H end ]; cbn).

(** the first token of what follows a statement is never a semicolon *)
Definition no_semi_head (ts : list tok) : Prop :=
  match ts with TSemi :: _ => False | _ => True end.

Lemma items_toks_head l rest : no_semi_head rest -> no_semi_head (items_toks l ++ rest)%list.
Proof.
  intro H. induction l as [|x r IH]; [exact H|].
  cbn [items_toks flat_map]. rewrite <- app_assoc.
  destruct x as [[|sh|i b|a b|a b k q|k v|k q]|name body]; cbn; try exact I. exact IH.
Qed.

Lemma skip_semi_id ts : no_semi_head ts -> skip_semi ts = ts.
Proof. destruct ts as [|[] ts]; cbn; intro H; try reflexivity. now elim H. Qed.

Lemma parse_items : forall l, Forall item_ok l -> forall fuel rest,
  (List.length (items_toks l) < fuel)%nat ->
  p_stmts fuel (items_toks l ++ TRB :: rest)%list = Some (items_stmts l, rest).
Proof.
  assert (Hone : forall i, item_ok i -> forall l, Forall item_ok l ->
            (forall fuel rest, (List.length (items_toks l) < fuel)%nat ->
                               p_stmts fuel (items_toks l ++ TRB :: rest)%list = Some (items_stmts l, rest)) ->
            forall fuel rest, (List.length (item_toks i ++ items_toks l) < fuel)%nat ->
              p_stmts fuel ((item_toks i ++ items_toks l) ++ TRB :: rest)%list
              = Some ((item_stmts i ++ items_stmts l)%list, rest)).
  { induction i as [ln|name body IHbody] using item_ind2; intros Hok l Hl IHl fuel rest Hf.
    - inversion Hok as [l' Hln|]; subst.
      destruct ln as [|sh|i b|a b|a b k q|k v|k q]; cbn [item_toks line_toks item_stmts line_stmts] in *.
      + exact (IHl fuel rest Hf).
      + destruct Hln as [_ Hkw]. destruct fuel as [|f]; [inversion Hf|].
        cbn [app p_stmts p_stmt]. cbn. kw.
        rewrite IHl; [reflexivity|]. cbn in Hf. lia.
      + destruct Hln as [[_ Hkw] _]. destruct fuel as [|f]; [inversion Hf|].
        cbn [app p_stmts p_stmt]. cbn. kw.
        rewrite IHl; [reflexivity|]. cbn in Hf. lia.
      + destruct Hln as [[_ Hkwa] [_ Hkwb]]. destruct fuel as [|f]; [inversion Hf|].
        cbn [app p_stmts p_stmt]. cbn. kw.
        rewrite IHl; [reflexivity|]. cbn in Hf. lia.
      + destruct Hln as [[_ Hkwa] [[_ Hkwb] [[_ Hkwk] _]]]. destruct fuel as [|f]; [inversion Hf|].
        cbn [app p_stmts p_stmt]. cbn. kw.
        rewrite IHl; [reflexivity|]. cbn in Hf. lia.
      + destruct Hln as [[_ Hkwk] [_ Hkwv]]. destruct fuel as [|f]; [inversion Hf|].
        cbn [app p_stmts p_stmt]. cbn. kw.
        rewrite IHl; [reflexivity|]. cbn in Hf. lia.
      + destruct Hln as [[_ Hkwk] _]. destruct fuel as [|f]; [inversion Hf|].
        cbn [app p_stmts p_stmt]. cbn. kw.
        rewrite IHl; [reflexivity|]. cbn in Hf. lia.
    - inversion Hok as [|n b [_ Hkw] Hbody]; subst.
      destruct fuel as [|f]; [inversion Hf|].
      assert (Hlen : (List.length (items_toks body) + 4 + List.length (items_toks l) < S f)%nat).
      { revert Hf. cbn [item_toks]. change (flat_map item_toks body) with (items_toks body).
        rewrite !app_length. cbn [List.length]. lia. }
      (* the body, by the induction hypothesis on its items *)
      assert (Hb : forall fuel rest, (List.length (items_toks body) < fuel)%nat ->
                     p_stmts fuel (items_toks body ++ TRB :: rest)%list = Some (items_stmts body, rest)).
      { clear Hf Hok Hlen. induction body as [|x r IHr]; intros fu re Hfu.
        - destruct fu as [|fu]; [inversion Hfu|]. reflexivity.
        - inversion IHbody as [|? ? Hx Hr]; subst. inversion Hbody as [|? ? Hx' Hr']; subst.
          cbn [items_toks items_stmts flat_map].
          apply (Hx Hx' r Hr' (IHr Hr Hr')). exact Hfu. }
      cbn [item_toks item_stmts].
      change (flat_map item_toks body) with (items_toks body).
      change (flat_map item_stmts body) with (items_stmts body).
      rewrite <- !app_assoc. cbn [app p_stmts p_stmt]. cbn. kw.
      rewrite Hb.
      2:{ lia. }
      rewrite skip_semi_id by (apply items_toks_head; exact I).
      rewrite IHl; [reflexivity|]. lia. }
  induction 1 as [|x r Hx Hr IH]; intros fuel rest Hf.
  - destruct fuel as [|f]; [inversion Hf|]. reflexivity.
  - cbn [items_toks items_stmts flat_map]. apply (Hone x Hx r Hr IH). exact Hf.
Qed.

(** ** The whole file *)
Lemma p_graph_ok name toks ss :
  keyword_of name = None ->
  p_stmts (S (List.length toks)) toks = Some (ss, []) ->
  p_graph (TId "digraph" :: TId name :: TLB :: toks) = Some (mkast false true (Some name) ss).
Proof.
  intros Hkw H. unfold p_graph, tok_kw, tok_id. rewrite kw_digraph. cbv beta iota zeta.
  rewrite Hkw. cbv beta iota zeta. rewrite H. reflexivity.
Qed.

Theorem read_render_doc name l :
  id_ok name -> Forall item_ok l ->
  read (render_doc name l) = Some (graph_of_ast (mkast false true (Some name) (items_stmts l))).
Proof.
  intros Hname Hl. unfold read.
  assert (Hlex : lex (render_doc name l)
                 = Some ([TId "digraph"; TId name; TLB] ++ items_toks l ++ [TRB])%list).
  { unfold lex, render_doc.
    replace (lex_from L0 ("digraph " ++ name ++ " {" ++ nl ++ render_items 0 l ++ "}" ++ nl))
      with (lex_from L0 ("digraph " ++ (name ++ String " "%char ("{" ++ nl ++ render_items 0 l ++ "}" ++ nl))))
      by reflexivity.
    rewrite <- (app_nil_r ([TId "digraph"; TId name; TLB] ++ items_toks l ++ [TRB])%list).
    apply (lex_from_lsteps L0 _ L0 ([TId "digraph"; TId name; TLB] ++ items_toks l ++ [TRB])%list []);
      [|reflexivity].
    change ([TId "digraph"; TId name; TLB] ++ items_toks l ++ [TRB])%list
      with ([TId "digraph"] ++ ([TId name; TLB] ++ (items_toks l ++ [TRB])))%list.
    apply (lsteps_cat L0 "digraph " _ L0 [TId "digraph"]); [reflexivity|].
    eapply lsteps_ident_then; [exact (proj1 Hname)|reflexivity|].
    apply (lsteps_cat (LIdent name) (String " "%char ("{" ++ nl)) _ L0 [TId name; TLB]); [reflexivity|].
    apply (lsteps_cat L0 (render_items 0 l) _ L0 (items_toks l) L0 [TRB] (lex_items l Hl 0)).
    reflexivity. }
  rewrite Hlex. destruct Hname as [_ Hkw]. cbn [app].
  rewrite (p_graph_ok name (items_toks l ++ [TRB])%list (items_stmts l) Hkw); [reflexivity|].
  apply (parse_items l Hl). rewrite app_length. cbn. lia.
Qed.
