(** The literal lists of the tables have no repeated entry unless the grammar text contains an EMPTY
    description string: [get_all_literals] de-duplicates (text, description) with the description
    as an OPTION and then prints [unwrap_or("")], so a literal that occurs both without a
    description and with the description "" is listed twice ([cmd (x a | y a "");] gives
    [literals=("y" "x" "a" "a")]; harmless: the first entry has no transition anywhere and both
    matchers skip an entry without a transition).  This file proves that this is the only way:
    if no description of the grammar is empty, every valid literal order is duplicate-free. *)
From CG Require Import Base.Prelude Model.Ast Model.Check Spec.Choice.
From CG Require Import Proofs.CheckChoice Proofs.CheckLemmas Proofs.CheckSpans Proofs.CheckTotal Proofs.CheckProvenance.

(** *** descriptions of a tree: of its literals, and the distributive ones *)
Fixpoint tdescrs (e : expr) : list (option string) :=
  match e with
  | Terminal _ d _ _ => [d]
  | NontermRef _ _ _ | Command _ _ _ _ => []
  | Subword c _ _ | Optional c _ | Many1 c _ | DistDescr c _ _ => tdescrs c
  | Sequence cs _ | Alternative cs _ | Fallback cs _ => flat_map tdescrs cs
  end.

Fixpoint ddescrs (e : expr) : list string :=
  match e with
  | Terminal _ _ _ _ | NontermRef _ _ _ | Command _ _ _ _ => []
  | DistDescr c d _ => d :: ddescrs c
  | Subword c _ _ | Optional c _ | Many1 c _ => ddescrs c
  | Sequence cs _ | Alternative cs _ | Fallback cs _ => flat_map ddescrs cs
  end.

Definition dgood (d : option string) : Prop := d <> Some EmptyString.
Definition tok (e : expr) : Prop := forall x, In x (tdescrs e) -> dgood x.
Definition dok (e : expr) : Prop := forall s, In s (ddescrs e) -> s <> EmptyString.

Lemma tok_list cs : (forall x, In x (flat_map tdescrs cs) -> dgood x) <-> Forall tok cs.
Proof.
  unfold tok. induction cs as [|y r IH]; cbn [flat_map]; split; intro H.
  - constructor.
  - intros c [].
  - constructor; [intros c Hc; apply H; apply in_or_app; auto|]. apply IH. intros c Hc. apply H. apply in_or_app; auto.
  - inversion H as [|? ? Hx Hr]; subst. intros c Hc. apply in_app_or in Hc. destruct Hc as [Hc|Hc]; [auto|].
    exact (proj2 IH Hr c Hc).
Qed.

Lemma dok_list cs : (forall x, In x (flat_map ddescrs cs) -> x <> EmptyString) <-> Forall dok cs.
Proof.
  unfold dok. induction cs as [|y r IH]; cbn [flat_map]; split; intro H.
  - constructor.
  - intros c [].
  - constructor; [intros c Hc; apply H; apply in_or_app; auto|]. apply IH. intros c Hc. apply H. apply in_or_app; auto.
  - inversion H as [|? ? Hx Hr]; subst. intros c Hc. apply in_app_or in Hc. destruct Hc as [Hc|Hc]; [auto|].
    exact (proj2 IH Hr c Hc).
Qed.

(** [distribute] hands a literal a distributive description or the pending one: nothing empty appears *)
Lemma distribute_tok e : forall d,
  tok e -> dok e -> dgood d -> tok (fst (distribute e d)) /\ dgood (snd (distribute e d)).
Proof.
  assert (Hl : forall cs,
             Forall (fun e => forall d, tok e -> dok e -> dgood d ->
                                        tok (fst (distribute e d)) /\ dgood (snd (distribute e d))) cs ->
             forall d, Forall tok cs -> Forall dok cs -> dgood d ->
                       Forall tok (fst (distribute_list cs d)) /\ dgood (snd (distribute_list cs d))).
  { induction 1 as [|y l Hy _ IH]; intros d Ht Hd Hg; cbn [distribute_list]; [split; [constructor|exact Hg]|].
    inversion Ht as [|? ? Ht1 Ht2]; subst. inversion Hd as [|? ? Hd1 Hd2]; subst.
    destruct (Hy d Ht1 Hd1 Hg) as [A1 A2]. destruct (distribute y d) as [c' d1]. cbn [fst snd] in *.
    destruct (IH d1 Ht2 Hd2 A2) as [B1 B2]. destruct (distribute_list l d1) as [r' d2]. cbn [fst snd] in *.
    split; [constructor; assumption|exact B2]. }
  induction e using expr_ind'; intros d0 Ht Hd Hg.
  - cbn. destruct d as [x|].
    + cbn. split; [exact Ht|exact Hg].
    + destruct d0 as [x|]; cbn; [|split; [exact Ht|exact Hg]].
      split; [intros y [<-|[]]; exact Hg|discriminate].
  - cbn. split; [exact Ht|exact Hg].
  - cbn. split; [exact Ht|exact Hg].
  - rewrite distribute_seq. unfold tok, dok in Ht, Hd. cbn [tdescrs ddescrs] in Ht, Hd.
    destruct (Hl cs H d0 (proj1 (tok_list cs) Ht) (proj1 (dok_list cs) Hd) Hg) as [A B].
    destruct (distribute_list cs d0) as [cs' d']. cbn [fst snd] in *. split; [|exact B].
    unfold tok. cbn [tdescrs]. apply tok_list. exact A.
  - cbn [distribute fst snd]. split; [|exact Hg]. unfold tok in *. cbn [tdescrs] in *. rewrite flat_map_map.
    unfold dok in Hd. cbn [ddescrs] in Hd.
    intros x Hx. apply in_flat_map in Hx. destruct Hx as [c [Hc Hx]]. rewrite Forall_forall in H.
    refine (proj1 (H c Hc d0 _ _ Hg) x Hx).
    + intros y Hy. apply Ht. apply in_flat_map. eauto.
    + intros y Hy. apply Hd. apply in_flat_map. eauto.
  - cbn [distribute]. specialize (IHe d0 Ht Hd Hg). destruct (distribute e d0). exact IHe.
  - cbn [distribute]. specialize (IHe d0 Ht Hd Hg). destruct (distribute e d0). exact IHe.
  - cbn [distribute fst snd]. split; [|exact Hg]. unfold dok in Hd. cbn [ddescrs] in Hd.
    apply (IHe (Some d)); [exact Ht|intros s Hs; apply Hd; right; exact Hs|].
    intro F. inversion F. apply (Hd d); [left; reflexivity|assumption].
  - rewrite distribute_fb. unfold tok, dok in Ht, Hd. cbn [tdescrs ddescrs] in Ht, Hd.
    destruct (Hl cs H d0 (proj1 (tok_list cs) Ht) (proj1 (dok_list cs) Hd) Hg) as [A B].
    destruct (distribute_list cs d0) as [cs' d']. cbn [fst snd] in *. split; [|exact B].
    unfold tok. cbn [tdescrs]. apply tok_list. exact A.
  - cbn [distribute]. specialize (IHe d0 Ht Hd Hg). destruct (distribute e d0). exact IHe.
Qed.

Lemma specialize_tdescrs sh us bi fs plain e : tdescrs (specialize sh us bi fs plain e) = tdescrs e.
Proof.
  induction e using expr_ind'; cbn [specialize tdescrs]; try reflexivity; try assumption;
    try (rewrite flat_map_map; apply flat_map_ext_Forall; exact H).
  unfold specialize_ref. destruct (assoc n us); [reflexivity|]. destruct (assoc n fs) as [[c s]|]; [reflexivity|].
  destruct (mem_str n plain); [reflexivity|]. destruct (assoc n bi); reflexivity.
Qed.

Lemma flatten_tdescrs e : tdescrs (flatten e) = tdescrs e.
Proof.
  induction e using expr_ind'; cbn [flatten tdescrs]; try reflexivity; try assumption;
    rewrite flat_map_map; apply flat_map_ext_Forall; exact H.
Qed.

Lemma collapse_tdescrs e : tdescrs (collapse e) = tdescrs e.
Proof.
  induction e using expr_ind'; cbn [collapse tdescrs]; try reflexivity; try assumption;
    try (rewrite flat_map_map; apply flat_map_ext_Forall; exact H).
  apply flatten_tdescrs.
Qed.

Lemma propagate_tdescrs e : forall lvl, tdescrs (propagate e lvl) = tdescrs e.
Proof.
  induction e using expr_ind'; intro lvl; try reflexivity; try (cbn [propagate tdescrs]; apply IHe).
  - cbn [propagate tdescrs]. rewrite flat_map_map. apply flat_map_ext_Forall.
    eapply Forall_impl; [|exact H]. intros a Ha. apply Ha.
  - cbn [propagate tdescrs]. rewrite flat_map_map. apply flat_map_ext_Forall.
    eapply Forall_impl; [|exact H]. intros a Ha. apply Ha.
  - rewrite propagate_fb. cbn [tdescrs]. generalize 0 as i.
    induction H as [|x l Hx _ IH]; intro i; cbn; [reflexivity|]. rewrite Hx, IH. reflexivity.
Qed.

Lemma map_tok (h : expr -> expr) cs :
  Forall (fun c => tok c -> tok (h c)) cs -> Forall tok cs -> Forall tok (map h cs).
Proof. induction 1; intro Hf; [constructor|]. inversion Hf; subst. cbn. constructor; auto. Qed.

Lemma resolve_tok t e : (forall n rhs, assoc n t = Some rhs -> tok rhs) -> tok e -> tok (resolve t e).
Proof.
  intro Ht. induction e using expr_ind'; intro Hw; cbn [resolve]; try exact Hw; try (apply IHe; exact Hw).
  - destruct (assoc n t) eqn:E; [eapply Ht; eauto|exact Hw].
  - unfold tok in *. cbn [tdescrs] in *. apply tok_list. apply map_tok; [exact H|]. apply tok_list. exact Hw.
  - unfold tok in *. cbn [tdescrs] in *. apply tok_list. apply map_tok; [exact H|]. apply tok_list. exact Hw.
  - unfold tok in *. cbn [tdescrs] in *. apply tok_list. apply map_tok; [exact H|]. apply tok_list. exact Hw.
Qed.

Lemma resolve_in_order_tok ord : forall t,
  (forall n rhs, assoc n t = Some rhs -> tok rhs) ->
  forall n rhs, assoc n (resolve_in_order ord t) = Some rhs -> tok rhs.
Proof.
  induction ord as [|n r IH]; intros t Ht; cbn [resolve_in_order]; [exact Ht|].
  destruct (assoc n t) as [rhs|] eqn:E; [|apply IH; exact Ht].
  apply IH. intros m rhs' Hm. rewrite assoc_update_def in Hm.
  destruct (String.eqb m n); [|eapply Ht; eauto].
  destruct (assoc m t); [|discriminate]. inversion Hm; subst.
  apply resolve_tok; [exact Ht|eapply Ht; eauto].
Qed.

(** no description of the grammar is the empty string *)
Definition grammar_descr_ok (g : grammar) : Prop :=
  forall s, In s g -> tok (stmt_expr s) /\ dok (stmt_expr s).

Theorem from_grammar_tok builtins g sh v :
  grammar_descr_ok g -> from_grammar builtins g sh = Ok v -> tok (v_expr v).
Proof.
  intros Hg H. apply from_grammar_ok in H. rename H into A.
  rewrite (a_v _ _ _ _ A). cbn [v_expr]. unfold a_expr5.
  intros z Hz. rewrite propagate_tdescrs, collapse_tdescrs in Hz. revert z Hz.
  change (tok (resolve (a_table _ _ _ _ A) (a_expr2 _ _ _ _ A))).
  pose proof (a_collect _ _ _ _ A) as Hcol.
  assert (Hspec : forall e, tok e -> dok e -> tok (a_spec _ _ _ _ A (distribute_descriptions e))).
  { intros e He Hd. unfold a_spec, spec_of. intros x Hx. rewrite specialize_tdescrs in Hx.
    refine (proj1 (distribute_tok e None He Hd _) x Hx). discriminate. }
  assert (H0 : tok (expr0_of g) /\ dok (expr0_of g)).
  { assert (Hall : forall e, In e (map snd (call_variants g)) -> tok e /\ dok e).
    { intros e He. apply in_map_iff in He. destruct He as [[[n sp] e'] [Heq Hin]].
      cbn in Heq. subst e'. unfold call_variants in Hin. apply in_flat_map in Hin.
      destruct Hin as [s [Hs Hin]]. destruct s; [|destruct Hin]. destruct Hin as [Hin|[]].
      inversion Hin; subst. apply (Hg _ Hs). }
    unfold expr0_of. destruct (map snd (call_variants g)) as [|e [|e' r]] eqn:E.
    - split; intros z [].
    - apply Hall. left. reflexivity.
    - split; intros z Hz; [cbn [tdescrs] in Hz|cbn [ddescrs] in Hz]; apply in_flat_map in Hz; destruct Hz as [x [Hx Hz]];
        [exact (proj1 (Hall x Hx) z Hz)|exact (proj2 (Hall x Hx) z Hz)]. }
  apply resolve_tok.
  - apply resolve_in_order_tok. intros n rhs Hn. apply assoc_In in Hn. unfold table0_of in Hn. apply in_map_iff in Hn.
    destruct Hn as [d2 [Heq Hin]]. inversion Heq; subst.
    destruct (defs2_in builtins g sh _ (a_us _ _ _ _ A) (a_fs _ _ _ _ A) Hcol d2 Hin) as [rhs0 [Hgi Hr]]. rewrite Hr.
    destruct (Hg _ Hgi) as [T D]. apply Hspec; assumption.
  - unfold a_expr2, a_expr1. destruct H0. apply Hspec; assumption.
Qed.

(** *** a valid literal order of an automaton without empty descriptions has no repeated entry *)
From CG Require Import Model.Dfa Model.Tables Proofs.TablesSound.

Definition no_empty_descr (d : dfa) : Prop := forall t l, ~ In (ILit t (Some EmptyString) l) (d_inputs d).

Lemma literal_pairs_spec d :
  NoDup (literal_pairs d) /\ forall t ds, In (t, ds) (literal_pairs d) -> exists l, In (ILit t ds l) (d_inputs d).
Proof.
  unfold literal_pairs.
  assert (G : forall xs acc,
             NoDup acc -> (forall t ds, In (t, ds) acc -> exists l, In (ILit t ds l) (d_inputs d)) ->
             (forall x, In x xs -> In x (d_inputs d)) ->
             let r := fold_left (fun acc i => match i with
                                               | ILit t ds _ => if existsb (opair_eqb (t, ds)) acc then acc else acc ++ [(t, ds)]
                                               | _ => acc
                                               end) xs acc in
             NoDup r /\ forall t ds, In (t, ds) r -> exists l, In (ILit t ds l) (d_inputs d)).
  { induction xs as [|x r IH]; intros acc ND Ho Hin; cbn [fold_left]; [auto|].
    apply IH; [| |intros y Hy; apply Hin; right; exact Hy].
    - destruct x; try exact ND. destruct (existsb (opair_eqb (text, descr)) acc) eqn:E; [exact ND|].
      apply NoDup_app_single; [exact ND|]. intro F.
      assert (existsb (opair_eqb (text, descr)) acc = true); [|congruence].
      apply existsb_exists. exists (text, descr). split; [exact F|apply opair_eqb_eq; reflexivity].
    - destruct x; try exact Ho. destruct (existsb (opair_eqb (text, descr)) acc); [exact Ho|].
      intros t ds H. apply in_app_or in H. destruct H as [H|[H|[]]]; [apply Ho; exact H|].
      inversion H; subst. exists level. apply Hin. left. reflexivity. }
  apply (G (d_inputs d) []); [constructor|intros ? ? []|auto].
Qed.

Lemma NoDup_map_inj_on {A B} (f : A -> B) l :
  NoDup l -> (forall x y, In x l -> In y l -> f x = f y -> x = y) -> NoDup (map f l).
Proof.
  induction 1 as [|x r Hn Hr IH]; intro Hf; cbn [map]; constructor.
  - intro F. apply in_map_iff in F. destruct F as [y [E Hy]]. apply Hn.
    rewrite (Hf x y (or_introl eq_refl) (or_intror Hy) (eq_sym E)). exact Hy.
  - apply IH. intros a b Ha Hb. apply Hf; right; assumption.
Qed.

Lemma count_pair_NoDup x l : NoDup l -> (count_pair x l <= 1)%nat.
Proof.
  unfold count_pair. induction 1 as [|y r Hn Hr IH]; cbn [filter List.length]; [lia|].
  destruct (pair_eqb x y) eqn:E; [|exact IH]. apply pair_eqb_eq in E. subst y. cbn [List.length].
  assert (filter (pair_eqb x) r = []); [|rewrite H; cbn; lia].
  destruct (filter (pair_eqb x) r) as [|z zs] eqn:F; [reflexivity|].
  assert (In z (filter (pair_eqb x) r)) by (rewrite F; left; reflexivity).
  apply filter_In in H. destruct H as [H1 H2]. apply pair_eqb_eq in H2. subst z. contradiction.
Qed.

Lemma count_le_one_NoDup l : (forall x, In x l -> (count_pair x l <= 1)%nat) -> NoDup l.
Proof.
  induction l as [|y r IH]; intro H; constructor.
  - intro F. specialize (H y (or_introl eq_refl)). unfold count_pair in H. cbn [filter] in H.
    rewrite (proj2 (pair_eqb_eq y y) eq_refl) in H. cbn [List.length] in H.
    assert (0 < count_pair y r)%nat by (apply count_pair_pos; exact F). unfold count_pair in H0. lia.
  - apply IH. intros x Hx. specialize (H x (or_intror Hx)). unfold count_pair in *. cbn [filter] in H.
    destruct (pair_eqb x y); cbn [List.length] in H; lia.
Qed.

Theorem valid_order_NoDup d ord :
  valid_literal_order d ord = true -> no_empty_descr d -> NoDup ord.
Proof.
  intros V Hne. unfold valid_literal_order in V. apply andb_prop in V. destruct V as [V _].
  apply andb_prop in V. destruct V as [_ V]. rewrite forallb_forall in V.
  destruct (literal_pairs_spec d) as [ND Ho].
  set (ref := map (fun p : string * option string => (fst p, unwrap_descr (snd p))) (literal_pairs d)) in *.
  assert (NDref : NoDup ref).
  { apply NoDup_map_inj_on; [exact ND|]. intros [t ds] [t' ds'] H1 H2 E. cbn [fst snd] in E. inversion E as [[Et Ed]]. subst t'.
    f_equal. destruct (Ho _ _ H1) as [l Hl]. destruct (Ho _ _ H2) as [l' Hl'].
    destruct ds as [a|], ds' as [b|]; cbn [unwrap_descr] in Ed; try reflexivity; subst.
    - reflexivity.
    - exfalso. eapply Hne. exact Hl.
    - exfalso. eapply Hne. exact Hl'. }
  apply count_le_one_NoDup. intros x Hx.
  specialize (V x (in_or_app _ _ _ (or_introl Hx))). apply Nat.eqb_eq in V. rewrite V.
  apply count_pair_NoDup. exact NDref.
Qed.
