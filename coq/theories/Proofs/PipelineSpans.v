(** C14, end to end: the pipeline after the checker ([Driver.compile_valid]: regex, within-word
    automata, subset construction, minimisation, ambiguity checks) ignores spans.

    Automata carry no spans ([Subset.from_input] drops them) and within-word automata are interned
    by [dfa_eqb]; but [Regex.pool_intern] compares regexes INCLUDING spans, so mapping a
    non-injective function over the spans can merge pool entries and shift the ids of within-word
    regexes.  The proof therefore never relates the two pools as a whole: it only uses that the
    id stored in an [RSub] input points at the right regex of its own pool ([irel]), that pools
    only grow, and that the caches keyed by regex id ([checked] of [check_subwords],
    [subwords_cache] of [compile_subs]) only save work that would give the same answer.

    Hypothesis: composite words are flat ([flat_subwords], guaranteed by [from_grammar]:
    Proofs/CheckTree.v), so that pool entries contain no [RSub] themselves. *)
From CG Require Import Base.Prelude Model.Ast Model.Check Model.Regex Model.Dfa Model.DfaEqb.
From CG Require Import Model.Subset Model.Minimize Model.Ambiguity Model.Driver.
From CG Require Import Proofs.FromExpr Proofs.DfaEq Proofs.TreeFacts.
From CG Require Import Proofs.CheckSpans.

Section Spans.
  Variable f : span -> span.

  (** *** mapping spans in regex data *)
  Definition msi (i : rinput) : rinput :=
    match i with
    | RLit t d l sp => RLit t d l (f sp)
    | RNonterm n l sp => RNonterm n l (f sp)
    | RCmd c z l sp => RCmd c z l (f sp)
    | RSub rid l sp => RSub rid l (f sp)
    end.

  Definition msr (r : regex) : regex :=
    mkregex (r_root r) (map msi (r_inputs r)) (r_end r) (r_arena r) (r_tree r).

  Definition msb (s : bst) : bst := mkbst (b_nodes s) (map msi (b_inputs s)).

  Definition msrerr (e : rerror) : rerror :=
    match e with UnboundedMatchable a b => UnboundedMatchable (f a) (f b) end.

  (** two inputs, each read through its own pool, are the same up to spans *)
  Definition irel (pl pl' : pool) (i i' : rinput) : Prop :=
    match i, i' with
    | RLit t d l sp, RLit t' d' l' sp' => t = t' /\ d = d' /\ l = l' /\ sp' = f sp
    | RNonterm n l sp, RNonterm n' l' sp' => n = n' /\ l = l' /\ sp' = f sp
    | RCmd c z l sp, RCmd c' z' l' sp' => c = c' /\ z = z' /\ l = l' /\ sp' = f sp
    | RSub rid l sp, RSub rid' l' sp' =>
        l = l' /\ sp' = f sp /\ exists x, nthN pl rid = Some x /\ nthN pl' rid' = Some (msr x)
    | _, _ => False
    end.

  Lemma irel_mono pl pl' pl2 pl2' i i' :
    prefix pl pl2 -> prefix pl' pl2' -> irel pl pl' i i' -> irel pl2 pl2' i i'.
  Proof.
    intros H1 H2. destruct i, i'; cbn; try tauto.
    intros (A & B & x & Hx & Hx'). repeat split; auto. exists x.
    split; eapply prefix_nthN; eauto.
  Qed.

  Lemma irel_span pl pl' i i' : irel pl pl' i i' -> rinput_span i' = f (rinput_span i).
  Proof. destruct i, i'; cbn; tauto. Qed.

  Lemma irel_msi pl pl' i : (match i with RSub _ _ _ => False | _ => True end) -> irel pl pl' i (msi i).
  Proof. destruct i; cbn; tauto. Qed.

  Definition brel (pl pl' : pool) (s s' : bst) : Prop :=
    b_nodes s = b_nodes s' /\ Forall2 (irel pl pl') (b_inputs s) (b_inputs s').

  Lemma brel_mono pl pl' pl2 pl2' s s' :
    prefix pl pl2 -> prefix pl' pl2' -> brel pl pl' s s' -> brel pl2 pl2' s s'.
  Proof.
    intros H1 H2 [A B]. split; [exact A|].
    induction B; constructor; [eapply irel_mono; eauto|assumption].
  Qed.

  Lemma Forall2_lenN {A B} (R : A -> B -> Prop) l l' : Forall2 R l l' -> lenN l = lenN l'.
  Proof. intro H. unfold lenN. f_equal. induction H; cbn; congruence. Qed.

  Lemma Forall2_snoc {A B} (R : A -> B -> Prop) l l' x y :
    Forall2 R l l' -> R x y -> Forall2 R (l ++ [x]) (l' ++ [y]).
  Proof. intros H1 H2. apply Forall2_app; [exact H1|]. constructor; [exact H2|constructor]. Qed.

  Lemma brel_alloc pl pl' n s s' :
    brel pl pl' s s' -> fst (Regex.alloc n s) = fst (Regex.alloc n s') /\ brel pl pl' (snd (Regex.alloc n s)) (snd (Regex.alloc n s')).
  Proof. intros [A B]. unfold Regex.alloc. cbn. rewrite A. repeat split; auto. Qed.

  Lemma brel_push pl pl' i i' s s' :
    brel pl pl' s s' -> irel pl pl' i i' ->
    fst (push_input i s) = fst (push_input i' s') /\
    brel pl pl' (snd (push_input i s)) (snd (push_input i' s')).
  Proof.
    intros [A B] Hi. unfold push_input. cbn. split; [eapply Forall2_lenN; eauto|].
    split; [exact A|]. apply Forall2_snoc; assumption.
  Qed.

  (** outcomes related: same constructor, payloads related; [from_expr] itself never errs *)
  Definition orel {A B} (R : A -> B -> Prop) (x : rres A) (y : rres B) : Prop :=
    match x, y with
    | Ok a, Ok b => R a b
    | Panic a, Panic b => a = b
    | OutOfFuel, OutOfFuel => True
    | _, _ => False
    end.

  Definition res_rel (pl pl' : pool) (x : N * rx * bst * pool) (y : N * rx * bst * pool) : Prop :=
    let '(id, t, s2, pl2) := x in
    let '(id', t', s2', pl2') := y in
    id = id' /\ t = t' /\ prefix pl pl2 /\ prefix pl' pl2' /\ brel pl2 pl2' s2 s2'.

  Definition G (e : expr) : Prop :=
    forall s s' pl pl', brel pl pl' s s' ->
      orel (res_rel pl pl') (do_from_expr e s pl) (do_from_expr (ms f e) s' pl').

  Definition res_rel_l (pl pl' : pool) (x : list N * list rx * bst * pool)
             (y : list N * list rx * bst * pool) : Prop :=
    let '(ids, ts, s2, pl2) := x in
    let '(ids', ts', s2', pl2') := y in
    ids = ids' /\ ts = ts' /\ prefix pl pl2 /\ prefix pl' pl2' /\ brel pl2 pl2' s2 s2'.

  Ltac fin :=
    split; [reflexivity|]; split; [reflexivity|];
    split; [first [assumption|apply prefix_refl|eapply prefix_trans; eassumption]|];
    split; [first [assumption|apply prefix_refl|eapply prefix_trans; eassumption]|assumption].

  Lemma children_rel cs : Forall G cs ->
    forall s s' pl pl', brel pl pl' s s' ->
      orel (res_rel_l pl pl') (do_children do_from_expr cs s pl)
           (do_children do_from_expr (map (ms f) cs) s' pl').
  Proof.
    induction 1 as [|c r Hc Hr IH]; intros s s' pl pl' Hb; cbn [map do_children].
    - cbn. fin.
    - specialize (Hc s s' pl pl' Hb).
      destruct (do_from_expr c s pl) as [[[[id t] s1] pl1]| | |];
        destruct (do_from_expr (ms f c) s' pl') as [[[[id' t'] s1'] pl1']| | |]; cbn in Hc |- *;
        try contradiction; try exact Hc.
      destruct Hc as (-> & -> & P1 & P1' & B1).
      specialize (IH s1 s1' pl1 pl1' B1).
      destruct (do_children do_from_expr r s1 pl1) as [[[[ids ts] s2] pl2]| | |];
        destruct (do_children do_from_expr (map (ms f) r) s1' pl1') as [[[[ids' ts'] s2'] pl2']| | |];
        cbn in IH |- *; try contradiction; try exact IH.
      destruct IH as (-> & -> & P2 & P2' & B2). fin.
  Qed.

  (** a word without nested words: the pool is neither read nor written *)
  Definition free_res (pl' : pool) (x : rres (N * rx * bst * pool)) : rres (N * rx * bst * pool) :=
    match x with
    | Ok (id, t, s2, _) => Ok (id, t, msb s2, pl')
    | Err e => Err e
    | Panic m => Panic m
    | OutOfFuel => OutOfFuel
    end.

  Definition Fr (e : expr) : Prop :=
    forall s pl pl', do_from_expr (ms f e) (msb s) pl' = free_res pl' (do_from_expr e s pl).

  Definition free_res_l (pl' : pool) (x : rres (list N * list rx * bst * pool)) :=
    match x with
    | Ok (ids, ts, s2, _) => Ok (ids, ts, msb s2, pl')
    | Err e => Err e
    | Panic m => Panic m
    | OutOfFuel => OutOfFuel
    end.

  Lemma children_free cs : Forall Fr cs ->
    forall s pl pl', do_children do_from_expr (map (ms f) cs) (msb s) pl'
                     = free_res_l pl' (do_children do_from_expr cs s pl).
  Proof.
    induction 1 as [|c r Hc Hr IH]; intros s pl pl'; cbn [map do_children]; [reflexivity|].
    rewrite (Hc s pl pl').
    destruct (do_from_expr c s pl) as [[[[id t] s1] pl1]| | |]; cbn [free_res obind]; try reflexivity.
    rewrite (IH s1 pl1 pl').
    destruct (do_children do_from_expr r s1 pl1) as [[[[ids ts] s2] pl2]| | |]; reflexivity.
  Qed.

  Lemma msb_alloc n s : Regex.alloc n (msb s) = (fst (Regex.alloc n s), msb (snd (Regex.alloc n s))).
  Proof. unfold Regex.alloc, msb. cbn. reflexivity. Qed.

  Lemma msb_push i s : push_input (msi i) (msb s) = (fst (push_input i s), msb (snd (push_input i s))).
  Proof.
    unfold push_input, msb. cbn. rewrite map_app. cbn. f_equal. unfold lenN. rewrite map_length. reflexivity.
  Qed.

  Lemma from_expr_free e : subword_free e = true -> Fr e.
  Proof.
    induction e using expr_ind'; intro Hf; intros s pl pl'; cbn [ms do_from_expr].
    - change (RLit t d l (f sp)) with (msi (RLit t d l sp)). rewrite msb_push.
      destruct (push_input (RLit t d l sp) s) as [p s1]. cbn [fst snd]. rewrite msb_alloc.
      destruct (Regex.alloc (NTerm p) s1). reflexivity.
    - change (RNonterm n l (f sp)) with (msi (RNonterm n l sp)). rewrite msb_push.
      destruct (push_input (RNonterm n l sp) s) as [p s1]. cbn [fst snd]. rewrite msb_alloc.
      destruct (Regex.alloc (NNonterm p) s1). reflexivity.
    - change (RCmd c z l (f sp)) with (msi (RCmd c z l sp)). rewrite msb_push.
      destruct (push_input (RCmd c z l sp) s) as [p s1]. cbn [fst snd]. rewrite msb_alloc.
      destruct (Regex.alloc (NCmd p) s1). reflexivity.
    - cbn [subword_free] in Hf. rewrite (children_free cs) with (pl := pl).
      2:{ rewrite Forall_forall in *. intros c Hc. apply H; [exact Hc|].
          rewrite forallb_forall in Hf. apply Hf. exact Hc. }
      destruct (do_children do_from_expr cs s pl) as [[[[ids ts] s1] pl1]| | |]; cbn [free_res_l obind];
        try reflexivity.
    - cbn [subword_free] in Hf. rewrite (children_free cs) with (pl := pl).
      2:{ rewrite Forall_forall in *. intros c Hc. apply H; [exact Hc|].
          rewrite forallb_forall in Hf. apply Hf. exact Hc. }
      destruct (do_children do_from_expr cs s pl) as [[[[ids ts] s1] pl1]| | |]; cbn [free_res_l obind];
        try reflexivity.
    - cbn [subword_free] in Hf. rewrite (IHe Hf s pl pl').
      destruct (do_from_expr e s pl) as [[[[cid ct] s1] pl1]| | |]; cbn [free_res obind]; try reflexivity.
    - cbn [subword_free] in Hf. rewrite (IHe Hf s pl pl').
      destruct (do_from_expr e s pl) as [[[[cid ct] s1] pl1]| | |]; cbn [free_res obind]; try reflexivity.
    - reflexivity.
    - cbn [subword_free] in Hf. rewrite (children_free cs) with (pl := pl).
      2:{ rewrite Forall_forall in *. intros c Hc. apply H; [exact Hc|].
          rewrite forallb_forall in Hf. apply Hf. exact Hc. }
      destruct (do_children do_from_expr cs s pl) as [[[[ids ts] s1] pl1]| | |]; cbn [free_res_l obind];
        try reflexivity.
    - discriminate.
  Qed.

  Lemma finish_regex_msb id t s : finish_regex id t (msb s) = msr (finish_regex id t s).
  Proof.
    unfold finish_regex, msr, Regex.alloc, msb. cbn. unfold lenN. rewrite map_length. reflexivity.
  Qed.

  Lemma free_flat e : subword_free e = true -> flat_subwords e = true.
  Proof.
    induction e using expr_ind'; cbn; intro Hf; try reflexivity; try (apply IHe; exact Hf); try discriminate.
    - rewrite forallb_forall in *. rewrite Forall_forall in H. intros c Hc. apply H; [exact Hc|apply Hf; exact Hc].
    - rewrite forallb_forall in *. rewrite Forall_forall in H. intros c Hc. apply H; [exact Hc|apply Hf; exact Hc].
    - rewrite forallb_forall in *. rewrite Forall_forall in H. intros c Hc. apply H; [exact Hc|apply Hf; exact Hc].
  Qed.

  Lemma children_no_err cs :
    Forall (fun e => forall s pl x, do_from_expr e s pl <> Err x) cs ->
    forall s pl x, do_children do_from_expr cs s pl <> Err x.
  Proof.
    induction 1 as [|c r Hc _ IH]; intros s pl x; cbn [do_children]; [discriminate|].
    destruct (do_from_expr c s pl) as [[[[id t] s1] pl1]|e1| |] eqn:E1; cbn [obind]; try discriminate.
    - destruct (do_children do_from_expr r s1 pl1) as [[[[ids ts] s2] pl2]|e2| |] eqn:E2; cbn [obind];
        try discriminate. exfalso. eapply IH; eauto.
    - exfalso. eapply Hc; eauto.
  Qed.

  Lemma from_expr_no_err e : forall s pl x, do_from_expr e s pl <> Err x.
  Proof.
    induction e using expr_ind'; intros s pl x; cbn [do_from_expr].
    - destruct (push_input _ s) as [p s1]. destruct (Regex.alloc _ s1). discriminate.
    - destruct (push_input _ s) as [p s1]. destruct (Regex.alloc _ s1). discriminate.
    - destruct (push_input _ s) as [p s1]. destruct (Regex.alloc _ s1). discriminate.
    - destruct (do_children do_from_expr cs s pl) as [[[[ids ts] s1] pl1]|e1| |] eqn:E; cbn [obind];
        try discriminate.
      exfalso. eapply children_no_err; eauto.
    - destruct (do_children do_from_expr cs s pl) as [[[[ids ts] s1] pl1]|e1| |] eqn:E; cbn [obind];
        try discriminate.
      exfalso. eapply children_no_err; eauto.
    - destruct (do_from_expr e s pl) as [[[[cid ct] s1] pl1]|e1| |] eqn:E; cbn [obind]; try discriminate.
      exfalso. eapply IHe; eauto.
    - destruct (do_from_expr e s pl) as [[[[cid ct] s1] pl1]|e1| |] eqn:E; cbn [obind]; try discriminate.
      exfalso. eapply IHe; eauto.
    - discriminate.
    - destruct (do_children do_from_expr cs s pl) as [[[[ids ts] s1] pl1]|e1| |] eqn:E; cbn [obind];
        try discriminate.
      exfalso. eapply children_no_err; eauto.
    - destruct (do_from_expr e empty_bst pl) as [[[[cid ct] cs] pl1]|e1| |] eqn:E; cbn [obind]; try discriminate.
      + destruct (Regex.pool_intern _ pl1) as [rid pl2]. destruct (push_input _ s) as [p s1].
        destruct (Regex.alloc _ s1). discriminate.
      + exfalso. eapply IHe; eauto.
  Qed.

  (** the general case: flat words *)
  Lemma from_expr_rel e : flat_subwords e = true -> G e.
  Proof.
    induction e using expr_ind'; intro Hf; intros s s' pl pl' Hb; cbn [ms do_from_expr].
    - assert (Hi : irel pl pl' (RLit t d l sp) (RLit t d l (f sp))) by (cbn; tauto).
      destruct (brel_push pl pl' _ _ s s' Hb Hi) as [Hp Hb1].
      destruct (push_input (RLit t d l sp) s) as [p s1].
      destruct (push_input (RLit t d l (f sp)) s') as [p' s1']. cbn [fst snd] in *. subst p'.
      destruct (brel_alloc pl pl' (NTerm p) s1 s1' Hb1) as [Ha Hb2].
      destruct (Regex.alloc (NTerm p) s1) as [id s2]. destruct (Regex.alloc (NTerm p) s1') as [id' s2'].
      cbn in *. subst. fin.
    - assert (Hi : irel pl pl' (RNonterm n l sp) (RNonterm n l (f sp))) by (cbn; tauto).
      destruct (brel_push pl pl' _ _ s s' Hb Hi) as [Hp Hb1].
      destruct (push_input (RNonterm n l sp) s) as [p s1].
      destruct (push_input (RNonterm n l (f sp)) s') as [p' s1']. cbn [fst snd] in *. subst p'.
      destruct (brel_alloc pl pl' (NNonterm p) s1 s1' Hb1) as [Ha Hb2].
      destruct (Regex.alloc (NNonterm p) s1) as [id s2]. destruct (Regex.alloc (NNonterm p) s1') as [id' s2'].
      cbn in *. subst. fin.
    - assert (Hi : irel pl pl' (RCmd c z l sp) (RCmd c z l (f sp))) by (cbn; tauto).
      destruct (brel_push pl pl' _ _ s s' Hb Hi) as [Hp Hb1].
      destruct (push_input (RCmd c z l sp) s) as [p s1].
      destruct (push_input (RCmd c z l (f sp)) s') as [p' s1']. cbn [fst snd] in *. subst p'.
      destruct (brel_alloc pl pl' (NCmd p) s1 s1' Hb1) as [Ha Hb2].
      destruct (Regex.alloc (NCmd p) s1) as [id s2]. destruct (Regex.alloc (NCmd p) s1') as [id' s2'].
      cbn in *. subst. fin.
    - cbn [flat_subwords] in Hf.
      assert (HG : Forall G cs).
      { rewrite Forall_forall in *. intros c Hc. apply H; [exact Hc|].
        rewrite forallb_forall in Hf. apply Hf. exact Hc. }
      pose proof (children_rel cs HG s s' pl pl' Hb) as Hr.
      destruct (do_children do_from_expr cs s pl) as [[[[ids ts] s1] pl1]| | |];
        destruct (do_children do_from_expr (map (ms f) cs) s' pl') as [[[[ids' ts'] s1'] pl1']| | |];
        cbn [orel res_rel_l res_rel obind] in Hr |- *; try contradiction; try exact Hr.
      destruct Hr as (-> & -> & P1 & P1' & B1).
      destruct (brel_alloc pl1 pl1' (NCat ids') s1 s1' B1) as [Ha Hb2].
      destruct (Regex.alloc (NCat ids') s1) as [id s2]. destruct (Regex.alloc (NCat ids') s1') as [id' s2'].
      cbn in *. subst. fin.
    - cbn [flat_subwords] in Hf.
      assert (HG : Forall G cs).
      { rewrite Forall_forall in *. intros c Hc. apply H; [exact Hc|].
        rewrite forallb_forall in Hf. apply Hf. exact Hc. }
      pose proof (children_rel cs HG s s' pl pl' Hb) as Hr.
      destruct (do_children do_from_expr cs s pl) as [[[[ids ts] s1] pl1]| | |];
        destruct (do_children do_from_expr (map (ms f) cs) s' pl') as [[[[ids' ts'] s1'] pl1']| | |];
        cbn [orel res_rel_l res_rel obind] in Hr |- *; try contradiction; try exact Hr.
      destruct Hr as (-> & -> & P1 & P1' & B1).
      destruct (brel_alloc pl1 pl1' (NOr ids') s1 s1' B1) as [Ha Hb2].
      destruct (Regex.alloc (NOr ids') s1) as [id s2]. destruct (Regex.alloc (NOr ids') s1') as [id' s2'].
      cbn in *. subst. fin.
    - cbn [flat_subwords] in Hf. specialize (IHe Hf s s' pl pl' Hb).
      destruct (do_from_expr e s pl) as [[[[cid ct] s1] pl1]| | |];
        destruct (do_from_expr (ms f e) s' pl') as [[[[cid' ct'] s1'] pl1']| | |];
        cbn [orel res_rel_l res_rel obind] in IHe |- *; try contradiction; try exact IHe.
      destruct IHe as (-> & -> & P1 & P1' & B1).
      destruct (brel_alloc pl1 pl1' NEps s1 s1' B1) as [Ha Hb2].
      destruct (Regex.alloc NEps s1) as [eid s2]. destruct (Regex.alloc NEps s1') as [eid' s2']. cbn in Ha, Hb2. subst eid'.
      destruct (brel_alloc pl1 pl1' (NOr [cid'; eid]) s2 s2' Hb2) as [Ha3 Hb3].
      destruct (Regex.alloc (NOr [cid'; eid]) s2) as [id s3]. destruct (Regex.alloc (NOr [cid'; eid]) s2') as [id' s3'].
      cbn in *. subst. fin.
    - cbn [flat_subwords] in Hf. specialize (IHe Hf s s' pl pl' Hb).
      destruct (do_from_expr e s pl) as [[[[cid ct] s1] pl1]| | |];
        destruct (do_from_expr (ms f e) s' pl') as [[[[cid' ct'] s1'] pl1']| | |];
        cbn [orel res_rel_l res_rel obind] in IHe |- *; try contradiction; try exact IHe.
      destruct IHe as (-> & -> & P1 & P1' & B1).
      destruct (brel_alloc pl1 pl1' (NStar cid') s1 s1' B1) as [Ha Hb2].
      destruct (Regex.alloc (NStar cid') s1) as [sid s2]. destruct (Regex.alloc (NStar cid') s1') as [sid' s2'].
      cbn in Ha, Hb2. subst sid'.
      destruct (brel_alloc pl1 pl1' (NCat [cid'; sid]) s2 s2' Hb2) as [Ha3 Hb3].
      destruct (Regex.alloc (NCat [cid'; sid]) s2) as [id s3]. destruct (Regex.alloc (NCat [cid'; sid]) s2') as [id' s3'].
      cbn in *. subst. fin.
    - cbn. reflexivity.
    - cbn [flat_subwords] in Hf.
      assert (HG : Forall G cs).
      { rewrite Forall_forall in *. intros c Hc. apply H; [exact Hc|].
        rewrite forallb_forall in Hf. apply Hf. exact Hc. }
      pose proof (children_rel cs HG s s' pl pl' Hb) as Hr.
      destruct (do_children do_from_expr cs s pl) as [[[[ids ts] s1] pl1]| | |];
        destruct (do_children do_from_expr (map (ms f) cs) s' pl') as [[[[ids' ts'] s1'] pl1']| | |];
        cbn [orel res_rel_l res_rel obind] in Hr |- *; try contradiction; try exact Hr.
      destruct Hr as (-> & -> & P1 & P1' & B1).
      destruct (brel_alloc pl1 pl1' (NOr ids') s1 s1' B1) as [Ha Hb2].
      destruct (Regex.alloc (NOr ids') s1) as [id s2]. destruct (Regex.alloc (NOr ids') s1') as [id' s2'].
      cbn in *. subst. fin.
    - (* Subword: the inner regex is mapped exactly; both pools point at it *)
      cbn [flat_subwords] in Hf.
      pose proof (from_expr_free e Hf empty_bst pl pl') as Hfree.
      change (msb empty_bst) with empty_bst in Hfree. rewrite Hfree.
      destruct (do_from_expr e empty_bst pl) as [[[[cid ct] cs] pl1]| | |] eqn:Ein;
        cbn [free_res obind orel]; auto; [|exfalso; eapply from_expr_no_err; eauto].
      rewrite finish_regex_msb.
      destruct (Regex.pool_intern (finish_regex cid ct cs) pl1) as [rid pl2] eqn:Ei.
      destruct (Regex.pool_intern (msr (finish_regex cid ct cs)) pl') as [rid' pl2'] eqn:Ei'.
      destruct (pool_intern_spec _ _ _ _ Ei) as [P2 Hx]. destruct (pool_intern_spec _ _ _ _ Ei') as [P2' Hx'].
      assert (P1 : prefix pl pl1).
      { assert (Hbe : brel pl pl' empty_bst empty_bst) by (split; [reflexivity|constructor]).
        pose proof (IHe (free_flat e Hf) empty_bst empty_bst pl pl' Hbe) as Hr. rewrite Ein in Hr.
        destruct (do_from_expr (ms f e) empty_bst pl') as [[[[a b] c] d]| | |]; cbn in Hr; try contradiction.
        tauto. }
      assert (Pa : prefix pl pl2) by (eapply prefix_trans; eauto).
      assert (Hi : irel pl2 pl2' (RSub rid l sp) (RSub rid' l (f sp))).
      { cbn. repeat split; auto. eexists. split; [exact Hx|exact Hx']. }
      pose proof (brel_mono pl pl' pl2 pl2' s s' Pa P2' Hb) as Hb0.
      destruct (brel_push pl2 pl2' _ _ s s' Hb0 Hi) as [Hp Hb1].
      destruct (push_input (RSub rid l sp) s) as [p s1].
      destruct (push_input (RSub rid' l (f sp)) s') as [p' s1']. cbn [fst snd] in *. subst p'.
      destruct (brel_alloc pl2 pl2' (NSub p) s1 s1' Hb1) as [Ha Hb2].
      destruct (Regex.alloc (NSub p) s1) as [id s2]. destruct (Regex.alloc (NSub p) s1') as [id' s2'].
      cbn in *. subst. fin.
  Qed.

  (** *** the main regex *)
  Definition rrel (pl pl' : pool) (r r' : regex) : Prop :=
    r_root r = r_root r' /\ r_end r = r_end r' /\ r_arena r = r_arena r' /\ r_tree r = r_tree r'
    /\ Forall2 (irel pl pl') (r_inputs r) (r_inputs r').

  Lemma finish_regex_rel pl pl' id t s s' :
    brel pl pl' s s' -> rrel pl pl' (finish_regex id t s) (finish_regex id t s').
  Proof.
    intros [A B]. unfold finish_regex, Regex.alloc. cbn. rewrite A, (Forall2_lenN _ _ _ B).
    repeat split; auto.
  Qed.

  Theorem from_expr_rrel e : flat_subwords e = true ->
    orel (fun x y => rrel (snd x) (snd y) (fst x) (fst y)) (from_expr e []) (from_expr (ms f e) []).
  Proof.
    intro Hf. unfold from_expr.
    assert (Hbe : brel [] [] empty_bst empty_bst) by (split; [reflexivity|constructor]).
    pose proof (from_expr_rel e Hf empty_bst empty_bst [] [] Hbe) as Hr.
    destruct (do_from_expr e empty_bst []) as [[[[id t] s1] pl1]| | |];
      destruct (do_from_expr (ms f e) empty_bst []) as [[[[id' t'] s1'] pl1']| | |];
      cbn [orel res_rel obind] in Hr |- *; try contradiction; try exact Hr.
    destruct Hr as (-> & -> & _ & _ & B). cbn [fst snd]. apply finish_regex_rel. exact B.
  Qed.

  (** *** [check_tail_only] of a pool entry *)
  Definition mres {A} (x : rres A) : rres A :=
    match x with Ok a => Ok a | Err e => Err (msrerr e) | Panic m => Panic m | OutOfFuel => OutOfFuel end.

  Lemma nthN_map' {A B} (h : A -> B) l i : nthN (map h l) i = option_map h (nthN l i).
  Proof. unfold nthN. revert l. induction (N.to_nat i) as [|n IH]; intros [|a l]; cbn; auto. Qed.

  Lemma omap_input_at_msr x ps :
    omap (input_at (msr x)) ps
    = match omap (input_at x) ps with Ok l => Ok (map msi l) | Err e => Err (msrerr e) | Panic m => Panic m
                                   | OutOfFuel => OutOfFuel end.
  Proof.
    induction ps as [|p r IH]; cbn [omap]; [reflexivity|].
    unfold input_at at 1 3. cbn [msr r_inputs]. rewrite nthN_map'.
    destruct (nthN (r_inputs x) p); cbn [option_map obind]; [|reflexivity].
    rewrite IH. destruct (omap (input_at x) r); reflexivity.
  Qed.

  Lemma inputs_of_msr x fp :
    inputs_of (msr x) fp
    = match inputs_of x fp with Ok l => Ok (map msi l) | Err e => Err (msrerr e) | Panic m => Panic m
                              | OutOfFuel => OutOfFuel end.
  Proof. unfold inputs_of. apply omap_input_at_msr. Qed.

  Lemma first_clash_msi pp inputs :
    first_clash (option_map msi pp) (map msi inputs) = option_map msrerr (first_clash pp inputs).
  Proof.
    destruct pp as [p|]; [|reflexivity]. destruct inputs as [|i r]; [reflexivity|].
    destruct p, i; reflexivity.
  Qed.

  Section EachTail.
    Variable r : regex.
    Variable rec : list N -> option rinput -> list N -> rres (list N).
    Variable fw : list (N * list N).
    Variable pp : option rinput.
    Fixpoint each_t (ps : list N) (visited : list N) : rres (list N) :=
      match ps with
      | [] => Ok visited
      | p :: rest =>
          if memN p visited then each_t rest visited
          else match assocN p fw with
               | None => each_t rest visited
               | Some follow =>
                   do inp <- input_at r p;
                   do st <- is_star_subword inp;
                   do v1 <- rec follow (opt_or pp (if st then Some inp else None)) (p :: visited);
                   each_t rest v1
               end
      end.
  End EachTail.

  Lemma tail_only_S r fw fuel fp pp visited :
    tail_only r fw (S fuel) fp pp visited =
    do inputs <- inputs_of r fp;
    match first_clash pp inputs with
    | Some e => Err e
    | None => each_t r (tail_only r fw fuel) fw pp fp visited
    end.
  Proof. reflexivity. Qed.

  Lemma each_t_msr x (rec rec' : list N -> option rinput -> list N -> rres (list N)) fw pp ps :
    (forall a o b, rec' a (option_map msi o) b = mres (rec a o b)) ->
    forall visited, each_t (msr x) rec' fw (option_map msi pp) ps visited = mres (each_t x rec fw pp ps visited).
  Proof.
    intro H. induction ps as [|p r IH]; intro visited; cbn [each_t]; [reflexivity|].
    destruct (memN p visited); [apply IH|]. destruct (assocN p fw); [|apply IH].
    unfold input_at. cbn [msr r_inputs]. rewrite nthN_map'.
    destruct (nthN (r_inputs x) p) as [i|]; cbn [option_map obind mres]; [|reflexivity].
    assert (Hs : is_star_subword (msi i) = is_star_subword i) by (destruct i; reflexivity).
    rewrite Hs. destruct (is_star_subword i) as [st|e0| |] eqn:Ei; cbn [obind mres]; try reflexivity;
      [|destruct i; discriminate].
    assert (Ho : opt_or (option_map msi pp) (if st then Some (msi i) else None)
                 = option_map msi (opt_or pp (if st then Some i else None))).
    { destruct pp; [reflexivity|]. destruct st; reflexivity. }
    rewrite Ho, H. destruct (rec l _ (p :: visited)); cbn [mres obind]; try reflexivity. apply IH.
  Qed.

  Lemma tail_only_msr x fw fuel : forall fp pp visited,
    tail_only (msr x) fw fuel fp (option_map msi pp) visited = mres (tail_only x fw fuel fp pp visited).
  Proof.
    induction fuel as [|fuel IH]; intros fp pp visited; [reflexivity|].
    rewrite !tail_only_S, inputs_of_msr.
    destruct (inputs_of x fp) as [inputs| | |]; cbn [obind mres]; try reflexivity.
    rewrite first_clash_msi. destruct (first_clash pp inputs); cbn [option_map mres]; [reflexivity|].
    apply each_t_msr. intros a o b. apply IH.
  Qed.

  Lemma check_tail_only_msr x : check_tail_only (msr x) = mres (check_tail_only x).
  Proof.
    unfold check_tail_only. change (regex_follow (msr x)) with (regex_follow x).
    change (regex_fuel (msr x)) with (regex_fuel x). change (regex_first (msr x)) with (regex_first x).
    change (r_end (msr x)) with (r_end x).
    pose proof (tail_only_msr x (regex_follow x) (regex_fuel x) (regex_first x) None [r_end x]) as H.
    cbn [option_map] in H. rewrite H.
    destruct (tail_only x _ _ _ None _); reflexivity.
  Qed.

  (** *** [check_subwords] of the main regex *)
  Definition lrel (pl pl' : pool) (rid rid' : N) : Prop :=
    exists x, nthN pl rid = Some x /\ nthN pl' rid' = Some (msr x).

  Fixpoint all_checks (pl : pool) (ids : list N) : rres unit :=
    match ids with
    | [] => Ok tt
    | rid :: rest =>
        match nthN pl rid with
        | None => Panic "RegexInternPool::lookup"
        | Some sub => do _ <- check_tail_only sub; all_checks pl rest
        end
    end.

  Lemma all_checks_rel pl pl' ids ids' :
    Forall2 (lrel pl pl') ids ids' -> all_checks pl' ids' = mres (all_checks pl ids).
  Proof.
    induction 1 as [|a b l l' (x & Hx & Hx') _ IH]; cbn [all_checks]; [reflexivity|].
    rewrite Hx, Hx', check_tail_only_msr.
    destruct (check_tail_only x) as [[]| | |]; cbn [mres obind]; try reflexivity. exact IH.
  Qed.

  Definition Cinv (pl : pool) (checked : list N) : Prop :=
    forall rid, In rid checked -> exists x, nthN pl rid = Some x /\ check_tail_only x = Ok tt.

  Lemma memN_In' k l : memN k l = true <-> In k l.
  Proof.
    unfold memN. rewrite existsb_exists. split.
    - intros [x [Hx He]]. apply N.eqb_eq in He. subst. exact Hx.
    - intro H. exists k. split; [exact H|apply N.eqb_refl].
  Qed.

  (** checking only the ids that are not yet known to be fine gives the verdict of checking all *)
  Lemma check_each_sub_char pl ids : forall checked0 checked,
    Cinv pl checked0 -> Cinv pl checked ->
    match check_each_sub pl (filter (fun rid => negb (memN rid checked0)) ids) checked with
    | Ok c1 => all_checks pl ids = Ok tt /\ Cinv pl c1
    | Err e => all_checks pl ids = Err e
    | Panic m => all_checks pl ids = Panic m
    | OutOfFuel => all_checks pl ids = OutOfFuel
    end.
  Proof.
    induction ids as [|rid r IH]; intros checked0 checked H0 Hc; cbn [filter check_each_sub all_checks].
    - split; [reflexivity|exact Hc].
    - destruct (memN rid checked0) eqn:Em; cbn [negb].
      + apply memN_In' in Em. destruct (H0 rid Em) as (x & Hx & Hok). rewrite Hx, Hok. cbn [obind].
        apply IH; assumption.
      + cbn [check_each_sub]. destruct (nthN pl rid) as [sub|] eqn:Hx; [|reflexivity].
        destruct (check_tail_only sub) as [[]| | |] eqn:Hck; cbn [obind]; try reflexivity.
        apply IH; [exact H0|]. intros k [Hk|Hk]; [subst; eauto|apply Hc; exact Hk].
  Qed.

  Definition crel (pl pl' : pool) (x y : rres (list N * list N)) : Prop :=
    match x, y with
    | Ok (v, c), Ok (v', c') => v = v' /\ Cinv pl c /\ Cinv pl' c'
    | Err e, Err e' => e' = msrerr e
    | Panic a, Panic b => a = b
    | OutOfFuel, OutOfFuel => True
    | _, _ => False
    end.

  Section EachSub.
    Variable rec : list N -> list N -> list N -> rres (list N * list N).
    Variable fw : list (N * list N).
    Fixpoint each_s (ps : list N) (visited checked : list N) : rres (list N * list N) :=
      match ps with
      | [] => Ok (visited, checked)
      | p :: rest =>
          if memN p visited then each_s rest visited checked
          else match assocN p fw with
               | None => each_s rest visited checked
               | Some follow => do vc <- rec follow (p :: visited) checked; each_s rest (fst vc) (snd vc)
               end
      end.
  End EachSub.

  Lemma check_subwords_S r fw pl fuel fp visited checked :
    check_subwords r fw pl (S fuel) fp visited checked =
    do inputs <- inputs_of r fp;
    let ids := filter (fun rid => negb (memN rid checked)) (sub_ids_of inputs) in
    do checked1 <- check_each_sub pl ids checked;
    each_s (check_subwords r fw pl fuel) fw fp visited checked1.
  Proof. reflexivity. Qed.

  Lemma each_s_rel pl pl' (rec rec' : list N -> list N -> list N -> rres (list N * list N)) fw ps
        (Hrec : forall a v c c', Cinv pl c -> Cinv pl' c' -> crel pl pl' (rec a v c) (rec' a v c')) :
    forall visited c c', Cinv pl c -> Cinv pl' c' ->
      crel pl pl' (each_s rec fw ps visited c) (each_s rec' fw ps visited c').
  Proof.
    induction ps as [|p r IH]; intros visited c c' Hc Hc'; cbn [each_s].
    - cbn. auto.
    - destruct (memN p visited); [apply IH; assumption|].
      destruct (assocN p fw) as [follow|]; [|apply IH; assumption].
      specialize (Hrec follow (p :: visited) c c' Hc Hc').
      destruct (rec follow (p :: visited) c) as [[v1 c1]| | |];
        destruct (rec' follow (p :: visited) c') as [[v1' c1']| | |]; cbn [crel obind fst snd] in Hrec |- *;
        try contradiction; try exact Hrec.
      destruct Hrec as (-> & H1 & H1'). apply IH; assumption.
  Qed.

  Lemma inputs_of_rel pl pl' r r' fp : rrel pl pl' r r' ->
    match inputs_of r fp, inputs_of r' fp with
    | Ok l, Ok l' => Forall2 (irel pl pl') l l'
    | Panic a, Panic b => a = b
    | _, _ => False
    end.
  Proof.
    intros (_ & He & _ & _ & Hi). unfold inputs_of. rewrite <- He.
    induction (filter (fun p => negb (p =? r_end r)) fp) as [|p ps IH]; cbn [omap]; [constructor|].
    assert (Hn : match input_at r p, input_at r' p with
                 | Ok i, Ok i' => irel pl pl' i i' | Panic a, Panic b => a = b | _, _ => False end).
    { unfold input_at, nthN. generalize (N.to_nat p). clear - Hi.
      induction Hi as [|a b l l' Hab _ IHl]; intros [|n]; cbn; auto. apply IHl. }
    destruct (input_at r p) as [i| | |]; destruct (input_at r' p) as [i'| | |]; try contradiction;
      cbn [obind]; [|exact Hn].
    destruct (omap (input_at r) ps) as [l| | |]; destruct (omap (input_at r') ps) as [l'| | |];
      try contradiction; cbn [obind]; auto.
  Qed.

  Lemma sub_ids_rel pl pl' l l' :
    Forall2 (irel pl pl') l l' -> Forall2 (lrel pl pl') (sub_ids_of l) (sub_ids_of l').
  Proof.
    induction 1 as [|i i' r r' Hi _ IH]; [constructor|]. unfold sub_ids_of in *. cbn [flat_map].
    destruct i, i'; cbn in Hi; try contradiction; cbn [app]; try exact IH.
    constructor; [|exact IH]. destruct Hi as (_ & _ & x & Hx & Hx'). exists x. tauto.
  Qed.

  Lemma check_subwords_rel pl pl' r r' fw (Hr : rrel pl pl' r r') fuel :
    forall fp visited c c', Cinv pl c -> Cinv pl' c' ->
      crel pl pl' (check_subwords r fw pl fuel fp visited c) (check_subwords r' fw pl' fuel fp visited c').
  Proof.
    induction fuel as [|fuel IH]; intros fp visited c c' Hc Hc'; [exact I|].
    rewrite !check_subwords_S.
    pose proof (inputs_of_rel pl pl' r r' fp Hr) as Hi.
    destruct (inputs_of r fp) as [l| | |]; destruct (inputs_of r' fp) as [l'| | |]; try contradiction;
      cbn [obind crel]; auto.
    cbn zeta.
    pose proof (check_each_sub_char pl (sub_ids_of l) c c Hc Hc) as H1.
    pose proof (check_each_sub_char pl' (sub_ids_of l') c' c' Hc' Hc') as H2.
    pose proof (all_checks_rel pl pl' _ _ (sub_ids_rel pl pl' l l' Hi)) as Ha.
    destruct (check_each_sub pl _ c) as [c1|e1|m1|]; [destruct H1 as [H1 H1c]| | |];
      rewrite H1 in Ha; cbn [mres] in Ha;
      (destruct (check_each_sub pl' _ c') as [c1'|e1'|m1'|]; [destruct H2 as [H2 H2c]| | |]);
      cbn [obind crel]; try (exfalso; congruence); try congruence; try exact I.
    apply each_s_rel; auto.
  Qed.

  Theorem check_ambiguities_rel pl pl' r r' : rrel pl pl' r r' ->
    check_ambiguities r' pl' = mres (check_ambiguities r pl).
  Proof.
    intro Hr. unfold check_ambiguities.
    destruct Hr as (Hroot & Hend & Har & Htree & Hin).
    assert (Hfw : regex_follow r' = regex_follow r) by (unfold regex_follow; rewrite Htree; reflexivity).
    assert (Hfu : regex_fuel r' = regex_fuel r) by (unfold regex_fuel; rewrite Hfw; reflexivity).
    assert (Hfi : regex_first r' = regex_first r) by (unfold regex_first; rewrite Htree; reflexivity).
    rewrite Hfw, Hfu, Hfi, <- Hend.
    pose proof (check_subwords_rel pl pl' r r' (regex_follow r)
                  (conj Hroot (conj Hend (conj Har (conj Htree Hin)))) (regex_fuel r)
                  (regex_first r) [r_end r] [] [] (fun _ H => match H with end) (fun _ H => match H with end)) as H.
    destruct (check_subwords r _ pl _ _ _ []) as [[v c]|e|m|];
      destruct (check_subwords r' _ pl' _ _ _ []) as [[v' c']|e'|m'|]; cbn [crel] in H; try contradiction;
      cbn [obind mres]; try reflexivity; congruence.
  Qed.
End Spans.

(** *** Within-word automata and the main automaton *)
Section Compile.
  Variable f : span -> span.
  Variable pick : nat -> list (list N) -> nat.
  Variable fuel : nat.

  Lemma from_input_msi sm i : from_input sm (msi f i) = from_input sm i.
  Proof. destruct i; reflexivity. Qed.

  Lemma omap_from_input_msi sm l : omap (from_input sm) (map (msi f) l) = omap (from_input sm) l.
  Proof. induction l as [|i r IH]; cbn [map omap]; [reflexivity|]. rewrite from_input_msi, IH. reflexivity. Qed.

  Lemma dfa_from_regex_msr sm x : dfa_from_regex pick fuel sm (msr f x) = dfa_from_regex pick fuel sm x.
  Proof. unfold dfa_from_regex. cbn [msr r_inputs]. rewrite omap_from_input_msi. reflexivity. Qed.

  Lemma compile_sub_msr x : compile_sub pick fuel (msr f x) = compile_sub pick fuel x.
  Proof. unfold compile_sub. rewrite dfa_from_regex_msr. reflexivity. Qed.

  (** interning *)
  Lemma intern_app d subs : forall i k l,
    intern_dfa d subs i = (k, subs) -> intern_dfa d (subs ++ l) i = (k, subs ++ l).
  Proof.
    induction subs as [|x r IH]; intros i k l H; cbn [intern_dfa app] in *.
    - inversion H.
    - destruct (dfa_eqb x d); [inversion H; subst; reflexivity|].
      destruct (intern_dfa d r (N.succ i)) as [k' r'] eqn:E. inversion H; subst.
      rewrite (IH _ _ l E). reflexivity.
  Qed.

  Lemma intern_shape d subs : forall i k subs',
    intern_dfa d subs i = (k, subs') ->
    (subs' = subs \/ subs' = subs ++ [d]) /\ intern_dfa d subs' i = (k, subs').
  Proof.
    induction subs as [|x r IH]; intros i k subs' H; cbn [intern_dfa] in H.
    - inversion H; subst. split; [right; reflexivity|]. cbn [intern_dfa].
      rewrite (proj2 (dfa_eqb_eq d d) eq_refl). reflexivity.
    - destruct (dfa_eqb x d) eqn:E.
      + inversion H; subst. split; [left; reflexivity|]. cbn [intern_dfa]. rewrite E. reflexivity.
      + destruct (intern_dfa d r (N.succ i)) as [k' r'] eqn:E2. inversion H; subst.
        destruct (IH _ _ _ E2) as [Hs Hi]. split.
        * destruct Hs as [Hs|Hs]; rewrite Hs; [left|right]; reflexivity.
        * cbn [intern_dfa]. rewrite E, Hi. reflexivity.
  Qed.

  Lemma intern_stable d d2 subs k k2 subs2 :
    intern_dfa d subs 0 = (k, subs) -> intern_dfa d2 subs 0 = (k2, subs2) ->
    intern_dfa d subs2 0 = (k, subs2).
  Proof.
    intros H H2. destruct (intern_shape _ _ _ _ _ H2) as [[Hs|Hs] _]; rewrite Hs; [exact H|].
    apply intern_app. exact H.
  Qed.

  Definition K (pl : pool) (cache : list (N * N)) (subs : list dfa) : Prop :=
    forall rid k, assocN rid cache = Some k ->
      exists x d, nthN pl rid = Some x /\ compile_sub pick fuel x = Ok d /\ intern_dfa d subs 0 = (k, subs).

  Lemma assocN_snoc {V} rid (cache : list (N * V)) rid0 k :
    assocN rid (cache ++ [(rid0, k)]) =
    match assocN rid cache with Some v => Some v | None => if N.eqb rid rid0 then Some k else None end.
  Proof.
    induction cache as [|[a b] r IH]; cbn [app assocN]; [reflexivity|].
    destruct (N.eqb rid a); [reflexivity|exact IH].
  Qed.

  Lemma K_grow pl cache subs d2 k2 subs2 :
    K pl cache subs -> intern_dfa d2 subs 0 = (k2, subs2) -> K pl cache subs2.
  Proof.
    intros HK H2 rid k Hk. destruct (HK rid k Hk) as (x & d & Hx & Hc & Hi).
    exists x, d. repeat split; auto. eapply intern_stable; eauto.
  Qed.

  Lemma K_add pl cache subs rid x d k subs2 :
    K pl cache subs -> nthN pl rid = Some x -> compile_sub pick fuel x = Ok d ->
    intern_dfa d subs 0 = (k, subs2) -> K pl (cache ++ [(rid, k)]) subs2.
  Proof.
    intros HK Hx Hc Hi rid0 k0 H0. rewrite assocN_snoc in H0.
    destruct (assocN rid0 cache) as [v|] eqn:E.
    - inversion H0; subst v. eapply K_grow; eauto.
    - destruct (N.eqb rid0 rid) eqn:En; [|discriminate]. apply N.eqb_eq in En. subst rid0.
      inversion H0; subst k0. exists x, d. repeat split; auto.
      destruct (intern_shape _ _ _ _ _ Hi) as [_ H]. exact H.
  Qed.

  Definition covers (cache : list (N * N)) (inputs : list rinput) (c : list (N * N)) : Prop :=
    forall rid, (assocN rid cache <> None \/ In rid (sub_ids_of inputs)) -> assocN rid c <> None.

  Definition drel (pl pl' : pool) (cache cache' : list (N * N)) (inputs inputs' : list rinput)
             (x y : dres (list (N * N) * list dfa)) : Prop :=
    match x, y with
    | Ok (c, s), Ok (c', s') => s = s' /\ K pl c s /\ K pl' c' s
                                /\ covers cache inputs c /\ covers cache' inputs' c'
    | Err e, Err e' => e = e'
    | Panic a, Panic b => a = b
    | OutOfFuel, OutOfFuel => True
    | _, _ => False
    end.

  Lemma covers_skip cache i inputs c : 
    (match i with RSub _ _ _ => False | _ => True end) ->
    covers cache inputs c -> covers cache (i :: inputs) c.
  Proof.
    intros Hi H rid Hr. apply H. destruct Hr as [Hr|Hr]; [left; exact Hr|right].
    unfold sub_ids_of in *. cbn [flat_map] in Hr. destruct i; try destruct Hi; exact Hr.
  Qed.

  Lemma compile_subs_rel pl pl' inputs inputs' :
    Forall2 (irel f pl pl') inputs inputs' ->
    forall cache cache' subs, K pl cache subs -> K pl' cache' subs ->
      drel pl pl' cache cache' inputs inputs'
           (compile_subs pick fuel inputs pl cache subs) (compile_subs pick fuel inputs' pl' cache' subs).
  Proof.
    induction 1 as [|i i' r r' Hi Hr IH]; intros cache cache' subs HK HK'.
    - cbn. repeat split; auto; intros rid [H|[]]; exact H.
    - destruct i, i'; cbn in Hi; try contradiction; cbn [compile_subs].
      1-3: (specialize (IH cache cache' subs HK HK');
            destruct (compile_subs pick fuel r pl cache subs) as [[cc ss]| | |];
            destruct (compile_subs pick fuel r' pl' cache' subs) as [[cc' ss']| | |]; cbn [drel] in IH |- *;
            try contradiction; try exact IH;
            destruct IH as (A & B & C & D & E); repeat split; auto; apply covers_skip; auto; exact I).
      destruct Hi as (_ & _ & x & Hx & Hx').
      assert (Hcov : forall cacheX ridX lX spX inputsX cX (kX : N),
                 covers cacheX inputsX cX -> assocN ridX cacheX <> None ->
                 covers cacheX (RSub ridX lX spX :: inputsX) cX).
      { intros cacheX ridX lX spX inputsX cX kX H Hn rid1 [H1|H1]; [apply H; left; exact H1|].
        unfold sub_ids_of in H1. cbn [flat_map app] in H1. destruct H1 as [H1|H1].
        - subst rid1. apply H. left. exact Hn.
        - apply H. right. exact H1. }
      assert (Hcov2 : forall cacheX ridX kX lX spX inputsX cX,
                 covers (cacheX ++ [(ridX, kX)]) inputsX cX ->
                 covers cacheX (RSub ridX lX spX :: inputsX) cX).
      { intros cacheX ridX kX lX spX inputsX cX H rid1 [H1|H1].
        - apply H. left. rewrite assocN_snoc. destruct (assocN rid1 cacheX); [discriminate|congruence].
        - unfold sub_ids_of in H1. cbn [flat_map app] in H1. destruct H1 as [H1|H1].
          + subst rid1. apply H. left. rewrite assocN_snoc. destruct (assocN ridX cacheX); [discriminate|].
            rewrite N.eqb_refl. discriminate.
          + apply H. right. exact H1. }
      pose proof (compile_sub_msr x) as Hcm.
      destruct (assocN rid cache) as [k|] eqn:Ec; destruct (assocN rid0 cache') as [k'|] eqn:Ec'.
      + (* both cached *)
        specialize (IH cache cache' subs HK HK').
        destruct (compile_subs pick fuel r pl cache subs) as [[c s]| | |];
          destruct (compile_subs pick fuel r' pl' cache' subs) as [[c' s']| | |]; cbn [drel] in IH |- *;
          try contradiction; try exact IH.
        destruct IH as (A & B & C & D & E). repeat split; auto.
        * eapply (Hcov cache rid l sp r c k); auto. congruence.
        * eapply (Hcov cache' rid0 l0 (f sp) r' c' k'); auto. congruence.
      + (* only the first run has it cached *)
        rewrite Hx'. destruct (HK rid k Ec) as (x0 & d & Hx0 & Hc & Hin). rewrite Hx in Hx0. inversion Hx0; subst x0.
        rewrite Hcm, Hc. cbn [obind]. rewrite Hin.
        assert (HK2 : K pl' (cache' ++ [(rid0, k)]) subs).
        { eapply K_add; eauto. rewrite Hcm. exact Hc. }
        specialize (IH cache (cache' ++ [(rid0, k)]) subs HK HK2).
        destruct (compile_subs pick fuel r pl cache subs) as [[c s]| | |];
          destruct (compile_subs pick fuel r' pl' (cache' ++ [(rid0, k)]) subs) as [[c' s']| | |];
          cbn [drel] in IH |- *; try contradiction; try exact IH.
        destruct IH as (A & B & C & D & E). repeat split; auto.
        * eapply (Hcov cache rid l sp r c k); auto. congruence.
        * eapply Hcov2; eauto.
      + (* only the second run has it cached *)
        rewrite Hx. destruct (HK' rid0 k' Ec') as (x0 & d & Hx0 & Hc & Hin). rewrite Hx' in Hx0.
        inversion Hx0; subst x0. rewrite Hcm in Hc. rewrite Hc. cbn [obind]. rewrite Hin.
        assert (HK2 : K pl (cache ++ [(rid, k')]) subs) by (eapply K_add; eauto).
        specialize (IH (cache ++ [(rid, k')]) cache' subs HK2 HK').
        destruct (compile_subs pick fuel r pl (cache ++ [(rid, k')]) subs) as [[c s]| | |];
          destruct (compile_subs pick fuel r' pl' cache' subs) as [[c' s']| | |];
          cbn [drel] in IH |- *; try contradiction; try exact IH.
        destruct IH as (A & B & C & D & E). repeat split; auto.
        * eapply Hcov2; eauto.
        * eapply (Hcov cache' rid0 l0 (f sp) r' c' k'); auto. congruence.
      + (* both compile *)
        rewrite Hx, Hx', Hcm.
        destruct (compile_sub pick fuel x) as [d|e|m|] eqn:Hc; cbn [obind drel]; auto.
        destruct (intern_dfa d subs 0) as [k subs2] eqn:Hin.
        assert (HK2 : K pl (cache ++ [(rid, k)]) subs2) by (eapply K_add; eauto).
        assert (HK2' : K pl' (cache' ++ [(rid0, k)]) subs2) by (eapply K_add; eauto).
        specialize (IH _ _ subs2 HK2 HK2').
        destruct (compile_subs pick fuel r pl (cache ++ [(rid, k)]) subs2) as [[c s]| | |];
          destruct (compile_subs pick fuel r' pl' (cache' ++ [(rid0, k)]) subs2) as [[c' s']| | |];
          cbn [drel] in IH |- *; try contradiction; try exact IH.
        destruct IH as (A & B & C & D & E). repeat split; auto; eapply Hcov2; eauto.
  Qed.

  (** the labels of the main automaton *)
  Lemma labels_eq pl pl' c c' subs inputs inputs' inputs0 inputs0' cache0 cache0' :
    Forall2 (irel f pl pl') inputs inputs' ->
    K pl c subs -> K pl' c' subs ->
    covers cache0 inputs0 c -> covers cache0' inputs0' c' ->
    incl (sub_ids_of inputs) (sub_ids_of inputs0) -> incl (sub_ids_of inputs') (sub_ids_of inputs0') ->
    omap (from_input c) inputs = omap (from_input c') inputs'.
  Proof.
    intros HF HK HK' Hcov Hcov'. induction HF as [|i i' r r' Hi _ IH]; intros Hin Hin'; [reflexivity|].
    cbn [omap].
    assert (Hr : omap (from_input c) r = omap (from_input c') r').
    { apply IH; intros x Hx; [apply Hin|apply Hin']; unfold sub_ids_of in *; cbn [flat_map];
        apply in_or_app; right; exact Hx. }
    rewrite Hr.
    assert (Hh : from_input c i = from_input c' i').
    { destruct i, i'; cbn in Hi; try contradiction; cbn [from_input].
      - destruct Hi as (-> & -> & -> & _). reflexivity.
      - reflexivity.
      - destruct Hi as (-> & -> & -> & _). reflexivity.
      - destruct Hi as (-> & _ & x & Hx & Hx').
        assert (H1 : assocN rid c <> None).
        { apply Hcov. right. apply Hin. unfold sub_ids_of. cbn. left. reflexivity. }
        assert (H1' : assocN rid0 c' <> None).
        { apply Hcov'. right. apply Hin'. unfold sub_ids_of. cbn. left. reflexivity. }
        destruct (assocN rid c) as [k|] eqn:E; [|congruence].
        destruct (assocN rid0 c') as [k'|] eqn:E'; [|congruence].
        destruct (HK rid k E) as (x1 & d1 & A1 & B1 & C1).
        destruct (HK' rid0 k' E') as (x2 & d2 & A2 & B2 & C2).
        rewrite Hx in A1. inversion A1; subst x1. rewrite Hx' in A2. inversion A2; subst x2.
        rewrite compile_sub_msr in B2. rewrite B1 in B2. inversion B2; subst d2.
        rewrite C1 in C2. inversion C2. reflexivity. }
    rewrite Hh. reflexivity.
  Qed.

  Definition ms_derr (e : derror) : derror :=
    match e with
    | DParse sp => DParse (f sp)
    | DCheck ce => DCheck (ms_err f ce)
    | DRegex re => DRegex (msrerr f re)
    | DSubset _ | DAmb _ => e
    end.

  Definition dmap {A} (x : dres A) : dres A :=
    match x with Ok a => Ok a | Err e => Err (ms_derr e) | Panic m => Panic m | OutOfFuel => OutOfFuel end.

  Definition spanless (e : derror) : Prop :=
    match e with DSubset _ | DAmb _ => True | _ => False end.

  Lemma compile_sub_err x e : compile_sub pick fuel x = Err e -> spanless e.
  Proof.
    unfold compile_sub.
    destruct (dfa_from_regex pick fuel [] x) as [raw|e0| |]; cbn [lift obind]; try discriminate.
    2:{ intro H. inversion H. exact I. }
    destruct (check_ambiguity_best_effort (fst raw)) as [[]|e1| |]; cbn [lift obind]; try discriminate.
    2:{ intro H. inversion H. exact I. }
    destruct (minimize (fst raw)) as [m|e2| |]; cbn [lift_noerr obind]; try discriminate.
    destruct (check_ambiguity_best_effort m) as [[]|e3| |]; cbn [lift obind]; try discriminate.
    intro H. inversion H. exact I.
  Qed.

  Lemma compile_subs_err inputs pl : forall cache subs e,
    compile_subs pick fuel inputs pl cache subs = Err e -> spanless e.
  Proof.
    induction inputs as [|i r IH]; intros cache subs e H; cbn [compile_subs] in H; [discriminate|].
    destruct i; try (eapply IH; exact H).
    destruct (assocN rid cache); [eapply IH; exact H|].
    destruct (nthN pl rid) as [x|]; [|discriminate].
    destruct (compile_sub pick fuel x) as [d|e0| |] eqn:Ec; cbn [obind] in H; try discriminate.
    - destruct (intern_dfa d subs 0). eapply IH; exact H.
    - inversion H; subst. eapply compile_sub_err; exact Ec.
  Qed.

  (** [compile_valid] ignores spans *)
  Theorem compile_valid_spans v :
    flat_subwords (v_expr v) = true ->
    compile_valid pick fuel (ms_valid f v) = dmap (compile_valid pick fuel v).
  Proof.
    intro Hf. unfold compile_valid, from_valid_expr. cbn [ms_valid v_expr].
    pose proof (from_expr_rrel f (v_expr v) Hf) as Hr.
    destruct (from_expr (v_expr v) []) as [[r pl]|e0|m0|] eqn:E1;
      destruct (from_expr (ms f (v_expr v)) []) as [[r' pl']|e0'|m0'|] eqn:E2;
      cbn [orel fst snd] in Hr; try contradiction; cbn [obind lift dmap]; try reflexivity;
      [|congruence].
    cbn [fst snd]. rewrite (check_ambiguities_rel f pl pl' r r' Hr).
    destruct (check_ambiguities r pl) as [[]|e1|m1|]; cbn [mres obind lift dmap ms_derr]; try reflexivity.
    destruct Hr as (Hroot & Hend & Har & Htree & Hin).
    pose proof (compile_subs_rel pl pl' (r_inputs r) (r_inputs r') Hin [] [] []
                  (fun rid k H => ltac:(discriminate)) (fun rid k H => ltac:(discriminate))) as Hc.
    destruct (compile_subs pick fuel (r_inputs r) pl [] []) as [[c subs]|e2|m2|] eqn:Ecs;
      destruct (compile_subs pick fuel (r_inputs r') pl' [] []) as [[c' subs']|e2'|m2'|];
      cbn [drel] in Hc; try contradiction; cbn [obind dmap]; try congruence.
    2:{ subst e2'. apply compile_subs_err in Ecs. destruct e2; try destruct Ecs; reflexivity. }
    destruct Hc as (<- & HK & HK' & Hcov & Hcov').
    assert (Hd : dfa_from_regex pick fuel c' r' = dfa_from_regex pick fuel c r).
    { unfold dfa_from_regex.
      rewrite (labels_eq pl pl' c c' subs (r_inputs r) (r_inputs r') (r_inputs r) (r_inputs r') [] []
                         Hin HK HK' Hcov Hcov' (incl_refl _) (incl_refl _)).
      unfold regex_first, regex_follow. rewrite Htree, Hend. reflexivity. }
    rewrite Hd.
    destruct (dfa_from_regex pick fuel c r) as [raw|e3|m3|]; cbn [lift obind dmap ms_derr]; try reflexivity.
    destruct (minimize (fst raw)) as [m|e4|m4|]; cbn [lift_noerr obind dmap]; try reflexivity.
    destruct (check_ambiguity_best_effort m) as [[]|e5|m5|]; reflexivity.
  Qed.
End Compile.
