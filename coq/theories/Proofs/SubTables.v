(** What the bash tables say about within-word automata ([a_subtrans], [a_subwords],
    [a_subaccepting] of [Tables.all_tables Bash]) in the form the walk of the script uses them:
    the row of a state lists exactly its within-word transitions, pool indices translate to script
    ids one to one, every script id has the tables and the accepting states of its automaton. *)
From CG Require Import Base.Prelude Model.Ast Model.Dfa Model.Tables Model.Glob Model.BashSem.
From Coq Require Import FinFun.
From CG Require Import Proofs.TablesSound Proofs.TablesKeys Proofs.MinimizePostGen.

Lemma NoDup_map_filter {A B} (g : A -> B) (f : A -> bool) l : NoDup (map g l) -> NoDup (map g (filter f l)).
Proof.
  induction l as [| x l IH]; intro H; [constructor |]. cbn [map] in H. inversion H as [| y ys Hnot Hnd]; subst.
  cbn [filter]. destruct (f x); [| apply IH; exact Hnd]. cbn [map]. constructor; [| apply IH; exact Hnd].
  intro Hin. apply Hnot. apply in_map_iff in Hin. destruct Hin as [z [Ez Hz]]. apply filter_In in Hz.
  apply in_map_iff. exists z. split; [exact Ez | apply Hz].
Qed.

Lemma Forall2_maps {A B C} (R : A -> B -> Prop) (g : B -> C) (h : A -> C) l l' :
  Forall2 R l l' -> (forall x y, R x y -> g y = h x) -> map g l' = map h l.
Proof. intros H Hxy. induction H as [| x y l l' Hr _ IH]; [reflexivity |]. cbn [map]. rewrite IH, (Hxy x y Hr). reflexivity. Qed.

Lemma get_subwords_covers rt first f pi l t :
  In (f, ISub pi l, t) rt -> In pi (map fst (get_subwords rt first)).
Proof.
  unfold get_subwords.
  set (F := fun (acc : list (N * N)) (fxt : N * inp * N) =>
              match fxt with
              | (_, ISub s _, _) => if existsb (fun p => N.eqb (fst p) s) acc then acc else acc ++ [(s, first + lenN acc)]
              | _ => acc
              end).
  assert (Mono : forall rt acc q, In q (map fst acc) -> In q (map fst (fold_left F rt acc))).
  { induction rt0 as [| [[f0 x0] t0] rt0 IH]; intros acc q Hq; [exact Hq |]. cbn [fold_left]. apply IH.
    destruct x0; cbn; try exact Hq. destruct (existsb _ acc); [exact Hq |]. rewrite map_app. apply in_or_app. left; exact Hq. }
  assert (G : forall rt acc, In (f, ISub pi l, t) rt -> In pi (map fst (fold_left F rt acc))).
  { induction rt0 as [| y rt0 IH]; intros acc Hin; [destruct Hin |]. cbn [fold_left].
    destruct Hin as [-> | Hin]; [| apply IH; exact Hin]. apply Mono. cbn.
    destruct (existsb (fun p => N.eqb (fst p) pi) acc) eqn:E.
    - apply existsb_exists in E. destruct E as [[p q] [Hp E]]. cbn in E. apply N.eqb_eq in E. subst p.
      apply in_map_iff. exists (pi, q). split; [reflexivity | exact Hp].
    - rewrite map_app. apply in_or_app. right. left. reflexivity. }
  apply G.
Qed.

Lemma script_id_in (subs : list (N * N * tables)) pi id T :
  NoDup (map (fun e => fst (fst e)) subs) -> In (pi, id, T) subs -> script_id subs pi = Some id.
Proof.
  induction subs as [| [[p i] T0] r IH]; intros ND Hin; [destruct Hin |]. cbn [script_id].
  cbn [map fst] in ND. inversion ND as [| y ys Hnot Hnd]; subst.
  destruct Hin as [E | Hin].
  - inversion E; subst. rewrite N.eqb_refl. reflexivity.
  - destruct (N.eqb p pi) eqn:Ep; [| apply IH; assumption]. apply N.eqb_eq in Ep. subst p. exfalso. apply Hnot.
    apply in_map_iff. exists (pi, id, T). split; [reflexivity | exact Hin].
Qed.

Lemma script_id_some (subs : list (N * N * tables)) pi id :
  script_id subs pi = Some id -> exists T, In (pi, id, T) subs.
Proof.
  induction subs as [| [[p i] T0] r IH]; cbn [script_id]; intro H; [discriminate |].
  destruct (N.eqb p pi) eqn:Ep.
  - apply N.eqb_eq in Ep. inversion H; subst. exists T0. left; reflexivity.
  - destruct (IH H) as [T Hin]. exists T. right; exact Hin.
Qed.

Lemma subword_tables_in (subs : list (N * N * tables)) pi id T :
  NoDup (map (fun e => snd (fst e)) subs) -> In (pi, id, T) subs -> subword_tables subs id = Some T.
Proof.
  induction subs as [| [[p i] T0] r IH]; intros ND Hin; [destruct Hin |]. cbn [subword_tables].
  cbn [map fst snd] in ND. inversion ND as [| y ys Hnot Hnd]; subst.
  destruct Hin as [E | Hin].
  - inversion E; subst. rewrite N.eqb_refl. reflexivity.
  - destruct (N.eqb i id) eqn:Ep; [| apply IH; assumption]. apply N.eqb_eq in Ep. subst i. exfalso. apply Hnot.
    apply in_map_iff. exists (pi, id, T). split; [reflexivity | exact Hin].
Qed.

Lemma sub_row_spec (subs : list (N * N * tables)) : forall row,
  (forall pi to, In (pi, to) row -> exists id, script_id subs pi = Some id) ->
  exists srow, sub_row subs row = Ok srow
               /\ Forall2 (fun pt it => snd pt = snd it /\ script_id subs (fst pt) = Some (fst it)) row srow.
Proof.
  induction row as [| [pi to] row IH]; intro H.
  - exists []. split; [reflexivity | constructor].
  - destruct (H pi to (or_introl eq_refl)) as [id Hid]. destruct IH as [srow [Hs Hf]]; [intros pi' to' Hin; apply (H pi' to'); right; exact Hin |].
    exists ((id, to) :: srow). cbn [sub_row]. rewrite Hid, Hs. cbn [obind]. split; [reflexivity |].
    constructor; [split; [reflexivity | exact Hid] | exact Hf].
Qed.

Section SubTables.
  Variables (c : cdfa) (om : list (string * string)) (os : list (N * list (string * string)))
            (nd : needs) (a : alltables).
  Hypothesis Hwf : dfa_wf (c_main c).
  Hypothesis Hall : all_tables Bash c om os = Ok (nd, a).
  Notation d := (c_main c).

  Lemma subtrans_keys : NoDup (map fst (a_subtrans a)).
  Proof.
    destruct (all_tables_inv _ _ _ _ _ _ Hall) as [rt F]. pose proof (af_subtrans _ _ _ _ _ _ _ F) as H.
    unfold subword_transitions in H. apply obind_ok in H. destruct H as [rows [Hrows H]]. injection H as Ha.
    rewrite <- Ha. apply NoDup_map_filter.
    assert (E : map fst rows = get_all_states d).
    { apply omap_ok in Hrows. rewrite <- (map_id (get_all_states d)). apply (Forall2_maps _ _ _ _ _ Hrows).
      intros s y Hy. apply obind_ok in Hy. destruct Hy as [tr [_ Hy]]. inversion Hy; subst; reflexivity. }
    rewrite E. apply get_all_states_NoDup.
  Qed.

  Lemma subtrans_row s row :
    assocN s (a_subtrans a) = Some row -> forall pi to, In (pi, to) row <-> exists lvl, trans_on d s (ISub pi lvl) to.
  Proof.
    intros Hr pi to. rewrite <- (subtrans_exact Bash c om os nd a Hwf Hall s pi to). split.
    - intro Hin. exists row. split; [apply assocN_in; exact Hr | exact Hin].
    - intros [row' [Hrow' Hin]]. rewrite (in_assocN s _ row' subtrans_keys Hrow') in Hr. inversion Hr; subst. exact Hin.
  Qed.

  Lemma subtrans_none s pi lvl to : assocN s (a_subtrans a) = None -> ~ trans_on d s (ISub pi lvl) to.
  Proof.
    intros Hn Htr.
    destruct (proj2 (subtrans_exact Bash c om os nd a Hwf Hall s pi to) (ex_intro _ lvl Htr)) as [row [Hrow _]].
    rewrite (in_assocN s _ row subtrans_keys Hrow) in Hn. discriminate.
  Qed.

  (** rows are never empty *)
  Lemma subtrans_row_nonempty s : assocN s (a_subtrans a) <> Some [].
  Proof.
    intro Hr. apply assocN_in in Hr.
    destruct (all_tables_inv _ _ _ _ _ _ Hall) as [rt F]. pose proof (af_subtrans _ _ _ _ _ _ _ F) as H.
    unfold subword_transitions in H. apply obind_ok in H. destruct H as [rows [Hrows H]]. injection H as Ha.
    rewrite <- Ha in Hr. apply filter_In in Hr. destruct Hr as [_ Hr]. discriminate.
  Qed.

  Lemma subs_pairs rt : rtrans d = Ok rt -> map fst (a_subwords a) = get_subwords rt 0.
  Proof.
    intro Hrt. destruct (all_tables_inv _ _ _ _ _ _ Hall) as [rt' F]. rewrite (af_rt _ _ _ _ _ _ _ F) in Hrt. inversion Hrt; subst rt'.
    pose proof (af_subs _ _ _ _ _ _ _ F) as H. cbn [array_start] in H. apply omap_ok in H.
    rewrite <- (map_id (get_subwords rt 0)). apply (Forall2_maps _ _ _ _ _ H).
    intros pi y Hy. apply obind_ok in Hy. destruct Hy as [sd [_ Hy]]. apply obind_ok in Hy. destruct Hy as [t [_ Hy]]. inversion Hy.
    cbn. destruct pi; reflexivity.
  Qed.

  Lemma subacc_pairs rt : rtrans d = Ok rt -> map fst (a_subaccepting a) = map snd (get_subwords rt 0).
  Proof.
    intro Hrt. destruct (all_tables_inv _ _ _ _ _ _ Hall) as [rt' F]. rewrite (af_rt _ _ _ _ _ _ _ F) in Hrt. inversion Hrt; subst rt'.
    pose proof (af_subacc _ _ _ _ _ _ _ F) as H. cbn [array_start] in H. apply omap_ok in H.
    apply (Forall2_maps _ _ _ _ _ H).
    intros pi y Hy. apply obind_ok in Hy. destruct Hy as [sd [_ Hy]]. inversion Hy. reflexivity.
  Qed.

  Lemma ids_NoDup rt : NoDup (map snd (get_subwords rt 0)).
  Proof.
    destruct (get_subwords_ids rt 0) as [E _]. rewrite E.
    apply Injective_map_NoDup; [| apply seq_NoDup]. intros x y Hxy. lia.
  Qed.

  (** everything about one within-word transition *)
  Theorem sub_entry s pi lvl to :
    trans_on d s (ISub pi lvl) to ->
    exists id sd T,
      script_id (a_subwords a) pi = Some id
      /\ subword_tables (a_subwords a) id = Some T
      /\ nthN (c_subs c) pi = Some sd
      /\ get_lookup_tables sd (a_commands a) 0 (n_sub_cmd nd) false (n_sub_star nd)
           (match assocN pi os with Some o => o | None => [] end) = Ok T
      /\ BashSem.sub_accepting a id = d_accepting sd
      /\ (forall pi', script_id (a_subwords a) pi' = Some id -> pi' = pi)
      /\ (forall rt, rtrans d = Ok rt -> assocN pi (get_subwords rt 0) = Some id).
  Proof.
    intro Htr. destruct (all_tables_inv _ _ _ _ _ _ Hall) as [rt F]. pose proof (af_rt _ _ _ _ _ _ _ F) as Hrt.
    assert (Hin : In (s, ISub pi lvl, to) rt) by (apply (trans_on_rt _ _ _ _ _ Hwf Hrt); exact Htr).
    pose proof (get_subwords_covers rt 0 s pi lvl to Hin) as Hpi.
    apply in_map_iff in Hpi. destruct Hpi as [[pi0 id] [E Hids]]. cbn in E. subst pi0.
    rewrite <- (subs_pairs rt Hrt) in Hids. apply in_map_iff in Hids. destruct Hids as [[[pi0 id0] T] [E HinT]]. cbn in E. inversion E; subst pi0 id0.
    destruct (proj1 (subwords_exact Bash c om os nd a Hall pi id T) HinT) as [rt' [sd [Hrt' [Hid [Hsd Hglt]]]]].
    rewrite Hrt in Hrt'. inversion Hrt'; subst rt'. cbn [array_start compadd_switch] in Hglt, Hid.
    assert (ND1 : NoDup (map (fun e : N * N * tables => fst (fst e)) (a_subwords a))).
    { rewrite <- map_map, (subs_pairs rt Hrt). apply (get_subwords_ids rt 0). }
    assert (ND2 : NoDup (map (fun e : N * N * tables => snd (fst e)) (a_subwords a))).
    { rewrite <- map_map, (subs_pairs rt Hrt). apply ids_NoDup. }
    exists id, sd, T. split; [apply (script_id_in _ pi id T ND1 HinT) |].
    split; [apply (subword_tables_in _ pi id T ND2 HinT) |]. split; [exact Hsd |]. split; [exact Hglt |]. split; [| split].
    - assert (Hacc : In (id, map (fun s0 => s0 + 0) (d_accepting sd)) (a_subaccepting a)).
      { apply (subaccepting_exact Bash c om os nd a Hall). exists rt, pi, sd. repeat split; assumption. }
      unfold BashSem.sub_accepting. rewrite (in_assocN id _ _ (eq_ind_r (fun l => NoDup l) (ids_NoDup rt) (subacc_pairs rt Hrt)) Hacc).
      rewrite <- (map_id (d_accepting sd)) at 2. apply map_ext. intro x. lia.
    - intros pi' Hs. apply script_id_some in Hs. destruct Hs as [T' Hin'].
      assert (H1 : In (pi', id) (get_subwords rt 0)) by (rewrite <- (subs_pairs rt Hrt); apply in_map_iff; exists (pi', id, T'); split; [reflexivity | exact Hin']).
      assert (H2 : In (pi, id) (get_subwords rt 0)) by exact Hid.
      clear -H1 H2. pose proof (ids_NoDup rt) as ND. revert H1 H2 ND. generalize (get_subwords rt 0) as l.
      induction l as [| [p i] l IH]; intros H1 H2 ND; [destruct H1 |]. cbn [map snd] in ND. inversion ND as [| y ys Hnot Hnd]; subst.
      destruct H1 as [E1 | H1], H2 as [E2 | H2].
      + inversion E1; inversion E2; subst. reflexivity.
      + inversion E1; subst. exfalso. apply Hnot. apply in_map_iff. exists (pi, id). split; [reflexivity | exact H2].
      + inversion E2; subst. exfalso. apply Hnot. apply in_map_iff. exists (pi', id). split; [reflexivity | exact H1].
      + apply IH; assumption.
    - intros rt2 Hrt2. rewrite Hrt in Hrt2. inversion Hrt2; subst rt2. apply in_assocN; [apply (get_subwords_ids rt 0) | exact Hid].
  Qed.
End SubTables.
