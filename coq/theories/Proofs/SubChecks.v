(** Decidable sufficient conditions for the two side conditions of layer (c):
    [sub_orders_okb] for [sub_orders_ok] and [subs_single] (the input pool of the main automaton
    names at most one within-word automaton per level) for [subs_deterministic]. *)
From CG Require Import Base.Prelude Model.Ast Model.Dfa Model.Tables Model.Glob Model.BashSem Spec.Lang.
From CG Require Import Proofs.TablesSound Proofs.TableLookup Proofs.DfaMeaning Proofs.BashMeaningSub.

Fixpoint nodup_pairs (l : list (string * string)) : bool :=
  match l with
  | [] => true
  | x :: r => negb (existsb (pair_eqb x) r) && nodup_pairs r
  end.

Lemma nodup_pairs_sound l : nodup_pairs l = true -> NoDup l.
Proof.
  induction l as [| x r IH]; cbn [nodup_pairs]; intro H; [constructor |].
  apply andb_true_iff in H. destruct H as [H1 H2]. constructor; [| apply IH; exact H2].
  intro Hin. apply negb_true_iff in H1. apply not_true_iff_false in H1. apply H1.
  apply existsb_exists. exists x. split; [exact Hin | apply pair_eqb_eq; reflexivity].
Qed.

Definition sub_order (os : list (N * list (string * string))) (pi : N) : list (string * string) :=
  match assocN pi os with Some o => o | None => [] end.

Definition sub_orders_okb (c : cdfa) (os : list (N * list (string * string))) : bool :=
  forallb (fun ip => nodup_pairs (sub_order os (fst ip)) && valid_literal_order (snd ip) (sub_order os (fst ip)))
          (indexed_from 0 (c_subs c)).

Lemma sub_orders_okb_sound c os : sub_orders_okb c os = true -> sub_orders_ok c os.
Proof.
  unfold sub_orders_okb, sub_orders_ok. intros H pi sd Hn. rewrite forallb_forall in H.
  assert (Hin : In (pi, sd) (indexed_from 0 (c_subs c))).
  { apply indexed_from_in. split; [lia |]. replace (pi - 0) with pi by lia. exact Hn. }
  specialize (H _ Hin). cbn [fst snd] in H. apply andb_true_iff in H. destruct H as [H1 H2].
  split; [apply nodup_pairs_sound; exact H1 | exact H2].
Qed.

Definition subs_single (c : cdfa) : bool :=
  forallb (fun x => forallb (fun y => match x, y with
                                       | ISub k l, ISub k' l' => negb (N.eqb l l') || N.eqb k k'
                                       | _, _ => true
                                       end) (d_inputs (c_main c))) (d_inputs (c_main c)).

Lemma subs_single_sound c : NoDup (d_inputs (c_main c)) -> subs_single c = true -> subs_deterministic c.
Proof.
  intros ND H s k k' l t t' [i [Hs Hi]] [j [Hs' Hj]] _.
  unfold subs_single in H. rewrite forallb_forall in H.
  assert (I1 : In (ISub k l) (d_inputs (c_main c))) by (unfold nthN in Hi; eapply nth_error_In; exact Hi).
  assert (I2 : In (ISub k' l) (d_inputs (c_main c))) by (unfold nthN in Hj; eapply nth_error_In; exact Hj).
  specialize (H _ I1). rewrite forallb_forall in H. specialize (H _ I2). cbn in H.
  rewrite N.eqb_refl in H. cbn in H. apply N.eqb_eq in H. subst k'.
  rewrite (nthN_inj (c_main c) ND i j _ Hi Hj) in Hs. rewrite Hs in Hs'. inversion Hs'. reflexivity.
Qed.

(** the same, state by state: the within-word automata on the transitions that leave one state
    under one level are one automaton *)
Definition subs_local (c : cdfa) : bool :=
  let inputs := d_inputs (c_main c) in
  forallb (fun srow : N * list (N * N) =>
             forallb (fun it : N * N =>
                        forallb (fun ju : N * N =>
                                   match nthN inputs (fst it), nthN inputs (fst ju) with
                                   | Some (ISub k l), Some (ISub k' l') => negb (N.eqb l l') || N.eqb k k'
                                   | _, _ => true
                                   end) (snd srow)) (snd srow)) (d_trans (c_main c)).

Lemma subs_local_sound c : NoDup (d_inputs (c_main c)) -> subs_local c = true -> subs_deterministic c.
Proof.
  intros ND H s k k' l t t' [i [Hs Hi]] [j [Hs' Hj]] _.
  pose proof Hs as Hs0. pose proof Hs' as Hs0'.
  unfold Dfa.step in Hs, Hs'. destruct (assocN s (d_trans (c_main c))) as [row |] eqn:Er; [| discriminate].
  apply assocN_in in Er. apply assocN_in in Hs. apply assocN_in in Hs'.
  unfold subs_local in H. rewrite forallb_forall in H. specialize (H _ Er). cbn [snd] in H.
  rewrite forallb_forall in H. specialize (H _ Hs). rewrite forallb_forall in H. specialize (H _ Hs'). cbn [fst] in H.
  rewrite Hi, Hj in H. rewrite N.eqb_refl in H. cbn in H. apply N.eqb_eq in H. subst k'.
  pose proof (nthN_inj (c_main c) ND i j _ Hi Hj) as E. subst j.
  rewrite Hs0 in Hs0'. inversion Hs0'. reflexivity.
Qed.
