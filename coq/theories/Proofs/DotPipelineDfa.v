(** C16 on what the pipeline produces, --dfa side: every automaton [Driver.compile_valid] returns
    satisfies the hypotheses of [C16_dfa_dot] ([Dot.wf_cdfa], [Dot.starts_at_zero]).  Uses the facts the
    meaning package proved about compiled automata ([CompiledFacts.compiled_facts],
    [SubCompiled.sub_facts], [SubCompiled.minimize_start0]). *)
From CG Require Import Base.Prelude Model.Ast Model.Dfa Model.Check Model.Regex Model.Subset Model.Minimize
     Model.Ambiguity Model.Driver Spec.Lang Spec.DfaEquiv Spec.MinimizeSpec.
From CG Require Import Proofs.TablesSound Proofs.SubsetConstr Proofs.TreeFacts Proofs.C02Total Proofs.WfTrim
     Proofs.MinimizeCorrect Proofs.MinimizeBasics Proofs.AmbTotal Proofs.DriverCorrect Proofs.MinimizePostGen
     Proofs.CompiledFacts Proofs.SubCompiled.
From CG Require Model.Tables Model.Dot.

(** *** the minimiser lists the accepting states as a bitmap *)
Lemma minimize_acc_sorted d m : minimize d = Ok m -> sortedN (d_accepting m).
Proof.
  intro H. unfold minimize in H. destruct (do_minimize_inv d _ m H) as [h [reps [_ [_ [_ [_ Hrest]]]]]].
  cbn zeta in Hrest. destruct Hrest as [s' [ts' [accn [Hren ->]]]]. cbn [d_accepting].
  destruct (renumber_states_ok _ _ _ _ _ _ Hren) as [_ [_ [-> _]]]. apply bm_from_iter_sorted.
Qed.

Lemma nodupb_of_NoDup l : NoDup l -> Dot.nodupb l = true.
Proof.
  induction 1 as [|x r Hx Hr IH]; [reflexivity|]. cbn [Dot.nodupb]. rewrite IH, andb_true_r.
  apply negb_true_iff. destruct (memN x r) eqn:E; [|reflexivity]. exfalso. apply Hx.
  unfold memN in E. apply existsb_exists in E as [y [Hy Ey]]. apply N.eqb_eq in Ey. now subst.
Qed.

Lemma dot_iter_transitions d : Dot.iter_transitions d = Tables.iter_transitions d.
Proof. reflexivity. Qed.

Lemma wf_inputs_in_range d : dfa_wf d -> Dot.inputs_in_range d = true.
Proof.
  intros [K1 K2]. unfold Dot.inputs_in_range. apply forallb_forall. intros [[s i] t] Hin.
  rewrite dot_iter_transitions in Hin. apply iter_transitions_in in Hin as [tos [H1 H2]].
  destruct (proj2 (K2 s tos H1) i t H2) as [x Hx]. cbn [fst snd]. now rewrite Hx.
Qed.

Lemma plain_no_sub_trans sd :
  (forall x, In x (d_inputs sd) -> exists a, wlab x = Some a) -> Dot.no_sub_trans sd = true.
Proof.
  intro Hp. unfold Dot.no_sub_trans. apply forallb_forall. intros t _.
  destruct (nthN (d_inputs sd) (snd (fst t))) as [x|] eqn:E; [|reflexivity].
  unfold nthN in E. apply nth_error_In in E. destruct (Hp x E) as [a Ha].
  destruct x; try reflexivity. discriminate Ha.
Qed.

(** *** a within-word automaton named by an input is a minimised automaton *)
Lemma sub_minimized pick fuel v c k l :
  alts_nonempty (v_expr v) = true ->
  compile_valid pick fuel v = Ok c ->
  In (ISub k l) (d_inputs (c_main c)) ->
  exists sd raw', nth_error (c_subs c) (N.to_nat k) = Some sd /\ minimize raw' = Ok sd.
Proof.
  intros Ha H Hin. unfold compile_valid in H.
  destruct (from_valid_expr (v_expr v)) as [[r pl] | | |] eqn:E; simpl in H; try discriminate.
  apply from_valid_expr_ok in E.
  destruct (compile_subs pick fuel (r_inputs r) pl [] []) as [[submap subs] | | |] eqn:Es; simpl in H; try discriminate.
  destruct (dfa_from_regex pick fuel submap r) as [[raw st] | | |] eqn:Ed; simpl in H; try discriminate.
  destruct (minimize raw) as [m | | |] eqn:Em; simpl in H; try discriminate.
  destruct (check_ambiguity_best_effort m) as [[] | | |]; simpl in H; try discriminate.
  inversion H; subst c. cbn [c_main c_subs] in *.
  rewrite (minimize_inputs raw m Em) in Hin.
  destruct (dfa_from_regex_input_origin _ _ _ _ _ _ _ Ed Hin) as [ri [Hri Hfi]].
  destruct ri as [t0 d0 l0 sp | n0 l0 sp | c0 z0 l0 sp | rid l0 sp]; cbn [from_input] in Hfi; try discriminate;
    try (destruct z0; discriminate).
  destruct (assocN rid submap) as [k0 |] eqn:Ea; [| discriminate]. inversion Hfi; subst k0 l0.
  destruct (compile_subs_ok pick fuel pl _ _ _ _ _ (cache_ok_nil pick fuel pl) Es) as [Hc _].
  destruct (Hc rid k Ea) as [sd [Hsd [rr [raw' [st' [Hn [Hd Hmin]]]]]]].
  exists sd, raw'. now split.
Qed.

Lemma main_minimized pick fuel v c :
  compile_valid pick fuel v = Ok c -> exists raw, minimize raw = Ok (c_main c).
Proof.
  intro H. unfold compile_valid in H.
  destruct (from_valid_expr (v_expr v)) as [[r pl] | | |] eqn:E; simpl in H; try discriminate.
  destruct (compile_subs pick fuel (r_inputs r) pl [] []) as [[submap subs] | | |] eqn:Es; simpl in H; try discriminate.
  destruct (dfa_from_regex pick fuel submap r) as [[raw st] | | |] eqn:Ed; simpl in H; try discriminate.
  destruct (minimize raw) as [m | | |] eqn:Em; simpl in H; try discriminate.
  destruct (check_ambiguity_best_effort m) as [[] | | |]; simpl in H; try discriminate.
  inversion H; subst c. now exists raw.
Qed.

(** *** the hypotheses of [C16_dfa_dot] hold for every compiled automaton *)
Theorem compile_valid_dot_wf pick fuel v c :
  alts_nonempty (v_expr v) = true ->
  compile_valid pick fuel v = Ok c ->
  Dot.wf_cdfa c = true /\ Dot.starts_at_zero c = true.
Proof.
  intros Ha H.
  destruct (compiled_facts pick fuel v c Ha H) as [_ [Hwf [_ _]]].
  destruct (main_minimized pick fuel v c H) as [raw Em].
  (* what is known of a within-word automaton a transition names *)
  assert (Hsub : forall (t : N * N * N) k l, nthN (d_inputs (c_main c)) (snd (fst t)) = Some (ISub k l) ->
            exists sd, nthN (c_subs c) k = Some sd /\ Dot.wf_dfa sd = true /\ Dot.no_sub_trans sd = true
                       /\ d_start sd = 0).
  { intros t k l E. assert (Hin : In (ISub k l) (d_inputs (c_main c))) by (unfold nthN in E; exact (nth_error_In _ _ E)).
    destruct (sub_facts pick fuel v c k l Ha H Hin) as [sd [Hn Hok]].
    destruct (sub_minimized pick fuel v c k l Ha H Hin) as [sd' [raw' [Hn' Hmin]]].
    rewrite Hn in Hn'. injection Hn' as <-.
    exists sd. split; [exact Hn|]. split; [|split; [apply plain_no_sub_trans, (so_plain _ Hok)|apply (so_start _ Hok)]].
    unfold Dot.wf_dfa. rewrite (wf_inputs_in_range sd (so_wf _ Hok)). cbn [andb].
    apply nodupb_of_NoDup, sortedN_NoDup, (minimize_acc_sorted raw' sd Hmin). }
  split.
  - unfold Dot.wf_cdfa. apply andb_true_iff. split.
    + unfold Dot.wf_dfa. rewrite (wf_inputs_in_range _ Hwf). cbn [andb].
      apply nodupb_of_NoDup, sortedN_NoDup, (minimize_acc_sorted raw _ Em).
    + apply forallb_forall. intros t _.
      destruct (nthN (d_inputs (c_main c)) (snd (fst t))) as [[| k l | | |]|] eqn:E; try reflexivity.
      destruct (Hsub t k l E) as [sd [Hn [A [B _]]]]. rewrite Hn. now rewrite A, B.
  - unfold Dot.starts_at_zero. apply andb_true_iff. split.
    + apply N.eqb_eq. exact (minimize_start0 raw _ Em).
    + apply forallb_forall. intros sd Hsd. unfold Dot.used_subs in Hsd. apply in_flat_map in Hsd as [t [_ Hsd]].
      destruct (nthN (d_inputs (c_main c)) (snd (fst t))) as [[| k l | | |]|] eqn:E; try destruct Hsd.
      destruct (Hsub t k l E) as [sd' [Hn [_ [_ Hs]]]]. rewrite Hn in Hsd. destruct Hsd as [<-|[]].
      now apply N.eqb_eq.
Qed.
