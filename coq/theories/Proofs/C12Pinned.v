(** The second half of C12 for the loop pinned in /repo: on the chain tables a partially typed value is completed
    correctly by the pinned script too, provided no value extends the literal piece [pre] itself (otherwise the
    pinned stop test fires already in state 0, on a literal that is not expected there). *)
From CG Require Import Base.Prelude Model.Dfa Model.Glob Model.BashSem Model.ChainTables.
From CG Require Import Proofs.GlobFacts Proofs.SubwordFacts Proofs.C12Proofs Proofs.C12Chain.

Lemma pinned_consumes_piece st sub : forall lits lid lit to,
    (forall id l t, In (id, l) lits -> assocN id st = Some t -> id = lid /\ l = lit) ->
    (forall id l, In (id, l) lits -> String.prefix sub l = true -> id = lid) ->
    In (lid, lit) lits ->
    assocN lid st = Some to ->
    String.prefix lit sub = true ->
    lit_pure_pinned lits st sub = SCont to (String.length lit).
Proof.
  induction lits as [|[i l] r IH]; intros lid lit to Hu Hx Hin Ha Hp; [contradiction|].
  cbn [lit_pure_pinned].
  destruct (N.eq_dec i lid) as [->|Hne].
  - (* the entry of the piece (or an entry with the same id: then the same text) *)
    assert (l = lit) as ->.
    { destruct (Hu lid l to (or_introl eq_refl) Ha) as [_ ->]. reflexivity. }
    rewrite Ha. destruct (String.eqb lit sub) eqn:E; [reflexivity|].
    destruct (String.prefix sub lit) eqn:E2.
    + pose proof (prefix_length _ _ E2). pose proof (prefix_length _ _ Hp).
      assert (lit = sub) by (apply prefix_same_length; [exact Hp|lia]).
      apply eqb_false_neq in E. contradiction.
    + rewrite Hp. reflexivity.
  - assert (assocN i st = None) as Hn.
    { destruct (assocN i st) as [t|] eqn:Ea; [|reflexivity].
      destruct (Hu i l t (or_introl eq_refl) Ea) as [-> _]. contradiction. }
    rewrite Hn.
    assert (String.prefix sub l = false) as ->.
    { destruct (String.prefix sub l) eqn:E; [|reflexivity].
      exfalso. apply Hne. apply (Hx i l); [now left|exact E]. }
    destruct (String.eqb l sub); destruct (String.prefix l sub);
      (apply (IH lid lit to); try assumption;
       [intros id l0 t Hin0; apply (Hu id l0 t); now right
       |intros id l0 Hin0; apply (Hx id l0); now right
       |destruct Hin as [Hin|Hin]; [injection Hin as -> ->; contradiction|exact Hin]]).
Qed.

Theorem pinned_piece_consumed :
  forall fuel complete tabs e T acc word s st ci lid lit to log,
    all_plain (lits_of T) -> plain word = true ->
    assocN s (t_mlit T) = Some st ->
    (forall id l t, In (id, l) (lits_of T) -> assocN id st = Some t -> id = lid /\ l = lit) ->
    (forall id l, In (id, l) (lits_of T) -> String.prefix (sdrop ci word) l = true -> id = lid) ->
    In (lid, lit) (lits_of T) -> assocN lid st = Some to ->
    String.prefix lit (sdrop ci word) = true ->
    (ci < String.length word)%nat ->
    sw_loop (S fuel) Pinned complete tabs e T acc word s ci log
    = sw_loop fuel Pinned complete tabs e T acc word to (ci + String.length lit) log.
Proof.
  intros fuel complete tabs e T acc word s st ci lid lit to log Hpl Hpw Hst Hu Hx Hin Ha Hp Hl.
  rewrite sw_loop_S.
  assert (Nat.leb (String.length word) ci = false) as -> by (apply Nat.leb_gt; lia).
  cbv zeta. rewrite Hst. unfold lit_loop. fold (lits_of T).
  rewrite (lit_loop_pinned_plain st _ (lits_of T) Hpl (plain_sdrop ci word Hpw)). cbn [obind].
  now rewrite (pinned_consumes_piece st _ (lits_of T) lid lit to Hu Hx Hin Ha Hp).
Qed.

Theorem pinned_partial_stops :
  forall fuel tabs e T acc word s st ci log,
    all_plain (lits_of T) -> plain word = true -> sorted_desc (lits_of T) ->
    assocN s (t_mlit T) = Some st ->
    (exists id l, In (id, l) (lits_of T) /\ String.prefix (sdrop ci word) l = true /\ l <> sdrop ci word) ->
    exists m, sw_loop (S fuel) Pinned true tabs e T acc word s ci log = Ok (m, s, ci, log).
Proof.
  intros fuel tabs e T acc word s st ci log Hpl Hpw Hs Hst Hex.
  rewrite sw_loop_S.
  destruct (Nat.leb (String.length word) ci); [eexists; reflexivity|].
  cbv zeta. rewrite Hst. unfold lit_loop. fold (lits_of T).
  rewrite (lit_loop_pinned_plain st _ (lits_of T) Hpl (plain_sdrop ci word Hpw)). cbn [obind].
  rewrite (pinned_refuses_shorter_value st _ (lits_of T) Hs Hex).
  now exists false.
Qed.

Section ChainPinned.
  Variables (lits : list string) (ipre : N) (pre next : string).
  Hypothesis Hpre : nthN lits ipre = Some pre.
  Hypothesis Hnodup : NoDup lits.
  Hypothesis Hplain : forall l, In l lits -> plain l = true.
  Hypothesis Hprint : forall l, In l lits -> printable_str l = true.
  Hypothesis Hnonempty : forall l, In l lits -> l <> EmptyString.
  Hypothesis Hsorted : sorted_len lits.
  (** no value extends the piece *)
  Hypothesis Hpiece : forall v, is_value lits pre v -> String.prefix pre v = false.

  Local Notation T := (chain_sub_tables lits ipre).
  Local Notation tabs := (chain_alltables lits ipre next).

  Lemma prefix_trans a b c : String.prefix a b = true -> String.prefix b c = true -> String.prefix a c = true.
  Proof.
    revert b c. induction a as [|x a IH]; intros b c H1 H2; [destruct c; reflexivity|].
    destruct b as [|y b]; cbn [String.prefix] in H1; [discriminate|].
    destruct (ascii_dec x y); [subst y|discriminate].
    destruct c as [|z c]; cbn [String.prefix] in H2; [discriminate|].
    destruct (ascii_dec x z); [subst z|discriminate].
    cbn [String.prefix]. destruct (ascii_dec x x); [|congruence]. eapply IH; eauto.
  Qed.

  Lemma nodup_index (l : list string) : NoDup l -> forall n m x, nth_error l n = Some x -> nth_error l m = Some x -> n = m.
  Proof. intros H n m x Hn Hm. eapply NoDup_nth_error; eauto. - apply nth_error_Some. congruence. - congruence. Qed.

  Lemma chain_state0_prefix_unique p id l :
    In (id, l) (lits_of T) -> String.prefix (pre ++ p) l = true -> id = ipre.
  Proof.
    intros Hin Hp. rewrite (chain_lits_of lits ipre) in Hin.
    assert (Hl : In l lits) by (eapply in_indexed_in; eauto).
    assert (Hpl : String.prefix pre l = true) by (eapply prefix_trans; [apply prefix_app|exact Hp]).
    assert (l = pre) as ->.
    { destruct (string_dec l pre) as [E|E]; [exact E|].
      rewrite (Hpiece l (conj Hl E)) in Hpl. discriminate. }
    destruct (in_indexed_from lits 0 id pre Hin) as (n & -> & Hn).
    unfold nthN in Hpre.
    pose proof (nodup_index lits Hnodup _ _ _ Hn Hpre) as ->. lia.
  Qed.

  Theorem chain_subword_complete_pinned e p log :
    e_ignore_case e = false ->
    plain p = true -> printable_str p = true ->
    (exists v, is_value lits pre v /\ String.prefix p v = true /\ p <> v) ->
    subword_complete Pinned tabs e T (pre ++ p) log
    = Ok (map (append pre) (filter (String.prefix p) (values lits ipre)), log).
  Proof.
    intros Hi Hpp Hpr (v & Hv & Hpv & Hne).
    pose proof (pre_in lits ipre pre Hpre) as Hprein.
    assert (Hpw : plain (pre ++ p) = true) by (rewrite plain_app, (Hplain pre Hprein), Hpp; reflexivity).
    assert (Hprw : printable_str (pre ++ p) = true)
      by (rewrite (printable_app), (Hprint pre Hprein), Hpr; reflexivity).
    pose proof (pre_nonempty lits ipre pre Hpre Hnonempty) as Hpne.
    unfold subword_complete, subword_complete_from.
    assert (exists f, sw_fuel T (pre ++ p) = S (S f)) as [f ->].
    { unfold sw_fuel.
      set (k := (count_entries (t_mlit T) + match t_mcmd T with Some l => count_entries l | None => 0 end)%nat).
      pose proof (length_pos pre Hpne). rewrite length_append.
      destruct (S (String.length pre + String.length p) * S k)%nat as [|f] eqn:E; try lia. now exists f. }
    rewrite (pinned_piece_consumed _ true tabs e T [] (pre ++ p) 0 [(ipre, 1)] 0 ipre pre 1 log
               (chain_all_plain lits ipre Hplain) Hpw (chain_mlit0 lits ipre)
               (chain_state0_unique lits ipre pre Hpre)).
    2:{ cbn [sdrop]. intros id l Hin Hp. eapply chain_state0_prefix_unique; eauto. }
    2:{ apply (chain_pre_in lits ipre pre Hpre). }
    2:{ apply assocN_single_same. }
    2:{ cbn [sdrop]. apply prefix_app. }
    2:{ rewrite length_append. pose proof (length_pos pre Hpne). lia. }
    cbn [Nat.add].
    destruct (pinned_partial_stops f tabs e T [] (pre ++ p) 1 _ (String.length pre) log
                (chain_all_plain lits ipre Hplain) Hpw (chain_sorted lits ipre Hsorted) (chain_mlit1 lits ipre)) as [m Hm].
    { rewrite sdrop_app. destruct (value_index lits ipre pre Hpre v Hv) as [id Hid].
      exists id, v. repeat split; try assumption.
      - now apply vals_in_lits.
      - congruence. }
    rewrite Hm. cbn [obind]. rewrite (chain_maxlevel lits ipre).
    assert (Hlist : map (fun id => (stake (String.length pre) (pre ++ p) ++ literal_at T id)%string)
                        (level_row (t_clit T) 0 1) = map (append pre) (values lits ipre)).
    { rewrite stake_app, (chain_clit1 lits ipre). apply (chain_offer_list lits ipre pre). }
    rewrite (levels_offer_extensions Pinned 0 tabs e T (pre ++ p) 1 (String.length pre) log Hi Hprw (chain_ccmd lits ipre)).
    - rewrite Hlist, offers_as_values. reflexivity.
    - rewrite Hlist, offers_as_values. intros E.
      assert (In (pre ++ v)%string (map (append pre) (filter (String.prefix p) (values lits ipre)))) as Hin.
      { apply in_map. apply filter_In. split; [now apply (value_in_values lits ipre pre Hpre)|exact Hpv]. }
      rewrite E in Hin. contradiction.
  Qed.

  Theorem chain_partial_offers_pinned e p :
    e_ignore_case e = false -> e_wordbreaks e = EmptyString ->
    plain p = true -> printable_str p = true ->
    (exists v, is_value lits pre v /\ String.prefix p v = true /\ p <> v) ->
    run_from Pinned 0 tabs e [] (pre ++ p)
    = Ok (mkresult 0 (map (append pre) (filter (String.prefix p) (values lits ipre))) []).
  Proof.
    intros Hi Hw Hpp Hpr Hex. unfold run_from. cbn [walk obind].
    rewrite (chain_main_maxlevel lits ipre next). cbn [top_levels quirky].
    rewrite (chain_main_clit0 lits ipre next), (chain_csub0 lits ipre next), (chain_main_ccmd lits ipre next).
    cbn [map List.app obind]. cbn [top_subs_level]. rewrite (chain_subword_tables lits ipre next).
    rewrite (chain_subword_complete_pinned e p [] Hi Hpp Hpr Hex). cbn [obind List.app top_subs_level].
    destruct Hex as (v & Hv & Hpv & Hne).
    destruct (map (append pre) (filter (String.prefix p) (values lits ipre))) as [|x r] eqn:E.
    - exfalso.
      assert (In (pre ++ v)%string (map (append pre) (filter (String.prefix p) (values lits ipre)))) as Hin.
      { apply in_map. apply filter_In. split; [now apply (value_in_values lits ipre pre Hpre)|exact Hpv]. }
      rewrite E in Hin. contradiction.
    - rewrite (strip_no_wordbreaks e _ _ Hw). reflexivity.
  Qed.
End ChainPinned.
