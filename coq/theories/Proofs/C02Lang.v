(** C02 for the model pipeline: from a validated tree, through [from_expr] (L-glushkov) and
    [dfa_from_regex] (L-subset, every pop order), the automaton accepts exactly what the tree
    denotes -- inside a word ([C02_subwords]) and on the command line ([C02_language]). *)
From CG Require Import Base.Prelude Model.Ast Model.Dfa Model.Regex Model.Subset Model.Check Spec.Lang.
From CG Require Import Proofs.RxLang Proofs.Glushkov Proofs.SubsetStmt Proofs.SubsetConstr.
From CG Require Import Proofs.LangDen Proofs.LangJudge Proofs.FromExpr.

(** *** The pool only grows *)
Lemma pool_prefix : forall e s pl id t s' pl',
  do_from_expr e s pl = Ok (id, t, s', pl') -> prefix pl pl'.
Proof.
  assert (Hch : forall cs, Forall (fun e => forall s pl id t s' pl',
                   do_from_expr e s pl = Ok (id, t, s', pl') -> prefix pl pl') cs ->
                forall s pl ids ts s' pl',
                  do_children do_from_expr cs s pl = Ok (ids, ts, s', pl') -> prefix pl pl').
  { intros cs HF. induction HF as [|c cs Hc HF IH]; intros s pl ids ts s' pl' E; simpl in E.
    - inversion E; subst. apply prefix_refl.
    - destruct (do_from_expr c s pl) as [[[[id t] s1] pl1]| | |] eqn:E1; simpl in E; try discriminate.
      destruct (do_children do_from_expr cs s1 pl1) as [[[[ids2 ts2] s2] pl2]| | |] eqn:E2;
        simpl in E; try discriminate.
      inversion E; subst. eapply prefix_trans; eauto. }
  induction e using expr_ind'; intros s pl id tt s' pl' E; simpl in E.
  - inversion E; subst. apply prefix_refl.
  - inversion E; subst. apply prefix_refl.
  - inversion E; subst. apply prefix_refl.
  - destruct (do_children do_from_expr cs s pl) as [[[[ids ts] s1] pl1]| | |] eqn:E1;
      simpl in E; try discriminate. inversion E; subst. eapply Hch; eauto.
  - destruct (do_children do_from_expr cs s pl) as [[[[ids ts] s1] pl1]| | |] eqn:E1;
      simpl in E; try discriminate. inversion E; subst. eapply Hch; eauto.
  - destruct (do_from_expr e s pl) as [[[[cid ct] s1] pl1]| | |] eqn:E1; simpl in E; try discriminate.
    inversion E; subst. eauto.
  - destruct (do_from_expr e s pl) as [[[[cid ct] s1] pl1]| | |] eqn:E1; simpl in E; try discriminate.
    inversion E; subst. eauto.
  - discriminate.
  - destruct (do_children do_from_expr cs s pl) as [[[[ids ts] s1] pl1]| | |] eqn:E1;
      simpl in E; try discriminate. inversion E; subst. eapply Hch; eauto.
  - destruct (do_from_expr e empty_bst pl) as [[[[cid ct] cs] pl1]| | |] eqn:E1;
      simpl in E; try discriminate.
    destruct (pool_intern (finish_regex cid ct cs) pl1) as [rid pl2] eqn:Ei.
    inversion E; subst. apply pool_intern_spec in Ei. destruct Ei as [Hp _].
    eapply prefix_trans; eauto.
Qed.

(** *** Inside a word *)

(** the item an input stands for inside a word *)
Definition wlab_r (x : rinput) : option witem :=
  match x with
  | RLit t d l _ => Some (WLit t d l)
  | RNonterm _ _ _ => Some WStar
  | RCmd c z l _ => Some (cmd_witem c z l)
  | RSub _ _ _ => None
  end.

Definition wR (x : rinput) (a : witem) : Prop := wlab_r x = Some a.

Lemma wleaf_case : forall plF e s pl id t s' pl',
  is_leaf e = true -> do_from_expr e s pl = Ok (id, t, s', pl') -> prefix pl' plF ->
  exists x k, k <> KEnd /\ b_inputs s' = b_inputs s ++ [x] /\ t = XPos k (lenN (b_inputs s)) /\
              prefix pl pl' /\ forall w, wleaf e w <-> exists a, w = [a] /\ wR x a.
Proof.
  intros plF e s pl id t s' pl' Hl E _. pose proof (pool_prefix _ _ _ _ _ _ _ E) as HP.
  destruct e; simpl in Hl; try discriminate; simpl in E.
  - inversion E; subst. exists (RLit term descr level sp), KTerm. simpl.
    repeat split; try discriminate; auto; unfold wR; simpl.
    + intros ->. eauto.
    + intros [a [-> Ha]]. congruence.
  - inversion E; subst. exists (RNonterm name level sp), KNonterm. simpl.
    repeat split; try discriminate; auto; unfold wR; simpl.
    + intros ->. eauto.
    + intros [a [-> Ha]]. congruence.
  - inversion E; subst. exists (RCmd cmd compadd level sp), KCmd. simpl.
    repeat split; try discriminate; auto; unfold wR; simpl.
    + intros ->. eauto.
    + intros [a [-> Ha]]. congruence.
  - destruct (do_from_expr e empty_bst pl) as [[[[cid ct] cs] pl1]| | |] eqn:E1;
      simpl in E; try discriminate.
    destruct (pool_intern (finish_regex cid ct cs) pl1) as [rid pl2] eqn:Ei.
    inversion E; subst. exists (RSub rid level sp), KSub. simpl.
    repeat split; try discriminate; auto; unfold wR; simpl.
    + intros [].
    + intros [a [_ Ha]]. discriminate.
Qed.

(** the item words a within-word regex stands for, read off its tables *)
Definition regex_wlang (r : regex) (v : list witem) : Prop :=
  pimg witem wR (r_inputs r) (glushkov_word (r_tree r) (r_end r)) v.

Lemma finish_regex_fields : forall id t s,
  r_inputs (finish_regex id t s) = b_inputs s /\
  r_end (finish_regex id t s) = lenN (b_inputs s) /\
  r_tree (finish_regex id t s) = with_end t (lenN (b_inputs s)).
Proof. intros id t s. unfold finish_regex, alloc. simpl. auto. Qed.

Lemma not_in_range : forall lo hi l, in_range lo hi l -> ~ In hi l.
Proof. intros lo hi l H Hin. specialize (H hi Hin). lia. Qed.

Lemma from_expr_wlang : forall c pl cid ct cs pl1,
  do_from_expr c empty_bst pl = Ok (cid, ct, cs, pl1) ->
  forall v, wdenotes c v <-> regex_wlang (finish_regex cid ct cs) v.
Proof.
  intros c pl cid ct cs pl1 E v.
  destruct (do_from_expr_good witem wleaf wR pl1 (wleaf_case pl1) c _ _ _ _ _ _ E (prefix_refl _))
    as [_ [_ [Sh [Rg L]]]].
  destruct (finish_regex_fields cid ct cs) as [Hi [He Ht]].
  unfold regex_wlang. rewrite Hi, He, Ht. unfold wdenotes.
  rewrite (L (b_inputs cs) (prefix_refl _) v).
  apply pimg_iff. intros ps. apply glushkov_root; auto. eapply not_in_range; eauto.
Qed.

(** *** From the automaton to the tables: input ids against positions *)

Lemma omap_nth : forall {E A B} (f : A -> outcome E B) l l', omap f l = Ok l' ->
  forall i y, nthN l' i = Some y <-> exists x, nthN l i = Some x /\ f x = Ok y.
Proof.
  intros E A B f. induction l as [|a l IH]; intros l' H i y; simpl in H.
  - inversion H; subst. unfold nthN. split.
    + destruct (N.to_nat i); discriminate.
    + intros [x [Hx _]]. destruct (N.to_nat i); discriminate.
  - destruct (f a) as [b| | |] eqn:Ea; simpl in H; try discriminate.
    destruct (omap f l) as [bs| | |] eqn:El; simpl in H; try discriminate.
    inversion H; subst. unfold nthN in *. destruct (N.to_nat i) as [|n] eqn:En; simpl.
    + split.
      * intros Hy. inversion Hy; subst. eauto.
      * intros [x [Hx Hf]]. inversion Hx; subst. congruence.
    + specialize (IH bs eq_refl (N.of_nat n) y). rewrite Nnat.Nat2N.id in IH. exact IH.
Qed.

Lemma inp_find_nth : forall x l i j, inp_find x l i = Some j ->
  exists k, j = i + N.of_nat k /\ nth_error l k = Some x.
Proof.
  intros x. induction l as [|y l IH]; intros i j H; simpl in H; [discriminate|].
  destruct (inp_eqb y x) eqn:E.
  - inversion H; subst. apply inp_eqb_eq in E. subst. exists O. split; [simpl; lia|reflexivity].
  - apply IH in H. destruct H as [k [-> Hk]]. exists (S k). split; [lia|exact Hk].
Qed.

Lemma In_nthN : forall {A} (x : A) l, In x l -> exists i, nthN l i = Some x.
Proof.
  intros A x l H. apply In_nth_error in H. destruct H as [n Hn]. exists (N.of_nat n).
  unfold nthN. rewrite Nnat.Nat2N.id. exact Hn.
Qed.

Lemma intern_all_complete : forall labels y, In y labels -> In y (intern_all labels).
Proof.
  intros labels y. unfold intern_all.
  assert (G : forall l acc, In y acc \/ In y l ->
              In y (fold_left (fun acc x => inp_intern x acc) l acc)).
  { induction l as [|x l IH]; intros acc [H|H]; simpl; auto.
    - destruct H.
    - apply IH. left. unfold inp_intern. destruct (inp_find x acc 0); auto. apply in_app_iff. auto.
    - destruct H as [->|H].
      + apply IH. left. unfold inp_intern. destruct (inp_find y acc 0) as [j|] eqn:Ef.
        * apply inp_find_nth in Ef. destruct Ef as [k [_ Hk]]. eapply nth_error_In; eauto.
        * apply in_app_iff. right. left. reflexivity.
      + apply IH. right. exact H. }
  intros H. apply G. right. exact H.
Qed.

Section DfaItems.
  Variable A : Type.
  Variable Q : inp -> A -> Prop.

  (** words over [A] that the automaton accepts when input [y] is read as any [a] with [Q y a] *)
  Definition accepts_via (d : dfa) (w : list A) : Prop :=
    exists ids, accepts d ids = true /\
      Forall2 (fun i a => exists y, nthN (d_inputs d) i = Some y /\ Q y a) ids w.

  Lemma accepts_via_tables : forall pick fuel submap r d states labels,
    dfa_from_regex pick fuel submap r = Ok (d, states) ->
    omap (from_input submap) (r_inputs r) = Ok labels ->
    forall w, accepts_via d w <->
      exists ps, glushkov_word (r_tree r) (r_end r) ps /\
                 Forall2 (fun p a => exists y, nthN labels p = Some y /\ Q y a) ps w.
  Proof.
    intros pick fuel submap r d states labels H Hl w.
    pose proof (subset_language pick fuel submap r d states labels H Hl) as HL.
    destruct (subset_run pick fuel submap r d states labels H Hl) as [Hin _].
    unfold accepts_via. split.
    - intros [ids [Ha F]]. apply HL in Ha. destruct Ha as [ps [F1 G]]. exists ps. split; auto.
      clear G. revert w F. induction F1 as [|p i ps ids [x [Hp Hi]] F1 IH]; intros w F.
      + inversion F. constructor.
      + inversion F as [|? a ? w' [y [Hy Hq]] F']; subst. constructor; auto.
        exists x. split; auto. congruence.
    - intros [ps [G F]].
      assert (Hids : exists ids,
                 Forall2 (fun p i => exists x, nthN labels p = Some x /\ nthN (d_inputs d) i = Some x) ps ids /\
                 Forall2 (fun i a => exists y, nthN (d_inputs d) i = Some y /\ Q y a) ids w).
      { clear G. induction F as [|p a ps w [y [Hy Hq]] F [ids [F1 F2]]].
        - exists []. split; constructor.
        - assert (Hy' : In y labels) by (unfold nthN in Hy; eapply nth_error_In; eauto).
          apply intern_all_complete in Hy'. rewrite <- Hin in Hy'.
          apply In_nthN in Hy'. destruct Hy' as [i Hi].
          exists (i :: ids). split; constructor; eauto. }
      destruct Hids as [ids [F1 F2]]. exists ids. split; auto. apply HL. exists ps. auto.
  Qed.
End DfaItems.

Lemma dfa_from_regex_labels : forall pick fuel submap r d states,
  dfa_from_regex pick fuel submap r = Ok (d, states) ->
  exists labels, omap (from_input submap) (r_inputs r) = Ok labels.
Proof.
  intros pick fuel submap r d states H. unfold dfa_from_regex in H.
  destruct (omap (from_input submap) (r_inputs r)) as [labels| | |]; simpl in H; try discriminate.
  eauto.
Qed.

Lemma from_input_wlab : forall submap x y, from_input submap x = Ok y -> wlab y = wlab_r x.
Proof.
  intros submap x y H. destruct x; simpl in H.
  - inversion H; subst. reflexivity.
  - inversion H; subst. reflexivity.
  - inversion H; subst. destruct z; reflexivity.
  - destruct (assocN rid submap); inversion H; subst. reflexivity.
Qed.

(** L-glushkov + L-subset inside a word: for every pop order and every oracle, the automaton the
    model builds for a within-word regex accepts exactly its table language. *)
Lemma waccepts_regex_wlang : forall pick fuel submap r d states,
  dfa_from_regex pick fuel submap r = Ok (d, states) ->
  forall v, waccepts d v <-> regex_wlang r v.
Proof.
  intros pick fuel submap r d states H v.
  destruct (dfa_from_regex_labels _ _ _ _ _ _ H) as [labels Hl].
  change (waccepts d v) with (accepts_via witem (fun y a => wlab y = Some a) d v).
  rewrite (accepts_via_tables witem _ pick fuel submap r d states labels H Hl v).
  unfold regex_wlang, pimg. split; intros [ps [G F]]; exists ps; split; auto.
  - clear G. induction F as [|p a ps v [y [Hy Hq]] F IH]; constructor; auto.
    apply (omap_nth _ _ _ Hl) in Hy. destruct Hy as [x [Hx Hf]]. exists x. split; auto.
    unfold wR. rewrite <- (from_input_wlab _ _ _ Hf). exact Hq.
  - clear G. induction F as [|p a ps v [x [Hx Hq]] F IH]; constructor; auto.
    assert (Hy : exists y, from_input submap x = Ok y).
    { assert (Hin : In x (r_inputs r)) by (unfold nthN in Hx; eapply nth_error_In; eauto).
      clear - Hl Hin. revert labels Hl. induction (r_inputs r) as [|a l IH]; intros labels Hl; [destruct Hin|].
      simpl in Hl. destruct (from_input submap a) as [b| | |] eqn:Ea; simpl in Hl; try discriminate.
      destruct (omap (from_input submap) l) as [bs| | |] eqn:El; simpl in Hl; try discriminate.
      destruct Hin as [->|Hin]; eauto. }
    destruct Hy as [y Hf]. exists y. split.
    + apply (omap_nth _ _ _ Hl). eauto.
    + rewrite (from_input_wlab _ _ _ Hf). exact Hq.
Qed.

(** C02 inside a word: the automaton the model compiles for a within-word expression, for every
    pop order, accepts exactly the within-word item sequences the expression denotes. *)
Theorem C02_subwords_model : forall pick fuel submap c pl r pl1 d states,
  from_expr c pl = Ok (r, pl1) ->
  dfa_from_regex pick fuel submap r = Ok (d, states) ->
  forall v, waccepts d v <-> wdenotes c v.
Proof.
  intros pick fuel submap c pl r pl1 d states E H v. unfold from_expr in E.
  destruct (do_from_expr c empty_bst pl) as [[[[cid ct] cs] pl2]| | |] eqn:E1; simpl in E; try discriminate.
  inversion E; subst.
  rewrite (waccepts_regex_wlang _ _ _ _ _ _ H v). symmetry. eapply from_expr_wlang; eauto.
Qed.

(** *** On the command line *)

(** what the within-word regex number [rid] of the pool stands for *)
Definition pool_wlang (pl : pool) (rid : N) (v : list witem) : Prop :=
  exists rr, nthN pl rid = Some rr /\ regex_wlang rr v.

Definition item_of_rinput (pl : pool) (x : rinput) : item :=
  match x with
  | RLit t d l _ => ILeaf (WLit t d l)
  | RNonterm _ _ _ => ILeaf WStar
  | RCmd c z l _ => ILeaf (cmd_witem c z l)
  | RSub rid l _ => IWord (pool_wlang pl rid) l
  end.

Definition tR (pl : pool) (x : rinput) (it : item) : Prop := item_equiv (item_of_rinput pl x) it.

Lemma tleaf_case : forall plF e s pl id t s' pl',
  is_leaf e = true -> do_from_expr e s pl = Ok (id, t, s', pl') -> prefix pl' plF ->
  exists x k, k <> KEnd /\ b_inputs s' = b_inputs s ++ [x] /\ t = XPos k (lenN (b_inputs s)) /\
              prefix pl pl' /\ forall w, tleaf e w <-> exists a, w = [a] /\ tR plF x a.
Proof.
  intros plF e s pl id t s' pl' Hl E HF. pose proof (pool_prefix _ _ _ _ _ _ _ E) as HP.
  assert (Hsym : forall X w, (exists it, w = [it] /\ item_equiv it X) <->
                             (exists a, w = [a] /\ item_equiv X a)).
  { intros X w. split; intros [a [-> H]]; exists a; split; auto; apply item_equiv_sym; exact H. }
  destruct e; simpl in Hl; try discriminate; simpl in E.
  - inversion E; subst. exists (RLit term descr level sp), KTerm.
    repeat split; try discriminate; auto; apply Hsym; auto.
  - inversion E; subst. exists (RNonterm name level sp), KNonterm.
    repeat split; try discriminate; auto; apply Hsym; auto.
  - inversion E; subst. exists (RCmd cmd compadd level sp), KCmd.
    repeat split; try discriminate; auto; apply Hsym; auto.
  - destruct (do_from_expr e empty_bst pl) as [[[[cid ct] cs] pl1]| | |] eqn:E1;
      simpl in E; try discriminate.
    destruct (pool_intern (finish_regex cid ct cs) pl1) as [rid pl2] eqn:Ei.
    inversion E; subst. exists (RSub rid level sp), KSub.
    split; [discriminate|]. split; [reflexivity|]. split; [reflexivity|]. split; [exact HP|].
    intros w. unfold tleaf, tR. cbn [item_of_rinput]. rewrite Hsym.
    apply pool_intern_spec in Ei. destruct Ei as [_ Hn].
    pose proof (prefix_nthN _ _ _ _ HF Hn) as HnF.
    assert (Heq : item_equiv (IWord (wdenotes e) level) (IWord (pool_wlang plF rid) level)).
    { simpl. split; [reflexivity|]. intros v. rewrite (from_expr_wlang _ _ _ _ _ _ E1 v).
      unfold pool_wlang. split.
      - intros H. eauto.
      - intros [rr [Hr H]]. congruence. }
    split; intros [a [-> H]]; exists a; split; auto.
    + eapply item_equiv_trans; [apply item_equiv_sym; exact Heq|exact H].
    + eapply item_equiv_trans; [exact Heq|exact H].
Qed.

(** the within-word automata handed to the main automaton are the right ones: the oracle maps
    every within-word regex to an automaton that accepts its table language (this is
    [waccepts_regex_wlang] followed by language preservation of minimisation, C03) *)
Definition subs_ok (submap : list (N * N)) (pl : pool) (cd : cdfa) : Prop :=
  forall rid k, assocN rid submap = Some k ->
    forall v, waccepts (sub_dfa cd k) v <-> pool_wlang pl rid v.

Lemma from_input_item : forall submap pl cd x y, subs_ok submap pl cd ->
  from_input submap x = Ok y -> item_equiv (item_of_inp cd y) (item_of_rinput pl x).
Proof.
  intros submap pl cd x y Hs H. destruct x; simpl in H.
  - inversion H; subst. reflexivity.
  - inversion H; subst. reflexivity.
  - inversion H; subst. destruct z; reflexivity.
  - destruct (assocN rid submap) as [k|] eqn:Ek; inversion H; subst. simpl.
    split; [reflexivity|]. apply Hs. exact Ek.
Qed.

(** C02 on the command line, for the model pipeline: for every pop order [pick] and every oracle
    [submap] whose within-word automata are right, the automaton compiled from a validated tree
    accepts exactly the item words the tree denotes. *)
Theorem C02_language_model : forall pick fuel submap e r pl d states subs,
  from_expr e [] = Ok (r, pl) ->
  dfa_from_regex pick fuel submap r = Ok (d, states) ->
  subs_ok submap pl (mkcdfa d subs) ->
  forall w, accepts_items (mkcdfa d subs) w <-> denotes e w.
Proof.
  intros pick fuel submap e r pl d states subs E H Hs w. unfold from_expr in E.
  destruct (do_from_expr e empty_bst []) as [[[[id t] s] pl2]| | |] eqn:E1; simpl in E; try discriminate.
  inversion E; subst r pl2. clear E.
  destruct (dfa_from_regex_labels _ _ _ _ _ _ H) as [labels Hl].
  set (cd := mkcdfa d subs) in *.
  change (accepts_items cd w) with
    (accepts_via item (fun y it => item_equiv (item_of_inp cd y) it) d w).
  rewrite (accepts_via_tables item _ pick fuel submap _ d states labels H Hl w).
  destruct (do_from_expr_good item tleaf (tR pl) pl (tleaf_case pl) e _ _ _ _ _ _ E1 (prefix_refl _))
    as [_ [_ [Sh [Rg L]]]].
  destruct (finish_regex_fields id t s) as [Hi [He Ht]]. rewrite He, Ht.
  unfold denotes. rewrite (L (b_inputs s) (prefix_refl _) w). unfold pimg.
  assert (Hg : forall ps, glushkov_word (with_end t (lenN (b_inputs s))) (lenN (b_inputs s)) ps <-> Lrx t ps).
  { intros ps. symmetry. apply glushkov_root; auto. eapply not_in_range; eauto. }
  rewrite Hi in Hl.
  split; intros [ps [G F]]; exists ps; (split; [apply Hg; exact G|]); clear G.
  - induction F as [|p a ps w [y [Hy Hq]] F IH]; constructor; auto.
    apply (omap_nth _ _ _ Hl) in Hy. destruct Hy as [x [Hx Hf]]. exists x. split; auto.
    unfold tR. eapply item_equiv_trans; [apply item_equiv_sym; eapply from_input_item; eauto|exact Hq].
  - induction F as [|p a ps w [x [Hx Hq]] F IH]; constructor; auto.
    assert (Hy : exists y, from_input submap x = Ok y).
    { assert (Hin : In x (b_inputs s)) by (unfold nthN in Hx; eapply nth_error_In; eauto).
      clear - Hl Hin. revert labels Hl. induction (b_inputs s) as [|a l IH]; intros labels Hl; [destruct Hin|].
      simpl in Hl. destruct (from_input submap a) as [b| | |] eqn:Ea; simpl in Hl; try discriminate.
      destruct (omap (from_input submap) l) as [bs| | |] eqn:El; simpl in Hl; try discriminate.
      destruct Hin as [->|Hin]; eauto. }
    destruct Hy as [y Hf]. exists y. split.
    + apply (omap_nth _ _ _ Hl). eauto.
    + eapply item_equiv_trans; [eapply from_input_item; eauto|exact Hq].
Qed.

(** The same, stated from the checker's output, and carried to any automaton with the same inputs
    and the same accepted input-id words (e.g. the minimised one, C03). *)
Corollary C02_language_transfer : forall pick fuel submap e r pl d states subs d',
  from_expr e [] = Ok (r, pl) ->
  dfa_from_regex pick fuel submap r = Ok (d, states) ->
  subs_ok submap pl (mkcdfa d subs) ->
  d_inputs d' = d_inputs d -> (forall ids, accepts d' ids = accepts d ids) ->
  forall w, accepts_items (mkcdfa d' subs) w <-> denotes e w.
Proof.
  intros pick fuel submap e r pl d states subs d' E H Hs Hi Ha w.
  rewrite <- (C02_language_model pick fuel submap e r pl d states subs E H Hs w).
  unfold accepts_items. simpl. split; intros [ids [H1 H2]]; exists ids.
  - rewrite <- Ha. split; auto. rewrite <- Hi. exact H2.
  - rewrite Ha. split; auto. rewrite Hi. exact H2.
Qed.

Corollary C02_language_checked : forall builtins g sh v pick fuel submap r pl d states subs,
  from_grammar builtins g sh = Ok v ->
  from_valid_expr (v_expr v) = Ok (r, pl) ->
  dfa_from_regex pick fuel submap r = Ok (d, states) ->
  subs_ok submap pl (mkcdfa d subs) ->
  forall w, accepts_items (mkcdfa d subs) w <-> denotes (v_expr v) w.
Proof.
  intros builtins g sh v pick fuel submap r pl d states subs _ E H Hs w.
  unfold from_valid_expr in E.
  destruct (from_expr (v_expr v) []) as [[r' pl']| | |] eqn:E1; simpl in E; try discriminate.
  destruct (check_ambiguities r' pl'); simpl in E; try discriminate. inversion E; subst.
  eapply C02_language_model; eauto.
Qed.

(** How [subs_ok] is obtained.  (1) If every within-word automaton is the raw automaton the model
    itself builds (any pop order) for the within-word regex the oracle maps to it, [subs_ok] holds. *)
Lemma subs_ok_raw : forall submap pl cd,
  (forall rid k, assocN rid submap = Some k ->
     exists rr pick fuel sm states,
       nthN pl rid = Some rr /\ dfa_from_regex pick fuel sm rr = Ok (sub_dfa cd k, states)) ->
  subs_ok submap pl cd.
Proof.
  intros submap pl cd H rid k Hk v.
  destruct (H rid k Hk) as [rr [pick [fuel [sm [states [Hn Hd]]]]]].
  rewrite (waccepts_regex_wlang _ _ _ _ _ _ Hd v). unfold pool_wlang. split.
  - intros Hv. eauto.
  - intros [rr' [Hn' Hv]]. congruence.
Qed.

(** (2) It is preserved when every within-word automaton is replaced by one that accepts the same
    within-word item sequences (what minimisation must guarantee, C03). *)
Lemma subs_ok_equiv : forall submap pl d subs subs',
  subs_ok submap pl (mkcdfa d subs) ->
  (forall k v, waccepts (sub_dfa (mkcdfa d subs') k) v <-> waccepts (sub_dfa (mkcdfa d subs) k) v) ->
  forall d', subs_ok submap pl (mkcdfa d' subs').
Proof.
  intros submap pl d subs subs' H He d' rid k Hk v.
  change (sub_dfa (mkcdfa d' subs') k) with (sub_dfa (mkcdfa d subs') k).
  rewrite He. apply (H rid k Hk v).
Qed.
