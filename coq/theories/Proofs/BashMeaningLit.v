(** C01, layer (a): grammars whose leaves are all literals.

    [Invocations.spec_run] (the specification the interpreter of the /repo HEAD script is proved
    equal to on tables without within-word expressions, C17_repaired_toplevel_spec) evaluated on
    the tables computed from the compiled automaton ([Tables.all_tables Bash c]) agrees with
    [Spec.Meaning.complete] on the validated tree, provided the automaton accepts what the tree
    denotes (C02), is trim (C03), its tables are computed from it (C04), and the tree is in the
    decided domain [C01_domain].  The walk maintains [DfaMeaning.sim]. *)
From CG Require Import Base.Prelude Model.Ast Model.Dfa Model.Tables Model.Glob Model.BashSem.
From CG Require Import Spec.Lang Spec.Rx Spec.Meaning Spec.Domain Spec.DfaEquiv Spec.Invocations.
From CG Require Import Proofs.RxFacts Proofs.MeaningFacts Proofs.MeaningLevels Proofs.TreeFacts Proofs.DomainFacts.
From CG Require Import Proofs.TablesSound Proofs.TablesKeys Proofs.TableLookup Proofs.LangBridge Proofs.DfaMeaning.

Fixpoint lit_tree (e : expr) : bool :=
  match e with
  | Terminal _ _ _ _ => true
  | NontermRef _ _ _ | Command _ _ _ _ | DistDescr _ _ _ | Subword _ _ _ => false
  | Sequence cs _ | Alternative cs _ | Fallback cs _ => forallb lit_tree cs
  | Optional c _ | Many1 c _ => lit_tree c
  end.

Lemma lit_tree_toplevel e : lit_tree e = true -> toplevel_tree e = true.
Proof.
  induction e using expr_ind'; cbn [lit_tree toplevel_tree]; intro Ht; try discriminate; try reflexivity;
    try (apply IHe; assumption);
    (rewrite forallb_forall in *; rewrite Forall_forall in H; intros x Hx; apply H; [assumption | apply Ht; assumption]).
Qed.

Lemma lit_tree_leaves e : lit_tree e = true -> forall a, In a (leaves (tr e)) -> is_lit a = true.
Proof.
  induction e using expr_ind'; intros Ht a Ha; cbn [lit_tree] in Ht; try discriminate.
  - cbn in Ha. destruct Ha as [<- | []]. reflexivity.
  - rewrite tr_seq in Ha. apply leaves_fold_cat in Ha. destruct Ha as [r [Hr Ha]].
    apply in_map_iff in Hr. destruct Hr as [c [<- Hc]].
    rewrite Forall_forall in H. rewrite forallb_forall in Ht. apply (H c Hc (Ht c Hc) a Ha).
  - rewrite tr_alt in Ha. apply leaves_fold_alt in Ha. destruct Ha as [r [Hr Ha]].
    apply in_map_iff in Hr. destruct Hr as [c [<- Hc]].
    rewrite Forall_forall in H. rewrite forallb_forall in Ht. apply (H c Hc (Ht c Hc) a Ha).
  - cbn [tr leaves] in Ha. rewrite app_nil_r in Ha. apply IHe; assumption.
  - cbn [tr leaves] in Ha. apply IHe; assumption.
  - rewrite tr_fb in Ha. apply leaves_fold_alt in Ha. destruct Ha as [r [Hr Ha]].
    apply in_map_iff in Hr. destruct Hr as [c [<- Hc]].
    rewrite Forall_forall in H. rewrite forallb_forall in Ht. apply (H c Hc (Ht c Hc) a Ha).
Qed.

(** every item a state can ever expect is a literal *)
Definition lit_state (s : state) : Prop := forall k, In k s -> forall a, In a (leaves k) -> is_lit a = true.

Lemma lit_moves s a k : lit_state s -> In (a, k) (moves s) -> is_lit a = true /\ lit_state [k].
Proof.
  intros L Hin. apply moves_In in Hin. destruct Hin as [r [Hr Hlf]].
  destruct (lf_leaves r a k Hlf) as [Ha Hk]. split; [apply (L r Hr); assumption |].
  intros k' [<- | []] b Hb. apply (L r Hr). apply Hk. assumption.
Qed.

Lemma step_lit_state en s w : lit_state s -> lit_state (step en s w).
Proof.
  intros L k Hk. apply step_spec in Hk. destruct Hk as [a [Hin _]].
  destruct (lit_moves s a k L Hin) as [_ Lk]. apply Lk. left; reflexivity.
Qed.

Lemma step_good_state en s w : good_state s -> good_state (step en s w).
Proof.
  intros G k Hk. apply step_spec in Hk. destruct Hk as [a [Hin _]].
  destruct (good_moves s a k G Hin) as [_ Gk]. apply Gk. left; reflexivity.
Qed.

(** in a state that only expects literals, reading a word is the literal rule alone *)
Lemma step_lit_only en s w k : lit_state s ->
  (In k (step en s w) <-> exists d l, In (LLit w d l, k) (moves s)).
Proof.
  intro L. rewrite step_spec. split.
  - intros [a [Hin Hc]]. destruct (lit_moves s a k L Hin) as [Ha _].
    destruct a; cbn in Ha; try discriminate. cbn [chosen] in Hc. subst t. eauto.
  - intros [d [l Hin]]. exists (LLit w d l). split; [assumption | reflexivity].
Qed.

Lemma filter_mid_lit en w (mv : list (leaf * rx leaf)) :
  (forall a k, In (a, k) mv -> is_lit a = true) -> filter (fun ak => mid_accepts en (fst ak) w) mv = [].
Proof.
  induction mv as [| [a k] mv IH]; intro H; [reflexivity |]. cbn [filter fst].
  assert (Ha : is_lit a = true) by (apply (H a k); left; reflexivity).
  destruct a; cbn in Ha; try discriminate. cbn [mid_accepts]. apply IH. intros a' k' Hin. apply (H a' k'). right; assumption.
Qed.

Lemma ambiguous_step_lit en s w : lit_state s -> ambiguous_step en s w = false.
Proof.
  intro L. unfold ambiguous_step. destruct (lit_next w (moves s)); [| reflexivity].
  rewrite filter_mid_lit; [reflexivity |]. intros a k Hin. apply (lit_moves s a k L Hin).
Qed.

Lemma ambiguous_run_lit en : forall ws s, lit_state s -> ambiguous_run en s ws = false.
Proof.
  induction ws as [| w ws IH]; intros s L; [reflexivity |]. cbn [ambiguous_run].
  rewrite (ambiguous_step_lit en s w L). cbn [orb]. apply IH. apply step_lit_state. assumption.
Qed.

Lemma state_identical_lit en s p : lit_state s -> state_identical en s p = false.
Proof.
  intro L. unfold state_identical. apply not_true_is_false. intro H. apply existsb_exists in H.
  destruct H as [[a k] [Hin Ha]]. destruct (lit_moves s a k L Hin) as [Hl _]. destruct a; cbn in Hl, Ha; discriminate.
Qed.

Lemma step_in_states d s i t : Dfa.step d s i = Some t -> In s (states d) /\ In t (states d).
Proof.
  intro H. unfold Dfa.step in H. destruct (assocN s (d_trans d)) as [tos |] eqn:E; [| discriminate].
  apply assocN_in in E. apply assocN_in in H. unfold states.
  split; apply nodup_In; right; apply in_or_app; left; unfold trans_states; apply in_flat_map; exists (s, tos); (split; [exact E |]); cbn [fst snd].
  - left; reflexivity.
  - right. apply in_map_iff. exists (i, t). split; [reflexivity | exact H].
Qed.

Section Lit.
  Variables (c : cdfa) (e : expr) (om : list (string * string)) (os : list (N * list (string * string)))
            (nd : needs) (a : alltables).
  Variables (benv : BashSem.env) (en : Meaning.env) (p : string).
  Hypothesis Hlit : lit_tree e = true.
  Hypothesis Hne : alts_nonempty e = true.
  Hypothesis HL : forall w, accepts_items c w <-> Lang.denotes e w.
  Hypothesis Hwf : dfa_wf (c_main c).
  Hypothesis Hinp : NoDup (d_inputs (c_main c)).
  Hypothesis Htrim : trim (c_main c).
  Hypothesis Hall : all_tables Bash c om os = Ok (nd, a).
  Hypothesis Hord : NoDup om.
  Hypothesis Hvalid : valid_literal_order (c_main c) om = true.
  Hypothesis Hdom : C01_domain e = true.
  (** bash's word-break stripping, as the interpreter models it (pattern semantics), agrees with
      the specification's on candidates that extend the typed word *)
  Hypothesis Hstrip : forall ms, (forall m, In m ms -> String.prefix p m = true) ->
                                 strip_reply benv p ms = Ok (map (Meaning.strip (Meaning.e_wordbreaks en) p) ms).

  Notation d := (c_main c).
  Notation T := (a_main a).

  Lemma Hglt : get_lookup_tables d (a_commands a) 0 (n_top_cmd nd) false (n_top_star nd) om = Ok T.
  Proof. destruct (all_tables_inv _ _ _ _ _ _ Hall) as [rt F]. exact (af_main _ _ _ _ _ _ _ F). Qed.

  Lemma Htop : toplevel_tree e = true.
  Proof. apply lit_tree_toplevel. exact Hlit. Qed.

  Record rel (s : N) (S : state) : Prop := {
    rel_sim : sim d s S;
    rel_good : good_state S;
    rel_lit : lit_state S;
    rel_reach : reach same_item (start e) S;
    rel_co : coreachable d s
  }.

  Lemma rel_start : rel (d_start d) (start e).
  Proof.
    constructor.
    - apply sim_start; [exact Htop | exact HL].
    - apply good_start; [exact Htop | exact Hne].
    - intros k [<- | []]. apply lit_tree_leaves. exact Hlit.
    - apply reach_here. apply seq_refl.
    - destruct Htrim as [_ Hco]. apply Hco. unfold states. apply nodup_In. left; reflexivity.
  Qed.

  Lemma targets_coreachable s i t : Dfa.step d s i = Some t -> coreachable d t.
  Proof. intro H. destruct Htrim as [_ Hco]. apply Hco. apply (step_in_states d s i t H). Qed.

  Lemma rel_nonempty s S : rel s S -> S <> [].
  Proof.
    intros R E. destruct (rel_co _ _ R) as [w Hw].
    destruct (accepted_has_inputs d Hwf w s Hw) as [xs [Hd _]].
    apply (rel_sim _ _ R) in Hd. destruct Hd as [k [_ [Hk _]]]. rewrite E in Hk. destruct Hk.
  Qed.

  (** only literal transitions leave a related state, and they are the expected literals *)
  Lemma trans_is_item s S x t :
    rel s S -> trans_on d s x t -> exists w dso l k, x = ILit w dso l /\ In (LLit w dso l, k) (moves S).
  Proof.
    intros R Htr.
    assert (H : exists a k, In (a, k) (moves S) /\ inp_of_leaf a = x).
    { apply (sim_trans_iff d Hwf s S x (rel_sim _ _ R) (rel_good _ _ R)); [intros i t'; apply targets_coreachable | eauto]. }
    destruct H as [a1 [k [Hin Ha]]]. destruct (lit_moves S a1 k (rel_lit _ _ R) Hin) as [Hl _].
    destruct a1 as [t1 d1 l1 | | |]; cbn in Hl; try discriminate. cbn in Ha. subst x. exists t1, d1, l1, k. split; [reflexivity | exact Hin].
  Qed.

  Lemma item_is_trans s S w dso l k :
    rel s S -> In (LLit w dso l, k) (moves S) -> exists t, trans_on d s (ILit w dso l) t.
  Proof.
    intros R Hin.
    apply (sim_trans_iff d Hwf s S (ILit w dso l) (rel_sim _ _ R) (rel_good _ _ R)); [intros i t'; apply targets_coreachable |].
    exists (LLit w dso l), k. split; [exact Hin | reflexivity].
  Qed.

  (** the decided domain: literals with the same text carry the same label at a related state *)
  Lemma same_label s S w d1 l1 k1 d2 l2 k2 :
    rel s S -> In (LLit w d1 l1, k1) (moves S) -> In (LLit w d2 l2, k2) (moves S) -> d1 = d2 /\ l1 = l2.
  Proof.
    intros R H1 H2. destruct (C01_domain_sound e Hdom) as [_ Hp].
    destruct (Hp S (rel_reach _ _ R)) as [P1 _]. apply (P1 w d1 l1 d2 l2 k1 k2); assumption.
  Qed.

  (** *** one transition of the automaton = one word read by the specification *)
  Lemma rel_trans s S w dso lvl t :
    rel s S -> trans_on d s (ILit w dso lvl) t -> rel t (step en S w) /\ step en S w <> [].
  Proof.
    intros R Htr.
    destruct (trans_is_item s S _ t R Htr) as [w' [dso' [l' [k0 [E Hin0]]]]]. inversion E; subst w' dso' l'.
    assert (Hk0 : In k0 (step en S w)) by (apply (step_lit_only en S w k0 (rel_lit _ _ R)); eauto).
    assert (Hne' : step en S w <> []) by (intro E0; rewrite E0 in Hk0; destruct Hk0).
    split; [| exact Hne']. destruct Htr as [i [Hs Hn]]. constructor.
    + apply (sim_step d Hinp s S i t (ILit w dso lvl) (step en S w) (rel_sim _ _ R) (rel_good _ _ R) Hs Hn).
      intro k. rewrite (step_lit_only en S w k (rel_lit _ _ R)). split.
      * intros [d' [l' Hin]]. exists (LLit w d' l'). split; [exact Hin |].
        destruct (same_label s S w d' l' k dso lvl k0 R Hin Hin0) as [-> ->]. reflexivity.
      * intros [a' [Hin Ha]]. destruct (good_moves S a' k (rel_good _ _ R) Hin) as [Hp _].
        destruct a'; cbn in Ha; try discriminate; inversion Ha; subst. eauto.
    + apply step_good_state. apply (rel_good _ _ R).
    + apply step_lit_state. apply (rel_lit _ _ R).
    + destruct (step_istep en S w (ambiguous_step_lit en S w (rel_lit _ _ R)) Hne') as [a' [Ha' Hi]].
      eapply reach_next; [apply (rel_reach _ _ R) | exact Ha' | exact Hi].
    + apply (targets_coreachable s i t Hs).
  Qed.

  Lemma walk_step s S w :
    rel s S ->
    match lit_lookup T s w with
    | Some t => rel t (step en S w) /\ step en S w <> []
    | None => step en S w = []
    end.
  Proof.
    intro R. destruct (lit_lookup T s w) as [t |] eqn:El.
    - destruct (lit_lookup_sound d (a_commands a) _ _ _ om T Hwf Hord Hglt s w t El) as [dso [lvl Htr]].
      apply (rel_trans s S w dso lvl t R Htr).
    - destruct (step en S w) as [| k r] eqn:Es; [reflexivity | exfalso].
      assert (Hk : In k (step en S w)) by (rewrite Es; left; reflexivity).
      apply (step_lit_only en S w k (rel_lit _ _ R)) in Hk. destruct Hk as [d' [l' Hin]].
      destruct (item_is_trans s S w d' l' k R Hin) as [t Htr].
      destruct (lit_lookup_complete d (a_commands a) _ _ _ om T Hwf Hord Hglt s w d' l' t Hvalid Htr) as [to' E].
      rewrite El in E. discriminate.
  Qed.

  (** every state of the (trim) automaton is related to a point: all its transitions are literal *)
  Lemma run_related : forall ids s S t, rel s S -> Dfa.run d s ids = Some t -> exists S', rel t S'.
  Proof.
    induction ids as [| i ids IH]; intros s S t R H; cbn [Dfa.run] in H.
    - inversion H; subst. eauto.
    - destruct (Dfa.step d s i) as [t1 |] eqn:Es; [| discriminate].
      destruct (step_has_input d Hwf s i t1 Es) as [x Hx].
      assert (Htr : trans_on d s x t1) by (exists i; split; assumption).
      destruct (trans_is_item s S x t1 R Htr) as [w [dso [l [k [-> _]]]]].
      destruct (rel_trans s S w dso l t1 R Htr) as [R1 _]. apply (IH t1 _ t R1 H).
  Qed.

  Lemma all_related s : In s (states d) -> exists S, rel s S.
  Proof.
    intro Hs. destruct Htrim as [Hre _]. destruct (Hre s Hs) as [ids Hrun].
    apply (run_related ids (d_start d) (start e) s rel_start Hrun).
  Qed.

  Lemma all_trans_literal s x t : trans_on d s x t -> exists w dso l, x = ILit w dso l.
  Proof.
    intro Htr. pose proof Htr as [i [Hs _]].
    destruct (all_related s (proj1 (step_in_states d s i t Hs))) as [S R].
    destruct (trans_is_item s S x t R Htr) as [w [dso [l [k [-> _]]]]]. eauto.
  Qed.

  (** hence the tables contain nothing about within-word expressions *)
  Lemma tables_subword_free : spec_subword_free a.
  Proof.
    split.
    - destruct (a_subtrans a) as [| [s row] r] eqn:E; [reflexivity | exfalso].
      destruct (all_tables_inv _ _ _ _ _ _ Hall) as [rt F]. pose proof (af_subtrans _ _ _ _ _ _ _ F) as H.
      unfold subword_transitions in H. apply obind_ok in H. destruct H as [rows [_ H]]. inversion H as [Ha].
      assert (Hin : In (s, row) (a_subtrans a)) by (rewrite E; left; reflexivity).
      rewrite <- Ha in Hin. apply filter_In in Hin. destruct Hin as [_ Hne'].
      destruct row as [| [pi to] row']; [discriminate |].
      assert (Hx : exists lvl, trans_on d s (ISub pi lvl) to).
      { apply (subtrans_exact Bash c om os nd a Hwf Hall s pi to). exists ((pi, to) :: row').
        split; [rewrite E; left; reflexivity | left; reflexivity]. }
      destruct Hx as [lvl Htr]. destruct (all_trans_literal s _ to Htr) as [w [dso [l Ex]]]. discriminate.
    - intros level s. destruct (level_row (a_csub a) level s) as [| id r] eqn:E; [reflexivity | exfalso].
      assert (M : mem3 (a_csub a) (N.of_nat level) s id).
      { unfold level_row in E. unfold mem3, mem2. rewrite Nat2N.id.
        destruct (nth_error (a_csub a) level) as [rows |]; [| discriminate]. exists rows. split; [reflexivity |].
        destruct (assocN s rows) as [ids |] eqn:Ea; [| discriminate]. exists ids. split; [apply assocN_in; exact Ea | rewrite E; left; reflexivity]. }
      apply (csub_exact Bash c om os nd a Hwf Hall) in M. destruct M as [rt [pi [to [_ [Htr _]]]]].
      destruct (all_trans_literal s _ to Htr) as [w [dso [l Ex]]]. discriminate.
  Qed.

  (** no command row and no catch-all entry at a related state *)
  Lemma no_cmd_row s S ct : rel s S -> t_mcmd T = Some ct -> assocN s ct = None.
  Proof.
    intros R Hct. destruct (assocN s ct) as [row |] eqn:E; [exfalso | reflexivity].
    apply assocN_in in E. destruct (glt_inv _ _ _ _ _ _ _ _ Hglt) as [rt F].
    destruct (gf_mcmd _ _ _ _ _ _ _ _ _ F) as [[_ [m [Hm Em]]] | [_ Em]]; rewrite Em in Hct; [| discriminate].
    inversion Hct; subst m.
    pose proof (proj1 (match_table_rows _ _ _ _ Hm s row) E) as [_ [Hrow _]].
    destruct row as [| [cid to] r]; [apply Hrow; reflexivity |].
    assert (Hh : tbl_has ct s cid to) by (exists ((cid, to) :: r); split; [exact E | left; reflexivity]).
    destruct (mcmd_sound d (a_commands a) 0 _ _ _ om T Hwf Hglt ct s cid to Em Hh) as [cmd [lvl [Htr _]]].
    destruct (trans_is_item s S _ to R Htr) as [w [dso [l [k [Ex _]]]]]. discriminate.
  Qed.

  Lemma no_star s S stars : rel s S -> t_mstar T = Some stars -> assocN s stars = None.
  Proof.
    intros R Hst. destruct (assocN s stars) as [to |] eqn:E; [exfalso | reflexivity].
    apply assocN_in in E. apply (mstar_exact d (a_commands a) 0 _ _ _ om T Hwf Hglt stars s to Hst) in E.
    destruct (trans_is_item s S _ to R E) as [w [dso [l [k [Ex _]]]]]. discriminate.
  Qed.

  (** *** the complete words *)
  Lemma walk_words : forall ws s S log,
      rel s S ->
      (run en S ws = [] /\ spec_walk a benv s ws log = Ok (None, log, false))
      \/ (exists t, spec_walk a benv s ws log = Ok (Some t, log, false) /\ rel t (run en S ws)).
  Proof.
    induction ws as [| w ws IH]; intros s S log R.
    - right. exists s. split; [reflexivity | exact R].
    - cbn [spec_walk run fold_left]. change (fold_left (step en) ws (step en S w)) with (run en (step en S w) ws).
      pose proof (walk_step s S w R) as Hw. unfold lit_lookup in Hw.
      destruct (match assocN s (t_mlit T) with
                | Some st => top_lit_loop (indexed_from 0 (literal_texts T)) st w
                | None => None
                end) as [t |] eqn:El.
      + destruct Hw as [R' _]. apply IH. exact R'.
      + left. rewrite Hw, run_nil. split; [reflexivity |].
        assert (Estar : match t_mstar T with Some stars => assocN s stars | None => None end = None).
        { destruct (t_mstar T) as [stars |] eqn:Est; [| reflexivity]. apply (no_star s S stars R Est). }
        destruct (t_mcmd T) as [ct |] eqn:Ect.
        * rewrite (no_cmd_row s S ct R Ect). cbn [obind]. rewrite Estar. reflexivity.
        * cbn [obind]. rewrite Estar. reflexivity.
  Qed.

  (** *** at the cursor *)
  Definition offered (s : N) (j : nat) : list string :=
    filter (String.prefix p) (map (fun id => (literal_at T id ++ " ")%string) (level_row (t_clit T) j s)).

  Lemma offered_spec s S k cnd : rel s S -> (In cnd (offered s (N.to_nat k)) <-> In (k, cnd) (state_cands en S p)).
  Proof.
    intro R. unfold offered. rewrite filter_In, in_map_iff. split.
    - intros [[id [<- Hid]] Hp].
      apply (level_row_lit d (a_commands a) _ _ _ om T Hwf Hord Hglt k s id) in Hid.
      destruct Hid as [text [dso [to [Htr Hl]]]].
      rewrite (literal_at_lit d (a_commands a) _ _ _ om T Hglt id text _ Hl) in *.
      destruct (trans_is_item s S _ to R Htr) as [w' [dso' [l' [k' [E Hin]]]]]. inversion E; subst w' dso' l'.
      unfold state_cands. apply in_flat_map. exists (LLit text dso k, k'). split; [exact Hin |].
      cbn [fst item_cands]. rewrite Hp. left; reflexivity.
    - intro H. unfold state_cands in H. apply in_flat_map in H. destruct H as [[a' k'] [Hin H]]. cbn [fst] in H.
      destruct (lit_moves S a' k' (rel_lit _ _ R) Hin) as [Hl _]. destruct a' as [t dd l | | |]; cbn in Hl; try discriminate.
      cbn [item_cands] in H. destruct (String.prefix p (t ++ " ")) eqn:Hp; [| destruct H]. destruct H as [H | []]. inversion H; subst.
      destruct (item_is_trans s S t dd k k' R Hin) as [to Htr].
      pose proof Htr as [i [_ Hn]].
      destruct (valid_order_covers d om 0 i t dd k Hvalid Hn) as [id Hlid].
      split; [| exact Hp]. exists id. split.
      + rewrite (literal_at_lit d (a_commands a) _ _ _ om T Hglt id t _ Hlid). reflexivity.
      + apply (level_row_lit d (a_commands a) _ _ _ om T Hwf Hord Hglt k s id). eauto.
  Qed.

  Lemma cand_level_in_range s S k cnd : rel s S -> In (k, cnd) (state_cands en S p) -> (N.to_nat k < Datatypes.S (N.to_nat (t_maxlevel T)))%nat.
  Proof.
    intros R H. unfold state_cands in H. apply in_flat_map in H. destruct H as [[a' k'] [Hin H]]. cbn [fst] in H.
    destruct (lit_moves S a' k' (rel_lit _ _ R) Hin) as [Hl _]. destruct a' as [t dd l | | |]; cbn in Hl; try discriminate.
    cbn [item_cands] in H. destruct (String.prefix p (t ++ " ")); [| destruct H]. destruct H as [H | []]. inversion H; subst.
    destruct (item_is_trans s S t dd k k' R Hin) as [to Htr].
    apply (level_in_range d (a_commands a) _ _ _ om T Hwf Hord Hglt k s t dd to Hvalid Htr).
  Qed.

  Lemma no_ccmd s S cc j : rel s S -> t_ccmd T = Some cc -> level_row cc j s = [].
  Proof.
    intros R Hcc. destruct (level_row cc j s) as [| id r] eqn:E; [reflexivity | exfalso].
    assert (M : mem3 cc (N.of_nat j) s id).
    { unfold level_row in E. unfold mem3, mem2. rewrite Nat2N.id.
      destruct (nth_error cc j) as [rows |]; [| discriminate]. exists rows. split; [reflexivity |].
      destruct (assocN s rows) as [ids |] eqn:Ea; [| discriminate]. exists ids. split; [apply assocN_in; exact Ea | rewrite E; left; reflexivity]. }
    apply (ccmd_exact d (a_commands a) 0 _ _ _ om T Hwf Hglt cc (N.of_nat j) s id Hcc) in M.
    destruct M as [cmd [to [Htr _]]]. destruct (trans_is_item s S _ to R Htr) as [w [dso [l [k [Ex _]]]]]. discriminate.
  Qed.

  Lemma levels_loop s S log : rel s S -> forall n j,
      exists reply, spec_levels n j a benv s p log = Ok (reply, log)
        /\ ((exists j', (j <= j' < j + n)%nat /\ offered s j' <> [] /\ (forall i, (j <= i < j')%nat -> offered s i = [])
                        /\ reply = map (Meaning.strip (Meaning.e_wordbreaks en) p) (offered s j'))
            \/ ((forall i, (j <= i < j + n)%nat -> offered s i = []) /\ reply = [])).
  Proof.
    intro R. induction n as [| n IH]; intro j.
    - exists []. split; [reflexivity |]. right. split; [intros i Hi; lia | reflexivity].
    - assert (Espec : spec_levels (Datatypes.S n) j a benv s p log
                      = match offered s j with
                        | [] => spec_levels n (Datatypes.S j) a benv s p log
                        | _ :: _ => do reply <- strip_reply benv p (offered s j); Ok (reply, log)
                        end).
      { cbn [spec_levels]. fold (offered s j).
        destruct (t_ccmd T) as [cc |] eqn:Ecc; [rewrite (no_ccmd s S cc j R Ecc); cbn [spec_cmds_level] |]; cbn [obind]; reflexivity. }
      rewrite Espec. clear Espec. destruct (offered s j) as [| m ms] eqn:Eo.
      + destruct (IH (Datatypes.S j)) as [reply [Hr Hc]]. exists reply. split; [exact Hr |].
        destruct Hc as [[j' [Hj [Hne' [Hfirst ->]]]] | [Hall0 ->]].
        * left. exists j'. split; [lia | split; [exact Hne' | split; [| reflexivity]]].
          intros i Hi. destruct (Nat.eq_dec i j) as [-> | Hij]; [exact Eo | apply Hfirst; lia].
        * right. split; [| reflexivity]. intros i Hi. destruct (Nat.eq_dec i j) as [-> | Hij]; [exact Eo | apply Hall0; lia].
      + rewrite <- Eo. rewrite Hstrip.
        * cbn [obind]. eexists. split; [reflexivity |]. left. exists j. split; [lia | split; [rewrite Eo; discriminate | split; [intros i Hi; lia | reflexivity]]].
        * intros m' Hm'. unfold offered in Hm'. apply filter_In in Hm'. apply Hm'.
  Qed.

  (** the candidates the script offers are those of the lowest level that has any *)
  Lemma levels_lowest s S log :
    rel s S ->
    exists reply, spec_levels (Datatypes.S (N.to_nat (t_maxlevel T))) 0 a benv s p log = Ok (reply, log)
      /\ forall x, In x reply <-> In x (map (Meaning.strip (Meaning.e_wordbreaks en) p) (lowest (state_cands en S p))).
  Proof.
    intro R. destruct (levels_loop s S log R (Datatypes.S (N.to_nat (t_maxlevel T))) 0%nat) as [reply [Hr Hc]].
    exists reply. split; [exact Hr |].
    assert (Hset : forall cnd, In cnd (lowest (state_cands en S p)) <->
                               match Hc with _ => True end /\
                               (exists j', (0 <= j' < 0 + Datatypes.S (N.to_nat (t_maxlevel T)))%nat /\ offered s j' <> []
                                           /\ (forall i, (0 <= i < j')%nat -> offered s i = []) /\ In cnd (offered s j'))).
    { intro cnd. rewrite lowest_spec. split.
      - intros [l [Hin Hmin]]. split; [exact I |]. exists (N.to_nat l).
        pose proof (cand_level_in_range s S l cnd R Hin) as Hrange.
        assert (Ho : In cnd (offered s (N.to_nat l))) by (apply (offered_spec s S l cnd R); exact Hin).
        split; [lia | split; [intro E0; rewrite E0 in Ho; destruct Ho | split; [| exact Ho]]].
        intros i Hi. destruct (offered s i) as [| m ms] eqn:Eo; [reflexivity | exfalso].
        assert (Hm : In m (offered s (N.to_nat (N.of_nat i)))) by (rewrite Nat2N.id, Eo; left; reflexivity).
        apply (offered_spec s S (N.of_nat i) m R) in Hm. specialize (Hmin _ _ Hm). lia.
      - intros [_ [j' [Hj [Hne' [Hfirst Hin]]]]].
        exists (N.of_nat j'). split.
        + apply (offered_spec s S (N.of_nat j') cnd R). rewrite Nat2N.id. exact Hin.
        + intros l' c' Hc'. destruct (N.lt_ge_cases l' (N.of_nat j')) as [Hlt | Hge]; [exfalso | exact Hge].
          apply (offered_spec s S l' c' R) in Hc'. rewrite (Hfirst (N.to_nat l')) in Hc' by lia. destruct Hc'. }
    intro x. rewrite in_map_iff. destruct Hc as [[j' [Hj [Hne' [Hfirst ->]]]] | [Hall0 ->]].
    - rewrite in_map_iff. split.
      + intros [cnd [<- Hin]]. exists cnd. split; [reflexivity |]. apply Hset. split; [exact I |]. exists j'. repeat split; try assumption; lia.
      + intros [cnd [<- Hin]]. apply Hset in Hin. destruct Hin as [_ [j2 [Hj2 [Hne2 [Hfirst2 Hin2]]]]].
        assert (j2 = j') as ->.
        { destruct (Nat.lt_trichotomy j2 j') as [Hlt | [E | Hgt]]; [| exact E |].
          - exfalso. apply Hne2. apply Hfirst. lia.
          - exfalso. apply Hne'. apply Hfirst2. lia. }
        exists cnd. split; [reflexivity | exact Hin2].
    - split; [intros [] |]. intros [cnd [_ Hin]]. apply Hset in Hin. destruct Hin as [_ [j2 [Hj2 [Hne2 _]]]].
      exfalso. apply Hne2. apply Hall0. lia.
  Qed.

  (** *** layer (a): the specification of the script on the tables = the meaning of the grammar *)
  Theorem spec_run_meaning_lit ws :
    match complete e en ws p with
    | None => spec_run (d_start d) a benv ws p = Ok (mkresult 1 [] [], false)
    | Some (req, al) =>
        exists reply, spec_run (d_start d) a benv ws p = Ok (mkresult 0 reply [], false)
                      /\ (forall x, In x reply <-> In x req) /\ (forall x, In x al <-> In x req)
    end.
  Proof.
    unfold complete, spec_run.
    destruct (walk_words ws (d_start d) (start e) [] rel_start) as [[Hrun Hw] | [t [Hw R]]].
    - rewrite Hrun, Hw. reflexivity.
    - rewrite Hw. cbn [obind]. pose proof (rel_nonempty _ _ R) as Hne'.
      destruct (run en (start e) ws) as [| k0 S0] eqn:Er; [contradiction |].
      destruct (levels_lowest t (k0 :: S0) [] R) as [reply [Hr Hset]]. rewrite Hr. cbn [obind rev].
      exists reply. split; [reflexivity | split; [exact Hset |]].
      rewrite (state_identical_lit en (k0 :: S0) p (rel_lit _ _ R)). rewrite app_nil_r. intro x. reflexivity.
  Qed.
End Lit.
