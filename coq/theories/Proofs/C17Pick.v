(** The ordered first-hit loops of the repaired within-word matcher against the declarative choice of
    Spec/InvocationsSub.v ("the longest expected piece that is a prefix of the rest; when completing, stop in front
    of a piece the rest is a proper prefix of"), for pieces listed in decreasing length. *)
From CG Require Import Base.Prelude Model.Dfa Model.Glob Model.BashSem Spec.Invocations Spec.InvocationsSub.
From CG Require Import Proofs.GlobFacts Proofs.SubwordFacts Proofs.C17Proofs.

Fixpoint lsorted (l : list string) : Prop :=
  match l with
  | [] => True
  | a :: r => (forall b, In b r -> (String.length b <= String.length a)%nat) /\ lsorted r
  end.

Lemma eqb_sym_false a b : String.eqb a b = false -> String.eqb b a = false.
Proof. rewrite String.eqb_sym. auto. Qed.

Lemma proper_prefix_longer r t : proper_prefix r t = true -> (String.length r < String.length t)%nat.
Proof.
  unfold proper_prefix. intros H. apply andb_true_iff in H as [Hp Hn].
  pose proof (prefix_length _ _ Hp). apply negb_true_iff in Hn.
  destruct (Nat.eq_dec (String.length r) (String.length t)) as [E|E]; [|lia].
  rewrite (prefix_same_length _ _ Hp E), String.eqb_refl in Hn. discriminate.
Qed.

Lemma no_extension r l :
  (forall y, In y l -> (String.length y <= String.length r)%nat) -> existsb (proper_prefix r) l = false.
Proof.
  intros H. induction l as [|y l IH]; [reflexivity|]. cbn [existsb].
  rewrite IH by (intros z Hz; apply H; now right). rewrite orb_false_r.
  destruct (proper_prefix r y) eqn:E; [|reflexivity].
  apply proper_prefix_longer in E. pose proof (H y (or_introl eq_refl)). lia.
Qed.

(** *** candidates of one command *)
Definition qlen (r c : string) : nat := if nonempty c && String.prefix c r then String.length c else 0%nat.
Definition mx (r : string) (l : list string) : nat := fold_right Nat.max 0%nat (map (qlen r) l).

Lemma qlen_le r c : (qlen r c <= String.length c)%nat.
Proof. unfold qlen. destruct (nonempty c && String.prefix c r); lia. Qed.

Lemma mx_le r l n : (forall y, In y l -> (String.length y <= n)%nat) -> (mx r l <= n)%nat.
Proof.
  intros H. induction l as [|y l IH]; cbn; [lia|].
  pose proof (qlen_le r y). pose proof (H y (or_introl eq_refl)).
  assert (mx r l <= n)%nat by (apply IH; intros z Hz; apply H; now right). unfold mx in *. lia.
Qed.

Lemma spec_pick_cands_unfold c l to r :
  spec_pick_cands c l to r =
  if c && existsb (proper_prefix r) l then SBreak
  else match mx r l with O => SNone | L => SCont to L end.
Proof. reflexivity. Qed.

Lemma nonempty_length s : s <> EmptyString -> exists k, String.length s = S k.
Proof. destruct s; [congruence|]. intros _. now exists (String.length s). Qed.

Theorem cand_loop_str_spec c to r : r <> EmptyString -> forall l,
    lsorted l -> cand_loop_str c l to r = spec_pick_cands c l to r.
Proof.
  intros Hr. induction l as [|x l IH]; intros Hs.
  - rewrite spec_pick_cands_unfold. cbn. now rewrite andb_false_r.
  - destruct Hs as [Hx Hs]. specialize (IH Hs).
    rewrite spec_pick_cands_unfold. cbn [cand_loop_str existsb].
    change (mx r (x :: l)) with (Nat.max (qlen r x) (mx r l)).
    destruct (String.eqb r x) eqn:E.
    + apply String.eqb_eq in E. subst x.
      assert (proper_prefix r r = false) as -> by (unfold proper_prefix; now rewrite String.eqb_refl, andb_false_r).
      rewrite (no_extension r l Hx). cbn [orb]. rewrite andb_false_r.
      assert (qlen r r = String.length r) as ->.
      { unfold qlen. rewrite prefix_refl. destruct r; [congruence|reflexivity]. }
      pose proof (mx_le r l _ Hx). rewrite Nat.max_l by lia.
      destruct (nonempty_length r Hr) as [k ->]. reflexivity.
    + destruct (c && String.prefix r x) eqn:E2.
      * apply andb_true_iff in E2 as [-> E2].
        assert (proper_prefix r x = true) as -> by (unfold proper_prefix; now rewrite E2, E).
        reflexivity.
      * destruct x as [|a x'].
        { (* the empty candidate is never consumed *)
          cbn [andb]. rewrite IH, spec_pick_cands_unfold.
          assert (proper_prefix r "" = false) as ->.
          { unfold proper_prefix. destruct r; [congruence|reflexivity]. }
          cbn [orb]. change (qlen r "") with 0%nat. reflexivity. }
        cbn [andb]. set (x := String a x') in *.
        destruct (String.prefix x r) eqn:Ep.
        -- pose proof (prefix_length _ _ Ep) as Lx.
           assert (Hl : forall y, In y l -> (String.length y <= String.length r)%nat)
             by (intros y Hy; pose proof (Hx y Hy); lia).
           assert (c && (proper_prefix r x || existsb (proper_prefix r) l) = false) as ->.
           { rewrite (no_extension r l Hl), orb_false_r. destruct c; [|reflexivity].
             cbn [andb] in E2. unfold proper_prefix. now rewrite E2. }
           assert (qlen r x = String.length x) as -> by (unfold qlen; now rewrite Ep).
           pose proof (mx_le r l _ Hx). rewrite Nat.max_l by lia. reflexivity.
        -- rewrite IH, spec_pick_cands_unfold.
           assert (c && (proper_prefix r x || existsb (proper_prefix r) l) = c && existsb (proper_prefix r) l) as ->.
           { destruct c; [|reflexivity]. cbn [andb] in *. unfold proper_prefix. now rewrite E2. }
           assert (qlen r x = 0%nat) as -> by (unfold qlen; now rewrite Ep).
           reflexivity.
Qed.

(** sort -nrk2,2 -rk3 puts the candidates in decreasing length and keeps them all *)
Lemma cand_before_len y x :
  (cand_before y x = true -> (String.length (snd x) <= String.length (snd y))%nat)
  /\ (cand_before y x = false -> (String.length (snd y) <= String.length (snd x))%nat).
Proof.
  unfold cand_before.
  destruct (Nat.compare_spec (String.length (snd y)) (String.length (snd x))) as [E|E|E]; split; intros H; try lia; discriminate.
Qed.

Lemma in_insert_desc x : forall l z, In z (insert_desc x l) -> z = x \/ In z l.
Proof.
  induction l as [|y r IH]; intros z H; cbn [insert_desc] in H.
  - destruct H as [<-|[]]. now left.
  - destruct (cand_before y x).
    + destruct H as [<-|H]; [right; now left|]. destruct (IH z H); [now left|right; now right].
    + destruct H as [<-|H]; [now left|now right].
Qed.

Lemma insert_desc_sorted x : forall l, lsorted (map snd l) -> lsorted (map snd (insert_desc x l)).
Proof.
  induction l as [|y r IH]; intros H; cbn [insert_desc].
  - cbn. split; [intros b []|exact I].
  - destruct H as [Hy Hr]. destruct (cand_before y x) eqn:E.
    + cbn [map lsorted]. split; [|now apply IH].
      intros b Hb. apply in_map_iff in Hb as (z & <- & Hz).
      destruct (in_insert_desc x r z Hz) as [->|Hz'].
      * now apply (proj1 (cand_before_len y x)).
      * apply Hy. now apply in_map.
    + cbn [map lsorted]. split; [|split; assumption].
      pose proof (proj2 (cand_before_len y x) E) as L.
      intros b [<-|Hb]; [exact L|]. pose proof (Hy b Hb). lia.
Qed.

Lemma sort_desc_sorted l : lsorted (sort_desc l).
Proof.
  unfold sort_desc. generalize (indexed_from 0 l). intros L.
  induction L as [|x r IH]; [exact I|]. cbn [fold_right]. now apply insert_desc_sorted.
Qed.

Lemma mx_insert_desc r x : forall l,
    mx r (map snd (insert_desc x l)) = Nat.max (qlen r (snd x)) (mx r (map snd l)).
Proof.
  induction l as [|y l IH]; [reflexivity|]. cbn [insert_desc]. destruct (cand_before y x); [|reflexivity].
  change (mx r (map snd (y :: insert_desc x l))) with (Nat.max (qlen r (snd y)) (mx r (map snd (insert_desc x l)))).
  rewrite IH. change (mx r (map snd (y :: l))) with (Nat.max (qlen r (snd y)) (mx r (map snd l))). lia.
Qed.

Lemma mx_sort_desc r l : mx r (sort_desc l) = mx r l.
Proof.
  unfold sort_desc. rewrite <- (map_snd_indexed_from l 0) at 2. generalize (indexed_from 0 l). intros L.
  induction L as [|x L IH]; [reflexivity|]. cbn [fold_right]. rewrite mx_insert_desc, IH. reflexivity.
Qed.

Theorem cand_loop_sorted_spec c to r cands :
  r <> EmptyString -> cand_loop_str c (sort_desc cands) to r = spec_pick_cands c cands to r.
Proof.
  intros Hr. rewrite (cand_loop_str_spec c to r Hr _ (sort_desc_sorted cands)).
  rewrite !spec_pick_cands_unfold. now rewrite existsb_sort_desc, mx_sort_desc.
Qed.

(** *** literals expected at a point *)
Fixpoint pick_first (c : bool) (items : list (string * N)) (r : string) : step :=
  match items with
  | [] => SNone
  | (t, to) :: rest =>
    if String.eqb t r then SCont to (String.length t)
    else if c && String.prefix r t then SBreak
    else if String.prefix t r then SCont to (String.length t)
    else pick_first c rest r
  end.

Lemma lit_loop_str_pick c st r : forall lits,
    lit_loop_str c lits st r
    = pick_first c (flat_map (fun il : N * string => match assocN (fst il) st with Some to => [(snd il, to)] | None => [] end) lits) r.
Proof.
  induction lits as [|[lid lit] rest IH]; [reflexivity|].
  cbn [lit_loop_str flat_map fst snd]. destruct (assocN lid st) as [to|]; [|exact IH].
  cbn [List.app pick_first]. now rewrite IH.
Qed.

Lemma longest_prefix_keep r : forall items b tb,
    (forall it, In it items -> (String.length (fst it) <= String.length b)%nat) ->
    longest_prefix items r (Some (b, tb)) = Some (b, tb).
Proof.
  induction items as [|[t to] rest IH]; intros b tb H; [reflexivity|].
  cbn [longest_prefix]. pose proof (H (t, to) (or_introl eq_refl)) as L. cbn [fst] in L.
  assert (Hr : forall it, In it rest -> (String.length (fst it) <= String.length b)%nat) by (intros it Hi; apply H; now right).
  destruct (nonempty t && String.prefix t r); [|now apply IH].
  assert (Nat.ltb (String.length b) (String.length t) = false) as -> by (apply Nat.ltb_ge; lia).
  now apply IH.
Qed.

Lemma no_extension_items r items :
  (forall it, In it items -> (String.length (fst it) <= String.length r)%nat) ->
  existsb (fun it : string * N => proper_prefix r (fst it)) items = false.
Proof.
  intros H. induction items as [|y l IH]; [reflexivity|]. cbn [existsb].
  rewrite IH by (intros z Hz; apply H; now right). rewrite orb_false_r.
  destruct (proper_prefix r (fst y)) eqn:E; [|reflexivity].
  apply proper_prefix_longer in E. pose proof (H y (or_introl eq_refl)). lia.
Qed.

Theorem pick_first_spec c r : r <> EmptyString -> forall items,
    lsorted (map fst items) -> (forall it, In it items -> fst it <> EmptyString) ->
    pick_first c items r = spec_pick c items r.
Proof.
  intros Hr. induction items as [|[t to] rest IH]; intros Hs Hn.
  - unfold spec_pick. cbn. now rewrite andb_false_r.
  - destruct Hs as [Hx Hs].
    assert (Hnr : forall it, In it rest -> fst it <> EmptyString) by (intros it Hi; apply Hn; now right).
    specialize (IH Hs Hnr).
    assert (Ht : nonempty t = true).
    { pose proof (Hn (t, to) (or_introl eq_refl)) as H. cbn in H. destruct t; [congruence|reflexivity]. }
    assert (Hx' : forall it, In it rest -> (String.length (fst it) <= String.length t)%nat).
    { intros it Hi. apply Hx. now apply in_map. }
    unfold spec_pick. cbn [pick_first existsb longest_prefix fst].
    destruct (String.eqb t r) eqn:E.
    + apply String.eqb_eq in E. subst t.
      assert (proper_prefix r r = false) as -> by (unfold proper_prefix; now rewrite String.eqb_refl, andb_false_r).
      rewrite (no_extension_items r rest Hx'). cbn [orb]. rewrite andb_false_r.
      rewrite Ht, prefix_refl. cbn [andb]. now rewrite (longest_prefix_keep r rest r to Hx').
    + destruct (c && String.prefix r t) eqn:E2.
      * apply andb_true_iff in E2 as [-> E2].
        assert (proper_prefix r t = true) as ->.
        { unfold proper_prefix. now rewrite E2, (eqb_sym_false _ _ E). }
        reflexivity.
      * destruct (String.prefix t r) eqn:Ep.
        -- pose proof (prefix_length _ _ Ep) as Lx.
           assert (Hl : forall it, In it rest -> (String.length (fst it) <= String.length r)%nat)
             by (intros it Hi; pose proof (Hx' it Hi); lia).
           assert (c && (proper_prefix r t || existsb (fun it : string * N => proper_prefix r (fst it)) rest) = false) as ->.
           { rewrite (no_extension_items r rest Hl), orb_false_r. destruct c; [|reflexivity].
             cbn [andb] in E2. unfold proper_prefix. now rewrite E2. }
           rewrite Ht. cbn [andb]. now rewrite (longest_prefix_keep r rest t to Hx').
        -- rewrite andb_false_r. rewrite IH. unfold spec_pick.
           assert (c && (proper_prefix r t || existsb (fun it : string * N => proper_prefix r (fst it)) rest)
                   = c && existsb (fun it : string * N => proper_prefix r (fst it)) rest) as ->.
           { destruct c; [|reflexivity]. cbn [andb] in *. unfold proper_prefix. now rewrite E2. }
           reflexivity.
Qed.

(** the expected literals of a table whose literal array is in decreasing length and non-empty *)
Lemma expected_sorted (st : list (N * N)) : forall L : list (N * string),
    sorted_desc L ->
    lsorted (map fst (flat_map (fun il : N * string => match assocN (fst il) st with Some to => [(snd il, to)] | None => [] end) L)).
Proof.
  induction L as [|[id l] r IH]; intros H; [exact I|].
  destruct H as [Hl Hr]. cbn [flat_map fst snd].
  assert (Hin : forall b, In b (map fst (flat_map (fun il : N * string => match assocN (fst il) st with Some to => [(snd il, to)] | None => [] end) r)) ->
                          (String.length b <= String.length l)%nat).
  { intros b Hb. apply in_map_iff in Hb as ([t to] & <- & Hb). apply in_flat_map in Hb as ([i' l'] & Hi & Hb).
    cbn [fst snd] in Hb. destruct (assocN i' st); [|contradiction]. destruct Hb as [Hb|[]]. injection Hb as <- _.
    now apply (Hl i' l'). }
  destruct (assocN id st) as [to|]; cbn [List.app map fst]; [split; [exact Hin|now apply IH]|now apply IH].
Qed.

Lemma expected_nonempty (st : list (N * N)) (L : list (N * string)) :
  (forall id l, In (id, l) L -> l <> EmptyString) ->
  forall it, In it (flat_map (fun il : N * string => match assocN (fst il) st with Some to => [(snd il, to)] | None => [] end) L) ->
             fst it <> EmptyString.
Proof.
  intros H [t to] Hi. apply in_flat_map in Hi as ([i' l'] & Hin & Hb). cbn [fst snd] in Hb.
  destruct (assocN i' st); [|contradiction]. destruct Hb as [Hb|[]]. injection Hb as <- _. cbn. now apply (H i' l').
Qed.
