(** C06: totality of the whole model pipeline [Driver.compile] (text -> parse -> check -> regex ->
    within-word automata -> subset construction -> minimise -> ambiguity check), composed from the
    totality theorems of the stages: [ParseTotal.parse_total] + [ParseShape.parse_alts_nonempty]
    (parser), [CheckTotal.from_grammar_total] (checker), [DriverCorrect.driver_total]
    (regex, subset construction, minimisation, ambiguity walk). *)
From CG Require Import Base.Prelude Model.Ast Model.Lexer Model.Parser Model.Check Model.Regex.
From CG Require Import Model.Dfa Model.Subset Model.Minimize Model.Ambiguity Model.Driver.
From CG Require Import Proofs.TreeFacts Proofs.CheckTotal Proofs.ParseTotal Proofs.ParseShape.
From CG Require Import Proofs.DriverCorrect.
From CG Require Props.C05b Props.C06 Props.C02.

(** The subset construction is the one loop whose fuel is a parameter of the model (its bound is
    exponential in the number of positions): [fuel_covers] says the parameter exceeds that bound
    for the main regex and every within-word regex of whatever the text validates to. *)
Definition fuel_covers (fuel : nat) (builtins : shell -> list (string * string)) (text : string)
           (sh : shell) : Prop :=
  forall g v r pl,
    parse text = Ok g -> from_grammar builtins g sh = Ok v ->
    from_expr (v_expr v) [] = Ok (r, pl) ->
    enough_fuel fuel r /\ Forall (enough_fuel fuel) pl.

Theorem compile_total :
  forall pick fuel builtins text sh,
    fuel_covers fuel builtins text sh ->
    (exists vc, compile pick fuel builtins text sh = Ok vc) \/
    (exists e, compile pick fuel builtins text sh = Err e).
Proof.
  intros pick fuel builtins text sh Hfuel. unfold compile.
  destruct (Props.C05b.parse_total text) as [[g Hg]|[sp Hsp]].
  2:{ rewrite Hsp. cbn. right. eexists. reflexivity. }
  rewrite Hg. cbn [obind].
  destruct (Props.C06.C06_checker_total builtins g sh) as [[v Hv]|[e He]].
  2:{ rewrite He. cbn. right. eexists. reflexivity. }
  rewrite Hv. cbn [lift obind].
  pose proof (Props.C05b.parse_alts_nonempty text g Hg) as Halts.
  destruct (Props.C02.C02_compile_valid_total builtins g sh v pick fuel Hv Halts) as [[c Hc]|[[a [b Hab]]|[e He]]].
  - intros r pl Hr. exact (Hfuel g v r pl Hg Hv Hr).
  - rewrite Hc. cbn. left. eexists. reflexivity.
  - rewrite Hab. cbn. right. eexists. reflexivity.
  - rewrite He. cbn. right. eexists. reflexivity.
Qed.

(** What a rejection can be: a parse error, a checker error, a placeholder that something can
    follow inside a word, or an ambiguity of the automaton -- nothing else. *)
Theorem compile_error_kinds :
  forall pick fuel builtins text sh e,
    fuel_covers fuel builtins text sh ->
    compile pick fuel builtins text sh = Err e ->
    (exists sp, e = DParse sp) \/ (exists ce, e = DCheck ce) \/
    (exists a b, e = DRegex (UnboundedMatchable a b)) \/ (exists ae, e = DAmb ae).
Proof.
  intros pick fuel builtins text sh e Hfuel. unfold compile.
  destruct (Props.C05b.parse_total text) as [[g Hg]|[sp Hsp]].
  2:{ rewrite Hsp. cbn. intro H. inversion H. left. eexists. reflexivity. }
  rewrite Hg. cbn [obind].
  destruct (Props.C06.C06_checker_total builtins g sh) as [[v Hv]|[ce Hce]].
  2:{ rewrite Hce. cbn. intro H. inversion H. right. left. eexists. reflexivity. }
  rewrite Hv. cbn [lift obind].
  pose proof (Props.C05b.parse_alts_nonempty text g Hg) as Halts.
  destruct (Props.C02.C02_compile_valid_total builtins g sh v pick fuel Hv Halts) as [[c Hc]|[[a [b Hab]]|[ae Hae]]].
  - intros r pl Hr. exact (Hfuel g v r pl Hg Hv Hr).
  - rewrite Hc. cbn. discriminate.
  - rewrite Hab. cbn. intro H. inversion H. right. right. left. do 2 eexists. reflexivity.
  - rewrite Hae. cbn. intro H. inversion H. right. right. right. eexists. reflexivity.
Qed.
