(** C08 (cycles) / C06 (fuel of the search): the depth-first search of [resolution_order].

    - success: the returned order is a topological post-order of the dependency graph, hence
      the graph is acyclic;
    - failure: the only error is [NonterminalDefinitionsCycle], and the reported path is a real
      path of the graph that closes on itself;
    - totality: with the fuel [S (length defs)] the search never runs out of fuel (the search
      path has no repeated vertex and contains defined names only) and never panics. *)
From CG Require Import Base.Prelude Model.Ast Model.Check.
From CG Require Import Proofs.CheckChoice Proofs.CheckMistakes Proofs.CheckLemmas.

(** *** The inner loop of [dfs] as a top-level function (definitionally the same fixpoint) *)
Section Each.
  Variable graph : list (string * list (string * span)).
  Variable rec : string -> list (string * span) -> dfs_state -> res dfs_state.
  Variable v : string.
  Variable path : list (string * span).

  Fixpoint each (cs : list (string * span)) (st : dfs_state) : res dfs_state :=
    match cs with
    | [] => Ok st
    | (c, sp) :: r =>
        if mem_str c (map fst path) then
          Err (NonterminalDefinitionsCycle (map snd (path ++ [(v, sp)])))
        else if mem_str c (visited st) then each r st
        else
          do st1 <- rec c (path ++ [(c, sp)]) st;
          each r (mkdfs (visited st1) (order st1 ++ [c]))
    end.
End Each.

Lemma dfs_S graph f v path st :
  dfs graph (S f) v path st
  = each (dfs graph f) v path (children graph v) (mkdfs (v :: visited st) (order st)).
Proof. reflexivity. Qed.

(** *** Index of the first occurrence *)
Fixpoint idx (x : string) (l : list string) : nat :=
  match l with
  | [] => O
  | y :: r => if String.eqb x y then O else S (idx x r)
  end.

Lemma idx_lt_In x l : (idx x l < List.length l)%nat <-> In x l.
Proof.
  induction l as [|y l IH]; cbn; [split; [lia|tauto]|].
  destruct (String.eqb x y) eqn:E.
  - apply String.eqb_eq in E. subst. split; [auto|lia].
  - apply String.eqb_neq in E. rewrite <- Nat.succ_lt_mono, IH. split; [auto|].
    intros [H|H]; [congruence|exact H].
Qed.

Lemma idx_app_in x l l' : In x l -> idx x (l ++ l') = idx x l.
Proof.
  induction l as [|y l IH]; cbn; [tauto|].
  destruct (String.eqb x y) eqn:E; [reflexivity|].
  apply String.eqb_neq in E. intros [H|H]; [congruence|]. rewrite IH by exact H. reflexivity.
Qed.

Lemma idx_app_notin x l l' : ~ In x l -> idx x (l ++ l') = (List.length l + idx x l')%nat.
Proof.
  induction l as [|y l IH]; cbn; [reflexivity|].
  intro H. destruct (String.eqb x y) eqn:E.
  - apply String.eqb_eq in E. subst. exfalso. apply H. left. reflexivity.
  - rewrite IH; [reflexivity|]. intro H'. apply H. right. exact H'.
Qed.

Lemma In_dec_str (x : string) l : In x l \/ ~ In x l.
Proof. destruct (mem_str x l) eqn:E; [left; apply mem_str_In|right; apply mem_str_false_In]; exact E. Qed.

Section Graph.
  Variable graph : list (string * list (string * span)).

  Definition edge (u c : string) : Prop := In c (map fst (children graph u)).

  (** at least one step *)
  Inductive reach : string -> string -> Prop :=
  | reach_one x y : edge x y -> reach x y
  | reach_step x y z : edge x y -> reach y z -> reach x z.

  Definition acyclic : Prop :=
    exists rank : string -> nat, forall u c, edge u c -> (rank c < rank u)%nat.

  Lemma acyclic_no_cycle : acyclic -> forall x, ~ reach x x.
  Proof.
    intros [rank Hr] x H.
    assert (G : forall a b, reach a b -> (rank b < rank a)%nat).
    { induction 1 as [a b Hab|a b c Hab _ IH]; [auto|]. apply Hr in Hab. lia. }
    apply G in H. lia.
  Qed.

  (** post-order lists: every vertex comes after all its children *)
  Inductive topo : list string -> Prop :=
  | topo_nil : topo []
  | topo_snoc l u : topo l -> (forall c, edge u c -> In c l) -> topo (l ++ [u]).

  Lemma topo_idx l : topo l -> forall x c, In x l -> edge x c -> (idx c l < idx x l)%nat.
  Proof.
    induction 1 as [|l u Ht IH Hu]; intros x c Hx Hc; [destruct Hx|].
    destruct (In_dec_str x l) as [Hin|Hnin].
    - specialize (IH x c Hin Hc).
      assert (Hcl : In c l).
      { apply idx_lt_In. apply idx_lt_In in Hin. lia. }
      rewrite !idx_app_in by assumption. exact IH.
    - apply in_app_or in Hx. destruct Hx as [Hx|[Hx|[]]]; [contradiction|]. subst x.
      pose proof (Hu c Hc) as Hcl. rewrite idx_app_in by exact Hcl.
      rewrite idx_app_notin by exact Hnin. cbn. rewrite String.eqb_refl.
      apply idx_lt_In in Hcl. lia.
  Qed.

  Lemma topo_acyclic l : topo l -> (forall u c, edge u c -> In u l) -> acyclic.
  Proof.
    intros Ht Hall. exists (fun x => idx x l). intros u c Huc.
    apply topo_idx; [exact Ht|eapply Hall; eassumption|exact Huc].
  Qed.

  (** *** Success *)
  Definition vis_ok (p : list string) (st : dfs_state) : Prop :=
    forall u, In u (visited st) -> In u p \/ In u (order st).

  Definition dfs_post (p : list string) (cs : list string) (st st' : dfs_state) : Prop :=
    vis_ok p st' /\ topo (order st') /\ (forall c, In c cs -> In c (order st'))
    /\ incl (order st) (order st') /\ incl (visited st) (visited st').

  Lemma each_ok rec v path
        (IHrec : forall c path st st',
            rec c path st = Ok st' -> In c (map fst path) -> vis_ok (map fst path) st ->
            topo (order st) ->
            dfs_post (map fst path) (map fst (children graph c)) st st'
            /\ In c (visited st')) :
    forall cs st st',
      each rec v path cs st = Ok st' -> vis_ok (map fst path) st -> topo (order st) ->
      dfs_post (map fst path) (map fst cs) st st'.
  Proof.
    induction cs as [|[c sp] r IH]; intros st st' H Hv Ht.
    - cbn in H. inversion H; subst. repeat split; auto using incl_refl. intros c [].
    - cbn [each] in H. destruct (mem_str c (map fst path)) eqn:Hp; [discriminate|].
      apply mem_str_false_In in Hp.
      destruct (mem_str c (visited st)) eqn:Hvis.
      + apply mem_str_In in Hvis. destruct (IH _ _ H Hv Ht) as (A & B & C & D & E).
        repeat split; auto. intros c' [Hc'|Hc']; [|auto]. cbn in Hc'. subst c'.
        apply D. destruct (Hv _ Hvis); [contradiction|assumption].
      + destruct (rec c (path ++ [(c, sp)]) st) as [st1| | |] eqn:Hrec; cbn [obind] in H;
          try discriminate.
        destruct (IHrec _ _ _ _ Hrec) as [(A1 & B1 & C1 & D1 & E1) F1].
        { rewrite map_app, in_app_iff. right. left. reflexivity. }
        { intros u Hu. destruct (Hv u Hu); [left|right; assumption].
          rewrite map_app, in_app_iff. left. assumption. }
        { exact Ht. }
        destruct (IH _ _ H) as (A & B & C & D & E).
        { intros u Hu. cbn [visited order] in *. destruct (A1 u Hu) as [Hu'|Hu'].
          - rewrite map_app, in_app_iff in Hu'. destruct Hu' as [Hu'|[Hu'|[]]]; [left; exact Hu'|].
            cbn in Hu'. subst u. right. apply in_or_app. right. left. reflexivity.
          - right. apply in_or_app. left. exact Hu'. }
        { cbn [order]. apply topo_snoc; [exact B1|exact C1]. }
        cbn [order visited] in *. repeat split; auto.
        * intros c' [Hc'|Hc']; [|auto]. cbn in Hc'. subst c'. apply D. apply in_or_app. right. left.
          reflexivity.
        * intros u Hu. apply D. apply in_or_app. left. apply D1. exact Hu.
        * intros u Hu. apply E. apply E1. exact Hu.
  Qed.

  Lemma dfs_ok f : forall v path st st',
    dfs graph f v path st = Ok st' -> In v (map fst path) -> vis_ok (map fst path) st ->
    topo (order st) ->
    dfs_post (map fst path) (map fst (children graph v)) st st' /\ In v (visited st').
  Proof.
    induction f as [|f IHf]; intros v path st st' H Hin Hv Ht; [discriminate|].
    rewrite dfs_S in H.
    destruct (each_ok (dfs graph f) v path IHf _ _ _ H) as (A & B & C & D & E).
    - intros u [Hu|Hu]; [subst u; left; exact Hin|apply Hv; exact Hu].
    - exact Ht.
    - cbn [order visited] in *. split; [repeat split; auto|].
      + intros u Hu. apply E. right. exact Hu.
      + apply E. left. reflexivity.
  Qed.

  Lemma search_roots_ok f : forall roots st st',
    search_roots graph f roots st = Ok st' -> vis_ok [] st -> topo (order st) ->
    vis_ok [] st' /\ topo (order st') /\ (forall r, In r (map fst roots) -> In r (order st'))
    /\ incl (order st) (order st').
  Proof.
    induction roots as [|[v vsp] r IH]; intros st st' H Hv Ht.
    - cbn in H. inversion H; subst. repeat split; auto using incl_refl. intros r [].
    - cbn [search_roots] in H. destruct (mem_str v (visited st)) eqn:Hvis.
      + apply mem_str_In in Hvis. destruct (IH _ _ H Hv Ht) as (A & B & C & D).
        repeat split; auto. intros r' [Hr|Hr]; [|auto]. cbn in Hr. subst r'.
        apply D. destruct (Hv _ Hvis) as [[]|]; assumption.
      + destruct (dfs graph f v [(v, vsp)] st) as [st1| | |] eqn:Hd; cbn [obind] in H;
          try discriminate.
        destruct (dfs_ok _ _ _ _ _ Hd) as [(A1 & B1 & C1 & D1 & E1) F1].
        { left. reflexivity. }
        { intros u Hu. destruct (Hv u Hu) as [[]|]; right; assumption. }
        { exact Ht. }
        destruct (IH _ _ H) as (A & B & C & D).
        { intros u Hu. cbn [visited order] in *. right. destruct (A1 u Hu) as [[Hu'|[]]|Hu'].
          - subst u. apply in_or_app. right. left. reflexivity.
          - apply in_or_app. left. exact Hu'. }
        { cbn [order]. apply topo_snoc; [exact B1|exact C1]. }
        cbn [order] in *. repeat split; auto.
        * intros r' [Hr|Hr]; [|auto]. cbn in Hr. subst r'. apply D. apply in_or_app. right. left.
          reflexivity.
        * intros u Hu. apply D. apply in_or_app. left. apply D1. exact Hu.
  Qed.

  (** *** Failure: the reported path is a path of the graph that closes on itself *)
  Fixpoint chain (a : string) (rest : list (string * span)) : Prop :=
    match rest with
    | [] => True
    | (b, sb) :: r => In (b, sb) (children graph a) /\ chain b r
    end.

  Lemma last_cons {A} (x : A) l d : last (x :: l) d = last l x.
  Proof.
    revert x d. induction l as [|y l IH]; intros x d; [reflexivity|].
    change (last (x :: y :: l) d) with (last (y :: l) d). rewrite (IH y d), (IH y x). reflexivity.
  Qed.

  Lemma chain_snoc a rest c sp :
    chain a rest -> In (c, sp) (children graph (last (map fst rest) a)) ->
    chain a (rest ++ [(c, sp)]).
  Proof.
    revert a; induction rest as [|[b sb] r IH]; intros a Hc Hin.
    - cbn in *. split; [exact Hin|exact I].
    - cbn [map fst] in Hin. rewrite last_cons in Hin. cbn [chain app] in *.
      destruct Hc as [Hb Hc]. split; [exact Hb|]. apply IH; assumption.
  Qed.

  Lemma last_snoc {A} (l : list A) x d : last (l ++ [x]) d = x.
  Proof. induction l as [|y l IH]; cbn; [reflexivity|]. destruct (l ++ [x]) eqn:E; [destruct l; discriminate|exact IH]. Qed.

  (** [cycle_report verts e]: [e] is a cycle error whose spans are: the name span of a
      vertex [r], then the spans of references forming a path [r -> ... -> v] without repeated
      vertex, then the span of a reference in [v] to a vertex [c] of that path. *)
  Definition cycle_report (verts : list (string * span)) (e : cerror) : Prop :=
    exists r rsp rest c sp,
      In (r, rsp) verts /\ chain r rest /\ NoDup (r :: map fst rest)
      /\ In (c, sp) (children graph (last (map fst rest) r)) /\ In c (r :: map fst rest)
      /\ e = NonterminalDefinitionsCycle (rsp :: map snd rest ++ [sp]).

  Definition path_ok (verts : list (string * span)) (path : list (string * span)) (v : string)
    : Prop :=
    exists r rsp rest, path = (r, rsp) :: rest /\ In (r, rsp) verts /\ chain r rest
                       /\ NoDup (r :: map fst rest) /\ last (map fst rest) r = v.

  Lemma each_err verts rec v path
        (IHrec : forall c path st e,
            rec c path st = Err e -> path_ok verts path c -> cycle_report verts e) :
    path_ok verts path v ->
    forall cs st e, incl cs (children graph v) ->
                    each rec v path cs st = Err e -> cycle_report verts e.
  Proof.
    intros Hp. induction cs as [|[c sp] r IH]; intros st e Hincl H; [discriminate|].
    cbn [each] in H.
    assert (Hc : In (c, sp) (children graph v)) by (apply Hincl; left; reflexivity).
    assert (Hr : incl r (children graph v)) by (intros x Hx; apply Hincl; right; exact Hx).
    destruct (mem_str c (map fst path)) eqn:Hcp.
    - apply mem_str_In in Hcp. inversion H; subst e. clear H.
      destruct Hp as (r0 & rsp & rest & Hpath & Hv & Hch & Hnd & Hlast). subst path.
      exists r0, rsp, rest, c, sp. subst v. repeat split; auto.
      cbn [map app]. rewrite map_app. reflexivity.
    - apply mem_str_false_In in Hcp. destruct (mem_str c (visited st)); [eapply IH; eauto|].
      destruct (rec c (path ++ [(c, sp)]) st) as [st1| | |] eqn:Hrec; cbn [obind] in H;
        try discriminate.
      + eapply IH; eauto.
      + inversion H; subst e0. eapply IHrec; [exact Hrec|].
        destruct Hp as (r0 & rsp & rest & Hpath & Hv & Hch & Hnd & Hlast). subst path.
        exists r0, rsp, (rest ++ [(c, sp)]). repeat split; auto.
        * apply chain_snoc; [exact Hch|]. rewrite Hlast. exact Hc.
        * rewrite map_app. cbn [map fst].
          change (r0 :: map fst rest ++ [c]) with ((r0 :: map fst rest) ++ [c]).
          apply NoDup_app_snoc; [exact Hnd|exact Hcp].
        * rewrite map_app. cbn [map fst]. apply last_snoc.
  Qed.

  Lemma dfs_err verts f : forall v path st e,
    dfs graph f v path st = Err e -> path_ok verts path v -> cycle_report verts e.
  Proof.
    induction f as [|f IHf]; intros v path st e H Hp; [discriminate|].
    rewrite dfs_S in H. eapply each_err; eauto. apply incl_refl.
  Qed.

  Lemma search_roots_err verts f : forall roots st e,
    incl roots verts -> search_roots graph f roots st = Err e -> cycle_report verts e.
  Proof.
    induction roots as [|[v vsp] r IH]; intros st e Hincl H; [discriminate|].
    cbn [search_roots] in H.
    assert (Hr : incl r verts) by (intros x Hx; apply Hincl; right; exact Hx).
    destruct (mem_str v (visited st)); [eapply IH; eauto|].
    destruct (dfs graph f v [(v, vsp)] st) as [st1| | |] eqn:Hd; cbn [obind] in H; try discriminate.
    - eapply IH; eauto.
    - inversion H; subst e0. eapply dfs_err; [exact Hd|].
      exists v, vsp, []. repeat split; auto.
      + apply Hincl. left. reflexivity.
      + constructor; [intros []|constructor].
  Qed.

  (** a reported cycle is a cycle *)
  Lemma chain_reach a rest : chain a rest -> forall l1 c l2,
    map fst rest = l1 ++ c :: l2 -> reach a c.
  Proof.
    revert a; induction rest as [|[b sb] r IH]; intros a Hc l1 c l2 Heq; [destruct l1; discriminate|].
    cbn in Hc, Heq. destruct Hc as [Hb Hc].
    assert (Hab : edge a b). { apply in_map_iff. exists (b, sb). split; [reflexivity|exact Hb]. }
    destruct l1 as [|x l1]; cbn in Heq; inversion Heq; subst.
    - apply reach_one. exact Hab.
    - eapply reach_step; [exact Hab|]. eapply IH; eauto.
  Qed.

  Lemma chain_suffix a rest : chain a rest -> forall l1 b sb l2,
    rest = l1 ++ (b, sb) :: l2 -> chain b l2.
  Proof.
    revert a; induction rest as [|[b' sb'] r IH]; intros a Hc l1 b sb l2 Heq; [destruct l1; discriminate|].
    cbn in Hc. destruct Hc as [Hb Hc]. destruct l1 as [|x l1]; cbn in Heq; inversion Heq; subst.
    - exact Hc.
    - eapply IH; eauto.
  Qed.

  Lemma chain_reach_last a rest : chain a rest -> rest <> [] -> reach a (last (map fst rest) a).
  Proof.
    intros Hc Hne. destruct (exists_last Hne) as [l [[b sb] Heq]]. subst rest.
    rewrite map_app. cbn [map fst]. rewrite last_snoc.
    eapply chain_reach; [exact Hc|]. rewrite map_app. cbn. reflexivity.
  Qed.

  Lemma reach_edge_r x y z : reach x y -> edge y z -> reach x z.
  Proof.
    induction 1 as [a b Hab|a b c Hab _ IH]; intro Hz.
    - eapply reach_step; [exact Hab|apply reach_one; exact Hz].
    - eapply reach_step; [exact Hab|apply IH; exact Hz].
  Qed.

  Lemma last_app_cons {A} (l1 : list A) x l2 d : last (l1 ++ x :: l2) d = last l2 x.
  Proof.
    revert d. induction l1 as [|y l1 IH]; intro d; cbn [app].
    - apply last_cons.
    - rewrite last_cons. apply IH.
  Qed.

  Lemma chain_to_last a rest : chain a rest -> forall c, In c (a :: map fst rest) ->
    c = last (map fst rest) a \/ reach c (last (map fst rest) a).
  Proof.
    intros Hch c [Hc|Hc].
    - subst c. destruct rest as [|p rest'] eqn:E; [left; reflexivity|].
      right. rewrite <- E in *. apply chain_reach_last; [exact Hch|rewrite E; discriminate].
    - apply in_map_iff in Hc. destruct Hc as [[c' sc] [Hc' Hc]]. cbn in Hc'. subst c'.
      apply in_split in Hc. destruct Hc as [l1 [l2 Heq]].
      pose proof (chain_suffix _ _ Hch _ _ _ _ Heq) as Hc2.
      subst rest. rewrite map_app. cbn [map fst]. rewrite last_app_cons.
      destruct l2 as [|p l2'] eqn:E; [left; reflexivity|].
      right. rewrite <- E in *. apply chain_reach_last; [exact Hc2|rewrite E; discriminate].
  Qed.

  Lemma cycle_report_cycle verts e : cycle_report verts e -> exists x, reach x x.
  Proof.
    intros (r & rsp & rest & c & sp & Hv & Hch & Hnd & Hc & Hin & He).
    assert (Hvc : edge (last (map fst rest) r) c).
    { apply in_map_iff. exists (c, sp). split; [reflexivity|exact Hc]. }
    exists c. destruct (chain_to_last _ _ Hch _ Hin) as [Heq|Hr].
    - rewrite <- Heq in Hvc. apply reach_one. exact Hvc.
    - eapply reach_edge_r; eassumption.
  Qed.
  (** *** Totality: neither [Panic] nor [OutOfFuel] *)
  Definition fine {A} (x : res A) : Prop :=
    match x with Ok _ | Err _ => True | Panic _ | OutOfFuel => False end.

  Variable names : list string.
  Hypothesis closed : forall u c, edge u c -> In c names.

  Lemma each_fine f rec v path
        (IHrec : forall c path st,
            NoDup (map fst path) -> incl (map fst path) names ->
            (f + List.length path >= S (List.length names))%nat -> fine (rec c path st)) :
    NoDup (map fst path) -> incl (map fst path) names ->
    (S f + List.length path >= S (List.length names))%nat ->
    forall cs st, incl cs (children graph v) -> fine (each rec v path cs st).
  Proof.
    intros Hnd Hincl Hb. induction cs as [|[c sp] r IH]; intros st Hcs; [exact I|].
    cbn [each].
    assert (Hr : incl r (children graph v)) by (intros x Hx; apply Hcs; right; exact Hx).
    destruct (mem_str c (map fst path)) eqn:Hcp; [exact I|].
    apply mem_str_false_In in Hcp.
    destruct (mem_str c (visited st)); [apply IH; exact Hr|].
    assert (Hf : fine (rec c (path ++ [(c, sp)]) st)).
    { apply IHrec.
      - rewrite map_app. cbn. apply NoDup_app_snoc; assumption.
      - rewrite map_app. cbn. intros x Hx. apply in_app_or in Hx. destruct Hx as [Hx|[Hx|[]]].
        + apply Hincl. exact Hx.
        + subst x. apply (closed v). apply in_map_iff. exists (c, sp). split; [reflexivity|].
          apply Hcs. left. reflexivity.
      - rewrite app_length. cbn. lia. }
    destruct (rec c (path ++ [(c, sp)]) st); cbn [obind]; try exact Hf. apply IH. exact Hr.
  Qed.

  Lemma dfs_fine f : forall v path st,
    NoDup (map fst path) -> incl (map fst path) names ->
    (f + List.length path >= S (List.length names))%nat -> fine (dfs graph f v path st).
  Proof.
    induction f as [|f IHf]; intros v path st Hnd Hincl Hb.
    - exfalso. pose proof (NoDup_incl_length Hnd Hincl) as Hl. rewrite map_length in Hl. lia.
    - rewrite dfs_S. eapply each_fine; eauto. apply incl_refl.
  Qed.

  Lemma search_roots_fine f : (f >= List.length names)%nat -> forall roots st,
    incl (map fst roots) names -> fine (search_roots graph f roots st).
  Proof.
    intro Hf. induction roots as [|[v vsp] r IH]; intros st Hincl; [exact I|].
    cbn [search_roots].
    assert (Hr : incl (map fst r) names) by (intros x Hx; apply Hincl; right; exact Hx).
    destruct (mem_str v (visited st)); [apply IH; exact Hr|].
    assert (Hd : fine (dfs graph f v [(v, vsp)] st)).
    { apply dfs_fine.
      - constructor; [intros []|constructor].
      - intros x [Hx|[]]. subst x. apply Hincl. left. reflexivity.
      - cbn. lia. }
    destruct (dfs graph f v [(v, vsp)] st); cbn [obind]; try exact Hd. apply IH. exact Hr.
  Qed.

  (** *** The order handed to [resolve_in_order]: vertices without children are dropped *)
  Definition childless (c : string) : Prop := children graph c = [].
  Definition has_children (c : string) : bool :=
    match children graph c with [] => false | _ => true end.

  Fixpoint ordered (done : list string) (l : list string) : Prop :=
    match l with
    | [] => True
    | n :: r => (forall c, edge n c -> In c done \/ childless c) /\ ordered (n :: done) r
    end.

  Lemma ordered_snoc l : forall done u,
    ordered done l -> (forall c, edge u c -> In c l \/ In c done \/ childless c) ->
    ordered done (l ++ [u]).
  Proof.
    induction l as [|n r IH]; intros done u Ho Hu; cbn [app ordered] in *.
    - split; [|exact I]. intros c Hc. destruct (Hu c Hc) as [[]|H]; exact H.
    - destruct Ho as [Hn Ho]. split; [exact Hn|]. apply IH; [exact Ho|].
      intros c Hc. destruct (Hu c Hc) as [[H|H]|[H|H]]; cbn; auto.
  Qed.

  Lemma has_children_false c : has_children c = false -> childless c.
  Proof. unfold has_children, childless. destruct (children graph c); [reflexivity|discriminate]. Qed.

  Lemma topo_ordered l : topo l -> ordered [] (filter has_children l).
  Proof.
    induction 1 as [|l u Ht IH Hu]; [exact I|].
    rewrite filter_app. cbn [filter]. destruct (has_children u) eqn:Hcu; [|rewrite app_nil_r; exact IH].
    apply ordered_snoc; [exact IH|]. intros c Hc.
    destruct (has_children c) eqn:Hcc.
    - left. apply filter_In. split; [apply Hu; exact Hc|exact Hcc].
    - right. right. apply has_children_false. exact Hcc.
  Qed.

  Lemma ordered_split done l1 n l2 :
    ordered done (l1 ++ n :: l2) ->
    forall c, edge n c -> In c l1 \/ In c done \/ childless c.
  Proof.
    revert done. induction l1 as [|m l1 IH]; intros done Ho c Hc; cbn [app ordered] in Ho.
    - destruct Ho as [Hn _]. destruct (Hn c Hc); auto.
    - destruct Ho as [_ Ho]. destruct (IH _ Ho c Hc) as [H|[[H|H]|H]]; cbn; auto.
  Qed.
End Graph.

(** *** [resolution_order] *)
Definition graph_of (defs : list defn) : list (string * list (string * span)) :=
  map (fun d => (d_name d, filter (fun p => mem_str (fst p) (map d_name defs))
                                  (get_nonterm_refs (d_rhs d)))) defs.

Definition verts_of (defs : list defn) : list (string * span) :=
  map (fun d => (d_name d, d_span d)) defs.

Lemma resolution_order_eq defs :
  resolution_order defs =
  do st <- search_roots (graph_of defs) (S (List.length defs))
                        (filter (fun p => indegree_zero (graph_of defs) (fst p)) (verts_of defs)
                         ++ verts_of defs) (mkdfs [] []);
  Ok (filter (has_children (graph_of defs)) (order st)).
Proof. reflexivity. Qed.

Lemma graph_of_closed defs u c : edge (graph_of defs) u c -> In c (map d_name defs).
Proof.
  unfold edge, children. destruct (assoc u (graph_of defs)) as [cs|] eqn:E; [|intros []].
  apply assoc_In in E. unfold graph_of in E. apply in_map_iff in E. destruct E as [d [Hd _]].
  inversion Hd; subst. intro H. apply in_map_iff in H. destruct H as [[c' sp] [Hc Hin]].
  cbn in Hc. subst c'. apply filter_In in Hin. destruct Hin as [_ Hm]. apply mem_str_In. exact Hm.
Qed.

Lemma graph_of_edge_defined defs u c : edge (graph_of defs) u c -> In u (map d_name defs).
Proof.
  unfold edge, children. destruct (assoc u (graph_of defs)) as [cs|] eqn:E; [|intros []].
  intros _. apply assoc_Some_in in E. unfold graph_of in E. rewrite map_map in E. exact E.
Qed.

Lemma verts_of_names defs : map fst (verts_of defs) = map d_name defs.
Proof. unfold verts_of. rewrite map_map. reflexivity. Qed.

Theorem resolution_order_fine defs : fine (resolution_order defs).
Proof.
  rewrite resolution_order_eq.
  assert (H : fine (search_roots (graph_of defs) (S (List.length defs))
                     (filter (fun p => indegree_zero (graph_of defs) (fst p)) (verts_of defs)
                      ++ verts_of defs) (mkdfs [] []))).
  { apply search_roots_fine with (names := map d_name defs).
    - apply graph_of_closed.
    - rewrite map_length. lia.
    - rewrite map_app. intros x Hx. apply in_app_or in Hx. rewrite <- verts_of_names.
      destruct Hx as [Hx|Hx]; [|exact Hx].
      apply in_map_iff in Hx. destruct Hx as [p [Hp Hin]]. apply filter_In in Hin.
      apply in_map_iff. exists p. tauto. }
  destruct (search_roots _ _ _ _); cbn [obind]; exact H.
Qed.

Theorem resolution_order_ok defs ord :
  resolution_order defs = Ok ord ->
  acyclic (graph_of defs) /\ ordered (graph_of defs) [] ord
  /\ (forall n, In n ord <-> In n (map d_name defs) /\ has_children (graph_of defs) n = true).
Proof.
  rewrite resolution_order_eq.
  destruct (search_roots _ _ _ _) as [st| | |] eqn:Hs; cbn [obind]; try discriminate.
  intro H. inversion H; subst ord. clear H.
  destruct (search_roots_ok _ _ _ _ _ Hs) as (A & B & C & D).
  { intros u []. }
  { constructor. }
  assert (Hall : forall n, In n (map d_name defs) -> In n (order st)).
  { intros n Hn. apply C. rewrite map_app. apply in_or_app. right. rewrite verts_of_names. exact Hn. }
  split; [|split].
  - eapply topo_acyclic; [exact B|]. intros u c Huc. apply Hall.
    eapply graph_of_edge_defined. exact Huc.
  - apply topo_ordered. exact B.
  - intro n. rewrite filter_In. split.
    + intros [Hn Hc]. split; [|exact Hc].
      unfold has_children in Hc. destruct (children (graph_of defs) n) as [|[c sp] r] eqn:E; [discriminate|].
      apply (graph_of_edge_defined defs n c). unfold edge. rewrite E. left. reflexivity.
    + intros [Hn Hc]. split; [apply Hall; exact Hn|exact Hc].
Qed.

Theorem resolution_order_err defs e :
  resolution_order defs = Err e -> cycle_report (graph_of defs) (verts_of defs) e.
Proof.
  rewrite resolution_order_eq.
  destruct (search_roots _ _ _ _) as [st| | |] eqn:Hs; cbn [obind]; try discriminate.
  intro H. inversion H; subst e0. eapply search_roots_err; [|exact Hs].
  intros x Hx. apply in_app_or in Hx. destruct Hx as [Hx|Hx]; [|exact Hx].
  apply filter_In in Hx. tauto.
Qed.

(** Acyclic graphs are accepted, cyclic ones rejected with a cycle error. *)
Theorem resolution_order_complete defs :
  (exists ord, resolution_order defs = Ok ord) <-> acyclic (graph_of defs).
Proof.
  split.
  - intros [ord H]. apply resolution_order_ok in H. tauto.
  - intro Ha. pose proof (resolution_order_fine defs) as Hf.
    destruct (resolution_order defs) as [ord|e| |] eqn:E; try destruct Hf.
    + eexists; reflexivity.
    + exfalso. apply resolution_order_err in E. apply cycle_report_cycle in E.
      destruct E as [x Hx]. eapply acyclic_no_cycle; eassumption.
Qed.

(** The same, as positions in the list: every definition with dependencies is listed, after
    every definition it depends on that has dependencies itself. *)
Theorem resolution_order_topological defs ord :
  resolution_order defs = Ok ord ->
  (forall n, In n ord <-> In n (map d_name defs) /\ exists c, edge (graph_of defs) n c) /\
  (forall l1 n l2 c, ord = l1 ++ n :: l2 -> edge (graph_of defs) n c ->
                     In c l1 \/ forall c', ~ edge (graph_of defs) c c').
Proof.
  intro H. apply resolution_order_ok in H. destruct H as (_ & Ho & Hall). split.
  - intro n. rewrite Hall. unfold has_children, edge.
    destruct (children (graph_of defs) n) as [|[c sp] r]; split; intros [Hn Hc]; split; auto.
    + discriminate.
    + destruct Hc as [c []].
    + exists c. left. reflexivity.
  - intros l1 n l2 c Heq Hc. subst ord. destruct (ordered_split _ _ _ _ _ Ho c Hc) as [H|[[]|H]].
    + left. exact H.
    + right. intros c' Hc'. unfold edge in Hc'. rewrite H in Hc'. destruct Hc'.
Qed.

Theorem resolution_order_err_cycle defs e :
  resolution_order defs = Err e ->
  (exists spans, e = NonterminalDefinitionsCycle spans) /\ exists x, reach (graph_of defs) x x.
Proof.
  intro H. apply resolution_order_err in H. split.
  - destruct H as (r & rsp & rest & c & sp & _ & _ & _ & _ & _ & Heq). eexists. exact Heq.
  - eapply cycle_report_cycle. exact H.
Qed.
