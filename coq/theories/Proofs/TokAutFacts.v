(** Facts about [Spec.TokAut]: the character-level reading of a token automaton accepts exactly
    the concatenations of token texts along accepting paths ([tacc_cacc], [cacc_tacc]); the set
    simulation [accepts_from] decides it; [disjoint] is sound (no common word) and [common_word]
    returns a genuine common word. *)
From CG Require Import Base.Prelude Spec.TokAut.

Section AutFacts.
  Variable Q : Type.
  Variable next : Q -> list (tok * Q).
  Variable final : Q -> bool.

  Notation cfg := (cfg Q).
  Notation cstep := (cstep Q next).
  Notation cfinal := (cfinal Q final).

  (** Character-level acceptance from a configuration. *)
  Inductive cacc : cfg -> string -> Prop :=
  | cacc_nil c : cfinal c = true -> cacc c EmptyString
  | cacc_cons c l c' a w :
      In (l, c') (cstep c) -> lab_ok l a = true -> cacc c' w -> cacc c (String a w).

  Notation tacc := (tacc Q next final).

  Lemma accepts_from_spec : forall w cs,
      accepts_from Q next final cs w = true <-> exists c, In c cs /\ cacc c w.
  Proof.
    induction w as [| a w IH]; intro cs; cbn [accepts_from].
    - rewrite existsb_exists. split.
      + intros [c [Hin Hf]]. exists c. split; [assumption | constructor; assumption].
      + intros [c [Hin Hc]]. exists c. split; [assumption |]. inversion Hc; assumption.
    - rewrite IH. split.
      + intros [c' [Hin Hc']]. apply in_flat_map in Hin. destruct Hin as [c [Hc Hin]].
        unfold cstep_on in Hin. apply in_map_iff in Hin. destruct Hin as [[l c1] [E Hin]].
        cbn [snd] in E. subst c1. apply filter_In in Hin. destruct Hin as [Hin Hl]. cbn [fst] in Hl.
        exists c. split; [assumption |]. econstructor; eassumption.
      + intros [c [Hin Hc]]. inversion Hc as [| c0 l c' a0 w0 Hs Hl Hc']; subst.
        exists c'. split; [| assumption]. apply in_flat_map. exists c. split; [assumption |].
        unfold cstep_on. apply in_map_iff. exists (l, c'). split; [reflexivity |].
        apply filter_In. split; assumption.
  Qed.

  Lemma start_moves_lit q a r q' :
    In (TLit (String a r), q') (next q) -> In (Some a, CTok r q') (start_moves Q next q).
  Proof.
    intro H. unfold start_moves. apply in_flat_map. exists (TLit (String a r), q').
    split; [assumption | left; reflexivity].
  Qed.

  Lemma start_moves_wild q q' :
    In (TWild, q') (next q) -> In (None, CWild q') (start_moves Q next q).
  Proof.
    intro H. unfold start_moves. apply in_flat_map. exists (TWild, q').
    split; [assumption | left; reflexivity].
  Qed.

  Lemma cacc_tok_rest q w : cacc (CTok EmptyString q) w -> forall r, cacc (CTok r q) (append r w).
  Proof.
    intros H r. induction r as [| b r IH]; [assumption |].
    cbn [append]. apply cacc_cons with (l := Some b) (c' := CTok r q).
    - left; reflexivity.
    - cbn. apply Ascii.eqb_refl.
    - assumption.
  Qed.

  Lemma cacc_wild_start q w : cacc (CTok EmptyString q) w -> cacc (CWild q) w.
  Proof.
    intro H. inversion H as [c Hf | c l c' a w0 Hs Hl Hc']; subst.
    - constructor. assumption.
    - apply cacc_cons with (l := l) (c' := c'); [right; assumption | assumption | assumption].
  Qed.

  Lemma cacc_wild_rest q w : cacc (CTok EmptyString q) w -> forall u, cacc (CWild q) (append u w).
  Proof.
    intros H u. induction u as [| b u IH]; [apply cacc_wild_start; assumption |].
    cbn [append]. apply cacc_cons with (l := None) (c' := CWild q);
      [left; reflexivity | reflexivity | assumption].
  Qed.

  Theorem tacc_cacc q w : tacc q w -> cacc (CTok EmptyString q) w.
  Proof.
    induction 1 as [q Hf | q t q' w Hin Ht _ IH | q q' u w Hin Hu _ IH].
    - constructor. assumption.
    - destruct t as [| a r]; [contradiction |]. cbn [append].
      apply cacc_cons with (l := Some a) (c' := CTok r q').
      + apply start_moves_lit. assumption.
      + cbn. apply Ascii.eqb_refl.
      + apply cacc_tok_rest. assumption.
    - destruct u as [| a u]; [contradiction |]. cbn [append].
      apply cacc_cons with (l := None) (c' := CWild q').
      + apply start_moves_wild. assumption.
      + reflexivity.
      + apply cacc_wild_rest. assumption.
  Qed.

  Lemma start_moves_inv q l c :
    In (l, c) (start_moves Q next q) ->
    (exists a r q', l = Some a /\ c = CTok r q' /\ In (TLit (String a r), q') (next q))
    \/ (exists q', l = None /\ c = CWild q' /\ In (TWild, q') (next q)).
  Proof.
    unfold start_moves. intro H. apply in_flat_map in H. destruct H as [[t q'] [Hin H]].
    cbn [fst snd] in H. destruct t as [[| a r] |].
    - destruct H.
    - destruct H as [E | []]. inversion E; subst. left. exists a, r, q'. repeat split; assumption.
    - destruct H as [E | []]. inversion E; subst. right. exists q'. repeat split; assumption.
  Qed.

  (** What a configuration accepts, in terms of the token-level language. *)
  Definition cfg_lang (c : cfg) (w : string) : Prop :=
    match c with
    | CTok r q => exists w', w = append r w' /\ tacc q w'
    | CWild q => exists u w', w = append u w' /\ tacc q w'
    end.

  Lemma append_nil_l (s : string) : append EmptyString s = s.
  Proof. reflexivity. Qed.

  Lemma from_start_moves q l c a w :
    In (l, c) (start_moves Q next q) -> lab_ok l a = true -> cfg_lang c w ->
    exists t w', String a w = append t w' /\ t <> EmptyString /\ tacc q (append t w').
  Proof.
    intros Hin Hl Hc. apply start_moves_inv in Hin.
    destruct Hin as [[b [r [q' [-> [-> Hin]]]]] | [q' [-> [-> Hin]]]].
    - cbn in Hl. apply Ascii.eqb_eq in Hl. subst b.
      destruct Hc as [w' [-> Hw']].
      exists (String a r), w'. split; [reflexivity | split; [discriminate |]].
      apply tacc_lit with (q' := q'); [assumption | discriminate | assumption].
    - destruct Hc as [u [w' [-> Hw']]].
      exists (String a u), w'. split; [reflexivity | split; [discriminate |]].
      apply tacc_wild with (q' := q'); [assumption | discriminate | assumption].
  Qed.

  Lemma cacc_lang c w : cacc c w -> cfg_lang c w.
  Proof.
    induction 1 as [c Hf | c l c' a w Hs Hl Hc' IH].
    - destruct c as [[| b r] q | q]; cbn [cfinal] in Hf; try discriminate; cbn [cfg_lang].
      + exists EmptyString. split; [reflexivity | constructor; assumption].
      + exists EmptyString, EmptyString. split; [reflexivity | constructor; assumption].
    - destruct c as [[| b r] q | q]; cbn [TokAut.cstep] in Hs; cbn [cfg_lang].
      + destruct (from_start_moves _ _ _ _ _ Hs Hl IH) as [t [w' [E [Ht Hacc]]]].
        exists (String a w). split; [reflexivity |]. rewrite E. assumption.
      + destruct Hs as [E | []]. inversion E; subst. cbn in Hl. apply Ascii.eqb_eq in Hl. subst b.
        destruct IH as [w' [-> Hw']]. exists w'. split; [reflexivity | assumption].
      + destruct Hs as [E | Hs].
        * inversion E; subst. destruct IH as [u [w' [-> Hw']]].
          exists (String a u), w'. split; [reflexivity | assumption].
        * destruct (from_start_moves _ _ _ _ _ Hs Hl IH) as [t [w' [E [Ht Hacc]]]].
          exists EmptyString, (String a w). split; [reflexivity |]. rewrite E. assumption.
  Qed.

  Theorem cacc_tacc q w : cacc (CTok EmptyString q) w -> tacc q w.
  Proof.
    intro H. apply cacc_lang in H. destruct H as [w' [-> Hw']]. assumption.
  Qed.

  Theorem taccepts_spec q w : taccepts Q next final q w = true <-> tacc q w.
  Proof.
    unfold taccepts. rewrite accepts_from_spec. split.
    - intros [c [[<- | []] Hc]]. apply cacc_tacc. assumption.
    - intro H. exists (CTok EmptyString q). split; [left; reflexivity | apply tacc_cacc; assumption].
  Qed.
End AutFacts.

Section ProductFacts.
  Variables Q1 Q2 : Type.
  Variable next1 : Q1 -> list (tok * Q1).
  Variable next2 : Q2 -> list (tok * Q2).
  Variable final1 : Q1 -> bool.
  Variable final2 : Q2 -> bool.
  Variable eq1 : Q1 -> Q1 -> bool.
  Variable eq2 : Q2 -> Q2 -> bool.
  Hypothesis eq1_sound : forall a b, eq1 a b = true -> a = b.
  Hypothesis eq2_sound : forall a b, eq2 a b = true -> a = b.

  Notation ppair := (ppair Q1 Q2).
  Notation pmem := (pmem Q1 Q2 eq1 eq2).
  Notation psucc := (psucc Q1 Q2 next1 next2).
  Notation pfinal := (pfinal Q1 Q2 final1 final2).

  Lemma cfg_eqb_sound1 c d : cfg_eqb Q1 eq1 c d = true -> c = d.
  Proof.
    destruct c, d; cbn [cfg_eqb]; intro H; try discriminate.
    - apply andb_true_iff in H. destruct H as [Hr Hq]. apply String.eqb_eq in Hr. apply eq1_sound in Hq. subst; reflexivity.
    - apply eq1_sound in H. subst; reflexivity.
  Qed.

  Lemma cfg_eqb_sound2 c d : cfg_eqb Q2 eq2 c d = true -> c = d.
  Proof.
    destruct c, d; cbn [cfg_eqb]; intro H; try discriminate.
    - apply andb_true_iff in H. destruct H as [Hr Hq]. apply String.eqb_eq in Hr. apply eq2_sound in Hq. subst; reflexivity.
    - apply eq2_sound in H. subst; reflexivity.
  Qed.

  Lemma pmem_In (p : ppair) l : pmem p l = true -> In p l.
  Proof.
    unfold TokAut.pmem. intro H. apply existsb_exists in H. destruct H as [x [Hin Hx]].
    unfold ppair_eqb in Hx. apply andb_true_iff in Hx. destruct Hx as [H1 H2].
    apply cfg_eqb_sound1 in H1. apply cfg_eqb_sound2 in H2.
    destruct p, x. cbn [fst snd] in *. subst. assumption.
  Qed.

  Lemma joint_ok l1 l2 a : lab_ok l1 a = true -> lab_ok l2 a = true ->
                           exists l, joint l1 l2 = Some l.
  Proof.
    destruct l1 as [b |], l2 as [c |]; cbn; intros H1 H2; eauto.
    apply Ascii.eqb_eq in H1. apply Ascii.eqb_eq in H2. subst.
    rewrite Ascii.eqb_refl. eauto.
  Qed.

  Lemma psucc_In (p : ppair) l1 c1 l2 c2 l :
    In (l1, c1) (cstep Q1 next1 (fst p)) -> In (l2, c2) (cstep Q2 next2 (snd p)) ->
    joint l1 l2 = Some l -> In (l, (c1, c2)) (psucc p).
  Proof.
    intros H1 H2 J. unfold TokAut.psucc. apply in_flat_map. exists (l1, c1). split; [assumption |].
    apply in_flat_map. exists (l2, c2). split; [assumption |]. cbn [fst snd]. rewrite J. left; reflexivity.
  Qed.

  (** A checked closed set of pairs that contains no accepting pair separates the languages. *)
  Lemma closed_sound r p0 :
    closed_ok Q1 Q2 next1 next2 final1 final2 eq1 eq2 r p0 = true ->
    forall w (p : ppair), In p r ->
                          cacc Q1 next1 final1 (fst p) w -> cacc Q2 next2 final2 (snd p) w -> False.
  Proof.
    unfold closed_ok. intro H. apply andb_true_iff in H. destruct H as [_ H].
    rewrite forallb_forall in H.
    induction w as [| a w IH]; intros p Hp H1 H2.
    - specialize (H p Hp). apply andb_true_iff in H. destruct H as [Hf _].
      inversion H1 as [c1 Hf1 |]; subst. inversion H2 as [c2 Hf2 |]; subst.
      unfold TokAut.pfinal in Hf. rewrite Hf1, Hf2 in Hf. discriminate.
    - specialize (H p Hp). apply andb_true_iff in H. destruct H as [_ Hs].
      rewrite forallb_forall in Hs.
      inversion H1 as [| c l1 c1 a1 w1 Hs1 Hl1 Hc1]; subst.
      inversion H2 as [| c l2 c2 a2 w2 Hs2 Hl2 Hc2]; subst.
      destruct (joint_ok _ _ _ Hl1 Hl2) as [l J].
      pose proof (psucc_In p _ _ _ _ _ Hs1 Hs2 J) as Hin.
      specialize (Hs _ Hin). cbn [snd] in Hs. apply pmem_In in Hs.
      apply (IH (c1, c2) Hs); assumption.
  Qed.

  Theorem disjoint_sound q1 q2 :
    disjoint Q1 Q2 next1 next2 final1 final2 eq1 eq2 q1 q2 = true ->
    forall w, ~ (TokAut.tacc Q1 next1 final1 q1 w /\ TokAut.tacc Q2 next2 final2 q2 w).
  Proof.
    unfold disjoint. destruct (search _ _ _ _ _ _ _ _ _ _ _) as [w0 | r |]; try discriminate.
    intros H w [H1 H2].
    assert (Hin : In (start_pair Q1 Q2 q1 q2) r).
    { unfold closed_ok in H. apply andb_true_iff in H. destruct H as [H _]. apply pmem_In. assumption. }
    apply (closed_sound r _ H w _ Hin); cbn [start_pair fst snd]; apply tacc_cacc; assumption.
  Qed.

  Theorem common_word_sound q1 q2 w :
    common_word Q1 Q2 next1 next2 final1 final2 eq1 eq2 q1 q2 = Some w ->
    TokAut.tacc Q1 next1 final1 q1 w /\ TokAut.tacc Q2 next2 final2 q2 w.
  Proof.
    unfold common_word. destruct (search _ _ _ _ _ _ _ _ _ _ _) as [w0 | r |]; try discriminate.
    destruct (taccepts Q1 next1 final1 q1 w0 && taccepts Q2 next2 final2 q2 w0) eqn:E; [| discriminate].
    intro H. inversion H; subst. apply andb_true_iff in E. destruct E as [E1 E2].
    split; apply taccepts_spec; assumption.
  Qed.
End ProductFacts.
