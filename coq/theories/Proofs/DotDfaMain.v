(** C16: the main theorems for the --dfa file.  The graph read from what the model of [DFA::to_dot]
    writes is, up to the order of nodes and edges, the graph the specification prescribes: for the
    patched printer on every well-formed automaton, for the old printer outside the known classes. *)
From Coq Require Import Permutation.
From CG Require Import Base.Prelude Model.Dfa Spec.DotRead Spec.DotSpec Model.Dot
     Proofs.DotLex Proofs.DotParse Proofs.DotSem Proofs.DotNames Proofs.DotStates Proofs.DotDfaItems
     Proofs.DotDfaSem Proofs.DotDfa.
Local Open Scope string_scope.

(** ** The explicit graph is the prescribed one, up to order *)
Lemma node_view_x base p d s :
  prefix_ok p ->
  node_view (x_node base p d s) = (state_name p base s, Some (shape_of d s), Some (p ++ decimal (s + base))).
Proof.
  intro Hp. unfold node_view, x_node, rendered. cbn [gn_id gn_attrs assoc].
  change (String.eqb "shape" "shape") with true. change (String.eqb "label" "shape") with false.
  change (String.eqb "label" "label") with true. cbn [option_map].
  rewrite (render_plain _ (plain_no_bs _ (label_plain p (s + base) Hp))). reflexivity.
Qed.

Lemma nodes_perm base p d :
  prefix_ok p -> NoDup (d_accepting d) ->
  Permutation (map node_view (map (x_node base p d) (st_list d))) (state_nodes p base d).
Proof.
  intros Hp Ha. rewrite map_map. unfold state_nodes.
  rewrite (map_ext _ _ (fun s => node_view_x base p d s Hp)).
  apply Permutation_map. now apply st_list_perm.
Qed.

Lemma map_flat_map {A B C} (f : B -> C) (g : A -> list B) l :
  map f (flat_map g l) = flat_map (fun x => map f (g x)) l.
Proof. induction l as [|x r IH]; [reflexivity|]. cbn. now rewrite map_app, IH. Qed.

Lemma edge_view_label a b text :
  edge_view (edge_of (conv (a, b, "label", escape_dot text))) = (a, b, Some text, None).
Proof.
  unfold conv, edge_of, edge_view, rendered. cbn [fst snd set_attrs fold_left set_attr ge_src ge_dst ge_attrs assoc].
  unfold qdec. rewrite qdecode_escape_dot.
  change (String.eqb "label" "label") with true. change (String.eqb "style" "label") with false.
  cbn [option_map]. now rewrite render_double_bs.
Qed.

Lemma edge_view_dashed a b :
  edge_view (edge_of (conv (a, b, "style", "dashed"))) = (a, b, None, dashed).
Proof. reflexivity. Qed.

Lemma edges_eq base subs ids' d p :
  map edge_view (map edge_of (x_edge_list base subs ids' d p)) = dfa_edges base subs ids' p d.
Proof.
  unfold x_edge_list, dfa_edges. change (transitions d) with (iter_transitions d).
  rewrite !map_flat_map. apply flat_map_ext. intros [[from i] to].
  unfold x_edges, transition_edges. cbn [fst snd].
  destruct (nthN (d_inputs d) i) as [x|]; [|reflexivity].
  destruct x as [t' dd l|k l|cm l|cm l|].
  2:{ destruct (nthN subs k) as [sd|]; [|reflexivity]. destruct (assocN k ids') as [id|]; [|reflexivity].
      cbn [map]. rewrite edge_view_dashed. f_equal. rewrite !map_map. apply map_ext. intro a.
      now rewrite edge_view_dashed. }
  all: try destruct dd; cbn [display map]; now rewrite edge_view_label.
Qed.

Lemma Forall2_map_same {A B C} (R : B -> C -> Prop) (f : A -> B) (g : A -> C) l :
  (forall x, In x l -> R (f x) (g x)) -> Forall2 R (map f l) (map g l).
Proof.
  induction l as [|x r IH]; intro H; cbn; constructor.
  - apply H. now left.
  - apply IH. intros y Hy. apply H. now right.
Qed.

Lemma x_graph_equiv base c :
  wf_cdfa c = true -> gview_equiv (view (x_graph base c)) (graph_of_dfa base c).
Proof.
  intro Hwf. pose proof Hwf as Hwf'. unfold wf_cdfa in Hwf'. apply andb_true_iff in Hwf' as [Hm _].
  pose proof (wf_dfa_acc _ Hm) as Hacc.
  unfold gview_equiv, view, x_graph, graph_of_dfa.
  cbn [g_directed g_name g_nodes g_edges g_subs gv_directed gv_name gv_nodes gv_edges gv_clusters].
  fold (used base c).
  split; [reflexivity|]. split; [reflexivity|]. split; [|split].
  - (* nodes *)
    rewrite map_app. apply Permutation_app.
    + apply (nodes_perm base "" (c_main c)); [constructor|exact Hacc].
    + rewrite map_flat_map. assert (Hq : forall q, In q (used base c) -> NoDup (d_accepting (snd q))).
      { intros q Hq. apply wf_dfa_acc. exact (proj1 (used_wf base c q Hwf Hq)). }
      induction (used base c) as [|q r IH]; [constructor|]. cbn [flat_map]. apply Permutation_app.
      * apply (nodes_perm base (sub_pre (fst q)) (snd q)); [constructor|apply Hq; now left].
      * apply IH. intros q' Hq'. apply Hq. now right.
  - (* edges: same order *)
    rewrite map_app, edges_eq, map_flat_map.
    assert (E : flat_map (fun x => map edge_view (sub_edges base x)) (used base c)
                = flat_map (fun p : N * dfa => dfa_edges base [] [] (sub_prefix (fst p)) (snd p)) (used base c)).
    { apply flat_map_ext. intro q. unfold sub_edges. apply edges_eq. }
    rewrite E. apply Permutation_refl.
  - (* clusters *)
    rewrite map_map. apply Forall2_map_same. intros q Hq. unfold sub_cluster, cluster_view, cview_equiv, rendered.
    cbn [assoc]. change (String.eqb "label" "label") with true. cbn [option_map List.length].
    assert (Hpl : all_chars plain_char ("subword " ++ dec (fst q)) = true).
    { rewrite all_chars_app. exact (all_chars_impl _ _ _ digit_plain (dec_digits _)). }
    rewrite (render_plain _ (plain_no_bs _ Hpl)).
    split; [reflexivity|]. split; [reflexivity|]. split; [|reflexivity].
    unfold sub_names, names. apply Permutation_map. apply st_list_perm.
    apply wf_dfa_acc. exact (proj1 (used_wf base c q Hwf Hq)).
Qed.

(** ** The patched printer: no exception *)
Theorem dfa_dot_patched base c :
  wf_cdfa c = true ->
  exists text g, of_dfa_with patched base c = Ok text /\ read text = Some g
                 /\ gview_equiv (view g) (graph_of_dfa base c).
Proof.
  intro Hwf. exists (render_doc "dfa" (x_items base c)), (x_graph base c). split; [|split].
  - unfold of_dfa_with. now rewrite (dfa_items_ok base c Hwf).
  - rewrite (read_render_doc "dfa" (x_items base c)); [|split; reflexivity|apply x_items_ok].
    now rewrite (graph_of_x_items base c Hwf).
  - now apply x_graph_equiv.
Qed.

(** ** The old printer agrees with the patched one outside the known classes *)
Lemma insert_sorted_present x l : Sorted.StronglySorted N.lt l -> In x l -> insert_sorted x l = l.
Proof.
  induction 1 as [|y r Hr IH Hy]; intro Hin; [destruct Hin|]. cbn.
  rewrite Forall_forall in Hy.
  destruct (x <? y)%N eqn:E1.
  - apply N.ltb_lt in E1. destruct Hin as [->|Hin]; [lia|]. specialize (Hy x Hin). lia.
  - destruct (x =? y)%N eqn:E2; [reflexivity|]. apply N.eqb_neq in E2.
    destruct Hin as [->|Hin]; [congruence|]. now rewrite IH.
Qed.

Lemma filter_insert_sorted (f : N -> bool) x l : f x = false -> filter f (insert_sorted x l) = filter f l.
Proof.
  intro Hx. induction l as [|y r IH]; cbn.
  - now rewrite Hx.
  - destruct (x <? y)%N; [cbn; now rewrite Hx|]. destruct (x =? y)%N; [reflexivity|]. cbn. now rewrite IH.
Qed.

Lemma node_lines_variant v base d p :
  phantom_zero d = false -> node_lines v base d p = node_lines patched base d p.
Proof.
  intro Hph. unfold node_lines.
  assert (E : filter (fun s => negb (memN s (d_accepting d)) && negb (s =? d_start d)%N) (get_all_states v d)
              = filter (fun s => negb (memN s (d_accepting d)) && negb (s =? d_start d)%N) (get_all_states patched d)).
  { unfold get_all_states. cbn [v_dead0 patched]. fold (bitmap (trans_states d)).
    destruct (v_dead0 v); [|reflexivity].
    unfold phantom_zero in Hph. apply negb_false_iff in Hph. apply memN_In in Hph.
    destruct (in_dec N.eq_dec 0%N (trans_states d)) as [Hin|Hn].
    - rewrite insert_sorted_present; [reflexivity|apply bitmap_sorted|now apply bitmap_in].
    - apply filter_insert_sorted. destruct Hph as [<-|Hph].
      + rewrite N.eqb_refl. cbn. apply andb_false_r.
      + apply in_app_or in Hph as [Hph|Hph]; [contradiction|]. apply memN_In in Hph. now rewrite Hph. }
  now rewrite E.
Qed.

Definition subacc_ok (base : N) (subs : list dfa) (d : dfa) : Prop :=
  base = 0%N \/ forall t k l sd, In t (iter_transitions d) ->
                                nthN (d_inputs d) (snd (fst t)) = Some (ISub k l) ->
                                nthN subs k = Some sd -> d_accepting sd = [].

(** the two ways a variant can agree with the fully patched one on the labels of [d] / on the dashed
    edges: by doing the same, or because the difference does not show on this automaton *)
Definition esc_agree (v : variant) (d : dfa) : Prop :=
  (forall s, v_escape v s = escape_dot s) \/ (v_escape v = escape_quotes /\ labels_need_escape d = false).
Definition sub_agree (v : variant) (base : N) (subs : list dfa) (d : dfa) : Prop :=
  v_subacc v = true \/ (v_subacc v = false /\ subacc_ok base subs d).

Lemma transition_lines_variant v base subs ids' d p t :
  In t (iter_transitions d) -> esc_agree v d -> sub_agree v base subs d ->
  transition_lines v base subs ids' d p t = transition_lines patched base subs ids' d p t.
Proof.
  intros Ht Hl Hs. destruct t as [[from i] to]. unfold transition_lines, get_input.
  destruct (nthN (d_inputs d) i) as [x|] eqn:Ex; [|reflexivity]. cbn [obind].
  assert (Hesc : forall y, (match y with ISub _ _ => False | _ => True end) -> y = x ->
                           match diagnostic_display_input y with
                           | Ok text => v_escape v text = v_escape patched text
                           | _ => True
                           end).
  { intros y Hy ->. destruct (diagnostic_display_input x) as [text| | |] eqn:Ed; try exact I.
    cbn [v_escape patched]. destruct Hl as [Hl|[Hv Hl]]; [apply Hl|]. rewrite Hv.
    apply escape_quotes_is_dot. unfold labels_need_escape in Hl.
    assert (Hf : forall (f : N * N * N -> bool) l0 y, existsb f l0 = false -> In y l0 -> f y = false).
    { intros f l0 y H Hin. destruct (f y) eqn:E; [|reflexivity].
      assert (existsb f l0 = true) by (apply existsb_exists; now exists y). congruence. }
    pose proof (Hf _ _ (from, i, to) Hl Ht) as H. cbn [fst snd] in H. rewrite Ex in H.
    unfold display_has_backslash in H. destruct x; try (now elim Hy); now rewrite Ed in H. }
  destruct x as [t' dd l|k l|cm l|cm l|].
  2:{ destruct (lookup_sub subs k) as [sd| | |] eqn:El; try reflexivity. cbn [obind].
      destruct (assocN k ids') as [id|]; [|reflexivity]. do 2 f_equal.
      cbn [v_subacc patched]. destruct Hs as [->|[-> Hs]]; [reflexivity|]. destruct Hs as [->|Hs].
      - apply map_ext. intro a. now rewrite !N.add_0_r.
      - unfold lookup_sub in El. destruct (nthN subs k) as [sd'|] eqn:En; [|discriminate]. injection El as ->.
        rewrite (Hs _ k l sd Ht); [reflexivity|cbn [fst snd]; exact Ex|exact En]. }
  all: match goal with |- context [diagnostic_display_input ?y] => specialize (Hesc y I eq_refl);
         destruct (diagnostic_display_input y) as [text| | |] end;
    try reflexivity; cbn [obind]; now rewrite Hesc.
Qed.

Lemma oconcat_ext {A} (f g : N * N * N -> outcome unit (list A)) l :
  (forall t, In t l -> f t = g t) -> oconcat (map f l) = oconcat (map g l).
Proof.
  induction l as [|t r IH]; intro H; [reflexivity|]. cbn [map oconcat].
  rewrite (H t (or_introl eq_refl)), IH; [reflexivity|]. intros t' Ht'. apply H. now right.
Qed.

Lemma omap_ext {A B} (f g : A -> outcome unit B) l :
  (forall x, In x l -> f x = g x) -> omap f l = omap g l.
Proof.
  induction l as [|x r IH]; intro H; [reflexivity|]. cbn [omap].
  rewrite (H x (or_introl eq_refl)), IH; [reflexivity|]. intros y Hy. apply H. now right.
Qed.

Lemma do_to_dot_variant v base subs d p n1 n2 :
  inputs_in_range d = true ->
  esc_agree v d -> phantom_zero d = false -> sub_agree v base subs d ->
  (forall k id sd, In (k, id) (sub_ids base d) -> nthN subs k = Some sd ->
                   n1 sd (dec id ++ "_") = n2 sd (dec id ++ "_")) ->
  do_to_dot v base subs d p n1 = do_to_dot patched base subs d p n2.
Proof.
  intros Hr Hl Hph Hs Hn. unfold do_to_dot. rewrite (get_subwords_spec d base Hr). cbn [obind].
  rewrite (node_lines_variant v base d p Hph).
  rewrite (omap_ext _ (fun p0 : N * N =>
                         do sd <- lookup_sub subs (fst p0);
                         do inner <- n2 sd (dec (snd p0) ++ "_");
                         Ok (cluster_block p (snd p0) inner))).
  2:{ intros [k id] Hin. cbn [fst snd]. unfold lookup_sub. destruct (nthN subs k) as [sd|] eqn:E; [|reflexivity].
      cbn [obind]. now rewrite (Hn k id sd Hin E). }
  rewrite (oconcat_ext _ (transition_lines patched base subs (sub_ids base d) d p)); [reflexivity|].
  intros t Ht. now apply transition_lines_variant.
Qed.

Lemma existsb_false_in {A} (f : A -> bool) l x : existsb f l = false -> In x l -> f x = false.
Proof.
  intros H Hin. destruct (f x) eqn:E; [|reflexivity].
  assert (existsb f l = true) by (apply existsb_exists; now exists x). congruence.
Qed.

Lemma existsb_false_forall {A} (f : A -> bool) l : (forall x, In x l -> f x = false) -> existsb f l = false.
Proof.
  induction l as [|x r IH]; intro H; [reflexivity|]. cbn. rewrite (H x (or_introl eq_refl)). cbn.
  apply IH. intros y Hy. apply H. now right.
Qed.

Lemma used_subs_in c t k l sd :
  In t (iter_transitions (c_main c)) -> nthN (d_inputs (c_main c)) (snd (fst t)) = Some (ISub k l) ->
  nthN (c_subs c) k = Some sd -> In sd (used_subs c).
Proof.
  intros Ht E Es. unfold used_subs. apply in_flat_map. exists t. split; [exact Ht|]. rewrite E, Es. now left.
Qed.

(** a variant agrees with the fully patched one on [c] *)
Definition variant_agrees (v : variant) (base : N) (c : cdfa) : Prop :=
  known_phantom c = false
  /\ ((forall s, v_escape v s = escape_dot s) \/ (v_escape v = escape_quotes /\ known_labels c = false))
  /\ (v_subacc v = true \/ (v_subacc v = false /\ known_subacc base c = false)).

Theorem dfa_dot_variant_agree v base c :
  wf_cdfa c = true -> variant_agrees v base c ->
  of_dfa_with v base c = of_dfa_with patched base c.
Proof.
  intros Hwf [Hph [Hesc Hsub]].
  unfold known_phantom in Hph. apply orb_false_iff in Hph as [Hpm Hps].
  pose proof Hwf as Hwf'. unfold wf_cdfa, wf_dfa in Hwf'. apply andb_true_iff in Hwf' as [Hm _].
  apply andb_true_iff in Hm as [Hr _].
  assert (Hesc_main : esc_agree v (c_main c)).
  { destruct Hesc as [H|[Hv H]]; [now left|right]. split; [exact Hv|]. unfold known_labels in H.
    now apply orb_false_iff in H as [H _]. }
  assert (Hesc_sub : forall sd, In sd (used_subs c) -> esc_agree v sd).
  { intros sd Hu. destruct Hesc as [H|[Hv H]]; [now left|right]. split; [exact Hv|]. unfold known_labels in H.
    apply orb_false_iff in H as [_ H]. exact (existsb_false_in _ _ sd H Hu). }
  unfold of_dfa_with, dfa_items. f_equal.
  rewrite (do_to_dot_variant v base (c_subs c) (c_main c) ""
             (fun sd p => do_to_dot v base [] sd p
                            (fun _ _ => Panic "within-word automaton inside a within-word automaton"))
             (fun sd p => do_to_dot patched base [] sd p
                            (fun _ _ => Panic "within-word automaton inside a within-word automaton")));
    [reflexivity|exact Hr|exact Hesc_main|exact Hpm| |].
  - (* dashed edges out of clusters *)
    destruct Hsub as [H|[Hv Hsa]]; [now left|right]. split; [exact Hv|].
    unfold known_subacc in Hsa. apply andb_false_iff in Hsa as [Hb|Hacc].
    + left. apply negb_false_iff in Hb. now apply N.eqb_eq in Hb.
    + right. intros t k l sd Ht E Es. pose proof (existsb_false_in _ _ sd Hacc (used_subs_in c t k l sd Ht E Es)) as H.
      cbn in H. destruct (d_accepting sd); [reflexivity|discriminate H].
  - (* the within-word automata *)
    intros k id sd Hin Es. destruct (sub_ids_used c base k id Hin) as [t [l [Ht E]]].
    pose proof (used_subs_in c t k l sd Ht E Es) as Hu.
    destruct (wf_used c t k l Hwf Ht E) as [sd' [Es' [Hw Hns]]]. rewrite Es in Es'. injection Es' as <-.
    unfold wf_dfa in Hw. apply andb_true_iff in Hw as [Hrs _].
    apply do_to_dot_variant.
    + exact Hrs.
    + exact (Hesc_sub sd Hu).
    + exact (existsb_false_in _ _ sd Hps Hu).
    + assert (Hnone : forall t' k' l' sd', In t' (iter_transitions sd) ->
                        nthN (d_inputs sd) (snd (fst t')) = Some (ISub k' l') -> nthN [] k' = Some sd' -> d_accepting sd' = []).
      { intros t' k' l' sd' Ht' E'. exfalso.
        unfold no_sub_trans in Hns. rewrite forallb_forall in Hns. specialize (Hns t' Ht'). now rewrite E' in Hns. }
      destruct (v_subacc v) eqn:Ev; [left; exact Ev|right]. split; [exact Ev|]. right. exact Hnone.
    + intros k' id' sd' Hin'. exfalso. unfold sub_ids, sub_order in Hin'.
      change (transitions sd) with (iter_transitions sd) in Hin'. fold (uses sd (iter_transitions sd)) in Hin'.
      rewrite (uses_nil sd Hns) in Hin'. exact Hin'.
Qed.

(** the code before commit 0e66d33, outside its three classes *)
Theorem dfa_dot_old_agree base c :
  wf_cdfa c = true -> known_C16_old base c = false ->
  of_dfa_with old base c = of_dfa_with patched base c.
Proof.
  intros Hwf Hk. unfold known_C16_old in Hk. apply orb_false_iff in Hk as [Hk Hph]. apply orb_false_iff in Hk as [Hl Hsa].
  apply dfa_dot_variant_agree; [exact Hwf|]. split; [exact Hph|]. split; [right; now split|right; now split].
Qed.

(** the code as it is now, when state 0 is a state *)
Theorem dfa_dot_current_agree base c :
  wf_cdfa c = true -> known_phantom c = false ->
  of_dfa base c = of_dfa_with patched base c.
Proof.
  intros Hwf Hph. apply dfa_dot_variant_agree; [exact Hwf|]. split; [exact Hph|]. split; [now left|now left].
Qed.

Lemma starts_at_zero_no_phantom c : starts_at_zero c = true -> known_phantom c = false.
Proof.
  unfold starts_at_zero, known_phantom, phantom_zero. intro H. apply andb_true_iff in H as [H1 H2].
  apply N.eqb_eq in H1. apply orb_false_iff. split.
  - rewrite H1. cbn [memN existsb]. reflexivity.
  - apply existsb_false_forall. intros sd Hsd. rewrite forallb_forall in H2. specialize (H2 sd Hsd).
    apply N.eqb_eq in H2. rewrite H2. reflexivity.
Qed.

Theorem dfa_dot_current base c :
  wf_cdfa c = true -> known_phantom c = false ->
  exists text g, of_dfa base c = Ok text /\ read text = Some g
                 /\ gview_equiv (view g) (graph_of_dfa base c).
Proof. intros Hwf Hk. rewrite (dfa_dot_current_agree base c Hwf Hk). now apply dfa_dot_patched. Qed.

Theorem dfa_dot_current_min base c :
  wf_cdfa c = true -> starts_at_zero c = true ->
  exists text g, of_dfa base c = Ok text /\ read text = Some g
                 /\ gview_equiv (view g) (graph_of_dfa base c).
Proof. intros Hwf Hz. apply dfa_dot_current; [exact Hwf|now apply starts_at_zero_no_phantom]. Qed.

Theorem dfa_dot_old base c :
  wf_cdfa c = true -> known_C16_old base c = false ->
  exists text g, of_dfa_with old base c = Ok text /\ read text = Some g
                 /\ gview_equiv (view g) (graph_of_dfa base c).
Proof. intros Hwf Hk. rewrite (dfa_dot_old_agree base c Hwf Hk). now apply dfa_dot_patched. Qed.
