(** Facts about Model/Glob.v used by the BashSem proofs:
    - a pattern without glob characters matches exactly itself; followed by "*" it is a prefix test;
    - printf %q of printable text, followed by "*", is an exact prefix test ([[ $line = ${prefix}* ]]). *)
From CG Require Import Base.Prelude Model.Glob.

(** Characters that are ordinary in a pattern wherever they stand. *)
Definition plain_char (c : ascii) : bool :=
  negb (aeq c c_bslash || aeq c c_quest || aeq c c_star || aeq c c_lbrack || aeq c c_lparen).

Fixpoint plain (s : string) : bool :=
  match s with
  | EmptyString => true
  | String c r => plain_char c && plain r
  end.

Fixpoint chars (s : string) : list gtok :=
  match s with
  | EmptyString => []
  | String c r => TChar c :: chars r
  end.

Lemma aeq_refl c : aeq c c = true.
Proof. unfold aeq. apply Ascii.eqb_refl. Qed.

Lemma aeq_eq a b : aeq a b = true <-> a = b.
Proof. unfold aeq. apply Ascii.eqb_eq. Qed.

Lemma plain_app a b : plain (a ++ b) = plain a && plain b.
Proof.
  induction a as [|c a IH]; cbn [append plain]; [reflexivity|].
  rewrite IH. now rewrite andb_assoc.
Qed.

Lemma next_is_lparen_plain r : plain r = true -> next_is_lparen r = false.
Proof.
  destruct r as [|d r]; cbn; [reflexivity|].
  unfold plain_char. intros H. apply andb_true_iff in H as [H _].
  apply negb_true_iff in H. repeat (apply orb_false_iff in H as [H ?]). assumption.
Qed.

Lemma length_append a b : String.length (a ++ b) = (String.length a + String.length b)%nat.
Proof. induction a; cbn; [reflexivity|]. now rewrite IHa. Qed.

(** parsing a plain string followed by an arbitrary parsable tail *)
Lemma parse_plain_then ext s : forall fuel tail ts,
    plain s = true ->
    next_is_lparen tail = false ->
    parse fuel ext tail = Some ts ->
    parse (String.length s + fuel) ext (s ++ tail) = Some (chars s ++ ts).
Proof.
  induction s as [|c s IH]; intros fuel tail ts Hp Hl Ht.
  - exact Ht.
  - cbn [plain] in Hp. apply andb_true_iff in Hp as [Hc Hs].
    cbn [String.length Nat.add append parse chars List.app].
    unfold plain_char in Hc. apply negb_true_iff in Hc.
    repeat (apply orb_false_iff in Hc as [Hc ?]).
    assert (Hnl : next_is_lparen (s ++ tail) = false).
    { destruct s as [|d s]; [exact Hl|]. cbn. cbn [plain] in Hs.
      apply andb_true_iff in Hs as [Hd _]. unfold plain_char in Hd.
      apply negb_true_iff in Hd. repeat (apply orb_false_iff in Hd as [Hd ?]). assumption. }
    rewrite Hnl. rewrite andb_false_r.
    rewrite Hc. rewrite H2. rewrite H1. rewrite H0.
    rewrite (IH fuel tail ts Hs Hl Ht). reflexivity.
Qed.

Lemma parse_empty fuel ext : parse (S fuel) ext EmptyString = Some [].
Proof. reflexivity. Qed.

Lemma parse_star fuel ext : parse (S (S fuel)) ext "*" = Some [TStar].
Proof.
  cbn. rewrite andb_false_r. reflexivity.
Qed.

Lemma parse_plain ext s :
  plain s = true -> parse (S (String.length s)) ext s = Some (chars s).
Proof.
  intros H.
  pose proof (parse_plain_then ext s 1 EmptyString [] H eq_refl (parse_empty 0 ext)) as P.
  replace (s ++ "")%string with s in P.
  - rewrite app_nil_r in P. rewrite Nat.add_comm in P. exact P.
  - clear. induction s; cbn; [reflexivity|]. now rewrite <- IHs.
Qed.

Lemma parse_plain_star ext s :
  plain s = true ->
  parse (S (String.length (s ++ "*"))) ext (s ++ "*") = Some (chars s ++ [TStar]).
Proof.
  intros H.
  pose proof (parse_plain_then ext s 2 "*" [TStar] H eq_refl (parse_star 0 ext)) as P.
  rewrite length_append. cbn [String.length].
  replace (S (String.length s + 1)) with (String.length s + 2)%nat by lia. exact P.
Qed.

(** matching a sequence of literal characters *)
Lemma gmatch_chars p : forall s, gmatch (chars p) s = String.eqb p s.
Proof.
  induction p as [|c p IH]; intros s; destruct s as [|d s]; cbn [chars gmatch String.eqb]; try reflexivity.
  rewrite IH. unfold aeq. reflexivity.
Qed.

Lemma gmatch_star_nil : forall s, gmatch [TStar] s = true.
Proof.
  induction s as [|a s IH]; [reflexivity|]. cbn in *. exact IH.
Qed.

Lemma gmatch_chars_star p : forall s, gmatch (chars p ++ [TStar]) s = String.prefix p s.
Proof.
  induction p as [|c p IH]; intros s.
  - cbn [chars List.app]. rewrite gmatch_star_nil. destruct s; reflexivity.
  - destruct s as [|d s]; cbn [chars List.app gmatch String.prefix]; [reflexivity|].
    rewrite IH. unfold aeq.
    destruct (Ascii.eqb c d) eqn:E.
    + apply Ascii.eqb_eq in E. subst d. destruct (ascii_dec c c); [reflexivity|congruence].
    + apply Ascii.eqb_neq in E. destruct (ascii_dec c d); [congruence|reflexivity].
Qed.

(** *** the two shapes the script uses, on plain text *)
Theorem glob_plain_exact ext lit s :
  plain lit = true -> glob_match ext lit s = Some (String.eqb lit s).
Proof.
  intros H. unfold glob_match. rewrite (parse_plain ext lit H). now rewrite gmatch_chars.
Qed.

Theorem glob_plain_prefix ext p s :
  plain p = true -> glob_match ext (p ++ "*") s = Some (String.prefix p s).
Proof.
  intros H. unfold glob_match. rewrite (parse_plain_star ext p H). now rewrite gmatch_chars_star.
Qed.

(** *** printf %q *)
Lemma contains_q_special_cases c :
  contains_char c q_special = false ->
  aeq c c_bslash = false /\ aeq c c_quest = false /\ aeq c c_star = false /\ aeq c c_lbrack = false
  /\ aeq c c_lparen = false.
Proof.
  intros H.
  assert (forall d, contains_char d q_special = true -> aeq c d = false) as K.
  { intros d Hd. destruct (aeq c d) eqn:E; [|reflexivity].
    apply aeq_eq in E. subst d. congruence. }
  repeat split; apply K; reflexivity.
Qed.

Lemma is_ext_opener_special c :
  contains_char c q_special = false -> aeq c c_quest = false /\ aeq c c_star = false /\ aeq c c_bang = false.
Proof.
  intros H.
  assert (forall d, contains_char d q_special = true -> aeq c d = false) as K.
  { intros d Hd. destruct (aeq c d) eqn:E; [|reflexivity].
    apply aeq_eq in E. subst d. congruence. }
  repeat split; apply K; reflexivity.
Qed.

(** the text printf %q produces never continues with an unescaped "(" *)
Lemma q_chars_head_not_lparen s prev tail :
  next_is_lparen tail = false -> next_is_lparen (q_chars prev s ++ tail) = false.
Proof.
  intros Ht. destruct s as [|c s]; [exact Ht|].
  cbn [q_chars].
  match goal with |- context [if ?b then _ else _] => destruct b eqn:E end.
  - reflexivity.
  - cbn. apply orb_false_iff in E as [E _]. apply orb_false_iff in E as [E _].
    apply contains_q_special_cases in E. tauto.
Qed.

(** more fuel never hurts *)
Lemma option_map_mono {A B} (f : A -> B) (x y : option A) r :
  (forall a, x = Some a -> y = Some a) -> option_map f x = Some r -> option_map f y = Some r.
Proof.
  intros H. destruct x as [a|]; cbn; [|discriminate]. intros E. rewrite (H a eq_refl). exact E.
Qed.

Lemma parse_mono ext : forall f s ts, parse f ext s = Some ts -> forall f', (f <= f')%nat -> parse f' ext s = Some ts.
Proof.
  induction f as [|f IH]; intros s ts H f' Hle; [discriminate|].
  destruct f' as [|f']; [lia|].
  assert (Hf : (f <= f')%nat) by lia.
  cbn [parse] in H |- *.
  destruct s as [|c r]; [exact H|].
  destruct (ext && is_ext_opener c && next_is_lparen r); [discriminate|].
  destruct (aeq c c_bslash).
  { destruct r as [|d r']; [exact H|].
    eapply option_map_mono; [|exact H]. intros a E. exact (IH _ _ E _ Hf). }
  destruct (aeq c c_quest).
  { eapply option_map_mono; [|exact H]. intros a E. exact (IH _ _ E _ Hf). }
  destruct (aeq c c_star).
  { eapply option_map_mono; [|exact H]. intros a E. exact (IH _ _ E _ Hf). }
  destruct (aeq c c_lbrack).
  { destruct (match r with
              | EmptyString => (false, r)
              | String d r' => if aeq d c_bang || aeq d c_caret then (true, r') else (false, r)
              end) as [neg body].
    destruct (scan_items (S (String.length body)) body true []); [| |discriminate].
    - eapply option_map_mono; [|exact H]. intros a E. exact (IH _ _ E _ Hf).
    - eapply option_map_mono; [|exact H]. intros a E. exact (IH _ _ E _ Hf). }
  eapply option_map_mono; [|exact H]. intros a E. exact (IH _ _ E _ Hf).
Qed.

Lemma parse_q_chars ext s : forall prev fuel tail ts,
    next_is_lparen tail = false ->
    parse fuel ext tail = Some ts ->
    parse (String.length s + fuel) ext (q_chars prev s ++ tail) = Some (chars s ++ ts).
Proof.
  induction s as [|c s IH]; intros prev fuel tail ts Hl Ht.
  - exact Ht.
  - cbn [q_chars].
    pose proof (q_chars_head_not_lparen s (Some c) tail Hl) as Hnl.
    pose proof (IH (Some c) fuel tail ts Hl Ht) as IHs.
    cbn [String.length Nat.add].
    match goal with |- context [if ?b then _ else _] => destruct b eqn:E end.
    + (* escaped: backslash, then the character *)
      cbn [append parse].
      assert (is_ext_opener c_bslash = false) as Hb by reflexivity.
      rewrite Hb. rewrite andb_false_r. cbn [andb].
      rewrite aeq_refl. rewrite IHs. reflexivity.
    + apply orb_false_iff in E as [E _]. apply orb_false_iff in E as [E _].
      pose proof (contains_q_special_cases c E) as (H1 & H2 & H3 & H4 & H5).
      cbn [append parse chars List.app].
      rewrite Hnl. rewrite andb_false_r.
      rewrite H1, H2, H3, H4. rewrite IHs. reflexivity.
Qed.

Lemma q_chars_length s : forall prev, (String.length s <= String.length (q_chars prev s))%nat.
Proof.
  induction s as [|d r IH]; intros prev; cbn [q_chars String.length]; [lia|].
  match goal with |- context [if ?b then _ else _] => destruct b end;
    cbn [String.length]; specialize (IH (Some d)); lia.
Qed.

Lemma printf_q_some p q : printf_q p = Some q -> p <> EmptyString -> q = q_chars None p.
Proof.
  destruct p as [|c p]; [congruence|]. unfold printf_q.
  destruct (printable_str (String c p)); [|discriminate]. intros H _. now injection H.
Qed.

(** [[ $line = ${prefix}* ]] after prefix=$(printf '%q' "$prefix") is an exact prefix test *)
Theorem glob_printf_q_prefix p q line :
  printf_q p = Some q -> p <> EmptyString ->
  glob_match true (q ++ "*") line = Some (String.prefix p line).
Proof.
  intros Hq Hne. rewrite (printf_q_some p q Hq Hne). clear Hq.
  unfold glob_match.
  pose proof (parse_q_chars true p None 2 "*" [TStar] eq_refl (parse_star 0 true)) as P.
  pose proof (q_chars_length p None) as L.
  rewrite (parse_mono true _ _ _ P).
  - now rewrite gmatch_chars_star.
  - rewrite length_append. change (String.length "*") with 1%nat. lia.
Qed.
