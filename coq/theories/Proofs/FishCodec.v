(** C04, fish: every printer of a data statement in [Model/EmitData.F] is read back by the statement
    reader of [Spec/ScriptRead.v].  All data statements of the fish script are [set] lists:
    [    set [--global ]VAR[[K]] item item ...] with bare numbers and C07 string constants as items. *)
From Coq Require Import DecimalString DecimalN DecimalPos DecimalFacts.
From CG Require Import Base.Prelude Model.Ast Model.Dfa Model.Tpl Model.Quote Model.Tables Model.EmitBash Model.EmitData
     Spec.ShellDQ Spec.ScriptRead Proofs.QuoteRT Proofs.BashCodec Proofs.BashScript Proofs.ScriptGen Proofs.ZshCodec
     Proofs.PwshCodec.
From CGgen Require Import Consts TplFish.
Open Scope N_scope.
Open Scope list_scope.

Definition enc_item (i : item) : string :=
  match i with INum n => sN n | IStr s => make_string_constant Fish s end.

Definition idx_text (idx : option N) : string :=
  match idx with Some k => append "[" (append (sN k) "]") | None => EmptyString end.

Definition set_line (g : bool) (var : string) (idx : option N) (items : list item) : string :=
  append "    set " (append (if g then "--global " else EmptyString)
    (append var (append (idx_text idx) (append " " (append (join " " (map enc_item items)) nl))))).

Definition no_dash (var : string) : bool :=
  match var with String c _ => negb (Ascii.eqb c "-") | EmptyString => false end.

Definition fvar (var : string) : Prop := vname var /\ no_dash var = true.

Lemma fish_rt s rest : read Fish (append (make_string_constant Fish s) rest) = Some (s, rest).
Proof. apply quote_roundtrip; [apply admissible_fish | reflexivity]. Qed.

Lemma msc_fish_head s : exists r, make_string_constant Fish s = String c_dq r.
Proof. unfold make_string_constant. eexists. reflexivity. Qed.

Lemma fish_item_enc i r : no_digit_head r -> fish_item (append (enc_item i) r) = Some (i, r).
Proof.
  intros Hr. unfold fish_item. destruct i as [n|s]; cbn [enc_item].
  - apply alt_take. unfold pbind, pret. rewrite nat10_sN by exact Hr. reflexivity.
  - rewrite alt_skip.
    + unfold pbind, pret, dq. rewrite fish_rt. reflexivity.
    + destruct (msc_fish_head s) as [r' E]. rewrite E. reflexivity.
Qed.

Lemma item_list l r :
  starts_with nl_char r -> sep_by fish_item " " (append (join " " (map enc_item l)) r) = Some (l, r).
Proof.
  intros Hr. apply (sep_by_join fish_item enc_item " " (starts_with nl_char)).
  - intros a r0 [H|[a' [r' ->]]]; apply fish_item_enc.
    + destruct H as [r' ->]. reflexivity.
    + reflexivity.
  - intros r0 [r' ->]. reflexivity.
  - intros r0 [r' ->]. reflexivity.
  - discriminate.
  - exact Hr.
Qed.

Lemma lit_global_none var x : no_dash var = true -> lit "--global " (append var x) = None.
Proof.
  intros H. destruct var as [|c v]; [discriminate H|]. unfold lit. cbn [append strip].
  cbn [no_dash] in H. apply negb_true_iff in H. rewrite Ascii.eqb_sym in H. rewrite H. reflexivity.
Qed.

(** the head of an item list is a digit or a double quote *)
Lemma enc_head i : exists c r, enc_item i = String c r /\ Ascii.eqb nl_char c = false.
Proof.
  destruct i as [n|s]; cbn [enc_item].
  - destruct (sN_digit n) as [c [r [E Hc]]]. exists c, r. split; [exact E|].
    destruct (Ascii.eqb_spec nl_char c) as [<-|]; [discriminate Hc | reflexivity].
  - destruct (msc_fish_head s) as [r E]. exists c_dq, r. split; [exact E | reflexivity].
Qed.

Theorem fish_set_stmt g var idx items rest :
  fvar var ->
  fish_stmt (append (set_line g var idx items) rest) = Some (SSet var idx items, rest).
Proof.
  intros [[Hne Hv] Hd]. unfold set_line. rewrite !append_assoc. unfold fish_stmt.
  apply alt_take. rewrite pbind_lit.
  (* the scope *)
  assert (G : forall (A : Type) (f : unit -> parser A) x,
             pbind (alt (lit "--global ") (pret tt)) f (append (if g then "--global " else EmptyString) (append var x)) = f tt (append var x)).
  { intros A f x. unfold pbind. destruct g.
    - rewrite (alt_take _ _ _ (tt, append var x)); [reflexivity | apply lit_app].
    - cbn [append]. rewrite alt_skip by (apply lit_global_none; exact Hd). reflexivity. }
  rewrite G. clear G.
  (* the name and the index *)
  assert (Hidx : exists c r, (idx_text idx ++ " " ++ join " " (map enc_item items) ++ nl ++ rest)%string = String c r
                             /\ is_name_char c = false).
  { destruct idx; cbn [idx_text append]; eexists; eexists; split; reflexivity. }
  destruct Hidx as [c [r [E Hc]]]. rewrite E.
  rewrite (pbind_some _ _ _ _ _ (name_read var c r Hne Hv Hc)). rewrite <- E. clear E Hc c r.
  assert (I : forall (A : Type) (f : option N -> parser A) x,
             pbind (alt (let* _ := lit "[" in let* k := nat10 in let* _ := lit "]" in pret (Some k)) (pret None)) f
                   (append (idx_text idx) (String " " x)) = f idx (String " " x)).
  { intros A f x. unfold pbind at 1. destruct idx as [k|]; cbn [idx_text].
    - rewrite (alt_take _ _ _ (Some k, String " " x)); [reflexivity|].
      rewrite !append_assoc. rewrite pbind_lit. erewrite pbind_some by (apply nat10_sN; reflexivity).
      erewrite pbind_lit' by reflexivity. reflexivity.
    - cbn [append]. rewrite alt_skip by reflexivity. reflexivity. }
  change (" " ++ join " " (map enc_item items) ++ nl ++ rest)%string
    with (String " " (join " " (map enc_item items) ++ nl ++ rest))%string.
  rewrite I. clear I.
  rewrite alt_skip by reflexivity.
  destruct items as [|i items].
  - apply alt_take. Transparent join. reflexivity. Opaque join.
  - assert (Hh : exists c r, (join " " (map enc_item (i :: items)) ++ nl ++ rest)%string = String c r /\ Ascii.eqb nl_char c = false).
    { destruct (enc_head i) as [c [r [E Hc]]]. Transparent join.
      destruct items; cbn [map join]; rewrite E; cbn [append]; eauto. Opaque join. }
    destruct Hh as [c [r [E Hc]]].
    rewrite alt_skip.
    2:{ erewrite pbind_lit' by reflexivity. rewrite E. unfold pbind, eol, lit, nl. cbn [strip]. rewrite Hc. reflexivity. }
    erewrite pbind_lit' by reflexivity.
    erewrite pbind_some by (apply item_list; eexists; reflexivity).
    rewrite (pbind_some _ _ _ _ _ (eol_nl rest)). reflexivity.
Qed.

Notation readsF := (reads_asG Fish).

Lemma freads_set g var idx items : fvar var -> readsF (set_line g var idx items) (SSet var idx items).
Proof. intros Hv. split; [discriminate|]. split; [exact I|]. intros rest. apply fish_set_stmt. exact Hv. Qed.

(** ** number lists written between double quotes by a plain format string ("{}") are C07 constants *)
Definition plainb (c : ascii) : bool := String.eqb (imgc Fish c) (String c EmptyString).

Lemma cmap_plain s : forallb plainb (list_ascii_of_string s) = true -> cmap (imgc Fish) s = s.
Proof.
  induction s as [|c s IH]; cbn [forallb list_ascii_of_string cmap]; intros H; [reflexivity|].
  apply andb_prop in H. destruct H as [Hc Hs].
  apply String.eqb_eq in Hc. rewrite Hc, (IH Hs). reflexivity.
Qed.

Lemma plain_msc s :
  forallb plainb (list_ascii_of_string s) = true -> make_string_constant Fish s = append """" (append s """").
Proof.
  intros H. unfold make_string_constant. rewrite (chain_charwise (chain Fish) eq_refl). fold (imgc Fish).
  change (img (chain Fish)) with (imgc Fish). rewrite (cmap_plain s H). reflexivity.
Qed.

Definition plain_digit_table : bool :=
  forallb (fun c => implb (is_digit c || Ascii.eqb c " " || Ascii.eqb c ",") (plainb c)) all_bytes.
Lemma plain_digit_table_ok : plain_digit_table = true.
Proof. vm_compute. reflexivity. Qed.

Lemma plain_of_digit c : (is_digit c || Ascii.eqb c " " || Ascii.eqb c ",")%bool = true -> plainb c = true.
Proof.
  intros H. pose proof plain_digit_table_ok as T. unfold plain_digit_table in T. rewrite forallb_forall in T.
  specialize (T c (all_bytes_complete c)). rewrite H in T. exact T.
Qed.

Definition numeric (s : string) : bool :=
  forallb (fun c => is_digit c || Ascii.eqb c " " || Ascii.eqb c ",")%bool (list_ascii_of_string s).

Lemma numeric_plain s : numeric s = true -> forallb plainb (list_ascii_of_string s) = true.
Proof.
  unfold numeric. induction s as [|c s IH]; cbn [forallb list_ascii_of_string]; intros H; [reflexivity|].
  apply andb_prop in H. destruct H as [Hc Hs].
  rewrite (plain_of_digit c Hc), (IH Hs). reflexivity.
Qed.

Lemma numeric_app a b : numeric (append a b) = numeric a && numeric b.
Proof. unfold numeric. induction a; cbn; [reflexivity | rewrite IHa, andb_assoc; reflexivity]. Qed.

Lemma numeric_uint d : numeric (NilEmpty.string_of_uint d) = true.
Proof. induction d; cbn; auto. Qed.

Lemma numeric_sN n : numeric (sN n) = true.
Proof. Transparent sN. unfold sN. destruct (N.to_uint n); try apply numeric_uint. reflexivity. Opaque sN. Qed.

Lemma numeric_join (sep : string) l : numeric sep = true -> Forall (fun x => numeric x = true) l -> numeric (join sep l) = true.
Proof.
  intros Hs H. Transparent join. induction H as [|x l Hx _ IH]; [reflexivity|]. destruct l as [|y l]; [exact Hx|].
  change (join sep (x :: y :: l)) with (append x (append sep (join sep (y :: l)))).
  rewrite !numeric_app, Hx, Hs, IH. reflexivity. Opaque join.
Qed.

Lemma numeric_nums l : numeric (join " " (map sN l)) = true.
Proof. apply numeric_join; [reflexivity|]. induction l; constructor; [apply numeric_sN | assumption]. Qed.

Lemma quoted_nums l : append """" (append (join " " (map sN l)) """") = enc_item (IStr (join " " (map sN l))).
Proof. cbn [enc_item]. symmetry. apply plain_msc, numeric_plain, numeric_nums. Qed.

(** ** the printers of [EmitData.F] as [set] lines *)
Definition pv (sub : bool) (base : string) : string := if sub then append "subword_" base else base.

Lemma scope_set sub base x :
  (("    set " ++ F.scope sub ++ base ++ x) = ("    set " ++ (if sub then "--global " else "") ++ pv sub base ++ x))%string.
Proof. destruct sub; reflexivity. Qed.

Ltac fv := split; [split; [discriminate | reflexivity] | reflexivity].

Lemma fvar_level base k : fvar base -> fvar (append base (sN k)).
Proof.
  intros [Hv Hd]. split; [apply vname_app_sN; exact Hv|]. destruct base; [discriminate Hd | exact Hd].
Qed.

Lemma fvar_pv sub base : fvar base -> fvar (pv sub base).
Proof.
  intros [[Hne Hv] Hd]. destruct sub; cbn [pv]; [|split; [split|]; assumption].
  split; [split; [discriminate | apply (name_chars_app "subword_"); [reflexivity | exact Hv]] | reflexivity].
Qed.

(** *** the literal list *)
Definition fdescr_pairs (lits : list (N * string * string)) : list (N * N) :=
  let ds := descr_set lits in
  flat_map (fun l => match snd l with
                     | EmptyString => []
                     | d => match index_of d ds with Some k => [(fst (fst l), k + 1)] | None => [] end
                     end) lits.

Definition flits_stmts (sub : bool) (lits : list (N * string * string)) : list stmt :=
  SSet (pv sub "literals") None (map (fun l => IStr (snd (fst l))) lits)
  :: map (fun id : N * string => SSet (pv sub "descrs") (Some (fst id + 1)) [IStr (snd id)]) (number_from 0 (descr_set lits))
  ++ match fdescr_pairs lits with
     | [] => []
     | pairs => [SSet (pv sub "descr_literal_ids") None (map (fun p => INum (fst p)) pairs);
                 SSet (pv sub "descr_ids") None (map (fun p => INum (snd p)) pairs)]
     end.

Definition flits_lines (sub : bool) (lits : list (N * string * string)) : list string :=
  set_line sub (pv sub "literals") None (map (fun l => IStr (snd (fst l))) lits)
  :: map (fun id : N * string => set_line sub (pv sub "descrs") (Some (fst id + 1)) [IStr (snd id)]) (number_from 0 (descr_set lits))
  ++ match fdescr_pairs lits with
     | [] => []
     | pairs => [set_line sub (pv sub "descr_literal_ids") None (map (fun p => INum (fst p)) pairs);
                 set_line sub (pv sub "descr_ids") None (map (fun p => INum (snd p)) pairs)]
     end.

Lemma freads_lits sub lits : Forall2 readsF (flits_lines sub lits) (flits_stmts sub lits).
Proof.
  unfold flits_lines, flits_stmts. constructor; [apply freads_set, fvar_pv; fv|].
  apply Forall2_app_.
  - apply Forall2_map_. intros id. apply freads_set, fvar_pv. fv.
  - destruct (fdescr_pairs lits); [constructor|].
    constructor; [apply freads_set, fvar_pv; fv|]. constructor; [apply freads_set, fvar_pv; fv | constructor].
Qed.

(** a template line [    set {scope_patch}BASE[IDX] ITEMS] is the [set_line] of its items *)
Lemma set_line_eq sub base idx items :
  ("    set " ++ F.scope sub ++ base ++ idx_text idx ++ " " ++ join " " (map enc_item items) ++ nl)%string
  = set_line sub (pv sub base) idx items.
Proof. unfold set_line, pv. destruct sub; cbn [F.scope append]; rewrite ?append_assoc; reflexivity. Qed.

Lemma map_istr {A} (f : A -> string) l : map (fun x => F.msc (f x)) l = map enc_item (map (fun x => IStr (f x)) l).
Proof. rewrite map_map. reflexivity. Qed.
Lemma map_inum {A} (f : A -> N) l : map (fun x => sN (f x)) l = map enc_item (map (fun x => INum (f x)) l).
Proof. rewrite map_map. reflexivity. Qed.

Lemma ftpl_lits sp a : fmtln write_literals_0 [("scope_patch", sp); ("literals", a)] = ("    set " ++ sp ++ "literals" ++ "" ++ " " ++ a ++ nl)%string.
Proof. tpl_eq. Qed.
Lemma ftpl_descr sp a b :
  fmtln write_literals_1 [("scope_patch", sp); ("id", a); ("0", b)] = ("    set " ++ sp ++ "descrs" ++ ("[" ++ a ++ "]") ++ " " ++ b ++ nl)%string.
Proof. tpl_eq. Qed.
Lemma ftpl_dlids sp a :
  fmtln write_literals_2 [("scope_patch", sp); ("descr_literal_ids", a)] = ("    set " ++ sp ++ "descr_literal_ids" ++ "" ++ " " ++ a ++ nl)%string.
Proof. tpl_eq. Qed.
Lemma ftpl_dids sp a :
  fmtln write_literals_3 [("scope_patch", sp); ("descr_ids", a)] = ("    set " ++ sp ++ "descr_ids" ++ "" ++ " " ++ a ++ nl)%string.
Proof. tpl_eq. Qed.

Lemma fwrite_literals_lines sub lits : F.write_literals sub lits = sconcat (flits_lines sub lits).
Proof.
  unfold F.write_literals, flits_lines. cbn [sconcat]. f_equal.
  - rewrite ftpl_lits, (map_istr (fun l : N * string * string => snd (fst l))). apply (set_line_eq sub "literals" None).
  - rewrite sconcat_app. f_equal.
    + apply sconcat_map_fmtln. intros [k d]. cbn [fst snd]. rewrite ftpl_descr.
      apply (set_line_eq sub "descrs" (Some (k + 1)) [IStr d]).
    + fold (fdescr_pairs lits). destruct (fdescr_pairs lits) as [|q qs]; [reflexivity|].
      cbn [sconcat]. rewrite append_assoc. f_equal; [|f_equal].
      * rewrite ftpl_dlids, (map_inum (fun p : N * N => fst p)). apply (set_line_eq sub "descr_literal_ids" None).
      * rewrite ftpl_dids, (map_inum (fun p : N * N => snd p)). apply (set_line_eq sub "descr_ids" None).
Qed.

(** *** match tables *)
Definition fcell_strs (m : list (N * list (N * N))) (f : N * N -> string) (mx : N) : list item :=
  map (fun s => IStr (match assocN s m with Some row => join " " (map f row) | None => EmptyString end)) (F.upto (N.to_nat mx)).

Definition fcmd_cell (row : list (N * N)) : string :=
  join " " (map (fun p : N * N => append (sN (fst p)) (append "," (sN (snd p + F.st)))) row).

Definition fmatch_stmts (sub : bool) (t : tables) : list stmt :=
  (match F.max_key (t_mlit t) with
   | None => []
   | Some mx => [SSet (pv sub "literal_transitions_inputs") None (fcell_strs (t_mlit t) (fun p => sN (fst p)) mx);
                 SSet (pv sub "literal_transitions_tos") None (fcell_strs (t_mlit t) (fun p => sN (snd p + F.st)) mx)]
   end)
  ++ (match t_mcmd t with
      | Some m => map (fun row : N * list (N * N) => SSet (pv sub "command_transitions") (Some (fst row + F.st)) [IStr (fcmd_cell (snd row))]) m
      | None => []
      end)
  ++ (match t_mstar t with
      | Some (q :: l) => [SSet (pv sub "star_transitions_from") None (map (fun x : N * N => INum (fst x + F.st)) (q :: l));
                          SSet (pv sub "star_transitions_to") None (map (fun x : N * N => INum (snd x + F.st)) (q :: l))]
      | _ => []
      end).

Definition fmatch_lines (sub : bool) (t : tables) : list string :=
  (match F.max_key (t_mlit t) with
   | None => []
   | Some mx => [set_line sub (pv sub "literal_transitions_inputs") None (fcell_strs (t_mlit t) (fun p => sN (fst p)) mx);
                 set_line sub (pv sub "literal_transitions_tos") None (fcell_strs (t_mlit t) (fun p => sN (snd p + F.st)) mx)]
   end)
  ++ (match t_mcmd t with
      | Some m => map (fun row : N * list (N * N) => set_line sub (pv sub "command_transitions") (Some (fst row + F.st)) [IStr (fcmd_cell (snd row))]) m
      | None => []
      end)
  ++ (match t_mstar t with
      | Some (q :: l) => [set_line sub (pv sub "star_transitions_from") None (map (fun x : N * N => INum (fst x + F.st)) (q :: l));
                          set_line sub (pv sub "star_transitions_to") None (map (fun x : N * N => INum (snd x + F.st)) (q :: l))]
      | _ => []
      end).

Lemma freads_match sub t : Forall2 readsF (fmatch_lines sub t) (fmatch_stmts sub t).
Proof.
  unfold fmatch_lines, fmatch_stmts. apply Forall2_app_; [|apply Forall2_app_].
  - destruct (F.max_key (t_mlit t)); [|constructor].
    constructor; [apply freads_set, fvar_pv; fv|]. constructor; [apply freads_set, fvar_pv; fv | constructor].
  - destruct (t_mcmd t) as [m|]; [|constructor]. apply Forall2_map_. intros row. apply freads_set, fvar_pv. fv.
  - destruct (t_mstar t) as [[|q l]|]; try constructor.
    + apply freads_set, fvar_pv. fv.
    + constructor; [apply freads_set, fvar_pv; fv | constructor].
Qed.

Lemma ftpl_mt0 sp a : fmtln write_matching_tables_0 [("scope_patch", sp); ("0", a)] = ("    set " ++ sp ++ "literal_transitions_inputs" ++ "" ++ " " ++ a ++ nl)%string.
Proof. tpl_eq. Qed.
Lemma ftpl_mt1 sp a : fmtln write_matching_tables_1 [("scope_patch", sp); ("0", a)] = ("    set " ++ sp ++ "literal_transitions_tos" ++ "" ++ " " ++ a ++ nl)%string.
Proof. tpl_eq. Qed.
Lemma ftpl_mt2 sp a b :
  fmtln write_matching_tables_2 [("scope_patch", sp); ("0", a); ("1", b)] = ("    set " ++ sp ++ "command_transitions" ++ ("[" ++ a ++ "]") ++ " " ++ b ++ nl)%string.
Proof. tpl_eq. Qed.
Lemma ftpl_mt3 sp a : fmtln write_matching_tables_3 [("scope_patch", sp); ("star_transitions_from", a)] = ("    set " ++ sp ++ "star_transitions_from" ++ "" ++ " " ++ a ++ nl)%string.
Proof. tpl_eq. Qed.
Lemma ftpl_mt4 sp a : fmtln write_matching_tables_4 [("scope_patch", sp); ("star_transitions_to", a)] = ("    set " ++ sp ++ "star_transitions_to" ++ "" ++ " " ++ a ++ nl)%string.
Proof. tpl_eq. Qed.

Lemma sconcat2 a b : sconcat [a; b] = append a b.
Proof. cbn [sconcat]. rewrite QuoteRT.append_nil_r. reflexivity. Qed.

Lemma fcells_eq m f mx :
  map (fun s => match assocN s m with Some row => F.msc (join " " (map f row)) | None => F.msc EmptyString end) (F.upto (N.to_nat mx))
  = map enc_item (fcell_strs m f mx).
Proof. unfold fcell_strs. rewrite map_map. apply map_ext. intros s. destruct (assocN s m); reflexivity. Qed.

Lemma fwrite_match_lines sub t : F.write_matching_tables sub t = sconcat (fmatch_lines sub t).
Proof.
  unfold F.write_matching_tables, fmatch_lines. cbn [sconcat]. rewrite !sconcat_app. f_equal; [|f_equal].
  - destruct (F.max_key (t_mlit t)) as [mx|]; [|reflexivity]. rewrite sconcat2. f_equal.
    + rewrite ftpl_mt0, fcells_eq. apply (set_line_eq sub "literal_transitions_inputs" None).
    + rewrite ftpl_mt1, fcells_eq. apply (set_line_eq sub "literal_transitions_tos" None).
  - destruct (t_mcmd t) as [m|]; [|reflexivity]. apply sconcat_map_fmtln. intros [s row]. cbn [fst snd].
    rewrite ftpl_mt2. apply (set_line_eq sub "command_transitions" (Some (s + F.st)) [IStr (fcmd_cell row)]).
  - rewrite QuoteRT.append_nil_r. destruct (t_mstar t) as [[|q l]|]; try reflexivity. rewrite sconcat2. f_equal.
    + rewrite ftpl_mt3, (map_inum (fun x : N * N => fst x + F.st)). apply (set_line_eq sub "star_transitions_from" None).
    + rewrite ftpl_mt4, (map_inum (fun x : N * N => snd x + F.st)). apply (set_line_eq sub "star_transitions_to" None).
Qed.

(** *** completion tables *)
Definition ffroms (rows : list (N * list N)) : list item := map (fun r : N * list N => INum (fst r + F.st)) rows.
Definition fcells (rows : list (N * list N)) : list item := map (fun r : N * list N => IStr (join " " (map sN (snd r)))) rows.

Definition flevel_stmts (sub : bool) (froms cells : string) (ls : list (list (N * list N))) : list stmt :=
  flat_map (fun kl : N * list (N * list N) =>
              [SSet (pv sub (append froms (sN (fst kl)))) None (ffroms (snd kl));
               SSet (pv sub (append cells (sN (fst kl)))) None (fcells (snd kl))]) (number_from 0 ls).

Definition flevel_lines (sub : bool) (froms cells : string) (ls : list (list (N * list N))) : list string :=
  flat_map (fun kl : N * list (N * list N) =>
              [set_line sub (pv sub (append froms (sN (fst kl)))) None (ffroms (snd kl));
               set_line sub (pv sub (append cells (sN (fst kl)))) None (fcells (snd kl))]) (number_from 0 ls).

Lemma freads_levels sub froms cells ls :
  fvar froms -> fvar cells -> Forall2 readsF (flevel_lines sub froms cells ls) (flevel_stmts sub froms cells ls).
Proof.
  intros Hf Hc. unfold flevel_lines, flevel_stmts. induction (number_from 0 ls) as [|kl l IH]; cbn [flat_map]; [constructor|].
  apply Forall2_app_; [|exact IH].
  constructor; [apply freads_set, fvar_pv, fvar_level; exact Hf|].
  constructor; [apply freads_set, fvar_pv, fvar_level; exact Hc | constructor].
Qed.

Definition fmax_stmt (t : tables) : stmt := SSet "subword_max_fallback_level" None [INum (t_maxlevel t)].

Definition fcompletion_stmts (sub : bool) (t : tables) : list stmt :=
  flevel_stmts sub "literal_froms_level_" "literal_inputs_level_" (t_clit t)
  ++ (match t_ccmd t with Some m => flevel_stmts sub "command_froms_level_" "commands_level_" m | None => [] end)
  ++ [fmax_stmt t].

Definition fcompletion_lines (sub : bool) (t : tables) : list string :=
  flevel_lines sub "literal_froms_level_" "literal_inputs_level_" (t_clit t)
  ++ (match t_ccmd t with Some m => flevel_lines sub "command_froms_level_" "commands_level_" m | None => [] end)
  ++ [set_line true "subword_max_fallback_level" None [INum (t_maxlevel t)]].

Lemma freads_completion sub t : Forall2 readsF (fcompletion_lines sub t) (fcompletion_stmts sub t).
Proof.
  unfold fcompletion_lines, fcompletion_stmts. apply Forall2_app_; [apply freads_levels; fv|]. apply Forall2_app_.
  - destruct (t_ccmd t); [apply freads_levels; fv | constructor].
  - constructor; [apply freads_set; fv | constructor].
Qed.

Lemma set_line_level_eq sub base k items :
  ("    set " ++ F.scope sub ++ base ++ sN k ++ " " ++ join " " (map enc_item items) ++ nl)%string
  = set_line sub (pv sub (append base (sN k))) None items.
Proof. rewrite <- (set_line_eq sub (append base (sN k)) None items). cbn [idx_text]. rewrite !append_assoc. reflexivity. Qed.

Lemma ftpl_ct0 sp a b :
  fmtln write_completion_tables_0 [("scope_patch", sp); ("level", a); ("froms_initializer", b)]
  = ("    set " ++ sp ++ "literal_froms_level_" ++ a ++ " " ++ b ++ nl)%string.
Proof. tpl_eq. Qed.
Lemma ftpl_ct1 sp a b :
  fmtln write_completion_tables_1 [("scope_patch", sp); ("level", a); ("0", b)]
  = ("    set " ++ sp ++ "literal_inputs_level_" ++ a ++ " " ++ b ++ nl)%string.
Proof. tpl_eq. Qed.
Lemma ftpl_ct2 sp a b :
  fmtln write_completion_tables_2 [("scope_patch", sp); ("level", a); ("from_initializer", b)]
  = ("    set " ++ sp ++ "command_froms_level_" ++ a ++ " " ++ b ++ nl)%string.
Proof. tpl_eq. Qed.
Lemma ftpl_ct3 a : fmt write_completion_tables_3 [("0", a)] = ("""" ++ a ++ """")%string.
Proof. tpl_eq. Qed.
Lemma ftpl_ct4 sp a b :
  fmtln write_completion_tables_4 [("scope_patch", sp); ("level", a); ("commands_initializer", b)]
  = ("    set " ++ sp ++ "commands_level_" ++ a ++ " " ++ b ++ nl)%string.
Proof. tpl_eq. Qed.
Lemma ftpl_ct5 a : fmtln write_completion_tables_5 [("0", a)] = ("    set --global subword_max_fallback_level " ++ a ++ nl)%string.
Proof. tpl_eq. Qed.

Lemma ffroms_eq rows : map (fun r : N * list N => sN (fst r + F.st)) rows = map enc_item (ffroms rows).
Proof. unfold ffroms. rewrite map_map. reflexivity. Qed.
Lemma fcells_msc_eq rows : map (fun r : N * list N => F.msc (join " " (map sN (snd r)))) rows = map enc_item (fcells rows).
Proof. unfold fcells. rewrite map_map. reflexivity. Qed.
Lemma fcells_plain_eq cell rows :
  (forall a, fmt cell [("0", a)] = ("""" ++ a ++ """")%string) ->
  map (fun r : N * list N => fmt cell [("0", join " " (map sN (snd r)))]) rows = map enc_item (fcells rows).
Proof. intros H. unfold fcells. rewrite map_map. apply map_ext. intros r. rewrite H. apply quoted_nums. Qed.

Lemma sconcat_flat_map {A} (f : A -> list string) l : sconcat (flat_map f l) = sconcat (map (fun x => sconcat (f x)) l).
Proof. induction l; cbn [flat_map map sconcat]; [reflexivity | rewrite sconcat_app, IHl; reflexivity]. Qed.

Lemma fwrite_completion_lines sub t : F.write_completion_tables sub t = sconcat (fcompletion_lines sub t).
Proof.
  unfold F.write_completion_tables, fcompletion_lines. cbn [sconcat]. rewrite !sconcat_app. f_equal; [|f_equal].
  - unfold flevel_lines. rewrite sconcat_flat_map. apply sconcat_map_fmtln. intros [k rows]. cbn [fst snd].
    rewrite sconcat2. f_equal.
    + rewrite ftpl_ct0, ffroms_eq. apply set_line_level_eq.
    + rewrite ftpl_ct1, fcells_msc_eq. apply set_line_level_eq.
  - destruct (t_ccmd t) as [m|]; [|reflexivity].
    unfold flevel_lines. rewrite sconcat_flat_map. apply sconcat_map_fmtln. intros [k rows]. cbn [fst snd].
    rewrite sconcat2. f_equal.
    + rewrite ftpl_ct2, ffroms_eq. apply set_line_level_eq.
    + rewrite ftpl_ct4, (fcells_plain_eq write_completion_tables_3 rows ftpl_ct3). apply set_line_level_eq.
  - cbn [sconcat]. f_equal. rewrite ftpl_ct5. reflexivity.
Qed.

(** *** within-word transitions and candidates of the completion function *)
Definition fsubrow_stmts (rows : list (N * list (N * N))) : list stmt :=
  flat_map (fun row : N * list (N * N) =>
              [SSet "subword_transitions_ids" (Some (fst row + F.st)) [IStr (join " " (map (fun p : N * N => sN (fst p)) (snd row)))];
               SSet "subword_transitions_tos" (Some (fst row + F.st)) [IStr (join " " (map (fun p : N * N => sN (snd p + F.st)) (snd row)))]])
           rows.

Definition fsubrow_lines (rows : list (N * list (N * N))) : list string :=
  flat_map (fun row : N * list (N * N) =>
              [set_line false "subword_transitions_ids" (Some (fst row + F.st)) [IStr (join " " (map (fun p : N * N => sN (fst p)) (snd row)))];
               set_line false "subword_transitions_tos" (Some (fst row + F.st)) [IStr (join " " (map (fun p : N * N => sN (snd p + F.st)) (snd row)))]])
           rows.

Lemma freads_subrows rows : Forall2 readsF (fsubrow_lines rows) (fsubrow_stmts rows).
Proof.
  unfold fsubrow_lines, fsubrow_stmts. induction rows as [|row l IH]; cbn [flat_map]; [constructor|].
  apply Forall2_app_; [|exact IH].
  constructor; [apply freads_set; fv|]. constructor; [apply freads_set; fv | constructor].
Qed.
