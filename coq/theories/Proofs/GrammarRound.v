(** Statements and whole grammars: the parser model applied to the printed text returns the
    located grammar. *)
From CG Require Import Base.Prelude Model.Ast Model.Lexer Model.Parser Spec.Printer
  Proofs.LexBase Proofs.LexBlanks Proofs.LexTerminal Proofs.LexTokens Proofs.LexCommand
  Proofs.ExprDefs Proofs.ExprLift Proofs.ExprFirst Proofs.ExprShape Proofs.ExprRound.
From CGgen Require Import Consts.

Definition nonblank (s : string) : Prop := hd_in (fun ch => negb (blank_start ch)) s = true.

Lemma skip_gap_nonblank : forall g s p, nonblank s ->
    skip (mkin (append (gap_text g) s) p) = mkin s (adv_str (gap_text g) p).
Proof. intros. rewrite skip_gap. apply skip_no_blank. exact H. Qed.

Lemma gap1_blank : forall g s, hd_is blank_start (append (gap_text (gap1 g)) s) = true.
Proof.
  intros. pose proof (gap1_hd g s). destruct (append (gap_text (gap1 g)) s); [discriminate|].
  cbn [hd_is] in *. apply ws_start_facts in H. tauto.
Qed.

Lemma gap1_c4 : forall g s, c4 (append (gap_text (gap1 g)) s).
Proof.
  intros. unfold c4. pose proof (gap1_hd g s). destruct (append (gap_text (gap1 g)) s); [discriminate|].
  cbn [hd_is hd_in] in *. apply ws_start_facts in H. tauto.
Qed.

Ltac len_norm H := repeat (progress (rewrite ?length_app_s in H; cbn [String.length] in H)).

Section Stmt.
  Variable c : cfg.

  (** what a statement ends with *)
  Definition tail_txt (L : nodelay) (nosemi : bool) (g : gap) : string :=
    if nosemi then gap_text (post_gap g)
    else append (gap_text (post_gap g)) (String SEMI (gap_text (nl_gap L 3))).

  Definition tail_pos (L : nodelay) (nosemi : bool) (g : gap) (q : pos) : pos :=
    if nosemi then adv_str (gap_text (post_gap g)) q
    else adv_str (gap_text (nl_gap L 3)) (adv_char SEMI (adv_str (gap_text (post_gap g)) q)).

  Lemma tail_st0 : forall L nosemi g R, (nosemi = true -> R = EmptyString) -> st 0 (append (tail_txt L nosemi g) R).
  Proof.
    intros L [] g R H; unfold tail_txt.
    - rewrite H by reflexivity. rewrite app_nil_r_s. apply st0_end.
    - rewrite app_assoc_s. cbn [append]. apply st0_semi.
  Qed.

  (** after the expression: blanks, [;] or the end, blanks *)
  Lemma tail_parse : forall L nosemi g R q,
      (nosemi = true -> R = EmptyString) -> nonblank R ->
      (do (_, a1) <- multiblanks0 (mkin (append (tail_txt L nosemi g) R) q);
       do (_, a2) <- end_of_statement a1;
       do (_, a3) <- multiblanks0 a2; Ok (tt, a3))
      = Ok (tt, mkin R (tail_pos L nosemi g q)).
  Proof.
    intros L [] g R q H Hb; unfold tail_txt, tail_pos.
    - rewrite H by reflexivity. rewrite app_nil_r_s.
      rewrite multiblanks0_spec. cbn [obind].
      rewrite <- (app_nil_r_s (gap_text (post_gap g))) at 1. rewrite skip_gap_nonblank by reflexivity.
      unfold end_of_statement, char_p, fail. cbn [rest at_ obind]. rewrite multiblanks0_spec. cbn [obind].
      rewrite skip_no_blank by reflexivity. reflexivity.
    - rewrite app_assoc_s. cbn [append]. rewrite multiblanks0_spec. cbn [obind].
      rewrite skip_gap_nonblank by (vm_compute; reflexivity).
      unfold end_of_statement, char_p. cbn [rest at_]. rewrite (proj2 (eqb_eq_a SEMI SEMI) eq_refl). cbn [obind].
      rewrite multiblanks0_spec. cbn [obind]. rewrite skip_gap_nonblank by assumption. reflexivity.
  Qed.

  Lemma stmt_txt_eq : forall lay nosemi s,
      stmt_txt lay nosemi s =
      match s with
      | CallVariant name _ e =>
          append (pieces_text (spell (nl_esc (lay [])) false name))
                 (append (gap_text (gap1 (nl_gap (lay []) 0)))
                         (append (txt (sub lay 0) 0 e) (tail_txt (lay []) nosemi (nl_gap (lay []) 2))))
      | NontermDef name _ sh rhs =>
          append (def_head_text name sh)
                 (append (gap_text (nl_gap (lay []) 0))
                    (append (if nl_flag (lay []) then EQ3 else EQ1)
                       (append (gap_text (nl_gap (lay []) 1))
                          (append (txt (sub lay 0) 0 rhs) (tail_txt (lay []) nosemi (nl_gap (lay []) 2))))))
      end.
  Proof. intros. destruct s; reflexivity. Qed.

  (** the expression of a statement *)
  Lemma stmt_expr : forall lay nosemi e R q m,
      wfb false e = true -> (nosemi = true -> R = EmptyString) ->
      (String.length (append (txt (sub lay 0) 0 e) (append (tail_txt (lay []) nosemi (nl_gap (lay []) 2)) R)) < m)%nat ->
      expr_p c (S m) (mkin (append (txt (sub lay 0) 0 e) (append (tail_txt (lay []) nosemi (nl_gap (lay []) 2)) R)) q)
      = Ok (fst (loc c (sub lay 0) 0 e q),
            mkin (append (tail_txt (lay []) nosemi (nl_gap (lay []) 2)) R) (snd (loc c (sub lay 0) 0 e q))).
  Proof.
    intros. rewrite expr_p_S.
    apply (expr_roundtrip c e (sub lay 0) 0%nat false q _ m); auto; [lia|].
    apply mstop_low; [lia|]. apply tail_st0; auto.
  Qed.

  Lemma stmt_first : forall lay nosemi s R, wf_stmt s = true ->
      exists ch t, append (stmt_txt lay nosemi s) R = String ch t /\ blank_start ch = false.
  Proof.
    intros lay nosemi s R W. rewrite stmt_txt_eq. destruct s as [name nsp e | name nsp sh rhs].
    - cbn [wf_stmt] in W. apply andb_true_iff in W as [Wn _].
      rewrite !app_assoc_s.
      destruct (spelled_first (nl_esc (lay [])) false name
                 (append (gap_text (gap1 (nl_gap (lay []) 0)))
                         (append (txt (sub lay 0) 0 e) (append (tail_txt (lay []) nosemi (nl_gap (lay []) 2)) R))) Wn)
        as (S1 & _ & _); [apply c4_lit_rest, gap1_c4|].
      destruct (append (pieces_text (spell (nl_esc (lay [])) false name)) _) as [|ch t]; [discriminate|].
      cbn [hd_is] in S1. exists ch, t. split; auto. apply ustart_facts in S1. tauto.
    - unfold def_head_text. cbn [append]. eexists; eexists; split; [reflexivity|]. vm_compute. reflexivity.
  Qed.

  Theorem stmt_parse : forall lay nosemi s R p m,
      wf_stmt s = true -> (nosemi = true -> R = EmptyString) -> nonblank R ->
      (String.length (append (stmt_txt lay nosemi s) R) < m)%nat ->
      statement_p c (expr_p c (S m)) (mkin (append (stmt_txt lay nosemi s) R) p)
      = Ok (fst (stmt_loc c lay nosemi s p), mkin R (snd (stmt_loc c lay nosemi s p))).
  Proof.
    intros lay nosemi s R p m W HR Hb Hn. rewrite stmt_txt_eq in *. unfold statement_p.
    destruct s as [name nsp e | name nsp sh rhs].
    - (* call variant *)
      cbn [wf_stmt] in W. apply andb_true_iff in W as [Wn We].
      rewrite !app_assoc_s in *. unfold call_variant.
      rewrite terminal_spelled; [|assumption|apply c4_lit_rest, gap1_c4]. cbn [obind].
      rewrite multiblanks1_spec. cbn [rest]. rewrite gap1_blank. cbn [obind].
      assert (Fo : first_ok (txt (sub lay 0) 0 e) (append (tail_txt (lay []) nosemi (nl_gap (lay []) 2)) R)).
      { apply (first_ok_any e _ 0%nat false); [lia|exact We|]. apply mstop_low; [lia|]. apply tail_st0; auto. }
      rewrite skip_gap_nonblank by (apply first_ok_hd; exact Fo).
      rewrite !length_app_s in Hn.
      rewrite stmt_expr; auto; [|rewrite !length_app_s; lia].
      cbn [stmt_loc].
      destruct (loc c (sub lay 0) 0 e _) as [e' p3]. cbn [obind fst snd].
      pose proof (tail_parse (lay []) nosemi (nl_gap (lay []) 2) R p3 HR Hb) as T.
      destruct (multiblanks0 (mkin (append (tail_txt (lay []) nosemi (nl_gap (lay []) 2)) R) p3)) as [[[] a1]| | |];
        cbn [obind] in T |- *; try discriminate.
      destruct (end_of_statement a1) as [[[] a2]| | |]; cbn [obind] in T |- *; try discriminate.
      destruct (multiblanks0 a2) as [[[] a3]| | |]; cbn [obind] in T |- *; try discriminate.
      inversion T; subst. rewrite from_range_pspan. reflexivity.
    - (* definition *)
      assert (CV : forall x q, call_variant c (expr_p c (S m)) (mkin (String LT x) q) = Err tt).
      { intros. unfold call_variant, terminal. rewrite terminal_spec.
        rewrite lex1_stop by (vm_compute; reflexivity). reflexivity. }
      unfold def_head_text in *. cbn [append] in Hn |- *. rewrite CV.
      unfold nonterm_def_statement, nonterm_def.
      assert (Fo : first_ok (txt (sub lay 0) 0 rhs) (append (tail_txt (lay []) nosemi (nl_gap (lay []) 2)) R)).
      { apply (first_ok_any rhs _ 0%nat false); [lia| |].
        - destruct sh as [[s0 ?]|]; cbn [wf_stmt] in W; repeat (apply andb_true_iff in W as [W ?]); auto.
        - apply mstop_low; [lia|]. apply tail_st0; auto. }
      assert (Weq : forall (fl : bool) x q,
                 nonblank x ->
                 (do (_, i3) <- (tag_p "::=" (mkin (append (if fl then EQ3 else EQ1) x) q)
                                 <|> tag_p "=" (mkin (append (if fl then EQ3 else EQ1) x) q));
                  do (_, i4) <- multiblanks0 i3; Ok (tt, i4))
                 = (do (_, i4) <- multiblanks0 (mkin x (adv_str (if fl then EQ3 else EQ1) q)); Ok (tt, i4))).
      { intros [] x q _; reflexivity. }
      destruct sh as [[shn ssp]|].
      + cbn [wf_stmt] in W. apply andb_true_iff in W as [W Wr]. apply andb_true_iff in W as [W Ws].
        apply andb_true_iff in W as [Wn Wa].
        rewrite ?app_assoc_s in *. cbn [append] in *. rewrite ?app_assoc_s in *. cbn [append] in *.
        rewrite nonterm_specialization_printed by assumption. cbn [obind].
        rewrite multiblanks0_spec. cbn [obind].
        rewrite skip_gap_nonblank by (destruct (nl_flag (lay [])); vm_compute; reflexivity).
        unfold tag_p. cbn [rest at_].
        destruct (nl_flag (lay [])) eqn:Fl.
        * change EQ3 with "::=". rewrite strip_prefix_self. cbn [obind].
          rewrite multiblanks0_spec. cbn [obind].
          rewrite skip_gap_nonblank by (apply first_ok_hd; exact Fo).
          len_norm Hn.
          rewrite stmt_expr; auto; [|rewrite !length_app_s; lia].
          cbn [stmt_loc]. rewrite Fl.
          destruct (loc c (sub lay 0) 0 rhs _) as [e' p5]. cbn [obind fst snd].
          pose proof (tail_parse (lay []) nosemi (nl_gap (lay []) 2) R p5 HR Hb) as T.
          destruct (multiblanks0 (mkin (append (tail_txt (lay []) nosemi (nl_gap (lay []) 2)) R) p5)) as [[[] a1]| | |];
            cbn [obind] in T |- *; try discriminate.
          destruct (end_of_statement a1) as [[[] a2]| | |]; cbn [obind] in T |- *; try discriminate.
          destruct (multiblanks0 a2) as [[[] a3]| | |]; cbn [obind] in T |- *; try discriminate.
          inversion T; subst. reflexivity.
        * change EQ1 with "=". cbn [append strip_prefix]. 
          replace (Ascii.eqb ":" "=") with false by (vm_compute; reflexivity).
          rewrite (proj2 (eqb_eq_a "="%char "="%char) eq_refl). unfold fail. cbn [obind].
          rewrite multiblanks0_spec. cbn [obind].
          rewrite skip_gap_nonblank by (apply first_ok_hd; exact Fo).
          len_norm Hn.
          rewrite stmt_expr; auto; [|rewrite !length_app_s; lia].
          cbn [stmt_loc]. rewrite Fl.
          destruct (loc c (sub lay 0) 0 rhs _) as [e' p5]. cbn [obind fst snd].
          pose proof (tail_parse (lay []) nosemi (nl_gap (lay []) 2) R p5 HR Hb) as T.
          destruct (multiblanks0 (mkin (append (tail_txt (lay []) nosemi (nl_gap (lay []) 2)) R) p5)) as [[[] a1]| | |];
            cbn [obind] in T |- *; try discriminate.
          destruct (end_of_statement a1) as [[[] a2]| | |]; cbn [obind] in T |- *; try discriminate.
          destruct (multiblanks0 a2) as [[[] a3]| | |]; cbn [obind] in T |- *; try discriminate.
          inversion T; subst. reflexivity.
      + cbn [wf_stmt] in W. apply andb_true_iff in W as [W Wr]. apply andb_true_iff in W as [Wn Wa].
        rewrite ?app_assoc_s in *. cbn [append] in *. rewrite ?app_assoc_s in *. cbn [append] in *.
        rewrite nonterm_specialization_plain by assumption.
        rewrite nonterm_printed by assumption. cbn [obind].
        rewrite multiblanks0_spec. cbn [obind].
        rewrite skip_gap_nonblank by (destruct (nl_flag (lay [])); vm_compute; reflexivity).
        unfold tag_p. cbn [rest at_].
        destruct (nl_flag (lay [])) eqn:Fl.
        * change EQ3 with "::=". rewrite strip_prefix_self. cbn [obind].
          rewrite multiblanks0_spec. cbn [obind].
          rewrite skip_gap_nonblank by (apply first_ok_hd; exact Fo).
          len_norm Hn.
          rewrite stmt_expr; auto; [|rewrite !length_app_s; lia].
          cbn [stmt_loc]. rewrite Fl.
          destruct (loc c (sub lay 0) 0 rhs _) as [e' p5]. cbn [obind fst snd].
          pose proof (tail_parse (lay []) nosemi (nl_gap (lay []) 2) R p5 HR Hb) as T.
          destruct (multiblanks0 (mkin (append (tail_txt (lay []) nosemi (nl_gap (lay []) 2)) R) p5)) as [[[] a1]| | |];
            cbn [obind] in T |- *; try discriminate.
          destruct (end_of_statement a1) as [[[] a2]| | |]; cbn [obind] in T |- *; try discriminate.
          destruct (multiblanks0 a2) as [[[] a3]| | |]; cbn [obind] in T |- *; try discriminate.
          inversion T; subst. reflexivity.
        * change EQ1 with "=". cbn [append strip_prefix].
          replace (Ascii.eqb ":" "=") with false by (vm_compute; reflexivity).
          rewrite (proj2 (eqb_eq_a "="%char "="%char) eq_refl). unfold fail. cbn [obind].
          rewrite multiblanks0_spec. cbn [obind].
          rewrite skip_gap_nonblank by (apply first_ok_hd; exact Fo).
          len_norm Hn.
          rewrite stmt_expr; auto; [|rewrite !length_app_s; lia].
          cbn [stmt_loc]. rewrite Fl.
          destruct (loc c (sub lay 0) 0 rhs _) as [e' p5]. cbn [obind fst snd].
          pose proof (tail_parse (lay []) nosemi (nl_gap (lay []) 2) R p5 HR Hb) as T.
          destruct (multiblanks0 (mkin (append (tail_txt (lay []) nosemi (nl_gap (lay []) 2)) R) p5)) as [[[] a1]| | |];
            cbn [obind] in T |- *; try discriminate.
          destruct (end_of_statement a1) as [[[] a2]| | |]; cbn [obind] in T |- *; try discriminate.
          destruct (multiblanks0 a2) as [[[] a3]| | |]; cbn [obind] in T |- *; try discriminate.
          inversion T; subst. reflexivity.
  Qed.
End Stmt.
