(** Statements and whole grammars: the parser model applied to the printed text returns the
    located grammar. *)
From CG Require Import Base.Prelude Model.Ast Model.Lexer Model.Parser Spec.Printer
  Proofs.LexBase Proofs.LexBlanks Proofs.LexTerminal Proofs.LexTokens Proofs.LexCommand
  Proofs.ExprDefs Proofs.ExprLift Proofs.ExprFirst Proofs.ExprShape Proofs.ExprRound.
From CGgen Require Import Consts.

Definition nonblank (s : string) : Prop := hd_in (fun ch => negb (blank_start ch)) s = true.

Lemma skip_gap_nonblank : forall g s p, nonblank s ->
    skip (mkin (append (gap_text g) s) p) = mkin s (adv_str (gap_text g) p).
Proof. intros. rewrite skip_gap. apply skip_no_blank. exact H. Qed.

Lemma gap1_blank : forall g s, hd_is blank_start (append (gap_text (gap1 g)) s) = true.
Proof.
  intros. pose proof (gap1_hd g s). destruct (append (gap_text (gap1 g)) s); [discriminate|].
  cbn [hd_is] in *. apply ws_start_facts in H. tauto.
Qed.

Lemma gap1_c4 : forall g s, c4 (append (gap_text (gap1 g)) s).
Proof.
  intros. unfold c4. pose proof (gap1_hd g s). destruct (append (gap_text (gap1 g)) s); [discriminate|].
  cbn [hd_is hd_in] in *. apply ws_start_facts in H. tauto.
Qed.

Ltac len_norm H := repeat (progress (rewrite ?length_app_s in H; cbn [String.length] in H)).

Section Stmt.
  Variable c : cfg.

  (** what a statement ends with *)
  Definition tail_txt (L : nodelay) (nosemi : bool) (g : gap) : string :=
    if nosemi then gap_text (post_gap g)
    else append (gap_text (post_gap g)) (String SEMI (gap_text (nl_gap L 3))).

  Definition tail_pos (L : nodelay) (nosemi : bool) (g : gap) (q : pos) : pos :=
    if nosemi then adv_str (gap_text (post_gap g)) q
    else adv_str (gap_text (nl_gap L 3)) (adv_char SEMI (adv_str (gap_text (post_gap g)) q)).

  Lemma tail_st0 : forall L nosemi g R, (nosemi = true -> R = EmptyString) -> st 0 (append (tail_txt L nosemi g) R).
  Proof.
    intros L [] g R H; unfold tail_txt.
    - rewrite H by reflexivity. rewrite app_nil_r_s. apply st0_end.
    - rewrite app_assoc_s. cbn [append]. apply st0_semi.
  Qed.

  (** after the expression: blanks, [;] or the end, blanks *)
  Lemma tail_parse : forall L nosemi g R q,
      (nosemi = true -> R = EmptyString) -> nonblank R ->
      (do (_, a1) <- multiblanks0 (mkin (append (tail_txt L nosemi g) R) q);
       do (_, a2) <- end_of_statement a1;
       do (_, a3) <- multiblanks0 a2; Ok (tt, a3))
      = Ok (tt, mkin R (tail_pos L nosemi g q)).
  Proof.
    intros L [] g R q H Hb; unfold tail_txt, tail_pos.
    - rewrite H by reflexivity. rewrite app_nil_r_s.
      rewrite multiblanks0_spec. cbn [obind].
      rewrite <- (app_nil_r_s (gap_text (post_gap g))) at 1. rewrite skip_gap_nonblank by reflexivity.
      unfold end_of_statement, char_p, fail. cbn [rest at_ obind]. rewrite multiblanks0_spec. cbn [obind].
      rewrite skip_no_blank by reflexivity. reflexivity.
    - rewrite app_assoc_s. cbn [append]. rewrite multiblanks0_spec. cbn [obind].
      rewrite skip_gap_nonblank by (vm_compute; reflexivity).
      unfold end_of_statement, char_p. cbn [rest at_]. rewrite (proj2 (eqb_eq_a SEMI SEMI) eq_refl). cbn [obind].
      rewrite multiblanks0_spec. cbn [obind]. rewrite skip_gap_nonblank by assumption. reflexivity.
  Qed.

  Lemma stmt_txt_eq : forall lay nosemi s,
      stmt_txt lay nosemi s =
      match s with
      | CallVariant name _ e =>
          append (pieces_text (spell (nl_esc (lay [])) false name))
                 (append (gap_text (gap1 (nl_gap (lay []) 0)))
                         (append (txt (sub lay 0) 0 e) (tail_txt (lay []) nosemi (nl_gap (lay []) 2))))
      | NontermDef name _ sh rhs =>
          append (def_head_text name sh)
                 (append (gap_text (nl_gap (lay []) 0))
                    (append (if nl_flag (lay []) then EQ3 else EQ1)
                       (append (gap_text (nl_gap (lay []) 1))
                          (append (txt (sub lay 0) 0 rhs) (tail_txt (lay []) nosemi (nl_gap (lay []) 2))))))
      end.
  Proof. intros. destruct s; reflexivity. Qed.

  (** the expression of a statement *)
  Lemma stmt_expr : forall lay nosemi e R q m,
      wfb false e = true -> (nosemi = true -> R = EmptyString) ->
      (String.length (append (txt (sub lay 0) 0 e) (append (tail_txt (lay []) nosemi (nl_gap (lay []) 2)) R)) < m)%nat ->
      expr_p c (S m) (mkin (append (txt (sub lay 0) 0 e) (append (tail_txt (lay []) nosemi (nl_gap (lay []) 2)) R)) q)
      = Ok (fst (loc c (sub lay 0) 0 e q),
            mkin (append (tail_txt (lay []) nosemi (nl_gap (lay []) 2)) R) (snd (loc c (sub lay 0) 0 e q))).
  Proof.
    intros. rewrite expr_p_S.
    apply (expr_roundtrip c e (sub lay 0) 0%nat false q _ m); auto; [lia|].
    apply mstop_low; [lia|]. apply tail_st0; auto.
  Qed.

  Lemma stmt_first : forall lay nosemi s R, wf_stmt s = true ->
      exists ch t, append (stmt_txt lay nosemi s) R = String ch t /\ blank_start ch = false.
  Proof.
    intros lay nosemi s R W. rewrite stmt_txt_eq. destruct s as [name nsp e | name nsp sh rhs].
    - cbn [wf_stmt] in W. apply andb_true_iff in W as [Wn _].
      rewrite !app_assoc_s.
      destruct (spelled_first (nl_esc (lay [])) false name
                 (append (gap_text (gap1 (nl_gap (lay []) 0)))
                         (append (txt (sub lay 0) 0 e) (append (tail_txt (lay []) nosemi (nl_gap (lay []) 2)) R))) Wn)
        as (S1 & _ & _); [apply c4_lit_rest, gap1_c4|].
      destruct (append (pieces_text (spell (nl_esc (lay [])) false name)) _) as [|ch t]; [discriminate|].
      cbn [hd_is] in S1. exists ch, t. split; auto. apply ustart_facts in S1. tauto.
    - unfold def_head_text. cbn [append]. eexists; eexists; split; [reflexivity|]. vm_compute. reflexivity.
  Qed.

  Theorem stmt_parse : forall lay nosemi s R p m,
      wf_stmt s = true -> (nosemi = true -> R = EmptyString) -> nonblank R ->
      (String.length (append (stmt_txt lay nosemi s) R) < m)%nat ->
      statement_p c (expr_p c (S m)) (mkin (append (stmt_txt lay nosemi s) R) p)
      = Ok (fst (stmt_loc c lay nosemi s p), mkin R (snd (stmt_loc c lay nosemi s p))).
  Proof.
    intros lay nosemi s R p m W HR Hb Hn. rewrite stmt_txt_eq in *. unfold statement_p.
    destruct s as [name nsp e | name nsp sh rhs].
    - (* call variant *)
      cbn [wf_stmt] in W. apply andb_true_iff in W as [Wn We].
      rewrite !app_assoc_s in *. unfold call_variant.
      rewrite terminal_spelled; [|assumption|apply c4_lit_rest, gap1_c4]. cbn [obind].
      rewrite multiblanks1_spec. cbn [rest]. rewrite gap1_blank. cbn [obind].
      assert (Fo : first_ok (txt (sub lay 0) 0 e) (append (tail_txt (lay []) nosemi (nl_gap (lay []) 2)) R)).
      { apply (first_ok_any e _ 0%nat false); [lia|exact We|]. apply mstop_low; [lia|]. apply tail_st0; auto. }
      rewrite skip_gap_nonblank by (apply first_ok_hd; exact Fo).
      rewrite !length_app_s in Hn.
      rewrite stmt_expr; auto; [|rewrite !length_app_s; lia].
      cbn [stmt_loc].
      destruct (loc c (sub lay 0) 0 e _) as [e' p3]. cbn [obind fst snd].
      pose proof (tail_parse (lay []) nosemi (nl_gap (lay []) 2) R p3 HR Hb) as T.
      destruct (multiblanks0 (mkin (append (tail_txt (lay []) nosemi (nl_gap (lay []) 2)) R) p3)) as [[[] a1]| | |];
        cbn [obind] in T |- *; try discriminate.
      destruct (end_of_statement a1) as [[[] a2]| | |]; cbn [obind] in T |- *; try discriminate.
      destruct (multiblanks0 a2) as [[[] a3]| | |]; cbn [obind] in T |- *; try discriminate.
      inversion T; subst. rewrite from_range_pspan. reflexivity.
    - (* definition *)
      assert (CV : forall x q, call_variant c (expr_p c (S m)) (mkin (String LT x) q) = Err tt).
      { intros. unfold call_variant, terminal. rewrite terminal_spec.
        rewrite lex1_stop by (vm_compute; reflexivity). reflexivity. }
      unfold def_head_text in *. cbn [append] in Hn |- *. rewrite CV.
      unfold nonterm_def_statement, nonterm_def.
      assert (Fo : first_ok (txt (sub lay 0) 0 rhs) (append (tail_txt (lay []) nosemi (nl_gap (lay []) 2)) R)).
      { apply (first_ok_any rhs _ 0%nat false); [lia| |].
        - destruct sh as [[s0 ?]|]; cbn [wf_stmt] in W; repeat (apply andb_true_iff in W as [W ?]); auto.
        - apply mstop_low; [lia|]. apply tail_st0; auto. }
      assert (Weq : forall (fl : bool) x q,
                 nonblank x ->
                 (do (_, i3) <- (tag_p "::=" (mkin (append (if fl then EQ3 else EQ1) x) q)
                                 <|> tag_p "=" (mkin (append (if fl then EQ3 else EQ1) x) q));
                  do (_, i4) <- multiblanks0 i3; Ok (tt, i4))
                 = (do (_, i4) <- multiblanks0 (mkin x (adv_str (if fl then EQ3 else EQ1) q)); Ok (tt, i4))).
      { intros [] x q _; reflexivity. }
      destruct sh as [[shn ssp]|].
      + cbn [wf_stmt] in W. apply andb_true_iff in W as [W Wr]. apply andb_true_iff in W as [W Ws].
        apply andb_true_iff in W as [Wn Wa].
        rewrite ?app_assoc_s in *. cbn [append] in *. rewrite ?app_assoc_s in *. cbn [append] in *.
        rewrite nonterm_specialization_printed by assumption. cbn [obind].
        rewrite multiblanks0_spec. cbn [obind].
        rewrite skip_gap_nonblank by (destruct (nl_flag (lay [])); vm_compute; reflexivity).
        unfold tag_p. cbn [rest at_].
        destruct (nl_flag (lay [])) eqn:Fl.
        * change EQ3 with "::=". rewrite strip_prefix_self. cbn [obind].
          rewrite multiblanks0_spec. cbn [obind].
          rewrite skip_gap_nonblank by (apply first_ok_hd; exact Fo).
          len_norm Hn.
          rewrite stmt_expr; auto; [|rewrite !length_app_s; lia].
          cbn [stmt_loc]. rewrite Fl.
          destruct (loc c (sub lay 0) 0 rhs _) as [e' p5]. cbn [obind fst snd].
          pose proof (tail_parse (lay []) nosemi (nl_gap (lay []) 2) R p5 HR Hb) as T.
          destruct (multiblanks0 (mkin (append (tail_txt (lay []) nosemi (nl_gap (lay []) 2)) R) p5)) as [[[] a1]| | |];
            cbn [obind] in T |- *; try discriminate.
          destruct (end_of_statement a1) as [[[] a2]| | |]; cbn [obind] in T |- *; try discriminate.
          destruct (multiblanks0 a2) as [[[] a3]| | |]; cbn [obind] in T |- *; try discriminate.
          inversion T; subst. reflexivity.
        * change EQ1 with "=". cbn [append strip_prefix]. 
          replace (Ascii.eqb ":" "=") with false by (vm_compute; reflexivity).
          rewrite (proj2 (eqb_eq_a "="%char "="%char) eq_refl). unfold fail. cbn [obind].
          rewrite multiblanks0_spec. cbn [obind].
          rewrite skip_gap_nonblank by (apply first_ok_hd; exact Fo).
          len_norm Hn.
          rewrite stmt_expr; auto; [|rewrite !length_app_s; lia].
          cbn [stmt_loc]. rewrite Fl.
          destruct (loc c (sub lay 0) 0 rhs _) as [e' p5]. cbn [obind fst snd].
          pose proof (tail_parse (lay []) nosemi (nl_gap (lay []) 2) R p5 HR Hb) as T.
          destruct (multiblanks0 (mkin (append (tail_txt (lay []) nosemi (nl_gap (lay []) 2)) R) p5)) as [[[] a1]| | |];
            cbn [obind] in T |- *; try discriminate.
          destruct (end_of_statement a1) as [[[] a2]| | |]; cbn [obind] in T |- *; try discriminate.
          destruct (multiblanks0 a2) as [[[] a3]| | |]; cbn [obind] in T |- *; try discriminate.
          inversion T; subst. reflexivity.
      + cbn [wf_stmt] in W. apply andb_true_iff in W as [W Wr]. apply andb_true_iff in W as [Wn Wa].
        rewrite ?app_assoc_s in *. cbn [append] in *. rewrite ?app_assoc_s in *. cbn [append] in *.
        rewrite nonterm_specialization_plain by assumption.
        rewrite nonterm_printed by assumption. cbn [obind].
        rewrite multiblanks0_spec. cbn [obind].
        rewrite skip_gap_nonblank by (destruct (nl_flag (lay [])); vm_compute; reflexivity).
        unfold tag_p. cbn [rest at_].
        destruct (nl_flag (lay [])) eqn:Fl.
        * change EQ3 with "::=". rewrite strip_prefix_self. cbn [obind].
          rewrite multiblanks0_spec. cbn [obind].
          rewrite skip_gap_nonblank by (apply first_ok_hd; exact Fo).
          len_norm Hn.
          rewrite stmt_expr; auto; [|rewrite !length_app_s; lia].
          cbn [stmt_loc]. rewrite Fl.
          destruct (loc c (sub lay 0) 0 rhs _) as [e' p5]. cbn [obind fst snd].
          pose proof (tail_parse (lay []) nosemi (nl_gap (lay []) 2) R p5 HR Hb) as T.
          destruct (multiblanks0 (mkin (append (tail_txt (lay []) nosemi (nl_gap (lay []) 2)) R) p5)) as [[[] a1]| | |];
            cbn [obind] in T |- *; try discriminate.
          destruct (end_of_statement a1) as [[[] a2]| | |]; cbn [obind] in T |- *; try discriminate.
          destruct (multiblanks0 a2) as [[[] a3]| | |]; cbn [obind] in T |- *; try discriminate.
          inversion T; subst. reflexivity.
        * change EQ1 with "=". cbn [append strip_prefix].
          replace (Ascii.eqb ":" "=") with false by (vm_compute; reflexivity).
          rewrite (proj2 (eqb_eq_a "="%char "="%char) eq_refl). unfold fail. cbn [obind].
          rewrite multiblanks0_spec. cbn [obind].
          rewrite skip_gap_nonblank by (apply first_ok_hd; exact Fo).
          len_norm Hn.
          rewrite stmt_expr; auto; [|rewrite !length_app_s; lia].
          cbn [stmt_loc]. rewrite Fl.
          destruct (loc c (sub lay 0) 0 rhs _) as [e' p5]. cbn [obind fst snd].
          pose proof (tail_parse (lay []) nosemi (nl_gap (lay []) 2) R p5 HR Hb) as T.
          destruct (multiblanks0 (mkin (append (tail_txt (lay []) nosemi (nl_gap (lay []) 2)) R) p5)) as [[[] a1]| | |];
            cbn [obind] in T |- *; try discriminate.
          destruct (end_of_statement a1) as [[[] a2]| | |]; cbn [obind] in T |- *; try discriminate.
          destruct (multiblanks0 a2) as [[[] a3]| | |]; cbn [obind] in T |- *; try discriminate.
          inversion T; subst. reflexivity.
  Qed.
End Stmt.

Section Grammar.
  Variable c : cfg.

  Lemma statement_fails_empty : forall ex p, statement_p c ex (mkin EmptyString p) = Err tt.
  Proof.
    intros. unfold statement_p, call_variant, terminal. rewrite terminal_spec. cbn [lex1 obind].
    unfold nonterm_def_statement, nonterm_def, nonterm_specialization, nonterm, char_p. cbn [rest obind fail].
    reflexivity.
  Qed.

  Lemma stmt_txt_nonempty : forall lay nosemi s, wf_stmt s = true ->
      (0 < String.length (stmt_txt lay nosemi s))%nat.
  Proof.
    intros lay nosemi s W. destruct (stmt_first lay nosemi s EmptyString W) as (ch & t & E & _).
    rewrite app_nil_r_s in E. rewrite E. cbn. lia.
  Qed.

  Lemma stmts_nonblank : forall lay fs k g, forallb wf_stmt g = true -> nonblank (stmts_txt lay fs k g).
  Proof.
    intros lay fs k [|s r] W; [reflexivity|]. cbn [forallb] in W. apply andb_true_iff in W as [Ws _].
    cbn [stmts_txt]. destruct (stmt_first (sub lay k) (negb fs && match r with [] => true | _ => false end) s
                                 (stmts_txt lay fs (S k) r) Ws) as (ch & t & E & B).
    unfold nonblank. rewrite E. cbn [hd_in]. rewrite B. reflexivity.
  Qed.

  Lemma many0_stmts : forall g lay fs k p m fuel,
      forallb wf_stmt g = true ->
      (String.length (stmts_txt lay fs k g) < m)%nat -> (String.length (stmts_txt lay fs k g) < fuel)%nat ->
      exists q, many0_p fuel (statement_p c (expr_p c (S m))) (mkin (stmts_txt lay fs k g) p)
                = Ok (stmts_loc c lay fs k g p, mkin EmptyString q).
  Proof.
    induction g as [|s r IH]; intros lay fs k p m fuel W Hm Hf.
    - destruct fuel; [cbn in Hf; lia|]. cbn [stmts_txt many0_p stmts_loc].
      rewrite statement_fails_empty. eexists; reflexivity.
    - destruct fuel; [lia|]. cbn [forallb] in W. apply andb_true_iff in W as [Ws Wr].
      cbn [stmts_txt many0_p stmts_loc] in *.
      set (nosemi := negb fs && match r with [] => true | _ => false end) in *.
      assert (HR : nosemi = true -> stmts_txt lay fs (S k) r = EmptyString).
      { subst nosemi. intros E. apply andb_true_iff in E as [_ E]. destruct r; [reflexivity|discriminate]. }
      rewrite (stmt_parse c (sub lay k) nosemi s _ p m Ws HR (stmts_nonblank lay fs (S k) r Wr) Hm).
      pose proof (stmt_txt_nonempty (sub lay k) nosemi s Ws) as Ne.
      rewrite length_app_s in Hm, Hf.
      destruct (stmt_loc c (sub lay k) nosemi s p) as [s' p1]. cbn [fst snd rest].
      rewrite length_app_s.
      destruct (Nat.eqb (String.length (stmts_txt lay fs (S k) r))
                        (String.length (stmt_txt (sub lay k) nosemi s) + String.length (stmts_txt lay fs (S k) r))) eqn:E.
      { apply Nat.eqb_eq in E. lia. }
      destruct (IH lay fs (S k) p1 m fuel Wr ltac:(lia) ltac:(lia)) as [q Hq].
      rewrite Hq. eexists; reflexivity.
  Qed.

  (** The round trip for grammars, for either configuration of the terminal lexer. *)
  Theorem roundtrip_cfg : forall g lay, wf g -> parse_with c (text g lay) = Ok (located_with c g lay).
  Proof.
    intros g lay W. unfold wf in W. unfold parse_with, grammar_p, text, located_with, start.
    rewrite multiblanks0_spec.
    rewrite skip_gap_nonblank by (apply stmts_nonblank; exact W).
    set (g0 := gap_text (nl_gap (lay []) 0)).
    set (body := stmts_txt lay (nl_flag (lay [])) 0 g).
    destruct (many0_stmts g lay (nl_flag (lay [])) 0 (adv_str g0 pos0) (S (String.length (append g0 body)))
                (S (S (String.length (append g0 body)))) W) as [q Hq].
    { fold body. rewrite length_app_s. lia. }
    { fold body. rewrite length_app_s. lia. }
    fold body in Hq. rewrite Hq.
    rewrite multiblanks0_spec. rewrite skip_no_blank by reflexivity. cbn [rest]. reflexivity.
  Qed.

  (** locating only changes spans *)
  Lemma erase_stmt_loc : forall lay nosemi s p, erase_stmt (fst (stmt_loc c lay nosemi s p)) = erase_stmt s.
  Proof.
    intros. destruct s as [name nsp e | name nsp sh rhs]; cbn [stmt_loc].
    - pose proof (erase_loc c (sub lay 0) 0 e
                   (adv_str (gap_text (gap1 (nl_gap (lay []) 0))) (pieces_adv c (spell (nl_esc (lay [])) false name) p))) as E.
      destruct (loc c (sub lay 0) 0 e _) as [e' p3]. cbn [fst erase_stmt] in *. rewrite E. reflexivity.
    - destruct sh as [[sn ssp]|].
      + match goal with |- context [loc c (sub lay 0) 0 rhs ?q] => pose proof (erase_loc c (sub lay 0) 0 rhs q) as E;
          destruct (loc c (sub lay 0) 0 rhs q) as [e' p5] end.
        cbn [fst erase_stmt] in *. rewrite E. reflexivity.
      + match goal with |- context [loc c (sub lay 0) 0 rhs ?q] => pose proof (erase_loc c (sub lay 0) 0 rhs q) as E;
          destruct (loc c (sub lay 0) 0 rhs q) as [e' p5] end.
        cbn [fst erase_stmt] in *. rewrite E. reflexivity.
  Qed.

  Lemma erase_stmts_loc : forall g lay fs k p, erase_grammar (stmts_loc c lay fs k g p) = erase_grammar g.
  Proof.
    induction g as [|s r IH]; intros; [reflexivity|]. cbn [stmts_loc].
    pose proof (erase_stmt_loc (sub lay k) (negb fs && match r with [] => true | _ => false end) s p) as E.
    destruct (stmt_loc c (sub lay k) _ s p) as [s' p1]. cbn [fst] in E.
    unfold erase_grammar in *. cbn [map]. rewrite E, IH. reflexivity.
  Qed.

  Theorem erase_located : forall g lay, erase_grammar (located_with c g lay) = erase_grammar g.
  Proof. intros. unfold located_with. apply erase_stmts_loc. Qed.
End Grammar.
