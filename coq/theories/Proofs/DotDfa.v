(** C16: the graph read back from the text the (patched) model of [DFA::to_dot] writes. *)
From Coq Require Import Permutation.
From CG Require Import Base.Prelude Model.Dfa Spec.DotRead Spec.DotSpec Model.Dot
     Proofs.DotLex Proofs.DotParse Proofs.DotSem Proofs.DotNames Proofs.DotStates Proofs.DotDfaItems
     Proofs.DotDfaSem.
Local Open Scope string_scope.

(** ** Names in use *)
Definition named_by (S : list string) (l : list string) : Prop :=
  forall i, In i l -> exists p' n, In p' S /\ prefix_ok p' /\ i = node_id p' n.

Lemma named_fresh S l p s : named_by S l -> prefix_ok p -> ~ In p S -> ~ In (node_id p s) l.
Proof.
  intros Hn Hp Hs Hi. destruct (Hn _ Hi) as [p' [n [Hin [Hp' E]]]].
  destruct (node_id_inj _ _ _ _ Hp Hp' E) as [-> _]. contradiction.
Qed.

Lemma named_app S l1 l2 : named_by S l1 -> named_by S l2 -> named_by S (l1 ++ l2).
Proof. intros H1 H2 i Hi. apply in_app_or in Hi as [Hi|Hi]; [now apply H1|now apply H2]. Qed.

Lemma named_weaken S S' l : (forall p, In p S -> In p S') -> named_by S l -> named_by S' l.
Proof. intros Hs H i Hi. destruct (H i Hi) as [p' [n [A [B C]]]]. exists p', n. auto. Qed.

Definition names (base : N) (p : string) (d : dfa) : list string :=
  map (fun s => node_id p (s + base)) (st_list d).

Lemma names_named base p d : prefix_ok p -> named_by [p] (names base p d).
Proof.
  intros Hp i Hi. apply in_map_iff in Hi as [s [<- _]]. exists p, (s + base). split; [now left|now split].
Qed.

Lemma ids_x_nodes base p d l : ids (map (x_node base p d) l) = map (fun s => node_id p (s + base)) l.
Proof. unfold ids. rewrite map_map. reflexivity. Qed.

Lemma names_nodup base p d : prefix_ok p -> NoDup (d_accepting d) -> NoDup (names base p d).
Proof.
  intros Hp Ha. apply FinFun.Injective_map_NoDup; [|now apply st_list_nodup].
  intros a b E. exact (nm_inj base p _ _ Hp E).
Qed.

(** ** Edges of one automaton *)
Lemma trans_in_states d t :
  In t (iter_transitions d) -> In (fst (fst t)) (trans_states d) /\ In (snd t) (trans_states d).
Proof.
  unfold iter_transitions, trans_states. intro H. apply in_flat_map in H as [row [Hrow Ht]].
  apply in_map_iff in Ht as [q [<- Hq]]. cbn [fst snd]. split; apply in_flat_map; exists row; (split; [exact Hrow|]).
  - now left.
  - right. apply in_map_iff. now exists q.
Qed.

Definition x_edge_list (base : N) (subs : list dfa) (ids' : list (N * N)) (d : dfa) (p : string)
  : list (string * string * attrs) :=
  map conv (flat_map (x_edges base subs ids' d p) (iter_transitions d)).

Lemma run_edge_items base subs ids' d p o sc :
  s_edef sc = [] ->
  (forall e, In e (x_edge_list base subs ids' d p) ->
             (In (fst (fst e)) (ids (o_nodes o)) /\ In (fst (fst e)) (s_members sc))
             /\ (In (snd (fst e)) (ids (o_nodes o)) /\ In (snd (fst e)) (s_members sc))) ->
  run_stmts (items_stmts (map edge_item (flat_map (x_edges base subs ids' d p) (iter_transitions d)))) (o, sc)
  = (mkobjs (o_nodes o) (o_edges o ++ map edge_of (x_edge_list base subs ids' d p)), sc).
Proof. intros He Hex. rewrite stmts_edge_items. exact (run_edges _ o sc He Hex). Qed.

(** end points of the edges of a within-word automaton: its own states *)
Lemma sub_edge_ends base sd p e :
  In e (x_edge_list base [] [] sd p) ->
  In (fst (fst e)) (names base p sd) /\ In (snd (fst e)) (names base p sd).
Proof.
  unfold x_edge_list. intro H. apply in_map_iff in H as [e4 [<- H]].
  apply in_flat_map in H as [t [Ht H]]. unfold x_edges in H.
  destruct (trans_in_states sd t Ht) as [Hf Hto].
  assert (Hn : forall s, In s (trans_states sd) -> In (node_id p (s + base)) (names base p sd)).
  { intros s Hs. apply in_map_iff. exists s. split; [reflexivity|]. apply st_list_in. auto. }
  destruct (nthN (d_inputs sd) (snd (fst t))) as [x|]; [|destruct H].
  destruct x as [t' dd l|k l|cm l|cm l|].
  2:{ destruct (nthN [] k); destruct H. }
  all: match type of H with context [display ?x] => destruct (display x) end; [|destruct H].
  all: destruct H as [<-|[]]; cbn [conv fst snd]; split; now apply Hn.
Qed.

(** ** A cluster *)
Definition sub_nodes (base : N) (q : N * dfa) : list gnode :=
  map (x_node base (sub_pre (fst q)) (snd q)) (st_list (snd q)).
Definition sub_names (base : N) (q : N * dfa) : list string := names base (sub_pre (fst q)) (snd q).
Definition sub_edges (base : N) (q : N * dfa) : list gedge :=
  map edge_of (x_edge_list base [] [] (snd q) (sub_pre (fst q))).
Definition sub_cluster (base : N) (q : N * dfa) : cluster :=
  Cluster (Some ("cluster_" ++ dec (fst q)))
          [("label", "subword " ++ dec (fst q)); ("color", "grey91"); ("style", "filled")]
          (sub_names base q) [].

Lemma subword_label_qdec id : qdec ("subword " ++ dec id) = "subword " ++ dec id.
Proof.
  apply plain_body. rewrite all_chars_app. exact (all_chars_impl _ _ _ digit_plain (dec_digits _)).
Qed.

Lemma run_cluster base q o sc :
  NoDup (d_accepting (snd q)) ->
  one_shape (s_ndef sc) -> s_edef sc = [] -> NoDup (ids (o_nodes o)) ->
  (forall s, ~ In (node_id (sub_pre (fst q)) s) (ids (o_nodes o))
             /\ ~ In (node_id (sub_pre (fst q)) s) (s_members sc)) ->
  run_stmts (item_stmts (x_cluster base q)) (o, sc)
  = (mkobjs (o_nodes o ++ sub_nodes base q) (o_edges o ++ sub_edges base q),
     mkscope (s_ndef sc) (s_edef sc) (s_gattrs sc) (s_members sc ++ sub_names base q)
             (s_subs sc ++ [sub_cluster base q])).
Proof.
  intros Hacc H1 He Hnd Hf. destruct q as [id sd]. cbn [fst snd] in *.
  unfold x_cluster, cluster_block. cbn [item_stmts fst snd].
  change (flat_map item_stmts ?l) with (items_stmts l).
  cbn [run_stmts fold_left]. rewrite run_sub.
  change (items_stmts (ILine (LAssignQ "label" ("subword " ++ dec id))
                       :: ILine (LAssign "color" "grey91") :: ILine (LAssign "style" "filled")
                       :: x_sub_items base sd (sub_pre id)))
    with (SAssign "label" (qdec ("subword " ++ dec id)) :: SAssign "color" "grey91" :: SAssign "style" "filled"
          :: items_stmts (x_sub_items base sd (sub_pre id))).
  rewrite subword_label_qdec. rewrite !run_stmts_cons. cbn [run_stmt s_ndef s_edef s_gattrs s_members s_subs set_attr].
  change (String.eqb "color" "label") with false. change (String.eqb "style" "label") with false.
  change (String.eqb "style" "color") with false. cbn match.
  unfold x_sub_items. rewrite items_stmts_app, run_stmts_app.
  rewrite (run_node_lines base sd (sub_pre id)); cbn [s_ndef s_edef s_gattrs s_members s_subs o_nodes o_edges];
    [|constructor|exact Hacc|exact H1|exact Hnd|intro s; split; [apply Hf|intros []]].
  rewrite run_edge_items; cbn [s_ndef s_edef s_gattrs s_members s_subs o_nodes o_edges].
  - rewrite add_members_fresh.
    + reflexivity.
    + apply names_nodup; [constructor|exact Hacc].
    + intros i Hi. apply in_map_iff in Hi as [s [<- _]]. apply Hf.
  - exact He.
  - intros e Hin. destruct (sub_edge_ends base sd (sub_pre id) e Hin) as [A B].
    rewrite ids_app, ids_x_nodes. fold (names base (sub_pre id) sd).
    repeat split; try (apply in_or_app; right); assumption.
Qed.

(** ** All clusters *)
Lemma run_clusters base qs : forall o sc S,
  (forall q, In q qs -> NoDup (d_accepting (snd q))) ->
  NoDup (map fst qs) ->
  one_shape (s_ndef sc) -> s_edef sc = [] -> NoDup (ids (o_nodes o)) ->
  named_by S (ids (o_nodes o)) -> named_by S (s_members sc) ->
  (forall q, In q qs -> ~ In (sub_pre (fst q)) S) ->
  run_stmts (items_stmts (map (x_cluster base) qs)) (o, sc)
  = (mkobjs (o_nodes o ++ flat_map (sub_nodes base) qs) (o_edges o ++ flat_map (sub_edges base) qs),
     mkscope (s_ndef sc) (s_edef sc) (s_gattrs sc) (s_members sc ++ flat_map (sub_names base) qs)
             (s_subs sc ++ map (sub_cluster base) qs)).
Proof.
  induction qs as [|q r IH]; intros o sc S Hacc Hnd H1 He Hn Hno Hnm Hs.
  - cbn. rewrite !app_nil_r. destruct o, sc. reflexivity.
  - cbn [map]. change (items_stmts (x_cluster base q :: map (x_cluster base) r))
      with (item_stmts (x_cluster base q) ++ items_stmts (map (x_cluster base) r))%list.
    rewrite run_stmts_app.
    assert (Hfq : forall s, ~ In (node_id (sub_pre (fst q)) s) (ids (o_nodes o))
                            /\ ~ In (node_id (sub_pre (fst q)) s) (s_members sc)).
    { intro s. split; (eapply named_fresh; [eassumption|constructor|apply Hs; now left]). }
    rewrite (run_cluster base q o sc (Hacc q (or_introl eq_refl)) H1 He Hn Hfq).
    inversion Hnd as [|? ? Hq Hr]; subst.
    rewrite (IH _ _ (sub_pre (fst q) :: S)); cbn [o_nodes o_edges s_ndef s_edef s_gattrs s_members s_subs].
    + cbn [flat_map map]. rewrite <- !app_assoc. reflexivity.
    + intros q' Hq'. apply Hacc. now right.
    + exact Hr.
    + exact H1.
    + exact He.
    + rewrite ids_app. apply NoDup_app_intro; [exact Hn| |].
      * unfold sub_nodes. rewrite ids_x_nodes. apply names_nodup; [constructor|apply Hacc; now left].
      * intros x Hx Hx'. unfold sub_nodes in Hx'. rewrite ids_x_nodes in Hx'.
        apply in_map_iff in Hx' as [s [<- _]]. now apply (proj1 (Hfq (s + base))).
    + rewrite ids_app. apply named_app.
      * eapply named_weaken; [|exact Hno]. intros p Hp. now right.
      * unfold sub_nodes. rewrite ids_x_nodes. eapply named_weaken; [|apply names_named; constructor].
        intros p [<-|[]]. now left.
    + apply named_app.
      * eapply named_weaken; [|exact Hnm]. intros p Hp. now right.
      * eapply named_weaken; [|apply names_named; constructor]. intros p [<-|[]]. now left.
    + intros q' Hq' [E|Hin].
      * apply sub_pre_inj in E. apply Hq. rewrite E. now apply in_map.
      * apply (Hs q'); [now right|exact Hin].
Qed.

(** ** The whole graph *)
Definition x_graph (base : N) (c : cdfa) : graph :=
  mkgraph false true (Some "dfa") [("rankdir", "LR")]
          (map (x_node base "" (c_main c)) (st_list (c_main c)) ++ flat_map (sub_nodes base) (used base c))
          (flat_map (sub_edges base) (used base c)
           ++ map edge_of (x_edge_list base (c_subs c) (sub_ids base (c_main c)) (c_main c) ""))
          (map (sub_cluster base) (used base c)).

Lemma used_in base c id sd :
  In (id, sd) (used base c) <-> exists k, In (k, id) (sub_ids base (c_main c)) /\ nthN (c_subs c) k = Some sd.
Proof.
  unfold used. rewrite in_flat_map. split.
  - intros [[k id'] [Hin H]]. cbn [fst snd] in H. destruct (nthN (c_subs c) k) as [sd'|] eqn:E; [|destruct H].
    destruct H as [H|[]]. injection H as -> ->. now exists k.
  - intros [k [Hin E]]. exists (k, id). split; [exact Hin|]. cbn [fst snd]. rewrite E. now left.
Qed.

Lemma used_wf base c q :
  wf_cdfa c = true -> In q (used base c) -> wf_dfa (snd q) = true /\ no_sub_trans (snd q) = true.
Proof.
  intros Hwf Hq. destruct q as [id sd]. apply used_in in Hq as [k [Hin E]].
  destruct (sub_ids_used c base k id Hin) as [t [l [Ht Ei]]].
  destruct (wf_used c t k l Hwf Ht Ei) as [sd' [E' [A B]]]. rewrite E in E'. injection E' as <-. now split.
Qed.

Lemma wf_dfa_acc d : wf_dfa d = true -> NoDup (d_accepting d).
Proof. unfold wf_dfa. intro H. apply andb_true_iff in H as [_ H]. now apply nodupb_NoDup. Qed.

Lemma used_ids_nodup base c : NoDup (map fst (used base c)).
Proof.
  unfold used, sub_ids. generalize (sub_order (c_main c)). intro l. generalize base at 1. intro n.
  revert n. induction l as [|k r IH]; intro n; cbn [number_from flat_map]; [constructor|].
  rewrite map_app. destruct (number_from_ids r (n + 1)) as [_ Hge].
  assert (Hlt : forall id, In id (map fst (flat_map (fun p : N * N => match nthN (c_subs c) (fst p) with
                                                     | Some sd => [(snd p, sd)] | None => [] end)
                                                    (number_from (n + 1) r))) -> (n + 1 <= id)%N).
  { intros id Hid. apply in_map_iff in Hid as [[id' sd] [<- Hin]]. apply in_flat_map in Hin as [[k' id''] [Hin H]].
    cbn [fst snd] in H. destruct (nthN (c_subs c) k'); [|destruct H]. destruct H as [H|[]]. injection H as -> _.
    cbn [fst]. exact (Hge _ _ Hin). }
  cbn [fst snd]. destruct (nthN (c_subs c) k) as [sd|]; cbn [map app fst]; [|apply IH].
  constructor; [|apply IH]. intro H. specialize (Hlt _ H). lia.
Qed.

Lemma sub_assoc_in {V} k (v : V) l : assocN k l = Some v -> In (k, v) l.
Proof.
  induction l as [|[k' v'] r IH]; [discriminate|]. cbn. destruct (k =? k')%N eqn:E.
  - intro H. injection H as ->. apply N.eqb_eq in E. subst. now left.
  - intro H. right. now apply IH.
Qed.

(** end points of the edges of the main automaton: its states and the states of used clusters *)
Lemma main_edge_ends base c e :
  In e (x_edge_list base (c_subs c) (sub_ids base (c_main c)) (c_main c) "") ->
  let all := (names base "" (c_main c) ++ flat_map (sub_names base) (used base c))%list in
  In (fst (fst e)) all /\ In (snd (fst e)) all.
Proof.
  unfold x_edge_list. intro H. apply in_map_iff in H as [e4 [<- H]].
  apply in_flat_map in H as [t [Ht H]]. unfold x_edges in H.
  destruct (trans_in_states (c_main c) t Ht) as [Hf Hto].
  assert (Hn : forall s, In s (trans_states (c_main c)) ->
                         In (node_id "" (s + base))
                            (names base "" (c_main c) ++ flat_map (sub_names base) (used base c))).
  { intros s Hs. apply in_or_app. left. apply in_map_iff. exists s. split; [reflexivity|]. apply st_list_in. auto. }
  cbv zeta.
  destruct (nthN (d_inputs (c_main c)) (snd (fst t))) as [x|]; [|destruct H].
  destruct x as [t' dd l|k l|cm l|cm l|].
  2:{ destruct (nthN (c_subs c) k) as [sd|] eqn:Esd; [|destruct H].
      destruct (assocN k (sub_ids base (c_main c))) as [id|] eqn:Eid; [|destruct H].
      assert (Hu : In (id, sd) (used base c)).
      { apply used_in. exists k. split; [now apply sub_assoc_in|exact Esd]. }
      assert (Hs : forall s, In s (st_list sd) ->
                             In (node_id (sub_pre id) (s + base))
                                (names base "" (c_main c) ++ flat_map (sub_names base) (used base c))).
      { intros s Hs. apply in_or_app. right. apply in_flat_map. exists (id, sd). split; [exact Hu|].
        apply in_map_iff. now exists s. }
      destruct H as [<-|H].
      - cbn [conv fst snd]. split; [now apply Hn|]. apply Hs. now left.
      - apply in_map_iff in H as [a [<- Ha]]. cbn [conv fst snd]. split; [|now apply Hn].
        apply Hs. apply st_list_in. auto. }
  all: match type of H with context [display ?x] => destruct (display x) end; [|destruct H].
  all: destruct H as [<-|[]]; cbn [conv fst snd]; split; now apply Hn.
Qed.

Lemma graph_of_x_items base c :
  wf_cdfa c = true ->
  graph_of_ast (mkast false true (Some "dfa") (items_stmts (x_items base c))) = x_graph base c.
Proof.
  intro Hwf. unfold graph_of_ast, x_items. cbn [a_body a_strict a_directed a_name].
  change (items_stmts (ILine (LAssign "rankdir" "LR") :: ?l)) with (SAssign "rankdir" "LR" :: items_stmts l).
  rewrite run_stmts_cons. cbn [run_stmt s_ndef s_edef s_gattrs s_members s_subs set_attr].
  rewrite !items_stmts_app, !run_stmts_app.
  pose proof Hwf as Hwf'. unfold wf_cdfa in Hwf'. apply andb_true_iff in Hwf' as [Hm _].
  pose proof (wf_dfa_acc _ Hm) as Hacc.
  rewrite (run_node_lines base (c_main c) ""); cbn [s_ndef s_edef s_gattrs s_members s_subs o_nodes o_edges];
    [|constructor|exact Hacc|now left|constructor|intro s; split; intros []].
  rewrite !app_nil_l.
  rewrite (run_clusters base (used base c) _ _ [""]);
    cbn [s_ndef s_edef s_gattrs s_members s_subs o_nodes o_edges].
  - rewrite run_edge_items; cbn [s_ndef s_edef s_gattrs s_members s_subs o_nodes o_edges].
    + reflexivity.
    + reflexivity.
    + intros e He. destruct (main_edge_ends base c e He) as [A B]. cbv zeta in A, B.
      rewrite ids_app, ids_x_nodes. fold (names base "" (c_main c)).
      assert (Hids : ids (flat_map (sub_nodes base) (used base c)) = flat_map (sub_names base) (used base c)).
      { unfold ids. rewrite flat_map_concat_map, concat_map, map_map, <- flat_map_concat_map.
        apply flat_map_ext. intro q. unfold sub_nodes. apply ids_x_nodes. }
      rewrite Hids. repeat split; assumption.
  - intros q Hq. apply wf_dfa_acc. exact (proj1 (used_wf base c q Hwf Hq)).
  - apply used_ids_nodup.
  - right. now exists "doublecircle".
  - reflexivity.
  - rewrite ids_x_nodes. apply (names_nodup base "" (c_main c)); [constructor|exact Hacc].
  - rewrite ids_x_nodes. apply (names_named base "" (c_main c)). constructor.
  - apply (names_named base "" (c_main c)). constructor.
  - intros q _ [E|[]]. symmetry in E. exact (sub_pre_not_main _ E).
Qed.
