(** [Diag.render] never panics on a span that starts at a byte of the text, and the line it quotes
    contains that byte (unless the byte is itself a line terminator). *)
From CG Require Import Base.Prelude Model.Ast Model.Lexer Model.Parser Model.Diag Spec.Spans
  Proofs.LexBase Proofs.LexCommand Proofs.SpanSound.

(** *** positions *)

Lemma adv_char_facts : forall c p, pline p <= pline (adv_char c p) /\ 1 <= pcol (adv_char c p).
Proof. intros c [l k]. unfold adv_char. cbn. destruct (Ascii.eqb c LF); cbn; lia. Qed.

Lemma adv_str_line_mono : forall w p, pline p <= pline (adv_str w p).
Proof. induction w; intros p; cbn [adv_str]; [lia|]. pose proof (adv_char_facts a p). specialize (IHw (adv_char a p)). lia. Qed.

Lemma adv_str_col_pos : forall w p, 1 <= pcol p -> 1 <= pcol (adv_str w p).
Proof. induction w; intros p H; cbn [adv_str]; auto. apply IHw. apply adv_char_facts. Qed.

Lemma span_ok_pos_ok : forall s sp, span_ok s sp -> pos_ok s sp.
Proof.
  intros s sp ([r q] & [r' q'] & (pre & E & Q) & (w & Nw & Ew & Pw) & ->). cbn [rest at_] in *.
  exists pre, r. unfold from_range. cbn [at_ sline scol secol]. subst q. repeat split; auto.
  - intros ->. destruct w; [congruence|discriminate].
  - rewrite Pw. apply adv_str_col_pos. apply adv_str_col_pos. cbn. lia.
Qed.

(** *** strings *)

Lemma get_lt : forall s k ch, String.get k s = Some ch -> (k < String.length s)%nat.
Proof. induction s; intros k ch H; [discriminate|]. destruct k; cbn in *; [lia|]. apply IHs in H. lia. Qed.

Lemma get_app_l : forall s t k ch, String.get k s = Some ch -> String.get k (append s t) = Some ch.
Proof. intros. rewrite <- append_correct1; auto. eapply get_lt; eauto. Qed.

Lemma get_snoc : forall s ch, String.get (String.length s) (append s (String ch EmptyString)) = Some ch.
Proof. induction s; intros; cbn; auto. Qed.

Lemma get_snoc_inv : forall s c k ch, String.get k (append s (String c EmptyString)) = Some ch -> ch <> c ->
    String.get k s = Some ch.
Proof.
  induction s; intros c k ch H N; cbn [append] in H.
  - destruct k; cbn in H; [inversion H; congruence|destruct k; discriminate].
  - destruct k; cbn in *; auto. eapply IHs; eauto.
Qed.

Lemma get_strip_cr : forall s k ch, String.get k s = Some ch -> ch <> CR -> String.get k (strip_cr s) = Some ch.
Proof.
  intros s k ch H N. unfold strip_cr. destruct (srev s) as [|c r] eqn:E; auto.
  destruct (Ascii.eqb c CR) eqn:C; auto. apply eqb_eq_a in C. subst c.
  assert (Es : s = append (srev r) (String CR EmptyString)).
  { rewrite <- (srev_involutive s), E, srev_cons. reflexivity. }
  rewrite Es in H. eapply get_snoc_inv; eauto.
Qed.

(** *** [str::lines] *)

Lemma lines_acc_nonempty : forall s cur, cur <> EmptyString -> exists ln tl, lines_acc cur s = ln :: tl.
Proof.
  induction s; intros cur H; cbn [lines_acc].
  - destruct cur; [congruence|]. eauto.
  - destruct (Ascii.eqb a LF); eauto. apply IHs. destruct cur; discriminate.
Qed.

(** a byte of the current line that is not a CR is in the line once it is emitted *)
Lemma lines_acc_keeps : forall s cur k ch, String.get k cur = Some ch -> ch <> CR ->
    exists ln tl, lines_acc cur s = ln :: tl /\ String.get k ln = Some ch.
Proof.
  induction s; intros cur k ch H N; cbn [lines_acc].
  - destruct cur; [discriminate|]. eauto.
  - destruct (Ascii.eqb a LF).
    + eexists; eexists; split; [reflexivity|]. apply get_strip_cr; auto.
    + apply IHs; auto. apply get_app_l; auto.
Qed.

Lemma lines_acc_pos : forall pre cur rest l, rest <> EmptyString ->
    let p := adv_str pre (mkpos l (N.of_nat (String.length cur) + 1)) in
    exists ln, nth_error (lines_acc cur (append pre rest)) (N.to_nat (pline p - l)) = Some ln
               /\ (forall b r, rest = String b r -> b <> LF -> b <> CR ->
                               String.get (N.to_nat (pcol p - 1)) ln = Some b).
Proof.
  induction pre as [|c pre IH]; intros cur rest l Hr; cbv zeta.
  - cbn [adv_str append pline pcol]. rewrite N.sub_diag. cbn [N.to_nat nth_error].
    replace (N.to_nat (N.of_nat (String.length cur) + 1 - 1)) with (String.length cur) by lia.
    destruct rest as [|b r]; [congruence|]. cbn [lines_acc].
    destruct (Ascii.eqb b LF) eqn:B.
    + eexists; split; [reflexivity|]. intros b0 r0 E N1 _. inversion E; subst. apply eqb_eq_a in B. congruence.
    + destruct (Ascii.eqb b CR) eqn:C.
      * destruct (lines_acc_nonempty r (append cur (String b EmptyString))) as (ln & tl & E);
          [destruct cur; discriminate|].
        rewrite E. exists ln. split; auto. intros b0 r0 E0 _ N2. inversion E0; subst. apply eqb_eq_a in C. congruence.
      * destruct (lines_acc_keeps r (append cur (String b EmptyString)) (String.length cur) b (get_snoc _ _))
          as (ln & tl & E & G); [intros ->; rewrite (proj2 (eqb_eq_a CR CR) eq_refl) in C; discriminate|].
        rewrite E. exists ln. split; auto. intros b0 r0 E0 _ _. inversion E0; subst. exact G.
  - cbn [adv_str append lines_acc].
    destruct (Ascii.eqb c LF) eqn:C.
    + assert (Ha : adv_char c (mkpos l (N.of_nat (String.length cur) + 1)) = mkpos (l + 1) 1)
        by (unfold adv_char; rewrite C; reflexivity).
      rewrite Ha.
      specialize (IH EmptyString rest (l + 1) Hr). cbv zeta in IH. cbn [String.length N.of_nat] in IH.
      change (0 + 1) with 1 in IH.
      set (p := adv_str pre (mkpos (l + 1) 1)) in *.
      pose proof (adv_str_line_mono pre (mkpos (l + 1) 1)) as M. fold p in M. cbn [pline] in M.
      destruct IH as (ln & E & G). exists ln. split; auto.
      replace (N.to_nat (pline p - l)) with (S (N.to_nat (pline p - (l + 1)))) by lia. exact E.
    + assert (Ha : adv_char c (mkpos l (N.of_nat (String.length cur) + 1))
                   = mkpos l (N.of_nat (String.length (append cur (String c EmptyString))) + 1)).
      { unfold adv_char. rewrite C. cbn [pline pcol]. rewrite length_app_s. cbn [String.length]. f_equal. lia. }
      rewrite Ha. apply IH. exact Hr.
Qed.

(** the lookup of [render] succeeds for a span that starts at a byte of the text, and the quoted
    line has that byte at the span's column (unless the byte is itself a line terminator) *)
Theorem render_at : forall path pre b rest sp,
    sline sp = pline (adv_str pre pos0) -> scol sp = pcol (adv_str pre pos0) -> 1 <= secol sp ->
    exists r, render path (append pre (String b rest)) sp = Ok r
              /\ r_line_no r = sline sp
              /\ nth_error (lines (append pre (String b rest))) (N.to_nat (sline sp - 1)) = Some (r_line r)
              /\ (b <> LF -> b <> CR -> String.get (N.to_nat (scol sp - 1)) (r_line r) = Some b).
Proof.
  intros path pre b rest sp L C Ce.
  pose proof (adv_str_line_mono pre pos0) as M1. pose proof (adv_str_col_pos pre pos0 ltac:(cbn; lia)) as M2.
  cbn [pos0 pline pcol] in M1.
  unfold render.
  assert (Z1 : N.eqb (sline sp) 0 = false) by (apply N.eqb_neq; lia).
  assert (Z2 : N.eqb (scol sp) 0 = false) by (apply N.eqb_neq; lia).
  assert (Z3 : N.eqb (secol sp) 0 = false) by (apply N.eqb_neq; lia).
  rewrite Z1, Z2, Z3. cbn [orb].
  pose proof (lines_acc_pos pre EmptyString (String b rest) 1 ltac:(discriminate)) as X. cbv zeta in X.
  cbn [String.length N.of_nat] in X. change (mkpos 1 (0 + 1)) with pos0 in X. destruct X as (ln & X & G).
  unfold lines. rewrite L, X.
  eexists. split; [reflexivity|]. cbn [r_line_no r_line]. repeat split; auto.
  intros N1 N2. rewrite C. eapply G; eauto.
Qed.

Corollary render_total : forall path text sp, pos_ok text sp -> exists r, render path text sp = Ok r.
Proof.
  intros path text sp (pre & rest & E & Nr & L & C & Ce). destruct rest as [|b rest]; [congruence|]. subst text.
  destruct (render_at path pre b rest sp L C Ce) as (r & H & _). eauto.
Qed.
