(** "Every position is useful": in the tables of the root [with_end t e] of a builder tree whose
    alternatives are never empty, [firstpos] is not empty, and from every position of [t] a chain
    of [followpos] edges leads to a position that the end marker follows.

    Route:
    - [lang_nonempty]: with [ors_nonempty], every tree has a word;
    - by [local_shape] a non-nullable tree then has a non-empty [firstpos];
    - [reach_last]: from every position of [t] a chain of [followpos t] edges leads into
      [lastpos t] (binary view of the n-ary constructors, as in Glushkov.v);
    - the root adds the edges [lastpos t * {e}]. *)
From CG Require Import Base.Prelude Model.Ast Model.Regex Proofs.RxLang Proofs.Glushkov.

(** * Chains *)

Lemma chain_mono (F G : list (N * N)) a r :
  (forall x y, In (x, y) F -> In (x, y) G) -> chain F a r -> chain G a r.
Proof.
  intros H. revert a. induction r as [|b r IH]; intros a C; simpl in *; auto.
  destruct C as [C1 C2]. split; auto.
Qed.

Lemma chain_app (F : list (N * N)) p r a r' :
  chain F p r -> In (last r p, a) F -> chain F a r' -> chain F p (r ++ a :: r').
Proof.
  revert p. induction r as [|b r IH]; intros p C Hl C'.
  - simpl in *. auto.
  - rewrite last_cons in Hl. simpl in C. destruct C as [C1 C2].
    simpl. split; auto.
Qed.

Lemma last_app_cons (r : list N) a r' p : last (r ++ a :: r') p = last r' a.
Proof.
  revert p. induction r as [|b r IH]; intros p.
  - simpl app. apply last_cons.
  - change ((b :: r) ++ a :: r') with (b :: (r ++ a :: r')). rewrite last_cons. apply IH.
Qed.

(** * The language is not empty *)

Lemma lang_nonempty t : ors_nonempty t = true -> exists w, Lrx t w.
Proof.
  induction t as [|k p|cs IH|cs IH|c IH] using rx_ind'; intros Ho.
  - exists []. constructor.
  - exists [p]. constructor.
  - cbn [ors_nonempty] in Ho. induction IH as [|c cs Hc _ IHcs].
    + exists []. constructor.
    + cbn [forallb] in Ho. apply andb_true_iff in Ho. destruct Ho as [Ho1 Ho2].
      destruct (Hc Ho1) as [u Hu]. destruct (IHcs Ho2) as [v Hv].
      exists (u ++ v). constructor; auto.
  - cbn [ors_nonempty] in Ho. destruct cs as [|c cs]; [discriminate|].
    inversion IH as [|? ? Hc _]; subst.
    cbn [forallb] in Ho. apply andb_true_iff in Ho. destruct Ho as [Ho1 _].
    destruct (Hc Ho1) as [u Hu]. exists u. econstructor; [left; reflexivity|exact Hu].
  - exists []. constructor.
Qed.

Lemma firstpos_nonempty t :
  shape t -> ors_nonempty t = true -> nullable t = false -> exists a, In a (firstpos t).
Proof.
  intros Hs Ho Hn. destruct (lang_nonempty t Ho) as [w Hw].
  apply (local_shape t Hs) in Hw. unfold Local in Hw. destruct w as [|a r]; simpl in Hw.
  - congruence.
  - exists a. tauto.
Qed.

Lemma lastpos_nonempty t :
  shape t -> ors_nonempty t = true -> nullable t = false -> exists a, In a (lastpos t).
Proof.
  intros Hs Ho Hn. destruct (lang_nonempty t Ho) as [w Hw].
  apply (local_shape t Hs) in Hw. unfold Local in Hw. destruct w as [|a r]; simpl in Hw.
  - congruence.
  - destruct Hw as [_ (b & _ & Hb)]. exists b. exact Hb.
Qed.

(** * From every position a chain leads into [lastpos] *)

Definition reaches (t : rx) (p : N) : Prop :=
  exists r, chain (followpos t) p r /\ In (last r p) (lastpos t).

Definition reach_goal (t : rx) : Prop :=
  shape t -> ors_nonempty t = true -> forall p, In p (positions t) -> reaches t p.

Lemma reach_cat cs :
  Forall reach_goal cs -> Forall shape cs -> pairwise_disjoint (map positions cs) ->
  forallb ors_nonempty cs = true ->
  forall p, In p (positions (XCat cs)) -> reaches (XCat cs) p.
Proof.
  intros IH. induction IH as [|c cs Hc _ IHcs]; intros Hs Hd Ho p Hp.
  - simpl in Hp. contradiction.
  - inversion Hs as [|? ? Hsc Hscs]; subst. simpl in Hd. destruct Hd as [Hd1 Hd2].
    cbn [forallb] in Ho. apply andb_true_iff in Ho. destruct Ho as [Ho1 Ho2].
    assert (Htail : forall q, In q (positions (XCat cs)) -> reaches (XCat (c :: cs)) q).
    { intros q Hq. destruct (IHcs Hscs Hd2 Ho2 q Hq) as (r & C & Hl).
      exists r. split.
      - eapply chain_mono; [|exact C]. intros x y H. apply followpos_cat_cons. auto.
      - apply lastpos_cat_cons. auto. }
    rewrite positions_cat_cons in Hp. apply in_app_iff in Hp. destruct Hp as [Hp|Hp].
    + destruct (Hc Hsc Ho1 p Hp) as (r & C & Hl).
      assert (C' : chain (followpos (XCat (c :: cs))) p r).
      { eapply chain_mono; [|exact C]. intros x y H. apply followpos_cat_cons. auto. }
      destruct (nullable (XCat cs)) eqn:Hn.
      * exists r. split; [exact C'|]. apply lastpos_cat_cons. auto.
      * assert (Hst : shape (XCat cs)) by (constructor; assumption).
        destruct (firstpos_nonempty (XCat cs) Hst Ho2 Hn) as [a Ha].
        destruct (Htail a (first_pos _ _ Ha)) as (r' & D & Hl').
        exists (r ++ a :: r'). split.
        -- apply chain_app; auto. apply followpos_cat_cons. right. right.
           apply in_pprod. auto.
        -- rewrite last_app_cons. exact Hl'.
    + apply Htail. exact Hp.
Qed.

Lemma reach_or cs :
  Forall reach_goal cs -> Forall shape cs -> forallb ors_nonempty cs = true ->
  forall p, In p (positions (XOr cs)) -> reaches (XOr cs) p.
Proof.
  intros IH. induction IH as [|c cs Hc _ IHcs]; intros Hs Ho p Hp.
  - simpl in Hp. contradiction.
  - inversion Hs as [|? ? Hsc Hscs]; subst.
    cbn [forallb] in Ho. apply andb_true_iff in Ho. destruct Ho as [Ho1 Ho2].
    rewrite positions_or_cons in Hp. apply in_app_iff in Hp. destruct Hp as [Hp|Hp].
    + destruct (Hc Hsc Ho1 p Hp) as (r & C & Hl). exists r. split.
      * eapply chain_mono; [|exact C]. intros x y H. apply followpos_or_cons. auto.
      * apply lastpos_or_cons. auto.
    + destruct (IHcs Hscs Ho2 p Hp) as (r & C & Hl). exists r. split.
      * eapply chain_mono; [|exact C]. intros x y H. apply followpos_or_cons. auto.
      * apply lastpos_or_cons. auto.
Qed.

Lemma reach_many c :
  (forall p, In p (positions c) -> reaches c p) ->
  forall p, In p (positions (XCat [c; XStar c])) -> reaches (XCat [c; XStar c]) p.
Proof.
  intros Hc p Hp.
  assert (Hp' : In p (positions c)).
  { cbn [positions flat_map] in Hp. rewrite app_nil_r in Hp. apply in_app_iff in Hp. tauto. }
  destruct (Hc p Hp') as (r & C & Hl). exists r. split.
  - eapply chain_mono; [|exact C]. intros x y H. apply followpos_many. auto.
  - apply lastpos_many. exact Hl.
Qed.

Theorem reach_last t :
  shape t -> ors_nonempty t = true ->
  forall p, In p (positions t) ->
  exists r, chain (followpos t) p r /\ In (last r p) (lastpos t).
Proof.
  change (reach_goal t).
  induction t as [|k q|cs IH|cs IH|c IH] using rx_ind'; intros Hs Ho p Hp.
  - simpl in Hp. contradiction.
  - simpl in Hp. destruct Hp as [E|[]]. subst. exists []. simpl. auto.
  - inversion Hs as [| |cs' Hf Hd| |c Hc]; subst.
    + apply reach_cat; assumption.
    + apply reach_many; [|exact Hp]. inversion IH as [|? ? IHc _]; subst.
      apply IHc; [exact Hc|]. cbn [ors_nonempty forallb] in Ho.
      apply andb_true_iff in Ho. tauto.
  - inversion Hs; subst. apply reach_or; try assumption.
    cbn [ors_nonempty] in Ho. destruct cs; [discriminate|exact Ho].
  - inversion Hs.
Qed.

(** * The root *)

Theorem useful_positions : useful_statement.
Proof.
  intros t e Hs Ho He. split.
  - destruct (nullable t) eqn:Hn.
    + intros E. assert (H : In e (firstpos (with_end t e))).
      { apply firstpos_with_end. auto. }
      rewrite E in H. contradiction.
    + destruct (firstpos_nonempty t Hs Ho Hn) as [a Ha]. intros E.
      assert (H : In a (firstpos (with_end t e))).
      { apply firstpos_with_end. auto. }
      rewrite E in H. contradiction.
  - intros p Hp. destruct (reach_last t Hs Ho p Hp) as (r & C & Hl). exists r. split.
    + eapply chain_mono; [|exact C]. intros x y H. apply followpos_with_end. auto.
    + apply followpos_with_end. auto.
Qed.

Print Assumptions useful_positions.
