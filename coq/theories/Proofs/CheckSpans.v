(** C14, checker part: no pass of the model of [from_grammar] inspects a span.  Mapping any
    function over all the spans of a grammar commutes with every pass, hence with
    [from_grammar]: verdict, error class, command, validated tree and warnings are the same up
    to the same mapping of spans. *)
From CG Require Import Base.Prelude Model.Ast Model.Check.
From CG Require Import Proofs.CheckChoice Proofs.CheckMistakes Proofs.CheckLemmas.
From CG Require Import Proofs.CheckCycle Proofs.CheckTotal.

Section MapSpans.
  Variable f : span -> span.

  Fixpoint ms (e : expr) : expr :=
    match e with
    | Terminal t d l sp => Terminal t d l (f sp)
    | NontermRef n l sp => NontermRef n l (f sp)
    | Command c z l sp => Command c z l (f sp)
    | Sequence cs sp => Sequence (map ms cs) (f sp)
    | Alternative cs sp => Alternative (map ms cs) (f sp)
    | Optional c sp => Optional (ms c) (f sp)
    | Many1 c sp => Many1 (ms c) (f sp)
    | DistDescr c d sp => DistDescr (ms c) d (f sp)
    | Fallback cs sp => Fallback (map ms cs) (f sp)
    | Subword c l sp => Subword (ms c) l (f sp)
    end.

  Definition ms_stmt (s : statement) : statement :=
    match s with
    | CallVariant n sp e => CallVariant n (f sp) (ms e)
    | NontermDef n sp sh rhs =>
        NontermDef n (f sp) (option_map (fun p => (fst p, f (snd p))) sh) (ms rhs)
    end.

  Definition ms_grammar (g : grammar) : grammar := map ms_stmt g.

  Definition ms_err (e : cerror) : cerror :=
    match e with
    | MissingCallVariants => MissingCallVariants
    | VaryingCommandNames spans => VaryingCommandNames (map f spans)
    | InvalidCommandName sp => InvalidCommandName (f sp)
    | DuplicateNonterminalDefinition a b => DuplicateNonterminalDefinition (f a) (f b)
    | UnknownShell sp => UnknownShell (f sp)
    | NonCommandSpecialization sp => NonCommandSpecialization (f sp)
    | NonterminalDefinitionsCycle spans => NonterminalDefinitionsCycle (map f spans)
    | SubwordSpaces l r trace => SubwordSpaces (f l) (f r) (map f trace)
    end.

  (** name/span association lists *)
  Definition msp (l : list (string * span)) : list (string * span) :=
    map (fun p => (fst p, f (snd p))) l.

  Definition ms_valid (v : valid_grammar) : valid_grammar :=
    mkvalid (v_command v) (ms (v_expr v)) (msp (v_undefined v)) (msp (v_unused v))
            (msp (v_unused_specs v)).

  Definition ms_res {A} (fa : A -> A) (r : res A) : res A :=
    match r with
    | Ok a => Ok (fa a)
    | Err e => Err (ms_err e)
    | Panic s => Panic s
    | OutOfFuel => OutOfFuel
    end.

  Lemma ms_res_bind {A B} (fa : A -> A) (fb : B -> B) (x : res A) (k k' : A -> res B) :
    (forall a, k' (fa a) = ms_res fb (k a)) ->
    obind (ms_res fa x) k' = ms_res fb (obind x k).
  Proof. intro H. destruct x; cbn; [apply H|reflexivity|reflexivity|reflexivity]. Qed.

  Lemma expr_span_ms e : expr_span (ms e) = f (expr_span e).
  Proof. destruct e; reflexivity. Qed.

  Lemma expr_size_ms e : expr_size (ms e) = expr_size e.
  Proof.
    induction e using expr_ind'; cbn [ms expr_size]; try reflexivity; try (rewrite IHe; reflexivity).
    - f_equal. induction H; cbn; [reflexivity|]. rewrite H, IHForall. reflexivity.
    - f_equal. induction H; cbn; [reflexivity|]. rewrite H, IHForall. reflexivity.
    - f_equal. induction H; cbn; [reflexivity|]. rewrite H, IHForall. reflexivity.
  Qed.

  Lemma assoc_map_snd {V W} (h : V -> W) k (l : list (string * V)) :
    assoc k (map (fun p => (fst p, h (snd p))) l) = option_map h (assoc k l).
  Proof.
    induction l as [|[k' v] l IH]; cbn; [reflexivity|]. destruct (String.eqb k k'); [reflexivity|exact IH].
  Qed.

  Lemma map_fst_msp l : map fst (msp l) = map fst l.
  Proof. unfold msp. rewrite map_map. reflexivity. Qed.

  Lemma map_snd_msp l : map snd (msp l) = map f (map snd l).
  Proof. unfold msp. rewrite !map_map. reflexivity. Qed.

  (** *** statement views *)
  Definition ms_cv (x : string * span * expr) : string * span * expr :=
    (fst (fst x), f (snd (fst x)), ms (snd x)).

  Lemma call_variants_ms g : call_variants (ms_grammar g) = map ms_cv (call_variants g).
  Proof.
    unfold call_variants, ms_grammar. induction g as [|s g IH]; cbn; [reflexivity|].
    destruct s; cbn; rewrite IH; reflexivity.
  Qed.

  Lemma cv_names_ms g : cv_names (ms_grammar g) = msp (cv_names g).
  Proof. unfold cv_names, msp. rewrite call_variants_ms, !map_map. reflexivity. Qed.

  Lemma dedup_names_ms l : forall seen, dedup_names seen (msp l) = msp (dedup_names seen l).
  Proof.
    induction l as [|[n sp] l IH]; intro seen; cbn; [reflexivity|].
    destruct (mem_str n seen); [apply IH|]. cbn. rewrite IH. reflexivity.
  Qed.

  Lemma expr0_ms g : call_variants g <> [] -> expr0_of (ms_grammar g) = ms (expr0_of g).
  Proof.
    unfold expr0_of. rewrite call_variants_ms, map_map. intro Hne.
    destruct (call_variants g) as [|[[n sp] e] [|[[n' sp'] e'] r]]; [congruence|reflexivity|].
    cbn [map snd ms_cv fst ms]. rewrite expr_span_ms, !map_map. reflexivity.
  Qed.

  Definition ms_def (x : string * span * option (string * span) * expr)
    : string * span * option (string * span) * expr :=
    match x with
    | (n, nsp, sh, rhs) => (n, f nsp, option_map (fun p => (fst p, f (snd p))) sh, ms rhs)
    end.

  Lemma all_defs_ms g : all_defs (ms_grammar g) = map ms_def (all_defs g).
  Proof.
    unfold all_defs, ms_grammar. induction g as [|s g IH]; cbn; [reflexivity|].
    destruct s; cbn; rewrite IH; reflexivity.
  Qed.

  (** *** distribute_descriptions *)
  Lemma distribute_ms e : forall d,
    distribute (ms e) d = (ms (fst (distribute e d)), snd (distribute e d)).
  Proof.
    assert (Hl : forall cs, Forall (fun e => forall d, distribute (ms e) d
                                                        = (ms (fst (distribute e d)), snd (distribute e d))) cs ->
                            forall d, distribute_list (map ms cs) d
                                      = (map ms (fst (distribute_list cs d)), snd (distribute_list cs d))).
    { induction 1 as [|x l Hx _ IH]; intro d; cbn; [reflexivity|].
      rewrite Hx. destruct (distribute x d) as [c' d1]. cbn. rewrite IH.
      destruct (distribute_list l d1) as [r' d2]. reflexivity. }
    induction e using expr_ind'; intro d0.
    - cbn. destruct d; [reflexivity|]. destruct d0; reflexivity.
    - reflexivity.
    - reflexivity.
    - cbn [ms]. rewrite !distribute_seq, Hl by exact H.
      destruct (distribute_list cs d0). reflexivity.
    - cbn [ms distribute fst snd]. f_equal. f_equal. rewrite !map_map.
      apply map_ext_Forall. eapply Forall_impl; [|exact H]. intros a Ha. cbn beta. rewrite Ha. reflexivity.
    - cbn [ms distribute]. rewrite IHe. destruct (distribute e d0). reflexivity.
    - cbn [ms distribute]. rewrite IHe. destruct (distribute e d0). reflexivity.
    - cbn [ms distribute fst snd]. rewrite IHe. reflexivity.
    - cbn [ms]. rewrite !distribute_fb, Hl by exact H.
      destruct (distribute_list cs d0). reflexivity.
    - cbn [ms distribute]. rewrite IHe. destruct (distribute e d0). reflexivity.
  Qed.

  Lemma distribute_descriptions_ms e :
    distribute_descriptions (ms e) = ms (distribute_descriptions e).
  Proof. unfold distribute_descriptions. rewrite distribute_ms. reflexivity. Qed.

  (** *** get_specializations *)
  Definition ms_us (us : list (string * user_spec)) : list (string * user_spec) :=
    map (fun p => (fst p, mkspec (us_cmd (snd p)) (f (us_span (snd p))))) us.

  Definition ms_fs (fs : list (string * (string * span))) : list (string * (string * span)) :=
    map (fun p => (fst p, (fst (snd p), f (snd (snd p))))) fs.

  Lemma get_user_specs_ms target ds : forall acc,
    get_user_specs target (map ms_def ds) (ms_us acc) = ms_res ms_us (get_user_specs target ds acc).
  Proof.
    induction ds as [|[[[n nsp] sh] rhs] r IH]; intro acc; cbn [map ms_def get_user_specs]; [reflexivity|].
    destruct sh as [[shn shsp]|]; cbn [option_map fst snd]; [|apply IH].
    destruct rhs; cbn [ms ms_res ms_err expr_span]; try reflexivity.
    destruct (shell_of_string shn); [|reflexivity].
    destruct (shell_eqb s target); [|apply IH].
    unfold ms_us at 1. rewrite (assoc_map_snd (fun s => mkspec (us_cmd s) (f (us_span s)))).
    destruct (assoc n acc); cbn [option_map]; [reflexivity|].
    rewrite <- IH. unfold ms_us. rewrite map_app. reflexivity.
  Qed.

  Lemma get_fallback_specs_ms sp ds : forall acc,
    get_fallback_specs sp (map ms_def ds) (ms_fs acc) = ms_res ms_fs (get_fallback_specs sp ds acc).
  Proof.
    induction ds as [|[[[n nsp] sh] rhs] r IH]; intro acc; cbn [map ms_def get_fallback_specs]; [reflexivity|].
    destruct sh as [[shn shsp]|]; cbn [option_map]; [apply IH|].
    destruct (mem_str n sp); [|apply IH].
    destruct rhs; cbn [ms ms_res ms_err expr_span]; try reflexivity.
    unfold ms_fs at 1. rewrite (assoc_map_snd (fun s : string * span => (fst s, f (snd s)))).
    destruct (assoc n acc) as [[c p]|]; cbn [option_map]; [reflexivity|].
    rewrite <- IH. unfold ms_fs. rewrite map_app. reflexivity.
  Qed.

  Definition ms_specs (x : list (string * user_spec) * list (string * (string * span))) :=
    (ms_us (fst x), ms_fs (snd x)).

  Lemma get_specializations_ms g target :
    get_specializations (ms_grammar g) target = ms_res ms_specs (get_specializations g target).
  Proof.
    unfold get_specializations. rewrite all_defs_ms.
    pose proof (get_user_specs_ms target (all_defs g) []) as H1. cbn in H1. rewrite H1.
    destruct (get_user_specs target (all_defs g) []) as [us| | |]; cbn [ms_res obind]; try reflexivity.
    assert (Hk : map fst (ms_us us) = map fst us) by (unfold ms_us; rewrite map_map; reflexivity).
    rewrite Hk.
    pose proof (get_fallback_specs_ms (map fst us) (all_defs g) []) as H2. cbn in H2. rewrite H2.
    destruct (get_fallback_specs (map fst us) (all_defs g) []); reflexivity.
  Qed.

  (** *** plain definitions *)
  Definition ms_defn (d : defn) : defn := mkdefn (d_name d) (f (d_span d)) (ms (d_rhs d)).

  Lemma collect_plain_defs_ms ds : forall acc,
    collect_plain_defs (map ms_def ds) (map ms_defn acc)
    = ms_res (map ms_defn) (collect_plain_defs ds acc).
  Proof.
    induction ds as [|[[[n nsp] sh] rhs] r IH]; intro acc; cbn [map ms_def collect_plain_defs]; [reflexivity|].
    destruct sh as [[shn shsp]|]; cbn [option_map]; [apply IH|].
    assert (Hf : find (fun d => String.eqb (d_name d) n) (map ms_defn acc)
                 = option_map ms_defn (find (fun d => String.eqb (d_name d) n) acc)).
    { clear. induction acc as [|d acc IHa]; cbn; [reflexivity|].
      destruct (String.eqb (d_name d) n); [reflexivity|exact IHa]. }
    rewrite Hf. destruct (find _ acc); cbn [option_map]; [reflexivity|].
    rewrite <- IH, map_app. reflexivity.
  Qed.

  (** *** specialize *)
  Lemma specialize_ms sh us bi fs plain e :
    specialize sh (ms_us us) bi (ms_fs fs) plain (ms e) = ms (specialize sh us bi fs plain e).
  Proof.
    induction e using expr_ind'; cbn [ms specialize]; try reflexivity; try (rewrite IHe; reflexivity).
    - unfold specialize_ref, ms_us, ms_fs.
      rewrite (assoc_map_snd (fun s => mkspec (us_cmd s) (f (us_span s)))).
      rewrite (assoc_map_snd (fun s : string * span => (fst s, f (snd s)))).
      destruct (assoc n us); cbn [option_map]; [reflexivity|].
      destruct (assoc n fs) as [[c p]|]; cbn [option_map]; [reflexivity|].
      destruct (mem_str n plain); [reflexivity|]. destruct (assoc n bi); reflexivity.
    - f_equal. rewrite !map_map. apply map_ext_Forall. exact H.
    - f_equal. rewrite !map_map. apply map_ext_Forall. exact H.
    - f_equal. rewrite !map_map. apply map_ext_Forall. exact H.
  Qed.

  (** *** references *)
  Lemma nonterm_refs_ms e : nonterm_refs (ms e) = msp (nonterm_refs e).
  Proof.
    induction e using expr_ind'; cbn [ms nonterm_refs]; try reflexivity; try assumption.
    - rewrite flat_map_map. unfold msp. rewrite map_flat_map. apply flat_map_ext_Forall. exact H.
    - rewrite flat_map_map. unfold msp. rewrite map_flat_map. apply flat_map_ext_Forall. exact H.
    - rewrite flat_map_map. unfold msp. rewrite map_flat_map. apply flat_map_ext_Forall. exact H.
  Qed.

  Lemma refs_map_ms l : forall acc, refs_map (msp l) (msp acc) = msp (refs_map l acc).
  Proof.
    induction l as [|[n sp] l IH]; intro acc; cbn [msp map refs_map fst snd]; [reflexivity|].
    fold (msp l). fold (msp acc). rewrite map_fst_msp.
    destruct (mem_str n (map fst acc)).
    - rewrite <- IH. f_equal. unfold msp. rewrite !map_map. apply map_ext. intros [k v]. cbn.
      destruct (String.eqb k n); reflexivity.
    - rewrite <- IH. f_equal. unfold msp. rewrite map_app. reflexivity.
  Qed.

  Lemma get_nonterm_refs_ms e : get_nonterm_refs (ms e) = msp (get_nonterm_refs e).
  Proof. unfold get_nonterm_refs. rewrite nonterm_refs_ms. apply (refs_map_ms _ []). Qed.

  (** *** the cycle search *)
  Definition msg (graph : list (string * list (string * span))) :=
    map (fun p => (fst p, msp (snd p))) graph.

  Lemma children_ms graph v : children (msg graph) v = msp (children graph v).
  Proof.
    unfold children, msg. rewrite (assoc_map_snd msp). destruct (assoc v graph); reflexivity.
  Qed.

  Lemma each_ms rec rec' v path
        (Hrec : forall c path st, rec' c (msp path) st = ms_res (fun x => x) (rec c path st)) :
    forall cs st,
      each rec' v (msp path) (msp cs) st = ms_res (fun x => x) (each rec v path cs st).
  Proof.
    induction cs as [|[c sp] r IH]; intro st; cbn [msp map each fst snd]; [reflexivity|].
    fold (msp r). fold (msp path). rewrite map_fst_msp.
    destruct (mem_str c (map fst path)).
    - cbn [ms_res ms_err]. f_equal. f_equal. rewrite <- map_snd_msp. unfold msp. rewrite !map_app.
      reflexivity.
    - destruct (mem_str c (visited st)); [apply IH|].
      assert (Hp : msp path ++ [(c, f sp)] = msp (path ++ [(c, sp)])).
      { unfold msp. rewrite map_app. reflexivity. }
      rewrite Hp, Hrec. destruct (rec c (path ++ [(c, sp)]) st); cbn [ms_res obind]; try reflexivity.
      apply IH.
  Qed.

  Lemma dfs_ms graph fuel : forall v path st,
    dfs (msg graph) fuel v (msp path) st = ms_res (fun x => x) (dfs graph fuel v path st).
  Proof.
    induction fuel as [|fuel IH]; intros v path st; [reflexivity|].
    rewrite !dfs_S, children_ms. apply each_ms. exact IH.
  Qed.

  Lemma indegree_zero_ms graph v : indegree_zero (msg graph) v = indegree_zero graph v.
  Proof.
    unfold indegree_zero, msg. f_equal. induction graph as [|[k cs] g IH]; cbn; [reflexivity|].
    rewrite map_fst_msp, IH. reflexivity.
  Qed.

  Lemma search_roots_ms graph fuel : forall roots st,
    search_roots (msg graph) fuel (msp roots) st
    = ms_res (fun x => x) (search_roots graph fuel roots st).
  Proof.
    induction roots as [|[v vsp] r IH]; intro st; cbn [msp map search_roots fst snd]; [reflexivity|].
    fold (msp r). destruct (mem_str v (visited st)); [apply IH|].
    change [(v, f vsp)] with (msp [(v, vsp)]). rewrite dfs_ms.
    destruct (dfs graph fuel v [(v, vsp)] st); cbn [ms_res obind]; try reflexivity. apply IH.
  Qed.

  Lemma graph_of_ms defs : graph_of (map ms_defn defs) = msg (graph_of defs).
  Proof.
    unfold graph_of, msg.
    assert (Hn : map d_name (map ms_defn defs) = map d_name defs) by (rewrite map_map; reflexivity).
    rewrite Hn. rewrite !map_map. apply map_ext. intro d. cbn [ms_defn d_name d_rhs fst snd]. f_equal.
    rewrite get_nonterm_refs_ms. unfold msp.
    induction (get_nonterm_refs (d_rhs d)) as [|[k sp] l IHl]; cbn; [reflexivity|].
    destruct (mem_str k (map d_name defs)); cbn; rewrite IHl; reflexivity.
  Qed.

  Lemma has_children_ms graph v : has_children (msg graph) v = has_children graph v.
  Proof. unfold has_children. rewrite children_ms. destruct (children graph v); reflexivity. Qed.

  Lemma filter_msp (P P' : string * span -> bool) l :
    (forall k sp, P' (k, f sp) = P (k, sp)) -> filter P' (msp l) = msp (filter P l).
  Proof.
    intro H. unfold msp. induction l as [|[k sp] l IH]; cbn; [reflexivity|]. rewrite H.
    destruct (P (k, sp)); cbn; rewrite IH; reflexivity.
  Qed.

  Lemma resolution_order_ms defs :
    resolution_order (map ms_defn defs) = ms_res (fun x => x) (resolution_order defs).
  Proof.
    rewrite !resolution_order_eq, graph_of_ms, map_length.
    assert (Hv : verts_of (map ms_defn defs) = msp (verts_of defs)).
    { unfold verts_of, msp. rewrite !map_map. reflexivity. }
    rewrite Hv.
    assert (Hr : filter (fun p => indegree_zero (msg (graph_of defs)) (fst p)) (msp (verts_of defs))
                 ++ msp (verts_of defs)
                 = msp (filter (fun p => indegree_zero (graph_of defs) (fst p)) (verts_of defs)
                        ++ verts_of defs)).
    { unfold msp at 3. rewrite map_app. f_equal. apply filter_msp.
      intros k sp. cbn [fst]. apply indegree_zero_ms. }
    rewrite Hr, search_roots_ms.
    destruct (search_roots (graph_of defs) _ _ _); cbn [ms_res obind]; try reflexivity.
    f_equal. apply filter_ext. intro v. apply has_children_ms.
  Qed.

  (** *** resolve *)
  Definition mst (t : list (string * expr)) : list (string * expr) :=
    map (fun p => (fst p, ms (snd p))) t.

  Lemma resolve_ms t e : resolve (mst t) (ms e) = ms (resolve t e).
  Proof.
    induction e using expr_ind'; cbn [ms resolve]; try reflexivity; try (rewrite IHe; reflexivity).
    - unfold mst. rewrite (assoc_map_snd ms). destruct (assoc n t); reflexivity.
    - f_equal. rewrite !map_map. apply map_ext_Forall. exact H.
    - f_equal. rewrite !map_map. apply map_ext_Forall. exact H.
    - f_equal. rewrite !map_map. apply map_ext_Forall. exact H.
  Qed.

  Lemma update_def_ms n x t : update_def n (ms x) (mst t) = mst (update_def n x t).
  Proof.
    unfold update_def, mst. rewrite !map_map. apply map_ext. intros [k v]. cbn.
    destruct (String.eqb k n); reflexivity.
  Qed.

  Lemma resolve_in_order_ms ord : forall t,
    resolve_in_order ord (mst t) = mst (resolve_in_order ord t).
  Proof.
    induction ord as [|n r IH]; intro t; cbn [resolve_in_order]; [reflexivity|].
    unfold mst at 1. rewrite (assoc_map_snd ms). fold (mst t).
    destruct (assoc n t); cbn [option_map]; [|apply IH].
    rewrite resolve_ms, update_def_ms. apply IH.
  Qed.

  (** *** check_subword_spaces *)
  Definition omst (follow : option (list (string * expr))) := option_map mst follow.

  Lemma followed_ms follow n : followed (omst follow) n = option_map ms (followed follow n).
  Proof.
    destruct follow as [t|]; cbn; [|reflexivity]. unfold mst. apply (assoc_map_snd ms).
  Qed.

  Lemma last_opt_ms cs : last_opt (map ms cs) = option_map ms (last_opt cs).
  Proof. unfold last_opt. rewrite <- map_rev. destruct (rev cs); reflexivity. Qed.

  Lemma expr_head_ms follow fuel : forall e,
    expr_head (omst follow) fuel (ms e) = ms_res ms (expr_head follow fuel e).
  Proof.
    induction fuel as [|fuel IH]; intro e; [reflexivity|]. rewrite !expr_head_S.
    destruct e; cbn [ms]; try reflexivity; try apply IH.
    - rewrite followed_ms. destruct (followed follow name); cbn [option_map]; [apply IH|reflexivity].
    - destruct children; cbn [map]; [reflexivity|apply IH].
  Qed.

  Lemma expr_tail_ms follow fuel : forall e,
    expr_tail (omst follow) fuel (ms e) = ms_res ms (expr_tail follow fuel e).
  Proof.
    induction fuel as [|fuel IH]; intro e; [reflexivity|]. rewrite !expr_tail_S.
    destruct e; cbn [ms]; try reflexivity; try apply IH.
    - rewrite followed_ms. destruct (followed follow name); cbn [option_map]; [apply IH|reflexivity].
    - rewrite last_opt_ms. destruct (last_opt children); cbn [option_map]; [apply IH|reflexivity].
  Qed.

  Definition msadj (x : option (span * span)) : option (span * span) :=
    option_map (fun p => (f (fst p), f (snd p))) x.

  Lemma adjacent_terminals_ms follow fuel cs :
    adjacent_terminals (omst follow) fuel (map ms cs)
    = ms_res msadj (adjacent_terminals follow fuel cs).
  Proof.
    induction cs as [|a r IH]; [reflexivity|]. destruct r as [|b r']; [reflexivity|].
    cbn [map adjacent_terminals] in *. rewrite expr_tail_ms, expr_head_ms.
    destruct (expr_tail follow fuel a) as [ta| | |]; cbn [ms_res obind]; try reflexivity.
    destruct (expr_head follow fuel b) as [hb| | |]; cbn [ms_res obind]; try reflexivity.
    destruct ta; cbn [ms]; try exact IH. destruct hb; cbn [ms]; try exact IH. reflexivity.
  Qed.

  Lemma sp_all_ms (rec rec' : expr -> res unit) cs :
    Forall (fun c => rec' (ms c) = ms_res (fun x => x) (rec c)) cs ->
    sp_all rec' (map ms cs) = ms_res (fun x => x) (sp_all rec cs).
  Proof.
    induction 1 as [|x l Hx _ IH]; cbn; [reflexivity|]. rewrite Hx.
    destruct (rec x) as [[]| | |]; cbn; [exact IH|reflexivity|reflexivity|reflexivity].
  Qed.

  Lemma spaces_ms t fuel : forall e trace within juxt,
    spaces (mst t) fuel (ms e) (map f trace) within juxt
    = ms_res (fun x => x) (spaces t fuel e trace within juxt).
  Proof.
    induction fuel as [|fuel IH]; intros e trace within juxt; [reflexivity|].
    rewrite !spaces_S.
    assert (Hall : forall cs, sp_all (fun c => spaces (mst t) fuel c (map f trace) within false) (map ms cs)
                              = ms_res (fun x => x) (sp_all (fun c => spaces t fuel c trace within false) cs)).
    { intro cs. apply sp_all_ms. apply Forall_forall. intros c _. apply IH. }
    destruct e; cbn [ms]; try reflexivity; try apply IH; try apply Hall.
    - unfold mst. rewrite (assoc_map_snd ms). fold (mst t).
      destruct (assoc name t); cbn [option_map]; [|reflexivity].
      change (map f trace ++ [f sp]) with (map f trace ++ map f [sp]). rewrite <- map_app. apply IH.
    - rewrite Hall. destruct (sp_all _ children) as [[]| | |]; cbn [ms_res obind]; try reflexivity.
      destruct within; [|reflexivity].
      assert (Hf : follow_of (mst t) juxt = omst (follow_of t juxt)) by (destruct juxt; reflexivity).
      rewrite Hf, adjacent_terminals_ms.
      destruct (adjacent_terminals _ fuel children) as [[[l r]|]| | |]; reflexivity.
  Qed.

  (** *** the last passes *)
  Lemma flatten_ms e : flatten (ms e) = ms (flatten e).
  Proof.
    induction e using expr_ind'; cbn [ms flatten]; try reflexivity; try (rewrite IHe; reflexivity);
      try assumption.
    - f_equal. rewrite !map_map. apply map_ext_Forall. exact H.
    - f_equal. rewrite !map_map. apply map_ext_Forall. exact H.
    - f_equal. rewrite !map_map. apply map_ext_Forall. exact H.
  Qed.

  Lemma collapse_ms e : collapse (ms e) = ms (collapse e).
  Proof.
    induction e using expr_ind'; cbn [ms collapse]; try reflexivity; try (rewrite IHe; reflexivity).
    - f_equal. rewrite !map_map. apply map_ext_Forall. exact H.
    - f_equal. rewrite !map_map. apply map_ext_Forall. exact H.
    - f_equal. rewrite !map_map. apply map_ext_Forall. exact H.
    - rewrite flatten_ms. reflexivity.
  Qed.

  Fixpoint propagate_list (i : N) (l : list expr) : list expr :=
    match l with
    | [] => []
    | c :: r => propagate c i :: propagate_list (N.succ i) r
    end.

  Lemma propagate_fb cs sp lvl : propagate (Fallback cs sp) lvl = Fallback (propagate_list 0 cs) sp.
  Proof. reflexivity. Qed.

  Lemma propagate_ms e : forall lvl, propagate (ms e) lvl = ms (propagate e lvl).
  Proof.
    induction e using expr_ind'; intro lvl; cbn [ms]; try reflexivity;
      try (cbn [propagate ms]; rewrite IHe; reflexivity).
    - cbn [propagate ms]. f_equal. rewrite !map_map. apply map_ext_Forall.
      eapply Forall_impl; [|exact H]. intros a Ha. apply Ha.
    - cbn [propagate ms]. f_equal. rewrite !map_map. apply map_ext_Forall.
      eapply Forall_impl; [|exact H]. intros a Ha. apply Ha.
    - rewrite !propagate_fb. cbn [ms]. f_equal. generalize 0 as i.
      induction H as [|x l Hx _ IH]; intro i; cbn; [reflexivity|]. rewrite Hx, IH. reflexivity.
  Qed.
End MapSpans.

(** *** [from_grammar] with its intermediate results named *)
Definition back_end (builtins : shell -> list (string * string)) (g : grammar) (sh : shell)
           (command : string) (defs0 : list defn)
           (us : list (string * user_spec)) (fs : list (string * (string * span)))
  : res valid_grammar :=
  let defs1 := defs1_of defs0 in
  let expr1 := distribute_descriptions (expr0_of g) in
  let spec := spec_of builtins sh us fs defs1 in
  let defs2 := defs2_of spec defs1 in
  let expr2 := spec expr1 in
  do ord <- resolution_order defs2;
  let table := resolve_in_order ord (table0_of defs2) in
  do _ <- spaces table (spaces_fuel table expr2) expr2 [] false false;
  let expr5 := propagate (collapse (resolve table expr2)) 0 in
  let referenced := referenced_of defs1 expr1 in
  Ok (mkvalid command expr5 (get_nonterm_refs expr5) (unused_of referenced defs1)
              (unused_specs_of referenced us)).

Definition from_grammar_named (builtins : shell -> list (string * string)) (g : grammar) (sh : shell)
  : res valid_grammar :=
  match dedup_names [] (cv_names g) with
  | [] => Err MissingCallVariants
  | (command, command_span) :: more =>
      match more with
      | _ :: _ => Err (VaryingCommandNames (command_span :: map snd more))
      | [] =>
          if contains_char slash command then Err (InvalidCommandName command_span) else
          do defs0 <- collect_plain_defs (all_defs g) [];
          do specs <- get_specializations g sh;
          back_end builtins g sh command defs0 (fst specs) (snd specs)
      end
  end.

Lemma from_grammar_named_eq builtins g sh :
  from_grammar builtins g sh = from_grammar_named builtins g sh.
Proof.
  unfold from_grammar, from_grammar_named. fold (cv_names g).
  destruct (dedup_names [] (cv_names g)) as [|[command cspan] more]; [reflexivity|].
  destruct more; [|reflexivity].
  destruct (contains_char slash command); [reflexivity|].
  destruct (collect_plain_defs (all_defs g) []) as [defs0| | |]; cbn [obind]; try reflexivity.
  destruct (get_specializations g sh) as [[us fs]| | |]; reflexivity.
Qed.

Section Naturality.
  Variable f : span -> span.

  Lemma defs1_ms defs0 : defs1_of (map (ms_defn f) defs0) = map (ms_defn f) (defs1_of defs0).
  Proof.
    unfold defs1_of. rewrite !map_map. apply map_ext. intro d. unfold ms_defn. cbn.
    rewrite distribute_descriptions_ms. reflexivity.
  Qed.

  Lemma names_ms defs : map d_name (map (ms_defn f) defs) = map d_name defs.
  Proof. rewrite map_map. reflexivity. Qed.

  Lemma spaces_fuel_ms t e : spaces_fuel (mst f t) (ms f e) = spaces_fuel t e.
  Proof.
    unfold spaces_fuel, mst. rewrite map_length, expr_size_ms. f_equal. f_equal.
    induction t as [|[k v] t IH]; cbn; [reflexivity|]. rewrite expr_size_ms, IH. reflexivity.
  Qed.

  Lemma referenced_ms defs1 e :
    referenced_of (map (ms_defn f) defs1) (ms f e) = referenced_of defs1 e.
  Proof.
    unfold referenced_of. rewrite !map_app, nonterm_refs_ms, map_fst_msp. f_equal.
    induction defs1 as [|d r IH]; cbn; [reflexivity|].
    rewrite !map_app, nonterm_refs_ms, map_fst_msp, IH. reflexivity.
  Qed.

  Lemma back_end_ms builtins g sh command defs0 us fs :
    call_variants g <> [] ->
    back_end builtins (ms_grammar f g) sh command (map (ms_defn f) defs0) (ms_us f us) (ms_fs f fs)
    = ms_res f (ms_valid f) (back_end builtins g sh command defs0 us fs).
  Proof.
    intro Hne. unfold back_end. cbn zeta.
    rewrite defs1_ms, (expr0_ms f g Hne), distribute_descriptions_ms.
    unfold spec_of. rewrite names_ms.
    set (defs1 := defs1_of defs0).
    set (spec := specialize sh us (builtins sh) fs (map d_name defs1)).
    set (spec' := specialize sh (ms_us f us) (builtins sh) (ms_fs f fs) (map d_name defs1)).
    assert (Hspec : forall e, spec' (ms f e) = ms f (spec e)) by (intro e; apply specialize_ms).
    assert (Hd2 : defs2_of spec' (map (ms_defn f) defs1) = map (ms_defn f) (defs2_of spec defs1)).
    { unfold defs2_of. rewrite !map_map. apply map_ext. intro d. unfold ms_defn. cbn.
      rewrite Hspec. reflexivity. }
    rewrite Hd2, Hspec, resolution_order_ms.
    destruct (resolution_order (defs2_of spec defs1)) as [ord| | |]; cbn [ms_res obind]; try reflexivity.
    assert (Ht : table0_of (map (ms_defn f) (defs2_of spec defs1)) = mst f (table0_of (defs2_of spec defs1))).
    { unfold table0_of, mst. rewrite !map_map. reflexivity. }
    rewrite Ht, resolve_in_order_ms, spaces_fuel_ms.
    change (@nil span) with (map f (@nil span)) at 1. rewrite spaces_ms.
    destruct (spaces _ _ _ [] false false) as [[]| | |]; cbn [ms_res obind]; try reflexivity.
    rewrite resolve_ms, collapse_ms, propagate_ms, get_nonterm_refs_ms, referenced_ms.
    unfold ms_valid. cbn [v_command v_expr v_undefined v_unused v_unused_specs]. f_equal. f_equal.
    - unfold unused_of. symmetry. rewrite <- (filter_msp f (fun p => negb (mem_str (fst p) _))
                                                         (fun p => negb (mem_str (fst p) _))) by reflexivity.
      f_equal. unfold msp. rewrite !map_map. reflexivity.
    - unfold unused_specs_of. symmetry.
      rewrite <- (filter_msp f (fun p => negb (mem_str (fst p) _))
                             (fun p => negb (mem_str (fst p) _))) by reflexivity.
      f_equal. unfold msp, ms_us. rewrite !map_map. reflexivity.
  Qed.

  Theorem from_grammar_ms builtins g sh :
    from_grammar builtins (ms_grammar f g) sh
    = ms_res f (ms_valid f) (from_grammar builtins g sh).
  Proof.
    rewrite !from_grammar_named_eq. unfold from_grammar_named.
    rewrite cv_names_ms, dedup_names_ms.
    destruct (dedup_names [] (cv_names g)) as [|[command cspan] more] eqn:Hd; [reflexivity|].
    assert (Hne : call_variants g <> []).
    { intro H. unfold cv_names in Hd. rewrite H in Hd. discriminate. }
    cbn [msp map fst snd]. fold (msp f more).
    destruct more as [|m more]; cbn [msp map].
    2:{ cbn [ms_res ms_err map snd fst]. rewrite !map_map. reflexivity. }
    destruct (contains_char slash command); [reflexivity|].
    rewrite all_defs_ms.
    pose proof (collect_plain_defs_ms f (all_defs g) []) as Hc. cbn [map] in Hc. rewrite Hc.
    destruct (collect_plain_defs (all_defs g) []) as [defs0| | |]; cbn [ms_res obind]; try reflexivity.
    rewrite get_specializations_ms.
    destruct (get_specializations g sh) as [[us fs]| | |]; cbn [ms_res obind ms_specs fst snd];
      try reflexivity.
    apply back_end_ms. exact Hne.
  Qed.
End Naturality.

(** *** Corollary: grammars equal up to spans *)
Definition erase : span -> span := fun _ => mkspan 0 0 0.

Definition same_shape (g1 g2 : grammar) : Prop := ms_grammar erase g1 = ms_grammar erase g2.

Theorem layout_check builtins g1 g2 sh :
  same_shape g1 g2 ->
  ms_res erase (ms_valid erase) (from_grammar builtins g1 sh)
  = ms_res erase (ms_valid erase) (from_grammar builtins g2 sh).
Proof. intro H. rewrite <- !from_grammar_ms. unfold same_shape in H. rewrite H. reflexivity. Qed.

Corollary layout_verdict builtins g1 g2 sh :
  same_shape g1 g2 ->
  (forall v1, from_grammar builtins g1 sh = Ok v1 ->
              exists v2, from_grammar builtins g2 sh = Ok v2 /\ v_command v1 = v_command v2
                         /\ ms erase (v_expr v1) = ms erase (v_expr v2)
                         /\ map fst (v_undefined v1) = map fst (v_undefined v2)
                         /\ map fst (v_unused v1) = map fst (v_unused v2)
                         /\ map fst (v_unused_specs v1) = map fst (v_unused_specs v2)) /\
  (forall e1, from_grammar builtins g1 sh = Err e1 ->
              exists e2, from_grammar builtins g2 sh = Err e2 /\ ms_err erase e1 = ms_err erase e2).
Proof.
  intro H. pose proof (layout_check builtins g1 g2 sh H) as E. split.
  - intros v1 H1. rewrite H1 in E. destruct (from_grammar builtins g2 sh) as [v2| | |]; try discriminate.
    exists v2. split; [reflexivity|]. cbn in E. inversion E as [[Hc He Hu Hn Hs]].
    repeat split; auto.
    + rewrite <- (map_fst_msp erase (v_undefined v1)), Hu, map_fst_msp. reflexivity.
    + rewrite <- (map_fst_msp erase (v_unused v1)), Hn, map_fst_msp. reflexivity.
    + rewrite <- (map_fst_msp erase (v_unused_specs v1)), Hs, map_fst_msp. reflexivity.
  - intros e1 H1. rewrite H1 in E. destruct (from_grammar builtins g2 sh) as [|e2| |]; try discriminate.
    exists e2. split; [reflexivity|]. cbn in E. inversion E. reflexivity.
Qed.
