(** Totality of the parser model on arbitrary input bytes: [parse_with c s] is [Ok] or [Err], never
    [Panic] (no panic site exists in the model of parse.rs) and never [OutOfFuel] (the fuel
    [parse_with] gives itself always suffices: every loop round and every bracket nesting consumes
    at least one byte).  Holds for either configuration of the terminal lexer. *)
From CG Require Import Base.Prelude Model.Ast Model.Lexer Model.Parser Spec.Printer Spec.Spans
  Proofs.LexBase Proofs.LexBlanks Proofs.LexTerminal Proofs.SpanSound.
From CGgen Require Import Consts.

Definition len (i : input) : nat := String.length (rest i).

(** the result is [Ok] or [Err], and an [Ok] result has consumed input ([strict]: at least a byte) *)
Definition fine {A} (strict : bool) (i : input) (x : pres A) : Prop :=
  match x with
  | Ok (_, i') => if strict then (len i' < len i)%nat else (len i' <= len i)%nat
  | Err _ => True
  | _ => False
  end.

Lemma fine_weaken : forall A (i : input) (x : pres A), fine true i x -> fine false i x.
Proof. intros A i [[a j]| | |]; cbn; auto. lia. Qed.

Definition rel (s : bool) (a b : nat) : Prop := if s then (a < b)%nat else (a <= b)%nat.

Lemma fine_bind : forall A B (s1 s2 s : bool) (i : input) (x : pres A) (f : A * input -> pres B),
    fine s1 i x ->
    (forall a i1, rel s1 (len i1) (len i) -> fine s2 i1 (f (a, i1))) ->
    (s = true -> s1 = true \/ s2 = true) ->
    fine s i (obind x f).
Proof.
  intros A B s1 s2 s i [[a i1]| | |] f H1 H2 Hs; cbn [obind fine] in *; auto.
  specialize (H2 a i1 H1). destruct (f (a, i1)) as [[b i2]| | |]; cbn [fine] in *; auto.
  unfold rel in *. destruct s, s1, s2; try lia; destruct (Hs eq_refl); discriminate.
Qed.

Lemma fine_ok : forall A (i : input) (a : A), fine false i (Ok (a, i)).
Proof. intros. cbn. lia. Qed.

Lemma fine_alt : forall A s (i : input) (x y : pres A), fine s i x -> fine s i y -> fine s i (x <|> y).
Proof. intros A s i [[a j]| | |] y Hx Hy; cbn in *; auto. Qed.

Lemma fine_err : forall A s (i : input) u, fine (A := A) s i (Err u).
Proof. intros. exact I. Qed.

(** *** Primitives *)

Lemma adv_len : forall i i', adv i i' -> (len i' <= len i)%nat.
Proof. intros i i' (w & E & _). unfold len. rewrite E, length_app_s. lia. Qed.

Lemma char_p_fine : forall c i, fine true i (char_p c i).
Proof.
  intros c [s p]. unfold char_p. cbn [rest at_]. destruct s as [|d r]; [exact I|].
  destruct (Ascii.eqb d c); [|exact I]. cbn. lia.
Qed.

Lemma tag_p_fine : forall t i, t <> EmptyString -> fine true i (tag_p t i).
Proof.
  intros t [s p] Ht. unfold tag_p. cbn [rest at_]. destruct (strip_prefix t s) as [r|] eqn:E; [|exact I].
  apply strip_prefix_app in E. subst s. cbn. unfold len. cbn [rest]. rewrite length_app_s.
  destruct t; [congruence|]. cbn. lia.
Qed.

Lemma take_while_len : forall p i a i', take_while p i = (a, i') ->
    (len i' + String.length a = len i)%nat.
Proof.
  intros p [s q] a i' H. unfold take_while in H. cbn [rest at_] in H.
  destruct (span_while p s) as [x y] eqn:E. inversion H; subst. unfold len. cbn [rest].
  rewrite (span_while_len _ _ _ _ E). lia.
Qed.

Lemma take_while1_fine : forall p i, fine true i (take_while1 p i).
Proof.
  intros p i. unfold take_while1. destruct (take_while p i) as [a j] eqn:E.
  pose proof (take_while_len _ _ _ _ E). destruct a; [exact I|]. cbn in *. lia.
Qed.

Lemma multiblanks0_fine : forall i, fine false i (multiblanks0 i).
Proof. intros. rewrite multiblanks0_spec. cbn. apply adv_len, skip_adv. Qed.

Lemma multiblanks1_fine : forall i, fine true i (multiblanks1 i).
Proof.
  intros. rewrite multiblanks1_spec. pose proof (blanks_spec i) as B.
  destruct (hd_is blank_start (rest i)); [|exact I].
  destruct B as (i1 & _ & S1 & L1). cbn. rewrite <- S1.
  pose proof (adv_len _ _ (skip_adv i1)). unfold len in *. lia.
Qed.

Lemma terminal_fine : forall c i, fine true i (terminal c i).
Proof.
  intros [rb re] [s p]. unfold terminal. cbn [reset_after_backslash reset_after_escaped]. rewrite terminal_spec.
  destruct (lex1 rb re s p) as [[t [r q]]|] eqn:E; [|exact I].
  pose proof (lex1_len _ _ _ _ _ _ _ _ (Nat.le_refl _) E).
  destruct t; [exact I|]. cbn in *. unfold len. cbn [rest]. lia.
Qed.

Lemma parse_fragment_fine : forall i, fine true i (parse_fragment i).
Proof.
  intros i. unfold parse_fragment.
  apply fine_alt; [|apply fine_alt].
  - eapply fine_bind with (s1 := true) (s2 := false); [apply take_while1_fine| |auto].
    intros a i1 _. apply fine_ok.
  - eapply fine_bind with (s1 := true) (s2 := false); [|intros a i1 _; apply fine_ok|auto].
    unfold parse_escaped_char.
    eapply fine_bind with (s1 := true) (s2 := false); [apply char_p_fine| |auto].
    intros a i1 _. apply fine_alt.
    + eapply fine_bind with (s1 := true) (s2 := false); [apply char_p_fine| |auto].
      intros. apply fine_ok.
    + eapply fine_bind with (s1 := true) (s2 := false); [apply char_p_fine| |auto].
      intros. apply fine_ok.
  - eapply fine_bind with (s1 := true) (s2 := false); [|intros a i1 _; apply fine_ok|auto].
    unfold parse_escaped_whitespace.
    eapply fine_bind with (s1 := true) (s2 := false); [apply char_p_fine| |auto].
    intros a i1 _.
    eapply fine_bind with (s1 := true) (s2 := false); [apply take_while1_fine| |auto].
    intros. apply fine_ok.
Qed.

Lemma description_inner_f_fine : forall fuel i, (len i < fuel)%nat -> fine false i (description_inner_f fuel i).
Proof.
  induction fuel; intros i H; [lia|]. cbn [description_inner_f].
  pose proof (parse_fragment_fine i) as F.
  destruct (parse_fragment i) as [[fr i1]| | |]; cbn [fine] in F; try contradiction.
  - eapply fine_bind with (s1 := false) (s2 := false); [|intros a i2 _; apply fine_ok|auto].
    specialize (IHfuel i1 ltac:(lia)).
    destruct (description_inner_f fuel i1) as [[m i2]| | |]; cbn [fine] in *; auto; try lia.
  - cbn. lia.
Qed.

Lemma description_fine : forall i, fine true i (description i).
Proof.
  intros i. unfold description.
  eapply fine_bind with (s1 := true) (s2 := false); [apply char_p_fine| |auto].
  intros a i1 _.
  eapply fine_bind with (s1 := false) (s2 := false); [apply description_inner_f_fine; unfold len; lia| |auto].
  intros d i2 _.
  eapply fine_bind with (s1 := true) (s2 := false); [apply char_p_fine| |auto].
  intros. apply fine_ok.
Qed.

Lemma opt_description_fine : forall i, fine false i (opt_description i).
Proof.
  intros i. unfold opt_description.
  assert (F : fine false i (do (_, i1) <- multiblanks0 i; description i1)).
  { eapply fine_bind with (s1 := false) (s2 := true); [apply multiblanks0_fine| |auto].
    intros a i1 _. apply description_fine. }
  destruct (do (_, i1) <- multiblanks0 i; description i1) as [[d i2]| | |]; cbn [fine] in *; auto; try lia.
Qed.

Lemma nonterm_fine : forall i, fine true i (nonterm i).
Proof.
  intros i. unfold nonterm.
  eapply fine_bind with (s1 := true) (s2 := false); [apply char_p_fine| |auto]. intros a i1 _.
  eapply fine_bind with (s1 := true) (s2 := false); [apply take_while1_fine| |auto]. intros b i2 _.
  eapply fine_bind with (s1 := true) (s2 := false); [apply char_p_fine| |auto]. intros. apply fine_ok.
Qed.

Lemma nonterm_specialization_fine : forall i, fine true i (nonterm_specialization i).
Proof.
  intros i. unfold nonterm_specialization.
  eapply fine_bind with (s1 := true) (s2 := false); [apply char_p_fine| |auto]. intros a i1 _.
  eapply fine_bind with (s1 := true) (s2 := false); [apply take_while1_fine| |auto]. intros b i2 _.
  eapply fine_bind with (s1 := true) (s2 := false); [apply char_p_fine| |auto]. intros a3 i3 _.
  eapply fine_bind with (s1 := true) (s2 := false); [apply take_while1_fine| |auto]. intros b4 i4 _.
  eapply fine_bind with (s1 := true) (s2 := false); [apply char_p_fine| |auto]. intros. apply fine_ok.
Qed.

Lemma take_until_fine : forall t i, fine false i (take_until t i).
Proof.
  intros t [s p]. unfold take_until. cbn [rest at_]. destruct (split_until t s) as [[a b]|] eqn:E; [|exact I].
  apply split_until_app in E. subst s. cbn. unfold len. cbn [rest]. rewrite length_app_s. lia.
Qed.

Lemma triple_bracket_command_fine : forall i, fine true i (triple_bracket_command i).
Proof.
  intros i. unfold triple_bracket_command.
  eapply fine_bind with (s1 := true) (s2 := false); [apply tag_p_fine; discriminate| |auto]. intros a i1 _.
  eapply fine_bind with (s1 := false) (s2 := false); [apply take_until_fine| |auto]. intros b i2 _.
  eapply fine_bind with (s1 := true) (s2 := false); [apply tag_p_fine; discriminate| |auto]. intros. apply fine_ok.
Qed.

Lemma many1_tag_fine : forall i, fine true i (many1_tag i).
Proof.
  intros i. unfold many1_tag.
  eapply fine_bind with (s1 := false) (s2 := true); [apply multiblanks0_fine| |auto].
  intros a i1 _. apply tag_p_fine. discriminate.
Qed.

Lemma end_of_statement_fine : forall i, fine false i (end_of_statement i).
Proof.
  intros i. unfold end_of_statement. apply fine_alt; [apply fine_weaken, char_p_fine|].
  destruct (rest i); [apply fine_ok|exact I].
Qed.

(** *** Expressions *)

Section Total.
  Variable c : cfg.

  Lemma terminal_expr_fine : forall i, fine true i (terminal_opt_description_expr c i).
  Proof.
    intros i. unfold terminal_opt_description_expr.
    eapply fine_bind with (s1 := true) (s2 := false); [apply terminal_fine| |auto]. intros t i1 _.
    eapply fine_bind with (s1 := false) (s2 := false); [apply opt_description_fine| |auto]. intros. apply fine_ok.
  Qed.

  Lemma nonterm_expr_fine : forall i, fine true i (nonterm_expr i).
  Proof.
    intros i. unfold nonterm_expr.
    eapply fine_bind with (s1 := true) (s2 := false); [apply nonterm_fine| |auto]. intros. apply fine_ok.
  Qed.

  Lemma command_expr_fine : forall i, fine true i (command_expr i).
  Proof.
    intros i. unfold command_expr.
    eapply fine_bind with (s1 := true) (s2 := false); [apply triple_bracket_command_fine| |auto].
    intros. apply fine_ok.
  Qed.

  (** the recursive call, usable on inputs one byte shorter than the fuel allows *)
  Definition GoodEx (ex : input -> pres expr) (m : nat) : Prop :=
    forall i, (S (len i) < m)%nat -> fine true i (ex i).

  Definition GoodU (p : input -> pres expr) (m : nat) : Prop :=
    forall i, (len i < m)%nat -> fine true i (p i).

  Lemma optional_fine : forall ex m, GoodEx ex m -> GoodU (optional_expr ex) m.
  Proof.
    intros ex m G i H. unfold optional_expr.
    eapply fine_bind with (s1 := true) (s2 := false); [apply char_p_fine| |auto]. intros a i1 L1.
    eapply fine_bind with (s1 := false) (s2 := false); [apply multiblanks0_fine| |auto]. intros b i2 L2.
    eapply fine_bind with (s1 := true) (s2 := false); [apply G; cbn [rel] in *; lia| |auto]. intros e i3 L3.
    eapply fine_bind with (s1 := false) (s2 := false); [apply multiblanks0_fine| |auto]. intros b4 i4 L4.
    eapply fine_bind with (s1 := true) (s2 := false); [apply char_p_fine| |auto]. intros. apply fine_ok.
  Qed.

  Lemma paren_fine : forall ex m, GoodEx ex m -> GoodU (parenthesized_expr ex) m.
  Proof.
    intros ex m G i H. unfold parenthesized_expr.
    eapply fine_bind with (s1 := true) (s2 := false); [apply char_p_fine| |auto]. intros a i1 L1.
    eapply fine_bind with (s1 := false) (s2 := false); [apply multiblanks0_fine| |auto]. intros b i2 L2.
    eapply fine_bind with (s1 := true) (s2 := false); [apply G; cbn [rel] in *; lia| |auto]. intros e i3 L3.
    eapply fine_bind with (s1 := false) (s2 := false); [apply multiblanks0_fine| |auto]. intros b4 i4 L4.
    eapply fine_bind with (s1 := true) (s2 := false); [apply char_p_fine| |auto]. intros. apply fine_ok.
  Qed.

  Lemma unary_fine : forall ex m, GoodEx ex m -> GoodU (unary_expr c ex) m.
  Proof.
    intros ex m G i H. unfold unary_expr.
    eapply fine_bind with (s1 := true) (s2 := false); [| |auto].
    - apply fine_alt; [apply nonterm_expr_fine|]. apply fine_alt; [apply optional_fine with (m := m); auto|].
      apply fine_alt; [apply paren_fine with (m := m); auto|]. apply fine_alt; [apply command_expr_fine|].
      apply terminal_expr_fine.
    - intros e i1 _. pose proof (many1_tag_fine i1) as T.
      destruct (many1_tag i1) as [[u j]| | |]; cbn [fine] in *; auto; try lia.
  Qed.

  Lemma loop_fine : forall A (step : input -> pres A) m,
      (forall j, (len j < m)%nat -> fine true j (step j)) ->
      forall k i, (len i < k)%nat -> (len i < m)%nat -> fine false i (loop_p k step i).
  Proof.
    intros A step m G. induction k; intros i Hk Hm; [lia|]. cbn [loop_p].
    pose proof (G i Hm) as S1. destruct (step i) as [[a i1]| | |]; cbn [fine] in S1; try contradiction.
    - specialize (IHk i1 ltac:(lia) ltac:(lia)).
      destruct (loop_p k step i1) as [[l i2]| | |]; cbn [obind fine] in *; auto; try lia.
    - cbn. lia.
  Qed.

  Lemma nary_fine : forall (first step : input -> pres expr) (mk : expr -> list expr -> input -> input -> expr) m,
      GoodU first m -> GoodU step m ->
      GoodU (fun i => do (lft, after) <- first i;
                      do (more, after') <- loop_p m step after;
                      Ok (mk lft more i after', after')) m.
  Proof.
    intros first step mk m G1 G2 i H. cbv beta.
    eapply fine_bind with (s1 := true) (s2 := false); [apply G1; auto| |auto]. intros e i1 L1.
    eapply fine_bind with (s1 := false) (s2 := false);
      [apply (loop_fine _ step m G2); cbn [rel] in *; lia| |auto].
    intros. apply fine_ok.
  Qed.

  Lemma subword_fine : forall u m, GoodU u m -> GoodU (subword_sequence_expr m u) m.
  Proof.
    intros u m G i H. unfold subword_sequence_expr.
    pose proof (nary_fine u u (fun lft more i0 after => match more with [] => lft | _ =>
                  Subword (Sequence (map flatten_expr (lft :: more)) (from_range i0 after)) 0 (from_range i0 after) end)
                  m G G i H) as X. cbv beta in X.
    revert X. destruct (u i) as [[e i1]| | |]; cbn [obind]; auto.
    destruct (loop_p m u i1) as [[l i2]| | |]; cbn [obind]; auto.
    destruct l; auto.
  Qed.

  Lemma item_fine : forall u m, GoodU u m -> GoodU (subword_sequence_expr_opt_description m u) m.
  Proof.
    intros u m G i H. unfold subword_sequence_expr_opt_description.
    eapply fine_bind with (s1 := true) (s2 := false); [apply subword_fine; auto| |auto]. intros e i1 L1.
    pose proof (opt_description_fine i1) as O.
    destruct (opt_description i1) as [[d i2]| | |]; cbn [obind fine] in *; auto.
    destruct d; cbn; lia.
  Qed.

  Lemma sequence_fine : forall item m, GoodU item m -> GoodU (sequence_expr m item) m.
  Proof.
    intros item m G i H. unfold sequence_expr.
    pose proof (nary_fine item (fun j => do (_, j1) <- multiblanks1 j; item j1)
                  (fun lft more i0 after => match more with [] => lft | _ => Sequence (lft :: more) (from_range i0 after) end)
                  m G) as X. cbv beta in X.
    assert (G2 : GoodU (fun j => do (_, j1) <- multiblanks1 j; item j1) m).
    { intros j Hj. eapply fine_bind with (s1 := true) (s2 := true); [apply multiblanks1_fine| |auto].
      intros a j1 L. apply G. cbn [rel] in L. lia. }
    specialize (X G2 i H). cbv beta in X. revert X. destruct (item i) as [[e i1]| | |]; cbn [obind]; auto.
    destruct (loop_p m _ i1) as [[l i2]| | |]; cbn [obind]; auto.
    destruct l; auto.
  Qed.

  Lemma alternative_fine : forall sq m, GoodU sq m -> GoodU (alternative_expr m sq) m.
  Proof.
    intros sq m G i H. unfold alternative_expr.
    pose proof (nary_fine sq (do_alternative_expr sq)
                  (fun lft more i0 after => match more with [] => lft | _ => Alternative (lft :: more) (from_range i0 after) end)
                  m G) as X. cbv beta in X.
    assert (G2 : GoodU (do_alternative_expr sq) m).
    { intros j Hj. unfold do_alternative_expr.
      eapply fine_bind with (s1 := false) (s2 := true); [apply multiblanks0_fine| |auto]. intros a j1 L1.
      eapply fine_bind with (s1 := true) (s2 := false); [apply char_p_fine| |auto]. intros b j2 L2.
      eapply fine_bind with (s1 := false) (s2 := false); [apply multiblanks0_fine| |auto]. intros a3 j3 L3.
      apply fine_weaken. apply G. cbn [rel] in *. lia. }
    specialize (X G2 i H). cbv beta in X. revert X. destruct (sq i) as [[e i1]| | |]; cbn [obind]; auto.
    destruct (loop_p m _ i1) as [[l i2]| | |]; cbn [obind]; auto.
    destruct l; auto.
  Qed.

  Lemma fallback_fine : forall al m, GoodU al m -> GoodU (fallback_expr m al) m.
  Proof.
    intros al m G i H. unfold fallback_expr.
    pose proof (nary_fine al (do_fallback_expr al)
                  (fun lft more i0 after => match more with [] => lft | _ => Fallback (lft :: more) (from_range i0 after) end)
                  m G) as X. cbv beta in X.
    assert (G2 : GoodU (do_fallback_expr al) m).
    { intros j Hj. unfold do_fallback_expr.
      eapply fine_bind with (s1 := false) (s2 := true); [apply multiblanks0_fine| |auto]. intros a j1 L1.
      eapply fine_bind with (s1 := true) (s2 := false); [apply tag_p_fine; discriminate| |auto]. intros b j2 L2.
      eapply fine_bind with (s1 := false) (s2 := false); [apply multiblanks0_fine| |auto]. intros a3 j3 L3.
      apply fine_weaken. apply G. cbn [rel] in *. lia. }
    specialize (X G2 i H). cbv beta in X. revert X. destruct (al i) as [[e i1]| | |]; cbn [obind]; auto.
    destruct (loop_p m _ i1) as [[l i2]| | |]; cbn [obind]; auto.
    destruct l; auto.
  Qed.

  Theorem expr_fine : forall n, GoodEx (expr_p c n) n.
  Proof.
    induction n; intros i H; [lia|]. cbn [expr_p].
    apply fallback_fine; [|lia]. apply alternative_fine, sequence_fine, item_fine, unary_fine. exact IHn.
  Qed.

  (** *** Statements and grammars *)

  Lemma call_variant_fine : forall n i, (S (len i) < n)%nat -> fine true i (call_variant c (expr_p c n) i).
  Proof.
    intros n i H. unfold call_variant.
    eapply fine_bind with (s1 := true) (s2 := false); [apply terminal_fine| |auto]. intros a i1 L1.
    eapply fine_bind with (s1 := true) (s2 := false); [apply multiblanks1_fine| |auto]. intros b i2 L2.
    eapply fine_bind with (s1 := true) (s2 := false); [apply expr_fine; cbn [rel] in *; lia| |auto]. intros e i3 L3.
    eapply fine_bind with (s1 := false) (s2 := false); [apply multiblanks0_fine| |auto]. intros b4 i4 L4.
    eapply fine_bind with (s1 := false) (s2 := false); [apply end_of_statement_fine| |auto]. intros. apply fine_ok.
  Qed.

  Lemma nonterm_def_fine : forall i, fine true i (nonterm_def i).
  Proof.
    intros i. unfold nonterm_def. pose proof (nonterm_specialization_fine i) as S1.
    destruct (nonterm_specialization i) as [[[[[nm nsp] sh] ssp] j]| | |]; cbn [fine] in *; auto.
    pose proof (nonterm_fine i) as N1.
    destruct (nonterm i) as [[[nm nsp] j]| | |]; cbn [fine] in *; auto.
  Qed.

  Lemma nonterm_def_statement_fine : forall n i, (S (len i) < n)%nat ->
      fine true i (nonterm_def_statement (expr_p c n) i).
  Proof.
    intros n i H. unfold nonterm_def_statement.
    eapply fine_bind with (s1 := true) (s2 := false); [apply nonterm_def_fine| |auto]. intros hd i1 L1.
    eapply fine_bind with (s1 := false) (s2 := false); [apply multiblanks0_fine| |auto]. intros b i2 L2.
    eapply fine_bind with (s1 := true) (s2 := false);
      [apply fine_alt; apply tag_p_fine; discriminate| |auto]. intros a3 i3 L3.
    eapply fine_bind with (s1 := false) (s2 := false); [apply multiblanks0_fine| |auto]. intros b4 i4 L4.
    eapply fine_bind with (s1 := true) (s2 := false); [apply expr_fine; cbn [rel] in *; lia| |auto]. intros e i5 L5.
    eapply fine_bind with (s1 := false) (s2 := false); [apply multiblanks0_fine| |auto]. intros b6 i6 L6.
    eapply fine_bind with (s1 := false) (s2 := false); [apply end_of_statement_fine| |auto]. intros u i7 L7.
    destruct hd as [[nm nsp] sh]. apply fine_ok.
  Qed.

  Lemma statement_fine : forall n i, (S (len i) < n)%nat -> fine true i (statement_p c (expr_p c n) i).
  Proof.
    intros n i H. unfold statement_p.
    eapply fine_bind with (s1 := true) (s2 := false);
      [apply fine_alt; [apply call_variant_fine|apply nonterm_def_statement_fine]; auto| |auto].
    intros st i1 L1.
    eapply fine_bind with (s1 := false) (s2 := false); [apply multiblanks0_fine| |auto]. intros. apply fine_ok.
  Qed.

  Definition settled {E A} (x : outcome E A) : Prop :=
    match x with Ok _ | Err _ => True | _ => False end.

  Lemma many0_settled : forall n k i, (len i < k)%nat -> (S (len i) < n)%nat ->
      match many0_p k (statement_p c (expr_p c n)) i with
      | Ok (_, i') => (len i' <= len i)%nat
      | Err _ => True
      | _ => False
      end.
  Proof.
    intros n. induction k; intros i Hk Hn; [lia|]. cbn [many0_p].
    pose proof (statement_fine n i Hn) as S1.
    destruct (statement_p c (expr_p c n) i) as [[st i1]| | |]; cbn [fine] in S1; try contradiction; auto.
    destruct (Nat.eqb _ _); auto.
    specialize (IHk i1 ltac:(lia) ltac:(lia)).
    destruct (many0_p k _ i1) as [[l i2]| | |]; auto. lia.
  Qed.

  Theorem parse_with_total : forall s,
      (exists g, parse_with c s = Ok g) \/ (exists sp, parse_with c s = Err sp).
  Proof.
    intros s. unfold parse_with, grammar_p. rewrite multiblanks0_spec.
    pose proof (adv_len _ _ (skip_adv (start s))) as L0. unfold len in L0. cbn [start rest] in L0.
    pose proof (many0_settled (S (S (String.length s))) (S (S (String.length s))) (skip (start s))
                  ltac:(unfold len; lia) ltac:(unfold len; lia)) as X.
    destruct (many0_p _ _ (skip (start s))) as [[l i2]|e| |]; try contradiction.
    - rewrite multiblanks0_spec. destruct (rest (skip i2)); eauto.
    - eauto.
  Qed.
End Total.
