(** Source-level corollaries of the capstone, C14: [compile_bash] on two layouts of one printable
    grammar, and on two texts whose statements are permutations of each other.  [emit_bash] reads
    only the command name, the automata and the oracles; C14b says the first two are the same. *)
From Coq Require Import Permutation.
From CG Require Import Base.Prelude Model.Ast Model.Lexer Model.Parser Model.Check Model.Regex.
From CG Require Import Model.Dfa Model.Subset Model.Driver Model.Tables Model.EmitBash Model.Compiler Spec.Printer.
From CG Require Import Proofs.TreeFacts Proofs.CheckSpans Proofs.PipelineSpans Proofs.PipelineLayout Proofs.CheckTotal.

(** results equal up to spans: the same script byte for byte, or the same rejection after erasing
    the spans of the error (two layouts put the same construct at different positions) *)
Definition script_rel (x y : cres string) : Prop :=
  match x, y with
  | Ok s1, Ok s2 => s1 = s2
  | Err (CDriver e1), Err (CDriver e2) => ms_derr CheckSpans.erase e1 = ms_derr CheckSpans.erase e2
  | Err CBadOracle, Err CBadOracle => True
  | Panic a, Panic b => a = b
  | OutOfFuel, OutOfFuel => True
  | _, _ => False
  end.

Lemma emit_bash_reads o v1 c1 v2 c2 :
  v_command v1 = v_command v2 -> c1 = c2 -> emit_bash o v1 c1 = emit_bash o v2 c2.
Proof. intros Hc ->. unfold emit_bash. rewrite Hc. reflexivity. Qed.

Lemma script_rel_refl x : script_rel x x.
Proof. destruct x as [s|[e|]|m|]; cbn; auto. Qed.

Lemma layout_rel_script_rel o (x y : dres (valid_grammar * cdfa)) :
  layout_rel x y ->
  script_rel (match x with Ok (v, c) => emit_bash o v c | Err e => Err (CDriver e) | Panic s => Panic s | OutOfFuel => OutOfFuel end)
             (match y with Ok (v, c) => emit_bash o v c | Err e => Err (CDriver e) | Panic s => Panic s | OutOfFuel => OutOfFuel end).
Proof.
  destruct x as [[v1 c1]|e1|m1|], y as [[v2 c2]|e2|m2|]; cbn [layout_rel]; try contradiction; auto.
  intros [Hc [_ Hd]]. rewrite (emit_bash_reads o v1 c1 v2 c2 Hc Hd). apply script_rel_refl.
Qed.

Theorem compile_bash_layout o builtins g l1 l2 :
  wf g -> script_rel (compile_bash o builtins (text g l1)) (compile_bash o builtins (text g l2)).
Proof.
  intro W. unfold compile_bash. apply layout_rel_script_rel.
  apply layout_pipeline. exact W.
Qed.

(** statement order *)
Definition order_rel (x y : cres string) : Prop :=
  x = y \/ (exists e1 e2, x = Err (CDriver (DCheck e1)) /\ y = Err (CDriver (DCheck e2))).

Theorem compile_bash_definition_order o builtins t t' g g' :
  parse t = Ok g -> parse t' = Ok g' ->
  Permutation g g' -> call_variants g = call_variants g' ->
  order_rel (compile_bash o builtins t) (compile_bash o builtins t').
Proof.
  intros Hg Hg' Hp Hcv. unfold compile_bash.
  rewrite (compile_after_parse _ _ builtins t g Bash Hg), (compile_after_parse _ _ builtins t' g' Bash Hg').
  unfold after_parse.
  destruct (from_grammar_total builtins g Bash) as [[v Hv]|[e He]].
  - destruct (definition_order_pipeline (pick_table (o_pops o)) (o_fuel o) builtins Bash g g' Hp Hcv v Hv)
      as [v' [Hv' [Hc Hcomp]]].
    rewrite Hv, Hv'. cbn [lift obind]. rewrite Hcomp. left.
    destruct (compile_valid (pick_table (o_pops o)) (o_fuel o) v) as [c|e|m|]; cbn [obind]; try reflexivity.
    apply emit_bash_reads; [symmetry; exact Hc|reflexivity].
  - destruct (from_grammar_total builtins g' Bash) as [[v' Hv']|[e' He']].
    + exfalso.
      destruct (definition_order_pipeline (pick_table (o_pops o)) (o_fuel o) builtins Bash g' g
                  (Permutation_sym Hp) (eq_sym Hcv) v' Hv') as [v [Hv _]]. congruence.
    + rewrite He, He'. cbn [lift obind]. right. eauto.
Qed.
