(** Regular expressions over concrete letters: partial derivatives are correct. *)
From CG Require Import Base.Prelude Model.Ast Spec.Lang.

Section ReFacts.
  Variable B : Type.
  Variable eqB : B -> B -> bool.
  Hypothesis eqB_spec : forall a b, eqB a b = true <-> a = b.

  Notation re := (re B).
  Notation nul := (nul B).
  Notation pd := (pd B eqB).
  Notation mkcat := (mkcat B).
  Notation re_eqb := (re_eqb B eqB).
  Notation syms := (syms B).

  Lemma re_eqb_spec : forall x y : re, re_eqb x y = true <-> x = y.
  Proof.
    induction x; destruct y; simpl; split; intros H; try discriminate; try reflexivity.
    - apply eqB_spec in H. congruence.
    - inversion H. apply eqB_spec. reflexivity.
    - apply andb_true_iff in H. destruct H as [H1 H2].
      apply IHx1 in H1. apply IHx2 in H2. congruence.
    - inversion H; subst. apply andb_true_iff. split; [apply IHx1|apply IHx2]; reflexivity.
    - apply andb_true_iff in H. destruct H as [H1 H2].
      apply IHx1 in H1. apply IHx2 in H2. congruence.
    - inversion H; subst. apply andb_true_iff. split; [apply IHx1|apply IHx2]; reflexivity.
    - apply IHx in H. congruence.
    - inversion H; subst. apply IHx. reflexivity.
  Qed.

  Lemma Lre_nil_nul : forall (r : re) w, Lre r w -> w = [] -> nul r = true.
  Proof.
    intros r w H. induction H; intros E; simpl; try reflexivity; try discriminate.
    - apply app_eq_nil in E. destruct E. rewrite IHLre1, IHLre2; auto.
    - rewrite IHLre; auto.
    - rewrite IHLre; auto. apply orb_true_r.
    - auto.
    - apply app_eq_nil in E. destruct E. auto.
  Qed.

  Lemma nul_Lre : forall r : re, nul r = true -> Lre r [].
  Proof.
    induction r; simpl; intros H; try discriminate.
    - constructor.
    - apply andb_true_iff in H. destruct H.
      change (@nil B) with (@nil B ++ []). constructor; auto.
    - apply orb_true_iff in H. destruct H; [apply L_altl|apply L_altr]; auto.
    - apply L_plus1. auto.
  Qed.

  Lemma nul_spec : forall r : re, nul r = true <-> Lre r [].
  Proof. intros r. split; [apply nul_Lre|]. intros H. eapply Lre_nil_nul; eauto. Qed.

  Lemma mkcat_spec : forall (r s : re) w, Lre (mkcat r s) w <-> Lre (Cat r s) w.
  Proof.
    intros r s w. destruct r; simpl; try tauto.
    split; intros H.
    - change w with ([] ++ w). constructor; [constructor|exact H].
    - inversion H as [| |r0 s0 u v Hu Hv| | | |]; subst.
      inversion Hu; subst. simpl. exact Hv.
  Qed.

  Lemma Lre_emp_inv : forall w : list B, Lre (Emp : re) w -> False.
  Proof. intros w H. inversion H. Qed.
  Lemma Lre_eps_inv : forall w : list B, Lre (Eps : re) w -> w = [].
  Proof. intros w H. inversion H. reflexivity. Qed.
  Lemma Lre_sym_inv : forall (b : B) w, Lre (Sym b) w -> w = [b].
  Proof. intros b w H. inversion H. reflexivity. Qed.
  Lemma Lre_cat_inv : forall (r s : re) w, Lre (Cat r s) w ->
    exists u v, w = u ++ v /\ Lre r u /\ Lre s v.
  Proof. intros r s w H. inversion H; subst. eauto. Qed.
  Lemma Lre_alt_inv : forall (r s : re) w, Lre (Alt r s) w -> Lre r w \/ Lre s w.
  Proof. intros r s w H. inversion H; subst; auto. Qed.

  (** words of [Plus r] starting with a letter *)
  Lemma plus_cons_inv : forall (r : re) v, Lre (Plus r) v -> forall a w, v = a :: w ->
    exists u1 u2, w = u1 ++ u2 /\ Lre r (a :: u1) /\ (u2 = [] \/ Lre (Plus r) u2).
  Proof.
    intros r v H. remember (Plus r) as pr eqn:E. induction H; try discriminate.
    - inversion E; subst. intros a w Hv. subst. exists w, []. rewrite app_nil_r. auto.
    - inversion E; subst. intros a w Hv.
      destruct u as [|x u].
      + simpl in Hv. apply (IHLre2 eq_refl a w Hv).
      + simpl in Hv. inversion Hv; subst. exists u, v. auto.
  Qed.

  Lemma pd_complete : forall (r : re) v, Lre r v -> forall a w, v = a :: w ->
    exists r', In r' (pd a r) /\ Lre r' w.
  Proof.
    induction r; intros v H a w Hv; subst.
    - destruct (Lre_emp_inv _ H).
    - apply Lre_eps_inv in H. discriminate.
    - apply Lre_sym_inv in H. inversion H; subst. exists Eps. simpl.
      assert (E : eqB b b = true) by (apply eqB_spec; reflexivity).
      rewrite E. split; [left; reflexivity|constructor].
    - apply Lre_cat_inv in H. destruct H as [u [v [E [H1 H2]]]]. simpl.
      destruct u as [|x u].
      + simpl in E. subst v.
        destruct (IHr2 _ H2 a w eq_refl) as [r' [Hin HL]].
        exists r'. split; auto. apply in_app_iff. right.
        rewrite (Lre_nil_nul _ _ H1 eq_refl). exact Hin.
      + simpl in E. inversion E; subst.
        destruct (IHr1 _ H1 x u eq_refl) as [r' [Hin HL]].
        exists (mkcat r' r2). split.
        * apply in_app_iff. left. apply in_map_iff. exists r'. auto.
        * apply mkcat_spec. constructor; auto.
    - apply Lre_alt_inv in H. simpl. destruct H as [H|H].
      + destruct (IHr1 _ H a w eq_refl) as [r' [Hin HL]]. exists r'. split; auto.
        apply in_app_iff; auto.
      + destruct (IHr2 _ H a w eq_refl) as [r' [Hin HL]]. exists r'. split; auto.
        apply in_app_iff; auto.
    - destruct (plus_cons_inv _ _ H a w eq_refl) as [u1 [u2 [E [H1 H2]]]]. subst w.
      destruct (IHr _ H1 a u1 eq_refl) as [r' [Hin HL]].
      exists (mkcat r' (Alt Eps (Plus r))). simpl. split.
      + apply in_map_iff. exists r'. auto.
      + apply mkcat_spec. constructor; auto.
        destruct H2 as [H2|H2]; [subst; apply L_altl; constructor|apply L_altr; exact H2].
  Qed.

  Lemma pd_sound : forall (r : re) a r' w, In r' (pd a r) -> Lre r' w -> Lre r (a :: w).
  Proof.
    induction r; simpl; intros a r' w Hin HL; try contradiction.
    - destruct (eqB a b) eqn:E; [|contradiction].
      destruct Hin as [Hin|[]]. subst r'. apply Lre_eps_inv in HL. subst.
      apply eqB_spec in E. subst. constructor.
    - apply in_app_iff in Hin. destruct Hin as [Hin|Hin].
      + apply in_map_iff in Hin. destruct Hin as [x [E Hin]]. subst r'.
        apply mkcat_spec in HL. apply Lre_cat_inv in HL.
        destruct HL as [u [v [E [H1 H2]]]]. subst w.
        change (a :: u ++ v) with ((a :: u) ++ v). constructor; eauto.
      + destruct (nul r1) eqn:N; [|contradiction].
        change (a :: w) with ([] ++ a :: w). constructor; [apply nul_Lre; auto|eauto].
    - apply in_app_iff in Hin. destruct Hin; [apply L_altl|apply L_altr]; eauto.
    - apply in_map_iff in Hin. destruct Hin as [x [E Hin]]. subst r'.
      apply mkcat_spec in HL. apply Lre_cat_inv in HL.
      destruct HL as [u [v [E [H1 H2]]]]. subst w.
      apply Lre_alt_inv in H2. destruct H2 as [H2|H2].
      + apply Lre_eps_inv in H2. subst. rewrite app_nil_r. apply L_plus1. eauto.
      + change (a :: u ++ v) with ((a :: u) ++ v). apply L_plusS; eauto.
  Qed.

  Lemma pd_spec : forall (r : re) a w,
    Lre r (a :: w) <-> exists r', In r' (pd a r) /\ Lre r' w.
  Proof.
    intros. split.
    - intros H. eapply pd_complete; eauto.
    - intros [r' [Hin HL]]. eapply pd_sound; eauto.
  Qed.

  Lemma Lre_syms : forall (r : re) w, Lre r w -> Forall (fun b => In b (syms r)) w.
  Proof.
    intros r w H. induction H; simpl.
    - constructor.
    - constructor; [left; reflexivity|constructor].
    - apply Forall_app. split; eapply Forall_impl; try eassumption;
        intros; apply in_app_iff; auto.
    - eapply Forall_impl; try eassumption. intros; apply in_app_iff; auto.
    - eapply Forall_impl; try eassumption. intros; apply in_app_iff; auto.
    - assumption.
    - apply Forall_app. split; assumption.
  Qed.
End ReFacts.
