(** C16: under well-formedness the (patched) model of [DFA::to_dot] returns an explicit list of
    lines, every one of which is well formed for the reader. *)
From CG Require Import Base.Prelude Model.Dfa Spec.DotRead Spec.DotSpec Model.Dot
     Proofs.DotLex Proofs.DotParse Proofs.DotNames Proofs.DotStates.
Local Open Scope string_scope.

(** ** The display text of the specification is the one the code computes *)
Lemma rust_char_debug c : rust_char c = debug_char c.
Proof.
  destruct c as [b0 b1 b2 b3 b4 b5 b6 b7].
  destruct b0, b1, b2, b3, b4, b5, b6, b7; vm_compute; reflexivity.
Qed.

Lemma rust_literal_debug s : rust_literal s = debug_str s.
Proof.
  unfold rust_literal, debug_str. change sdq with dq. do 2 f_equal.
  induction s as [|c s IH]; [reflexivity|]. cbn [rust_literal_body debug_body].
  now rewrite rust_char_debug, IH.
Qed.

Lemma display_model x :
  match display x with
  | Some t => diagnostic_display_input x = Ok t
  | None => exists k l, x = ISub k l
  end.
Proof.
  destruct x as [t [dd|] l|k l|cm l|cm l|]; cbn [display diagnostic_display_input]; try reflexivity.
  - now rewrite rust_literal_debug.
  - now exists k, l.
Qed.

(** ** Edges as data *)
Definition edge4 := (string * string * string * string)%type.
Definition edge_item (e : edge4) : item :=
  ILine (LEdgeQ (fst (fst (fst e))) (snd (fst (fst e))) (snd (fst e)) (snd e)).

Definition x_edges (base : N) (subs : list dfa) (ids : list (N * N)) (d : dfa) (p : string)
           (t : N * N * N) : list edge4 :=
  match nthN (d_inputs d) (snd (fst t)) with
  | Some (ISub k _) =>
      match nthN subs k, assocN k ids with
      | Some sd, Some id =>
          (node_id p (fst (fst t) + base), node_id (sub_pre id) (d_start sd + base), "style", "dashed")
          :: map (fun a => (node_id (sub_pre id) (a + base), node_id p (snd t + base), "style", "dashed"))
                 (d_accepting sd)
      | _, _ => []
      end
  | Some x =>
      match display x with
      | Some text => [(node_id p (fst (fst t) + base), node_id p (snd t + base), "label", escape_dot text)]
      | None => []
      end
  | None => []
  end.

Definition trans_ok (subs : list dfa) (ids : list (N * N)) (d : dfa) (t : N * N * N) : Prop :=
  match nthN (d_inputs d) (snd (fst t)) with
  | Some (ISub k _) => (exists sd, nthN subs k = Some sd) /\ (exists id, assocN k ids = Some id)
  | Some _ => True
  | None => False
  end.

Lemma transition_lines_ok base subs ids d p t :
  trans_ok subs ids d t ->
  transition_lines patched base subs ids d p t = Ok (map edge_item (x_edges base subs ids d p t)).
Proof.
  destruct t as [[from i] to]. unfold trans_ok, transition_lines, x_edges, get_input. cbn [fst snd].
  destruct (nthN (d_inputs d) i) as [x|] eqn:Ex; [|intros []]. cbn [obind].
  pose proof (display_model x) as Hd.
  destruct x as [t' dd l|k l|cm l|cm l|].
  - intros _. destruct (display (ILit t' dd l)) as [text|]; [|destruct Hd as [? [? Hd]]; discriminate Hd].
    rewrite Hd. reflexivity.
  - intros [[sd Hsd] [id Hid]]. unfold lookup_sub. rewrite Hsd, Hid. cbn [obind].
    cbn [map v_subacc patched]. unfold edge_item at 1. cbn [fst snd]. do 2 f_equal.
    rewrite map_map. reflexivity.
  - intros _. destruct (display (ICmd cm l)) as [text|]; [|destruct Hd as [? [? Hd]]; discriminate Hd].
    rewrite Hd. reflexivity.
  - intros _. destruct (display (ICompadd cm l)) as [text|]; [|destruct Hd as [? [? Hd]]; discriminate Hd].
    rewrite Hd. reflexivity.
  - intros _. reflexivity.
Qed.

Lemma oconcat_ok base subs ids d p ts :
  Forall (trans_ok subs ids d) ts ->
  oconcat (map (transition_lines patched base subs ids d p) ts)
  = Ok (map edge_item (flat_map (x_edges base subs ids d p) ts)).
Proof.
  induction 1 as [|t r Ht Hr IH]; [reflexivity|]. cbn [map oconcat flat_map].
  rewrite (transition_lines_ok _ _ _ _ _ _ Ht), IH. cbn [obind]. now rewrite map_app.
Qed.

(** ** A within-word automaton *)
Definition x_sub_items (base : N) (sd : dfa) (p : string) : list item :=
  (node_lines patched base sd p
   ++ map edge_item (flat_map (x_edges base [] [] sd p) (iter_transitions sd)))%list.

Lemma uses_nil d : no_sub_trans d = true -> uses d (iter_transitions d) = [].
Proof.
  unfold no_sub_trans, uses. intro H. rewrite forallb_forall in H.
  induction (iter_transitions d) as [|t r IH]; [reflexivity|]. cbn [flat_map].
  pose proof (H t (or_introl eq_refl)) as Ht.
  rewrite IH by (intros x Hx; apply H; now right).
  destruct (nthN (d_inputs d) (snd (fst t))) as [[| | | |]|]; try reflexivity. discriminate Ht.
Qed.

Lemma sub_trans_ok d :
  inputs_in_range d = true -> no_sub_trans d = true -> Forall (trans_ok [] [] d) (iter_transitions d).
Proof.
  unfold inputs_in_range, no_sub_trans. rewrite !forallb_forall. intros H1 H2.
  apply Forall_forall. intros t Ht. specialize (H1 t Ht). specialize (H2 t Ht). unfold trans_ok.
  destruct (nthN (d_inputs d) (snd (fst t))) as [[| | | |]|]; try exact I; discriminate.
Qed.

Lemma do_to_dot_sub base sd p nested :
  wf_dfa sd = true -> no_sub_trans sd = true ->
  do_to_dot patched base [] sd p nested = Ok (x_sub_items base sd p).
Proof.
  intros Hwf Hns. unfold wf_dfa in Hwf. apply andb_true_iff in Hwf as [Hr _].
  unfold do_to_dot. rewrite (get_subwords_spec sd base Hr). cbn [obind].
  unfold sub_ids, sub_order. change (transitions sd) with (iter_transitions sd).
  fold (uses sd (iter_transitions sd)). rewrite (uses_nil sd Hns). cbn [dedup dedup_go number_from omap obind].
  rewrite (oconcat_ok base [] [] sd p _ (sub_trans_ok sd Hr Hns)). reflexivity.
Qed.

(** ** The whole automaton *)
Definition used (base : N) (c : cdfa) : list (N * dfa) :=
  flat_map (fun p : N * N => match nthN (c_subs c) (fst p) with Some sd => [(snd p, sd)] | None => [] end)
           (sub_ids base (c_main c)).

Definition x_cluster (base : N) (q : N * dfa) : item :=
  cluster_block "" (fst q) (x_sub_items base (snd q) (sub_pre (fst q))).

Definition x_items (base : N) (c : cdfa) : list item :=
  (ILine (LAssign "rankdir" "LR")
   :: node_lines patched base (c_main c) ""
   ++ map (x_cluster base) (used base c)
   ++ map edge_item (flat_map (x_edges base (c_subs c) (sub_ids base (c_main c)) (c_main c) "")
                              (iter_transitions (c_main c))))%list.

(** what well-formedness says about a within-word automaton that is used *)
Lemma wf_used c t k l :
  wf_cdfa c = true -> In t (iter_transitions (c_main c)) ->
  nthN (d_inputs (c_main c)) (snd (fst t)) = Some (ISub k l) ->
  exists sd, nthN (c_subs c) k = Some sd /\ wf_dfa sd = true /\ no_sub_trans sd = true.
Proof.
  unfold wf_cdfa. intros H Ht E. apply andb_true_iff in H as [_ H]. rewrite forallb_forall in H.
  specialize (H t Ht). rewrite E in H. destruct (nthN (c_subs c) k) as [sd|]; [|discriminate].
  apply andb_true_iff in H as [H1 H2]. now exists sd.
Qed.

Lemma sub_ids_used c base k id :
  In (k, id) (sub_ids base (c_main c)) ->
  exists t l, In t (iter_transitions (c_main c)) /\ nthN (d_inputs (c_main c)) (snd (fst t)) = Some (ISub k l).
Proof.
  unfold sub_ids, sub_order. intro H. apply number_from_in in H. rewrite dedup_in in H.
  change (transitions (c_main c)) with (iter_transitions (c_main c)) in H.
  exact (uses_in _ _ _ H).
Qed.

Lemma assocN_in {V} k (l : list (N * V)) : In k (map fst l) -> exists v, assocN k l = Some v.
Proof.
  induction l as [|[k' v] r IH]; [intros []|]. cbn. intro H. destruct (k =? k')%N eqn:E; [now exists v|].
  destruct H as [H|H]; [subst; now rewrite N.eqb_refl in E|now apply IH].
Qed.

Lemma main_trans_ok c base :
  wf_cdfa c = true ->
  Forall (trans_ok (c_subs c) (sub_ids base (c_main c)) (c_main c)) (iter_transitions (c_main c)).
Proof.
  intro Hwf. apply Forall_forall. intros t Ht. unfold trans_ok.
  pose proof Hwf as Hwf'. unfold wf_cdfa, wf_dfa in Hwf'. apply andb_true_iff in Hwf' as [Hm _].
  apply andb_true_iff in Hm as [Hr _]. unfold inputs_in_range in Hr. rewrite forallb_forall in Hr.
  specialize (Hr t Ht).
  destruct (nthN (d_inputs (c_main c)) (snd (fst t))) as [[| k l | | |]|] eqn:E; try exact I; [|discriminate].
  destruct (wf_used c t k l Hwf Ht E) as [sd [Hsd _]]. split; [now exists sd|].
  apply assocN_in. unfold sub_ids. rewrite number_from_fst. unfold sub_order. apply dedup_in.
  change (transitions (c_main c)) with (iter_transitions (c_main c)).
  apply in_flat_map. exists t. split; [exact Ht|]. rewrite E. now left.
Qed.

Lemma clusters_ok c base : wf_cdfa c = true -> forall l,
  (forall p, In p l -> In p (sub_ids base (c_main c))) ->
  omap (fun p : N * N =>
          do sd <- lookup_sub (c_subs c) (fst p);
          do inner <- do_to_dot patched base [] sd (dec (snd p) ++ "_")
                        (fun _ _ => Panic "within-word automaton inside a within-word automaton");
          Ok (cluster_block "" (snd p) inner)) l
  = Ok (map (x_cluster base)
            (flat_map (fun p : N * N => match nthN (c_subs c) (fst p) with Some sd => [(snd p, sd)] | None => [] end) l)).
Proof.
  intros Hwf l. induction l as [|[k id] r IH]; intro Hin; [reflexivity|].
  cbn [omap flat_map fst snd].
  destruct (sub_ids_used c base k id (Hin _ (or_introl eq_refl))) as [t [lv [Ht E]]].
  destruct (wf_used c t k lv Hwf Ht E) as [sd [Hsd [Hw Hn]]].
  assert (Hl : lookup_sub (c_subs c) k = Ok sd) by (unfold lookup_sub; now rewrite Hsd).
  rewrite Hl. cbn [obind].
  rewrite (do_to_dot_sub base sd _ _ Hw Hn). cbn [obind].
  rewrite IH by (intros p Hp; apply Hin; now right). rewrite Hsd. cbn [obind app map]. reflexivity.
Qed.

Lemma dfa_items_ok base c : wf_cdfa c = true -> dfa_items patched base c = Ok (x_items base c).
Proof.
  intro Hwf. unfold dfa_items. unfold do_to_dot at 1.
  pose proof Hwf as Hwf'. unfold wf_cdfa, wf_dfa in Hwf'. apply andb_true_iff in Hwf' as [Hm _].
  apply andb_true_iff in Hm as [Hr _].
  rewrite (get_subwords_spec (c_main c) base Hr). cbn [obind].
  rewrite (clusters_ok c base Hwf (sub_ids base (c_main c)) (fun p H => H)). cbn [obind].
  rewrite (oconcat_ok base _ _ _ "" _ (main_trans_ok c base Hwf)). cbn [obind]. reflexivity.
Qed.

(** ** Every line is well formed for the reader *)
Lemma id_ok_closed s : ident_ok s = true -> keyword_of s = None -> id_ok s.
Proof. now split. Qed.

Lemma state_line_ok p base s : prefix_ok p -> item_ok (state_line p base s).
Proof.
  intro Hp. constructor. split; [now apply node_id_ok|]. apply plain_body. now apply label_plain.
Qed.

Lemma node_lines_ok base d p : prefix_ok p -> Forall item_ok (node_lines patched base d p).
Proof.
  intro Hp. unfold node_lines. repeat (apply Forall_app; split); repeat apply Forall_cons; try apply Forall_nil.
  - constructor. cbn. destruct (memN (d_start d) (d_accepting d)); split; reflexivity.
  - now apply state_line_ok.
  - constructor. split; reflexivity.
  - apply Forall_forall. intros x Hx. apply in_map_iff in Hx as [s [<- _]]. now apply state_line_ok.
  - constructor. exact I.
  - constructor. split; reflexivity.
  - apply Forall_forall. intros x Hx. apply in_map_iff in Hx as [s [<- _]]. now apply state_line_ok.
  - constructor. exact I.
Qed.

Lemma x_edges_ok base subs ids d p t e :
  prefix_ok p -> In e (x_edges base subs ids d p t) -> item_ok (edge_item e).
Proof.
  intros Hp. unfold x_edges.
  destruct (nthN (d_inputs d) (snd (fst t))) as [x|]; [|intros []].
  assert (Hdashed : forall a b pa pb, prefix_ok pa -> prefix_ok pb ->
                      item_ok (edge_item (node_id pa a, node_id pb b, "style", "dashed"))).
  { intros a b pa pb Ha Hb. constructor. cbn. repeat split; try apply node_id_ok; auto; try reflexivity.
    discriminate. }
  destruct x as [t' dd l|k l|cm l|cm l|].
  2:{ destruct (nthN subs k) as [sd|]; [|intros []]. destruct (assocN k ids) as [id|]; [|intros []].
      intros [<-|H].
      - apply Hdashed; [exact Hp|constructor].
      - apply in_map_iff in H as [a [<- _]]. apply Hdashed; [constructor|exact Hp]. }
  all: match goal with |- context [display ?x] => destruct (display x) as [text|]; [|intros []] end.
  all: intros [<-|[]]; constructor; cbn; repeat split; try apply node_id_ok; auto; try reflexivity.
  all: unfold body_ok; rewrite qdecode_escape_dot; discriminate.
Qed.

Lemma edge_items_ok base subs ids d p ts :
  prefix_ok p -> Forall item_ok (map edge_item (flat_map (x_edges base subs ids d p) ts)).
Proof.
  intro Hp. apply Forall_forall. intros x Hx. apply in_map_iff in Hx as [e [<- He]].
  apply in_flat_map in He as [t [_ He]]. exact (x_edges_ok _ _ _ _ _ _ _ Hp He).
Qed.

Lemma x_sub_items_ok base sd p : prefix_ok p -> Forall item_ok (x_sub_items base sd p).
Proof.
  intro Hp. unfold x_sub_items. apply Forall_app. split; [now apply node_lines_ok|now apply edge_items_ok].
Qed.

Lemma x_cluster_ok base q : item_ok (x_cluster base q).
Proof.
  unfold x_cluster, cluster_block. constructor.
  - change (id_ok ("cluster_" ++ dec (fst q))). apply cluster_name_ok.
  - apply Forall_cons; [|apply Forall_cons; [|apply Forall_cons; [|apply x_sub_items_ok; constructor]]].
    + constructor. split; [split; reflexivity|]. apply plain_body.
      change (all_chars plain_char ("subword " ++ dec (fst q)) = true). rewrite all_chars_app.
      exact (all_chars_impl _ _ _ digit_plain (dec_digits _)).
    + constructor. split; split; reflexivity.
    + constructor. split; split; reflexivity.
Qed.

Lemma x_items_ok base c : Forall item_ok (x_items base c).
Proof.
  unfold x_items. apply Forall_cons; [constructor; split; split; reflexivity|].
  apply Forall_app; split; [apply node_lines_ok; constructor|].
  apply Forall_app; split.
  - apply Forall_forall. intros x Hx. apply in_map_iff in Hx as [q [<- _]]. apply x_cluster_ok.
  - apply edge_items_ok. constructor.
Qed.
