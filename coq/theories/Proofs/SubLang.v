(** From the language of a within-word automaton over [Lang.witem] (what C02 states about it) to
    [SimGen.gsim] over inputs (what [WordSim] starts from). *)
From CG Require Import Base.Prelude Model.Ast Model.Dfa Spec.Lang Spec.Rx Spec.Meaning Spec.DfaEquiv.
From CG Require Import Proofs.RxFacts Proofs.MeaningFacts Proofs.TablesSound Proofs.LangBridge Proofs.DfaMeaning
     Proofs.SimGen Proofs.SubBridge Proofs.WordSim Proofs.SubCompiled.

Lemma wlab_inv x a : wlab x = Some (witem_of_wleaf a) -> x = inp_of_wleaf a.
Proof. destruct x, a; cbn; intro H; try discriminate; inversion H; subst; reflexivity. Qed.

Lemma wlab_inp_of_wleaf a : wlab (inp_of_wleaf a) = Some (witem_of_wleaf a).
Proof. destruct a; reflexivity. Qed.

Lemma witem_of_wleaf_inj a b : witem_of_wleaf a = witem_of_wleaf b -> a = b.
Proof. destruct a, b; cbn; intro H; try discriminate; inversion H; subst; reflexivity. Qed.

Lemma map_witem_inj : forall ls ls', map witem_of_wleaf ls = map witem_of_wleaf ls' -> ls = ls'.
Proof.
  induction ls as [| a ls IH]; intros [| b ls'] H; cbn [map] in H; try discriminate; [reflexivity |].
  inversion H as [[H1 H2]]. apply witem_of_wleaf_inj in H1. subst. f_equal. apply IH. exact H2.
Qed.

(** equal languages over items = the same sequences of pieces *)
Lemma wlangI_denotes x x' : (forall v, wlangI x v <-> wlangI x' v) -> forall ls, RxFacts.denotes x ls <-> RxFacts.denotes x' ls.
Proof.
  intros H ls. split; intro Hd.
  - destruct (proj1 (H _) (ex_intro _ ls (conj Hd eq_refl))) as [ls' [Hd' E]]. apply map_witem_inj in E. subst. exact Hd'.
  - destruct (proj2 (H _) (ex_intro _ ls (conj Hd eq_refl))) as [ls' [Hd' E]]. apply map_witem_inj in E. subst. exact Hd'.
Qed.

Theorem sub_gsim sd x0 :
  (forall x, In x (d_inputs sd) -> exists a, wlab x = Some a) ->
  (forall v, Lang.waccepts sd v <-> wlangI x0 v) ->
  gsim inp_of_wleaf sd (d_start sd) [x0].
Proof.
  intros Hplain HL xs. split.
  - intros [ids [Ha Hf]].
    assert (G : exists v, Forall2 (fun i a => exists x, nthN (d_inputs sd) i = Some x /\ wlab x = Some a) ids v
                          /\ Forall2 (fun x a => wlab x = Some a) xs v).
    { clear Ha. induction Hf as [| i x ids xs Hi Hf IH].
      - exists []. split; constructor.
      - destruct IH as [v [F1 F2]]. destruct (Hplain x) as [a Hx]; [unfold nthN in Hi; eapply nth_error_In; exact Hi |].
        exists (a :: v). split; constructor; eauto. }
    destruct G as [v [F1 F2]].
    assert (Hacc : Lang.waccepts sd v) by (exists ids; split; assumption).
    apply HL in Hacc. destruct Hacc as [ls [Hden ->]].
    exists x0, ls. split; [left; reflexivity | split; [exact Hden |]].
    clear -F2. revert xs F2. induction ls as [| a ls IH]; intros xs F2; cbn [map] in F2; inversion F2; subst; [reflexivity |].
    cbn [map]. f_equal; [apply wlab_inv; assumption | apply IH; assumption].
  - intros [k [ls [[<- | []] [Hden ->]]]].
    assert (Hacc : Lang.waccepts sd (map witem_of_wleaf ls)) by (apply HL; exists ls; split; [exact Hden | reflexivity]).
    destruct Hacc as [ids [Ha Hf]]. exists ids. split; [exact Ha |].
    clear -Hf. revert ids Hf. induction ls as [| a ls IH]; intros ids Hf; cbn [map] in *; inversion Hf as [| i it ids' its [x [Hi Hx]] Hf']; subst; constructor.
    + apply wlab_inv in Hx. subst x. exact Hi.
    + apply IH. exact Hf'.
Qed.
