(** C11, converse direction, checker half: the command the specification [Spec.Choice.spec]
    chooses for a nonterminal that is reachable from the call variants through the chosen plain
    definitions ([Spec.Warnings.used_names], the reachability of C15) is written in the validated
    tree.  On the infrastructure of Proofs/CheckUndefined.v (paths in the grammar = paths in the
    table; the resolved table is the fixed point of "replace every reference by its entry"). *)
From CG Require Import Base.Prelude Model.Ast Model.Check Spec.Choice Spec.Mistakes Spec.Warnings.
From CG Require Import Proofs.CheckChoice Proofs.CheckLemmas Proofs.CheckUndefined Proofs.CheckResolve Proofs.CheckCycle
  Proofs.CheckCycleSpec Proofs.CheckOrder Proofs.CheckWarnings Proofs.CheckMistakes Proofs.CheckTotal Proofs.CapstoneCommands.

Lemma flat_map_lift {X} (P : expr -> list X) (Q : expr -> list string) (h : expr -> expr) cs (x : X) c :
  Forall (fun e => In x (P e) -> In c (Q (h e))) cs -> In x (flat_map P cs) -> In c (flat_map Q (map h cs)).
Proof.
  intros H Hx. apply in_flat_map in Hx. destruct Hx as [e [He Hx]]. rewrite Forall_forall in H.
  apply in_flat_map. exists (h e). split; [apply in_map; exact He|exact (H e He Hx)].
Qed.

Lemma resolve_keeps_cmds t e c : In c (cmd_texts e) -> In c (cmd_texts (resolve t e)).
Proof.
  induction e using expr_ind'; cbn [cmd_texts resolve]; intro Hc; try exact Hc; try (apply IHe; exact Hc);
    try (destruct Hc; fail); exact (flat_map_lift cmd_texts cmd_texts (resolve t) cs c c H Hc).
Qed.

Lemma resolve_entry_cmds t e n rn c :
  In n (all_refs e) -> assoc n t = Some rn -> In c (cmd_texts rn) -> In c (cmd_texts (resolve t e)).
Proof.
  intros Hn Ha Hc. induction e using expr_ind'; cbn [all_refs cmd_texts resolve] in *; try (destruct Hn; fail);
    try (apply IHe; exact Hn); try (exact (flat_map_lift all_refs cmd_texts (resolve t) cs n c H Hn)).
  destruct Hn as [<-|[]]. rewrite Ha. exact Hc.
Qed.

Lemma specialize_ref_cmd sh us bi fs plain e n cm :
  In n (all_refs e) ->
  (forall l sp, exists z, specialize_ref sh us bi fs plain n l sp = Command cm z l sp) ->
  In cm (cmd_texts (specialize sh us bi fs plain e)).
Proof.
  intros Hn Hs. induction e using expr_ind'; cbn [all_refs cmd_texts specialize] in *; try (destruct Hn; fail);
    try (apply IHe; exact Hn); try (exact (flat_map_lift all_refs cmd_texts (specialize sh us bi fs plain) cs n cm H Hn)).
  destruct Hn as [<-|[]]. destruct (Hs l sp) as [z ->]. left. reflexivity.
Qed.

Lemma choose_ref_command builtins g sh x cm l sp :
  Choice.spec builtins g sh x = ChCommand cm -> choose_ref builtins g sh x l sp = Command cm (is_zsh sh) l sp.
Proof.
  unfold Choice.spec, choose_ref. destruct (shell_definition g sh x) as [[]|]; intro H; try discriminate.
  - inversion H; subst. reflexivity.
  - destruct (plain_definition g x); [discriminate|]. destruct (assoc x (builtins sh)); [|discriminate].
    inversion H; subst. reflexivity.
Qed.

Section Reach.
  Variable builtins : shell -> list (string * string).
  Variable g : grammar.
  Variable sh : shell.
  Variable defs0 : list defn.
  Variable us : list (string * user_spec).
  Variable fs : list (string * (string * span)).
  Hypothesis Hcollect : collect_plain_defs (all_defs g) [] = Ok defs0.
  Hypothesis Hspecs : get_specializations g sh = Ok (us, fs).
  Variable ord : list string.

  Let defs1 := defs1_of defs0.
  Let spec := spec_of builtins sh us fs defs1.
  Let defs2 := defs2_of spec defs1.
  Let t0 := table0_of defs2.
  Hypothesis Hord : resolution_order defs2 = Ok ord.
  Let T := resolve_in_order ord t0.

  (** the resolved table is a fixed point *)
  Lemma T_fix n : assoc n T = option_map (resolve T) (assoc n t0).
  Proof.
    destruct (T_sol builtins sh defs0 us fs ord Hord) as [B HB]. fold defs1 spec defs2 t0 T in HB.
    rewrite (HB (S B)) by lia. rewrite assoc_sol_S. destruct (assoc n t0) as [rhs|]; [|reflexivity].
    cbn [option_map]. f_equal. apply resolve_ext. intros c _. symmetry. apply HB. lia.
  Qed.

  Lemma rpath_cmds e l x cm :
    rpath g sh e l x -> Choice.spec builtins g sh x = ChCommand cm ->
    In cm (cmd_texts (resolve T (spec (distribute_descriptions e)))).
  Proof.
    intros Hp Hx. induction Hp as [e y Hy|e n rhs l y Hn Hc Hp IH].
    - apply resolve_keeps_cmds. unfold spec, spec_of.
      apply (specialize_ref_cmd _ _ _ _ _ _ y cm); [rewrite distribute_descriptions_all_refs; exact Hy|].
      intros l sp. exists (is_zsh sh). unfold defs1.
      rewrite (specialize_ref_choose builtins g sh defs0 us fs Hcollect Hspecs y l sp).
      apply choose_ref_command. exact Hx.
    - specialize (IH Hx).
      destruct (plain_chosen_kept builtins g sh defs0 us fs Hcollect Hspecs n rhs Hc) as [Hk _].
      assert (Hn' : In n (all_refs (spec (distribute_descriptions e)))).
      { apply (spec_refs builtins sh defs0 us fs e n). split; assumption. }
      assert (Ht : assoc n T = Some (resolve T (spec (distribute_descriptions rhs)))).
      { rewrite T_fix. unfold t0, defs2, spec, defs1.
        rewrite (t0_assoc builtins g sh defs0 us fs Hcollect n), (plain_chosen_plain g sh n rhs Hc). reflexivity. }
      exact (resolve_entry_cmds T _ n _ cm Hn' Ht IH).
  Qed.

  Lemma rpath_root e l y : In e (call_exprs g) -> rpath g sh e l y -> rpath g sh (expr0_of g) l y.
  Proof.
    intros He Hp.
    assert (Hroot : forall n, In n (all_refs e) -> In n (all_refs (expr0_of g))).
    { intros n Hn. rewrite expr0_refs. apply in_flat_map. exists e. split; assumption. }
    inversion Hp; subst.
    - apply rp_here. auto.
    - eapply rp_step; eauto.
  Qed.

  Theorem used_cmds x cm :
    In x (used_names g sh) -> Choice.spec builtins g sh x = ChCommand cm ->
    In cm (cmd_texts (resolve T (spec (distribute_descriptions (expr0_of g))))).
  Proof.
    intros Hu Hx.
    assert (Hacyc : exists rank : string -> nat, forall a b, depends g sh a b = true -> (rank b < rank a)%nat).
    { pose proof Hord as Ho. apply resolution_order_ok in Ho. destruct Ho as ([rank Hr] & _ & _).
      exists rank. intros a b Hd. apply Hr.
      apply (model_graph_depends builtins g sh defs0 us fs Hcollect Hspecs). exact Hd. }
    destruct Hacyc as [rank Hrank].
    apply (used_names_rpath g sh rank Hrank) in Hu. destruct Hu as [e [l [He Hp]]].
    apply (rpath_cmds _ l x cm); [|exact Hx]. apply (rpath_root e); assumption.
  Qed.
End Reach.

Theorem reachable_commands builtins g sh v :
  from_grammar builtins g sh = Ok v ->
  forall x cm, In x (used_names g sh) -> Choice.spec builtins g sh x = ChCommand cm ->
               In cm (cmd_texts (v_expr v)).
Proof.
  intros H x cm Hu Hx. apply from_grammar_ok in H. rename H into A.
  rewrite (a_v _ _ _ _ A). cbn [v_expr]. unfold a_expr5. rewrite propagate_cmds, collapse_cmds.
  exact (used_cmds builtins g sh _ _ _ (a_collect _ _ _ _ A) (a_specs _ _ _ _ A) _ (a_order _ _ _ _ A) x cm Hu Hx).
Qed.
