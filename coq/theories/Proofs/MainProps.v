(** What a caller of the complgen command observes ([Model/Main.v] [run]), derived from the list of
    shapes of [MainRun.run_with_case]: totality and exit status, no script on exit 1, exactly one
    script on exit 0, the diagnostics are those of the verdict of [Driver.compile], the warnings are
    [Diag.warning_messages] and nothing else depends on them.  Statements: [Props/C06c.v],
    [Props/C15c.v]. *)
From CG Require Import Base.Prelude Model.Ast Model.Lexer Model.Parser Model.Check Model.Regex.
From CG Require Import Model.Dfa Model.Driver Model.Diag Model.Compiler Model.Main.
From CG Require Import Proofs.PipelineTotal Proofs.DiagPipeline Proofs.MainRun.
Open Scope list_scope.

(** the subset construction has fuel for whatever the input validates to, for the selected shell *)
Definition covers (builtins : shell -> list (string * string)) (o : oracles) (a : cli_args)
           (input : option string) : Prop :=
  forall text sh path, input = Some text -> select_shell a = Some (sh, path) ->
                       fuel_covers (o_fuel o) builtins text sh.

Lemma filter_nil_app {A} (p : A -> bool) l1 l2 :
  filter p l1 = [] -> filter p l2 = [] -> filter p (l1 ++ l2) = [].
Proof. intros H1 H2. rewrite filter_app, H1, H2. reflexivity. Qed.

Lemma opt_write_in p K d k : In (Write d k) (opt_write p K) -> k = K /\ exists path, p = Some path /\ d = dest_of path.
Proof.
  destruct p as [path|]; cbn; [|tauto]. intros [H|[]]. inversion H; subst. split; [reflexivity|]. eauto.
Qed.

Lemma opt_write_filter (p : effect -> bool) q K :
  (forall d, p (Write d K) = false) -> filter p (opt_write q K) = [].
Proof. intro H. destruct q; cbn; [rewrite H|]; reflexivity. Qed.

Lemma zsh_warning_filter (p : effect -> bool) sh path command :
  (forall x, p (Stderr (SZshName x)) = false) -> filter p (zsh_warning sh path command) = [].
Proof.
  intro H. unfold zsh_warning. destruct sh; try reflexivity.
  destruct (_ && _); cbn; [rewrite H|]; reflexivity.
Qed.

Lemma zsh_warning_in sh path command e : In e (zsh_warning sh path command) -> exists x, e = Stderr (SZshName x).
Proof.
  unfold zsh_warning. destruct sh; try (intros []). destruct (_ && _); [|intros []].
  intros [<-|[]]. eauto.
Qed.

Lemma rendered_in path source ms t e :
  Forall2 (rendered_as path source) ms t -> In e t -> exists m r, In m ms /\ e = Stderr (SLocated m r).
Proof.
  induction 1 as [|m x ms t [r [_ ->]] _ IH]; intros Hi; [destruct Hi|].
  destruct Hi as [<-|Hi]; [exists m, r; split; [left; reflexivity|reflexivity]|].
  destruct (IH Hi) as [m' [r' [Hm He]]]. exists m', r'. split; [right; exact Hm|exact He].
Qed.

Lemma filter_id_in {A} (p : A -> bool) l x : filter p l = l -> In x l -> p x = true.
Proof. intros H Hi. rewrite <- H in Hi. apply filter_In in Hi. tauto. Qed.

Section Props.
  Variable builtins : shell -> list (string * string).
  Variable o : oracles.
  Variable version : string.

  Notation pick := (pick_table (o_pops o)).
  Notation fuel := (o_fuel o).
  Notation run := (run builtins o version).

  Lemma warnings_render a input upath text :
    a_usage a = Some upath -> input = Some text -> wm_renders builtins warning_messages upath text.
  Proof.
    intros _ _ g sh v Hg Hv. exact (render_warnings_total builtins upath text sh g v Hg Hv).
  Qed.

  Lemma run_case_of a input : covers builtins o a input ->
    run_case builtins o version warning_messages a input (run a input).
  Proof.
    intro Hc. apply run_with_case; [exact Hc|]. intros upath text. apply warnings_render.
  Qed.

  (** the rendered warnings: no exit, no file, no diagnostic *)
  Lemma ws_filter upath text v ws (p : effect -> bool) :
    Forall2 (rendered_as upath text) (warning_messages v) ws ->
    (forall m r, m_warning m = true -> p (Stderr (SLocated m r)) = false) ->
    filter p ws = [].
  Proof.
    intros F Hp. eapply rendered_filter; [exact F|]. intros m r Hi. apply Hp.
    exact (warning_messages_warning v m Hi).
  Qed.

  Ltac leaves :=
    repeat apply filter_nil_app;
    first [ reflexivity
          | eapply ws_filter; [eassumption|]; (intros ? ? Hmw; cbn; try rewrite Hmw; reflexivity)
          | apply opt_write_filter; reflexivity
          | apply zsh_warning_filter; reflexivity ].

  (** *** C06: totality and the exit status *)
  Theorem main_total a input :
    covers builtins o a input ->
    (exists pre code, run a input = Ok (pre ++ [Exit code]) /\ (code = 0 \/ code = 1)%N
                      /\ filter is_exit pre = [])
    \/ (run a input = Err BadOracle /\ exists path, select_shell a = Some (Bash, path)).
  Proof.
    intro Hc. pose proof (run_case_of a input Hc) as C.
    destruct C; try (left; eexists; eexists; split; [reflexivity|split; [auto|]]).
    - reflexivity.
    - reflexivity.
    - reflexivity.
    - match goal with H : diag_trace _ _ _ _ _ |- _ => apply diag_trace_props in H; tauto end.
    - reflexivity.
    - match goal with H : diag_trace _ _ _ _ _ |- _ => apply diag_trace_props in H; tauto end.
    - match goal with H : diag_trace _ _ _ _ _ |- _ => apply diag_trace_props in H; tauto end.
    - leaves.
    - leaves.
    - leaves.
    - right. split; [reflexivity|].
      match goal with H : script_content _ ?sh _ _ = Err _ |- _ => destruct sh; cbn in H; try discriminate H end.
      eauto.
  Qed.

  (** *** C06: exit status 1 -- a diagnostic last, no script, and which files may be written *)
  Theorem main_exit1 a input t :
    covers builtins o a input ->
    run a input = Ok t -> exit_code t = Some 1%N ->
    filter is_script_write t = []
    /\ (exists pre m, t = pre ++ [Stderr m; Exit 1] /\ is_diag (Stderr m) = true)
    /\ (forall d k, In (Write d k) t ->
          (k = KRegexDot /\ exists p, a_regex a = Some p /\ d = dest_of p)
          \/ (k = KDfaDot /\ exists p, a_dfa a = Some p /\ d = dest_of p)).
  Proof.
    intros Hc Hrun Hx. pose proof (run_case_of a input Hc) as C. rewrite Hrun in C.
    assert (DIAG : forall upath text command e f, diag_trace upath text command e f ->
              filter is_script_write (f ++ [Exit 1]) = []
              /\ (exists pre m, f ++ [Exit 1] = pre ++ [Stderr m; Exit 1] /\ is_diag (Stderr m) = true)
              /\ (forall d k, In (Write d k) (f ++ [Exit 1]) ->
                    (k = KRegexDot /\ exists p, a_regex a = Some p /\ d = dest_of p)
                    \/ (k = KDfaDot /\ exists p, a_dfa a = Some p /\ d = dest_of p))).
    { intros upath text command e f D. apply diag_trace_props in D.
      destruct D as (Hd & _ & Hs & _ & pre & m & -> & Hm). split; [|split].
      - apply filter_nil_app; [exact Hs|reflexivity].
      - exists pre, m. rewrite <- app_assoc. split; [reflexivity|exact Hm].
      - intros d k Hi. apply in_app_or in Hi. destruct Hi as [Hi|[Hi|[]]]; [|discriminate Hi].
        pose proof (filter_id_in _ _ _ Hd Hi) as X. discriminate X. }
    inversion C; subst; clear C;
      try (first [rewrite exit_code_last in Hx|cbn in Hx]; discriminate Hx);
      try (eapply DIAG; eassumption).
    - (* no usage path *)
      split; [reflexivity|]. split; [exists [], SMissingUsage; split; reflexivity|].
      intros d k [Hi|[Hi|[]]]; discriminate Hi.
    - split; [reflexivity|]. split; [exists [], (SCannotRead upath); split; reflexivity|].
      intros d k [Hi|[Hi|[]]]; discriminate Hi.
    - split; [reflexivity|]. split; [exists [], SExactlyOne; split; reflexivity|].
      intros d k [Hi|[Hi|[]]]; discriminate Hi.
    - (* ambiguity found by from_regex_raw *)
      split; [leaves|]. split.
      + exists (ws ++ opt_write (a_regex a) KRegexDot), (SAmbiguity ae (v_command v)).
        split; [rewrite <- !app_assoc; reflexivity|reflexivity].
      + intros d k Hi. rewrite !in_app_iff in Hi. destruct Hi as [[Hi|[Hi|Hi]]|Hi].
        * match goal with F : Forall2 _ _ ws |- _ => destruct (rendered_in _ _ _ _ _ F Hi) as [m [r [_ E]]] end. discriminate E.
        * left. apply opt_write_in in Hi. exact Hi.
        * destruct Hi as [Hi|[]]. discriminate Hi.
        * destruct Hi as [Hi|[]]. discriminate Hi.
    - (* ambiguity found by the final check *)
      split; [leaves|]. split.
      + exists (ws ++ (opt_write (a_regex a) KRegexDot ++ opt_write (a_dfa a) KDfaDot)), (SAmbiguity ae (v_command v)).
        split; [rewrite <- !app_assoc; reflexivity|reflexivity].
      + intros d k Hi. rewrite !in_app_iff in Hi. destruct Hi as [[Hi|[[Hi|Hi]|Hi]]|Hi].
        * match goal with F : Forall2 _ _ ws |- _ => destruct (rendered_in _ _ _ _ _ F Hi) as [m [r [_ E]]] end. discriminate E.
        * left. apply opt_write_in in Hi. exact Hi.
        * right. apply opt_write_in in Hi. exact Hi.
        * destruct Hi as [Hi|[]]. discriminate Hi.
        * destruct Hi as [Hi|[]]. discriminate Hi.
  Qed.

  (** the corner stated: when neither Graphviz file is the script destination, nothing at all is
      written there on exit 1 *)
  Corollary main_exit1_destination_untouched a input t sh path :
    covers builtins o a input ->
    run a input = Ok t -> exit_code t = Some 1%N ->
    select_shell a = Some (sh, path) ->
    (forall p, a_regex a = Some p -> dest_of p <> dest_of path) ->
    (forall p, a_dfa a = Some p -> dest_of p <> dest_of path) ->
    forall k, ~ In (Write (dest_of path) k) t.
  Proof.
    intros Hc Hrun Hx Hs Hr Hd k Hi.
    destruct (main_exit1 a input t Hc Hrun Hx) as (_ & _ & W).
    destruct (W _ _ Hi) as [[_ [p [Hp E]]]|[_ [p [Hp E]]]]; [eapply Hr|eapply Hd]; eauto.
  Qed.

  (** *** C06: exit status 0 -- exactly one script, the one [Driver.compile] + the emitter yield *)
  Theorem main_exit0 a input t :
    covers builtins o a input ->
    run a input = Ok t -> exit_code t = Some 0%N -> a_version a = false ->
    exists text sh path v c k pre,
      input = Some text /\ select_shell a = Some (sh, path)
      /\ compile pick fuel builtins text sh = Ok (v, c)
      /\ t = pre ++ [Write (dest_of path) (KScript k)] ++ zsh_warning sh path (v_command v) ++ [Exit 0]
      /\ filter is_script_write pre = [] /\ filter is_diag t = []
      /\ match sh with
         | Bash => exists s, k = CBash s /\ compile_bash o builtins text = Ok s
         | _ => k = COpaque sh v c
         end.
  Proof.
    intros Hc Hrun Hx Hver. pose proof (run_case_of a input Hc) as C. rewrite Hrun in C.
    inversion C; subst; clear C; try (first [rewrite exit_code_last in Hx|cbn in Hx]; discriminate Hx); try congruence.
    exists text, sh, path, v, c, k, (ws ++ (opt_write (a_regex a) KRegexDot ++ opt_write (a_dfa a) KDfaDot)).
    split; [reflexivity|]. split; [assumption|]. split; [assumption|]. split.
    { rewrite <- !app_assoc. reflexivity. }
    split; [leaves|]. split; [leaves|].
    match goal with H : script_content _ _ _ _ = Ok _ |- _ => rename H into Hk end.
    destruct sh; cbn [script_content] in Hk; try (inversion Hk; reflexivity).
    destruct (emit_bash o v c) as [s|[e|]| |] eqn:He; try discriminate Hk.
    inversion Hk; subst k. exists s. split; [reflexivity|].
    unfold compile_bash.
    match goal with H : compile _ _ _ _ _ = Ok _ |- _ => rewrite H end. exact He.
  Qed.

  Theorem main_version a input : a_version a = true -> run a input = Ok [Stdout version; Exit 0].
  Proof. intro H. unfold Main.run, run_with. rewrite H. reflexivity. Qed.

  (** *** C08 / C13: the verdict of [Driver.compile] is the verdict of the command, and the
      diagnostics printed are those of the error *)
  Theorem main_verdict a input upath text sh path :
    covers builtins o a input ->
    a_version a = false -> a_usage a = Some upath -> input = Some text ->
    select_shell a = Some (sh, path) ->
    match compile pick fuel builtins text sh with
    | Err e => exists t command, run a input = Ok t /\ exit_code t = Some 1%N
                                 /\ diag_trace upath text command e (filter is_diag t)
    | Ok (v, c) => (exists t, run a input = Ok t /\ exit_code t = Some 0%N)
                   \/ (sh = Bash /\ run a input = Err BadOracle)
    | _ => False
    end.
  Proof.
    intros Hc Hver Hu Hin Hs. pose proof (run_case_of a input Hc) as C.
    assert (DIAG : forall command e f, diag_trace upath text command e f -> filter is_diag (f ++ [Exit 1]) = f).
    { intros command e f D. apply diag_trace_props in D. destruct D as (Hd & _). rewrite filter_app, Hd. cbn. apply app_nil_r. }
    assert (AMB : forall v ws ae mid, Forall2 (rendered_as upath text) (warning_messages v) ws ->
                                      filter is_diag mid = [] ->
              filter is_diag ((ws ++ mid ++ [Stderr (SAmbiguity ae (v_command v))]) ++ [Exit 1])
              = [Stderr (SAmbiguity ae (v_command v))]).
    { intros v ws ae mid F Hm. rewrite !filter_app, Hm.
      rewrite (ws_filter upath text v ws is_diag F); [reflexivity|].
      intros m r Hw. cbn. rewrite Hw. reflexivity. }
    destruct C; try congruence;
      repeat match goal with
             | H : input = Some _ |- _ => rewrite Hin in H; injection H as <-
             | H : a_usage a = Some _ |- _ => rewrite Hu in H; injection H as <-
             | H : select_shell a = Some _ |- _ => rewrite Hs in H; injection H as <- <-
             end.
    all: try match goal with H : forall s, compile _ _ _ _ s = _ |- _ => rewrite (H sh) end.
    all: try match goal with H : compile _ _ _ _ _ = _ |- _ => rewrite H end.
    - (* parse error *)
      match goal with D : diag_trace _ _ _ _ _ |- _ =>
        eexists; exists "dummy"%string; split; [reflexivity|]; split; [apply exit_code_last|];
        rewrite (DIAG _ _ _ D); exact D end.
    - match goal with D : diag_trace _ _ _ _ _ |- _ =>
        eexists; exists "dummy"%string; split; [reflexivity|]; split; [apply exit_code_last|];
        rewrite (DIAG _ _ _ D); exact D end.
    - match goal with D : diag_trace _ _ _ _ _ |- _ =>
        eexists; exists (v_command v); split; [reflexivity|]; split; [apply exit_code_last|];
        rewrite (DIAG _ _ _ D); exact D end.
    - match goal with F : Forall2 _ _ ws |- _ =>
        eexists; exists (v_command v); split; [reflexivity|]; split; [apply exit_code_last|];
        rewrite (AMB v ws ae _ F); [reflexivity|] end.
      apply opt_write_filter. reflexivity.
    - match goal with F : Forall2 _ _ ws |- _ =>
        eexists; exists (v_command v); split; [reflexivity|]; split; [apply exit_code_last|];
        rewrite (AMB v ws ae _ F); [reflexivity|] end.
      apply filter_nil_app; apply opt_write_filter; reflexivity.
    - left. eexists. split; [reflexivity|apply exit_code_last].
    - right. split; [|reflexivity].
      match goal with H : script_content _ ?s _ _ = Err _ |- _ => destruct s; cbn in H; try discriminate H end.
      reflexivity.
  Qed.

  (** *** C15: the warnings printed are exactly [warning_messages] of the validated grammar *)
  Theorem main_warnings_exact a input upath text g sh path v rp t :
    covers builtins o a input ->
    a_version a = false -> a_usage a = Some upath -> input = Some text ->
    parse text = Ok g -> select_shell a = Some (sh, path) ->
    from_grammar builtins g sh = Ok v -> from_valid_expr (v_expr v) = Ok rp ->
    run a input = Ok t ->
    warnings_of t = warning_messages v
    /\ exists ws rest, t = ws ++ rest /\ Forall2 (rendered_as upath text) (warning_messages v) ws
                       /\ warnings_of rest = [].
  Proof.
    intros Hc Hver Hu Hin Hg Hs Hv Hr Hrun. pose proof (run_case_of a input Hc) as C. rewrite Hrun in C.
    assert (WO : forall ws rest, Forall2 (rendered_as upath text) (warning_messages v) ws -> warnings_of rest = [] ->
                                 warnings_of (ws ++ rest) = warning_messages v).
    { intros ws rest F Hn. unfold warnings_of in *. rewrite flat_map_app, Hn, app_nil_r.
      fold (warnings_of ws). rewrite (rendered_warnings_of _ _ _ _ F).
      apply filter_all_true. apply warning_messages_warning. }
    assert (OW : forall q K, warnings_of (opt_write q K) = []) by (intros [q|] K; reflexivity).
    assert (ZW : forall s p c, warnings_of (zsh_warning s p c) = []).
    { intros s p c. unfold zsh_warning. destruct s; try reflexivity. destruct (_ && _); reflexivity. }
    assert (APP : forall x y, warnings_of x = [] -> warnings_of y = [] -> warnings_of (x ++ y) = []).
    { intros x y Hx Hy. unfold warnings_of in *. rewrite flat_map_app, Hx, Hy. reflexivity. }
    inversion C; subst; clear C; try congruence;
      repeat match goal with
             | H : Some _ = Some _ |- _ => injection H as ->
             | H : a_usage a = Some _ |- _ => rewrite Hu in H
             | H : parse _ = Ok _ |- _ => rewrite Hg in H; injection H as <-
             | H : select_shell a = Some _ |- _ => rewrite Hs in H; injection H as <- <-
             | H : from_grammar _ _ _ = Ok _ |- _ => rewrite Hv in H; injection H as <-
             end; try congruence.
    - rewrite <- !app_assoc. split.
      + apply WO; [assumption|]. apply APP; [apply OW|reflexivity].
      + eexists. eexists. split; [reflexivity|]. split; [eassumption|]. apply APP; [apply OW|reflexivity].
    - rewrite <- !app_assoc. split.
      + apply WO; [assumption|]. repeat (apply APP; [apply OW|]). reflexivity.
      + eexists. eexists. split; [reflexivity|]. split; [eassumption|]. repeat (apply APP; [apply OW|]). reflexivity.
    - rewrite <- !app_assoc. split.
      + apply WO; [assumption|]. repeat (apply APP; [apply OW|]). apply (APP [_]); [reflexivity|].
        apply APP; [apply ZW|reflexivity].
      + eexists. eexists. split; [reflexivity|]. split; [eassumption|]. repeat (apply APP; [apply OW|]).
        apply (APP [_]); [reflexivity|]. apply APP; [apply ZW|reflexivity].
  Qed.

  (** *** C15: nothing but the warnings themselves depends on the warning sets.
      [run_with wm] is the command with the three warning loops printing [wm v] instead of
      [warning_messages v]; no hypothesis on the fuel is needed. *)
  Definition all_warnings (wm : valid_grammar -> list message) : Prop :=
    forall v m, In m (wm v) -> m_warning m = true.

  Theorem main_without_warnings wm a input t :
    all_warnings wm ->
    run_with builtins o version wm a input = Ok t ->
    exists ws rest, t = ws ++ rest
                    /\ Forall (fun e => is_warning e = true) ws
                    /\ run_with builtins o version (fun _ => []) a input = Ok rest.
  Proof.
    intros Hall Hrun. destruct (run_with_wm builtins o version a input) as [[x Hx]|(upath & text & v & rest & Hx)].
    - exists [], t. split; [reflexivity|]. split; [constructor|]. rewrite Hx, <- (Hx wm). exact Hrun.
    - rewrite Hx in Hrun. rewrite Hx. cbn [render_all obind].
      destruct (render_all upath text (wm v)) as [ws|x| |] eqn:Hws; cbn [obind] in Hrun; try discriminate Hrun.
      destruct rest as [r|x| |]; cbn [obind] in Hrun; try discriminate Hrun.
      inversion Hrun; subst t. exists ws, r. split; [reflexivity|]. split; [|reflexivity].
      apply render_all_inv in Hws. specialize (Hall v). revert Hall. clear - Hws.
      induction Hws as [|m e ms t0 [r0 [_ ->]] _ IH]; intro Hall; constructor.
      + cbn. apply Hall. left. reflexivity.
      + apply IH. intros m' Hm'. apply Hall. right. exact Hm'.
  Qed.

  Theorem main_warnings_harmless wm1 wm2 a input t1 t2 :
    all_warnings wm1 -> all_warnings wm2 ->
    run_with builtins o version wm1 a input = Ok t1 ->
    run_with builtins o version wm2 a input = Ok t2 ->
    strip_warnings t1 = strip_warnings t2
    /\ filter is_exit t1 = filter is_exit t2
    /\ filter is_script_write t1 = filter is_script_write t2.
  Proof.
    intros A1 A2 R1 R2.
    destruct (main_without_warnings wm1 a input t1 A1 R1) as (ws1 & r1 & -> & W1 & E1).
    destruct (main_without_warnings wm2 a input t2 A2 R2) as (ws2 & r2 & -> & W2 & E2).
    rewrite E1 in E2. injection E2 as <-.
    assert (F : forall (p : effect -> bool) ws, (forall e, is_warning e = true -> p e = false) ->
                                                Forall (fun e => is_warning e = true) ws -> filter p ws = []).
    { intros p ws Hp. induction 1 as [|e l He _ IH]; [reflexivity|]. cbn. rewrite (Hp e He). exact IH. }
    unfold strip_warnings. rewrite !filter_app.
    rewrite (F _ ws1), (F _ ws2), (F is_exit ws1), (F is_exit ws2), (F is_script_write ws1), (F is_script_write ws2);
      try assumption; try (intros [ | [] | | ] He; try discriminate He; reflexivity).
    - repeat split.
    - intros e He. rewrite He. reflexivity.
    - intros e He. rewrite He. reflexivity.
  Qed.
End Props.
