(** C04, every shell: the line-by-line reading of an emitted script, generic in the shell.

    This is the shell-independent part of Proofs/BashScript.v: what the statement reader of a shell
    ([ScriptRead.stmt_of sh]) makes of a *local* line ([line_semG]), of a list of local lines
    ([scan_lines_semG]), of a template cut into lines (closed lines by computation, deep lines by
    their indentation), and the composition of scanned pieces ([scansG]).  The lemmas about
    templates, lines and names that do not mention a shell are reused from BashScript.v. *)
From Coq Require Import DecimalString.
From CG Require Import Base.Prelude Model.Ast Model.Dfa Model.Tpl Model.Quote Model.Tables Model.EmitBash Model.EmitData
     Spec.ShellDQ Spec.ScriptRead Proofs.QuoteRT Proofs.BashCodec Proofs.BashScript.
Open Scope N_scope.
Open Scope list_scope.

Section Gen.
Variable sh : shell.

Definition line_semG (cmd : string) (l : string) (o : option stmt) : Prop :=
  no_nl l = true
  /\ (forall rest, stmt_of sh (append l (append nl rest)) = match o with Some st => Some (st, rest) | None => None end)
  /\ match o with Some (SFunc n) => is_cmd_fn cmd n = false | _ => True end.

Lemma scan_lines_semG cmd ls os :
  Forall2 (line_semG cmd) ls os ->
  forall k rest, scan (List.length ls + k) sh cmd (append (unlines ls) rest) = stmts_of os ++ scan k sh cmd rest.
Proof.
  induction 1 as [|l o ls os [Hnl [Hrd Hfn]] _ IH]; intros k rest; [reflexivity|].
  unfold unlines. cbn [map sconcat List.length Nat.add]. rewrite !append_assoc. cbn [scan].
  destruct (l ++ nl ++ sconcat (map (fun x => x ++ nl) ls) ++ rest)%string eqn:E.
  - destruct l; discriminate E.
  - rewrite <- E. rewrite Hrd. destruct o as [st|].
    + cbn [stmts_of flat_map]. fold (stmts_of os). change (sconcat (map (fun x => x ++ nl) ls))%string with (unlines ls).
      destruct st; try (cbn [app]; f_equal; apply IH). rewrite Hfn. cbn [app]. f_equal. apply IH.
    + rewrite (line_app l _ Hnl). cbn [stmts_of flat_map app]. fold (stmts_of os). apply IH.
Qed.

(** a line indented deeper than the data statements of the shell is no statement *)
Variable dp : string.
Hypothesis deep_noneG : forall x, stmt_of sh (append dp x) = None.

Definition is_deepG (l : list seg) : bool :=
  match l with Text t :: _ => is_prefix dp t | _ => false end.

Lemma deep_render_semG cmd env l :
  is_deepG l = true -> seg_no_nl env l = true -> line_semG cmd (render env l) None.
Proof.
  intros Hd Hn. split; [apply render_no_nl; exact Hn|]. split; [|exact I]. intros rest.
  destruct l as [|[t|n] l]; try discriminate. cbn [is_deepG] in Hd. destruct (is_prefix_split _ _ Hd) as [r ->].
  cbn [render]. rewrite !append_assoc. apply deep_noneG.
Qed.

(** a line without holes: what the reader makes of it is computed *)
Definition closed_outcomeG (s : string) : option stmt :=
  match stmt_of sh (append s nl) with Some (st, _) => Some st | None => None end.

Lemma closed_render_semG cmd env l :
  is_closed l = true -> no_nl (render [] l) = true ->
  (forall rest, stmt_of sh (append (render [] l) (append nl rest))
                = match closed_outcomeG (render [] l) with Some st => Some (st, rest) | None => None end) ->
  match closed_outcomeG (render [] l) with Some (SFunc _) => False | _ => True end ->
  line_semG cmd (render env l) (closed_outcomeG (render [] l)).
Proof.
  intros Hc Hn Hrd Hf. rewrite (closed_render env l Hc). split; [exact Hn|]. split; [exact Hrd|].
  destruct (closed_outcomeG (render [] l)) as [[]|]; try exact I. destruct Hf.
Qed.

Lemma blank_semG cmd : stmt_of sh nl = None -> (forall rest, stmt_of sh (append nl rest) = None) -> line_semG cmd EmptyString None.
Proof. intros _ H. split; [reflexivity|]. split; [exact H | exact I]. Qed.

(** ** units and composition *)
Definition unit_scans_envG (command : string) (env : list (string * string)) (u : list seg) (sts : list stmt) : Prop :=
  forall k rest,
    scan (List.length (region_lines u) + k) sh command (append (render env u) rest)
    = sts ++ scan k sh command rest.

Definition scansG (cmd : string) (n : nat) (text : string) (sts : list stmt) : Prop :=
  (n <= String.length text)%nat
  /\ forall k rest, scan (n + k) sh cmd (append text rest) = sts ++ scan k sh cmd rest.

Lemma scansG_nil cmd : scansG cmd 0 EmptyString [].
Proof. split; [apply Nat.le_refl | reflexivity]. Qed.

Lemma scansG_app cmd n1 t1 s1 n2 t2 s2 :
  scansG cmd n1 t1 s1 -> scansG cmd n2 t2 s2 -> scansG cmd (n1 + n2) (append t1 t2) (s1 ++ s2).
Proof.
  intros [L1 H1] [L2 H2]. split.
  - rewrite length_app. lia.
  - intros k rest. rewrite append_assoc, <- Nat.add_assoc, H1, H2, app_assoc. reflexivity.
Qed.

Definition scansE (cmd : string) (text : string) (sts : list stmt) : Prop := exists n, scansG cmd n text sts.

Lemma scansE_nil cmd : scansE cmd EmptyString [].
Proof. exists 0%nat. apply scansG_nil. Qed.

Lemma scansE_app cmd t1 s1 t2 s2 : scansE cmd t1 s1 -> scansE cmd t2 s2 -> scansE cmd (append t1 t2) (s1 ++ s2).
Proof. intros [n1 H1] [n2 H2]. exists (n1 + n2)%nat. apply scansG_app; assumption. Qed.

Lemma scansE_if cmd (b : bool) t s : scansE cmd t s -> scansE cmd (if b then t else EmptyString) (if b then s else []).
Proof. destruct b; [auto | intros _; apply scansE_nil]. Qed.

Lemma scansE_if2 cmd (b : bool) t1 s1 t2 s2 :
  scansE cmd t1 s1 -> scansE cmd t2 s2 -> scansE cmd (if b then t1 else t2) (if b then s1 else s2).
Proof. destruct b; auto. Qed.

Lemma unit_scansG cmd env u sts :
  last (tpl_lines_go [] u) [Text "x"] = [] ->
  unit_scans_envG cmd env u sts -> scansE cmd (render env u) sts.
Proof.
  intros Hl H. exists (List.length (region_lines u)). split; [|exact H]. rewrite (render_region env u Hl). unfold render_lines.
  rewrite <- (map_length (render env) (region_lines u)). apply length_unlines_ge.
Qed.

Lemma scansG_line cmd l o : line_semG cmd l o -> scansE cmd (append l nl) (stmts_of [o]).
Proof.
  intros H. exists 1%nat. split.
  - rewrite length_app. change (String.length nl) with 1%nat. lia.
  - intros k rest. pose proof (scan_lines_semG cmd [l] [o] (Forall2_cons _ _ H (Forall2_nil _)) k rest) as E.
    unfold unlines in E. cbn [map sconcat] in E. rewrite QuoteRT.append_nil_r in E. exact E.
Qed.

(** data lines (the line includes its newline) *)
Definition reads_asG (ln : string) (st : stmt) : Prop :=
  ln <> EmptyString /\ not_func st /\ forall rest, stmt_of sh (append ln rest) = Some (st, rest).

Lemma scan_linesG lines stmts :
  Forall2 reads_asG lines stmts ->
  forall cmd k rest, scan (List.length stmts + k) sh cmd (append (sconcat lines) rest) = stmts ++ scan k sh cmd rest.
Proof.
  induction 1 as [|ln st lines stmts [Hne [Hnf Hrd]] _ IH]; intros cmd k rest; [reflexivity|].
  cbn [sconcat List.length Nat.add]. rewrite append_assoc. cbn [scan].
  destruct (ln ++ sconcat lines ++ rest)%string eqn:E.
  - destruct ln; [congruence | discriminate E].
  - rewrite <- E. rewrite Hrd.
    destruct st; try (cbn [app]; f_equal; apply IH). destruct Hnf.
Qed.

Lemma reads_scansG cmd lines stmts :
  Forall2 reads_asG lines stmts -> scansE cmd (sconcat lines) stmts.
Proof.
  intros H. exists (List.length stmts). split; [|intros k rest; apply scan_linesG; exact H].
  induction H as [|ln st lines stmts [Hne _] _ IH]; [apply Nat.le_refl|]. cbn [sconcat List.length].
  rewrite length_app. destruct ln; [congruence|]. cbn [String.length]. lia.
Qed.

Lemma reads_scans1 cmd ln st : reads_asG ln st -> scansE cmd ln [st].
Proof.
  intros H. pose proof (reads_scansG cmd [ln] [st] (Forall2_cons _ _ H (Forall2_nil _))) as R.
  cbn [sconcat] in R. rewrite QuoteRT.append_nil_r in R. exact R.
Qed.

Lemma scan_emptyG k cmd : scan k sh cmd EmptyString = [].
Proof. destruct k; reflexivity. Qed.

Lemma scansE_read cmd text sts : scansE cmd text sts -> read_stmts sh cmd text = sts.
Proof.
  intros [n [Hn H]]. unfold read_stmts.
  replace (S (String.length text)) with (n + (S (String.length text) - n))%nat by lia.
  rewrite <- (QuoteRT.append_nil_r text) at 2. rewrite H, scan_emptyG, app_nil_r. reflexivity.
Qed.

(** ** the function of an external command: header, body, terminator, blank line *)
Definition body_okG (body : string) : Prop :=
  forallb (fun l => negb (String.eqb l (body_end sh))) (split_nl body) = true.

Lemma body_end_no_nl : no_nl (body_end sh) = true.
Proof. destruct sh; reflexivity. Qed.

Lemma body_lines_unlinesG ls T :
  forallb no_nl ls = true -> forallb (fun l => negb (String.eqb l (body_end sh))) ls = true ->
  forall fuel, (List.length ls < fuel)%nat ->
  body_lines fuel (body_end sh) (append (unlines ls) (append (body_end sh) (append nl T))) = Some (ls, T).
Proof.
  induction ls as [|l ls IH]; intros Hn Hb fuel Hf.
  - destruct fuel; [lia|]. cbn [unlines map sconcat append body_lines].
    rewrite (line_app (body_end sh) T body_end_no_nl). rewrite String.eqb_refl. reflexivity.
  - destruct fuel; [cbn in Hf; lia|]. cbn [forallb] in Hn, Hb. apply andb_prop in Hn, Hb.
    destruct Hn as [Hn1 Hn2], Hb as [Hb1 Hb2]. unfold unlines. cbn [map sconcat]. rewrite !append_assoc.
    cbn [body_lines]. rewrite (line_app l _ Hn1). apply negb_true_iff in Hb1. rewrite Hb1.
    destruct (l ++ nl ++ sconcat (map (fun x => x ++ nl) ls) ++ body_end sh ++ nl ++ T)%string eqn:E;
      [destruct l; discriminate E|].
    change (sconcat (map (fun x => x ++ nl) ls))%string with (unlines ls).
    rewrite (IH Hn2 Hb2 fuel) by (cbn in Hf; lia). reflexivity.
Qed.

Lemma scan_unfoldG k cmd s :
  scan (S k) sh cmd s =
  match s with
  | EmptyString => []
  | _ =>
      match stmt_of sh s with
      | Some (SFunc n, r) =>
          if is_cmd_fn cmd n then
            match read_body sh r with
            | Some (b, r') => SFunc n :: SBody b :: SEnd :: scan k sh cmd r'
            | None => SFunc n :: scan k sh cmd r
            end
          else SFunc n :: scan k sh cmd r
      | Some (st, r) => st :: scan k sh cmd r
      | None => let (_, r) := line s in scan k sh cmd r
      end
  end.
Proof. reflexivity. Qed.

Hypothesis blank_none : forall rest, stmt_of sh (append nl rest) = None.

Lemma blank_line_scanG cmd k rest : scan (S k) sh cmd (append nl rest) = scan k sh cmd rest.
Proof.
  pose proof (scan_lines_semG cmd [EmptyString] [None]) as H.
  assert (L : line_semG cmd EmptyString None) by (split; [reflexivity | split; [exact blank_none | exact I]]).
  specialize (H (Forall2_cons _ _ L (Forall2_nil _)) k rest). exact H.
Qed.

Lemma blank_scansG cmd : scansE cmd nl [].
Proof.
  apply (scansG_line cmd EmptyString None). split; [reflexivity | split; [exact blank_none | exact I]].
Qed.

Definition cmd_fn_textG (hdr body : string) : string :=
  append hdr (append nl (append "    " (append body (append nl (append (body_end sh) (append nl nl)))))).

Lemma cmd_fn_scansG cmd hdr fname body :
  hdr <> EmptyString ->
  (forall rest, stmt_of sh (append hdr (append nl rest)) = Some (SFunc fname, rest)) ->
  is_cmd_fn cmd fname = true -> body_okG body ->
  scansE cmd (cmd_fn_textG hdr body) [SFunc fname; SBody body; SEnd].
Proof.
  intros Hne Hrd Hfn Hb. exists 2%nat. split; [unfold cmd_fn_textG; rewrite !length_app; cbn [String.length]; destruct hdr; [congruence|]; cbn [String.length]; lia|].
  intros k rest. unfold cmd_fn_textG.
  set (R := ("    " ++ body ++ nl ++ body_end sh ++ nl ++ nl)%string).
  rewrite (append_assoc hdr). rewrite (append_assoc nl R rest).
  change (2 + k)%nat with (S (S k)). rewrite scan_unfoldG.
  destruct (hdr ++ nl ++ R ++ rest)%string eqn:E; [destruct hdr; [congruence | discriminate E]|]. rewrite <- E. clear E.
  rewrite Hrd, Hfn.
  unfold read_body, R. rewrite !append_assoc. rewrite strip_app.
  rewrite <- (append_assoc body nl), <- (unlines_split body).
  rewrite (body_lines_unlinesG (split_nl body) (nl ++ rest)%string (split_nl_no_nl body) Hb).
  - rewrite join_lines_join, join_split_nl, blank_line_scanG. reflexivity.
  - rewrite unlines_split. rewrite !length_app. pose proof (length_unlines_ge (split_nl body)) as L.
    rewrite unlines_split, length_app in L. change (String.length nl) with 1%nat in *. lia.
Qed.
End Gen.

(** shifting the newline of a template that starts with one to the piece in front of it *)
Lemma render_drop_nl env t :
  match t with Text (String c _) :: _ => Ascii.eqb c nl_char = true | _ => False end ->
  render env t = append nl (render env (drop_nl t)).
Proof.
  destruct t as [|[s|n] r]; try (intros []). destruct s as [|c s]; [intros []|]. intros Hc. cbn [drop_nl]. rewrite Hc.
  rewrite render_app, render_txt. cbn [render]. apply Ascii.eqb_eq in Hc. subst c. reflexivity.
Qed.

(** ** groups of within-word automata ([EmitData.group_block] is shared by fish, zsh and pwsh) *)
Section Groups.
Variable sh : shell.
Variable cmd : string.
Variable wrapper : N -> tables -> string.
Variable shape_fn : N -> tables -> string.
Variable shape_wrapper : N -> N -> tables -> string.
Variable w_st : N -> tables -> list stmt.
Variable s_st : N -> tables -> list stmt.
Variable sw_st : N -> N -> tables -> list stmt.
Variable Pt : tables -> Prop.     (* what the literal lists have to satisfy (C07: pwsh) *)
Hypothesis w_ok : forall id t, Pt t -> scansE sh cmd (append (wrapper id t) nl) (w_st id t).
Hypothesis s_ok : forall sid t, scansE sh cmd (append (shape_fn sid t) nl) (s_st sid t).
Hypothesis sw_ok : forall id sid t, Pt t -> scansE sh cmd (append (shape_wrapper id sid t) nl) (sw_st id sid t).

Definition all_tables_ok (a : alltables) : Prop := forall id t, tables_of a id = Ok t -> Pt t.

Definition group_stmtsG (a : alltables) (sid : N) (group : list N) : res (list stmt) :=
  match group with
  | [] => Panic "chunk_by: empty chunk"
  | [id] => do t <- tables_of a id; Ok (w_st id t)
  | leader :: _ =>
      do lt <- tables_of a leader;
      do ws <- omap (fun id => do t <- tables_of a id; Ok (sw_st id sid t)) group;
      Ok (s_st sid lt ++ List.concat ws)
  end.

Lemma members_scansG a sid ids texts :
  all_tables_ok a ->
  omap (fun id => do t <- tables_of a id; Ok (append (shape_wrapper id sid t) EmitBash.nl)) ids = Ok texts ->
  exists stss,
    omap (fun id => do t <- tables_of a id; Ok (sw_st id sid t)) ids = Ok stss
    /\ scansE sh cmd (sconcat texts) (List.concat stss).
Proof.
  intros Hall. revert texts. induction ids as [|id ids IH]; cbn [omap]; intros texts H.
  - inversion H; subst. exists []. split; [reflexivity|]. apply scansE_nil.
  - apply obind_ok' in H. destruct H as [x [Hx H]]. apply obind_ok' in H. destruct H as [xs [Hxs H]].
    inversion H; subst; clear H.
    apply obind_ok' in Hx. destruct Hx as [t [Ht Hx]]. inversion Hx; subst; clear Hx.
    destruct (IH _ Hxs) as [stss [Hs Hn]]. exists (sw_st id sid t :: stss). split.
    + rewrite Ht. cbn [obind]. rewrite Hs. reflexivity.
    + cbn [sconcat List.concat]. apply scansE_app; [apply sw_ok; apply (Hall _ _ Ht) | exact Hn].
Qed.

Lemma group_scansG a sid group text :
  all_tables_ok a ->
  group_block wrapper shape_fn shape_wrapper a sid group = Ok text ->
  exists sts, group_stmtsG a sid group = Ok sts /\ scansE sh cmd text sts.
Proof.
  intros Hall H. destruct group as [|id [|id2 rest]]; [discriminate H | |].
  - unfold group_block in H. unfold group_stmtsG.
    apply obind_ok' in H. destruct H as [t [Ht H]]. rewrite Ht. cbn [obind].
    eexists. split; [reflexivity|].
    assert (E : (wrapper id t ++ EmitBash.nl)%string = text) by congruence.
    rewrite <- E. apply w_ok. apply (Hall _ _ Ht).
  - unfold group_block in H. unfold group_stmtsG.
    apply obind_ok' in H. destruct H as [lt [Hlt H]]. apply obind_ok' in H. destruct H as [ws [Hws H]].
    rewrite Hlt. cbn [obind].
    destruct (members_scansG a sid _ _ Hall Hws) as [stss [Hs Hn]]. rewrite Hs. cbn [obind].
    eexists. split; [reflexivity|].
    assert (E : (shape_fn sid lt ++ EmitBash.nl ++ sconcat ws)%string = text) by congruence.
    rewrite <- E. rewrite <- (append_assoc (shape_fn sid lt)).
    apply scansE_app; [apply s_ok | exact Hn].
Qed.

Lemma groups_scansG a igs texts :
  all_tables_ok a ->
  omap (fun ig : N * list N => group_block wrapper shape_fn shape_wrapper a (fst ig) (snd ig)) igs = Ok texts ->
  exists stss, omap (fun ig : N * list N => group_stmtsG a (fst ig) (snd ig)) igs = Ok stss
               /\ scansE sh cmd (sconcat texts) (List.concat stss).
Proof.
  intros Hall. revert texts. induction igs as [|ig igs IH]; cbn [omap]; intros texts H.
  - inversion H; subst. exists []. split; [reflexivity|]. apply scansE_nil.
  - apply obind_ok' in H. destruct H as [x [Hx H]]. apply obind_ok' in H. destruct H as [xs [Hxs H]].
    inversion H; subst; clear H.
    destruct (group_scansG _ _ _ _ Hall Hx) as [sts [Hs Hn]]. destruct (IH _ Hxs) as [stss [Hss Hnn]].
    exists (sts :: stss). split; [rewrite Hs; cbn [obind]; rewrite Hss; reflexivity|].
    cbn [sconcat List.concat]. apply scansE_app; assumption.
Qed.
End Groups.

(** the within-word transition rows with the automata replaced by their script ids *)
Lemma resolve_rows_eq a : resolve_rows a = subtrans_rows a.
Proof. reflexivity. Qed.

(** ** moving the leading newline of a template to the piece in front of it *)
Definition starts_nl (t : list seg) : bool :=
  match t with Text (String c _) :: _ => Ascii.eqb c nl_char | _ => false end.

Definition sh_nl (t : list seg) : list seg := drop_nl t ++ seg_nl.

Lemma render_starts_nl env t : starts_nl t = true -> render env t = append nl (render env (drop_nl t)).
Proof.
  intros H. apply render_drop_nl. destruct t as [|[s|n] r]; try discriminate H. destruct s; [discriminate H | exact H].
Qed.

Lemma render_snoc_nl env t X : append (render env t) (append nl X) = append (render env (t ++ seg_nl)) X.
Proof. rewrite render_app. cbn [render seg_nl]. rewrite QuoteRT.append_nil_r, append_assoc. reflexivity. Qed.

Lemma shift1 env t rest :
  starts_nl t = true -> append (render env t) (append nl rest) = append nl (append (render env (sh_nl t)) rest).
Proof. intros H. unfold sh_nl. rewrite (render_starts_nl env t H), <- render_snoc_nl, !append_assoc. reflexivity. Qed.

Lemma shift_if env t (b : bool) rest :
  starts_nl t = true ->
  append (if b then render env t else EmptyString) (append nl rest)
  = append nl (append (if b then render env (sh_nl t) else EmptyString) rest).
Proof. intros H. destruct b; [apply shift1; exact H | reflexivity]. Qed.

Lemma shift_if2 env t1 t2 (b : bool) rest :
  starts_nl t1 = true -> starts_nl t2 = true ->
  append (if b then render env t1 else render env t2) (append nl rest)
  = append nl (append (if b then render env (sh_nl t1) else render env (sh_nl t2)) rest).
Proof. intros H1 H2. destruct b; apply shift1; assumption. Qed.

Lemma scansE_app0 sh cmd t1 t2 s : scansE sh cmd t1 [] -> scansE sh cmd t2 s -> scansE sh cmd (append t1 t2) s.
Proof. intros H1 H2. apply (scansE_app sh cmd t1 [] t2 s H1 H2). Qed.

Lemma scansE_if0 sh cmd (b : bool) t : scansE sh cmd t [] -> scansE sh cmd (if b then t else EmptyString) [].
Proof. destruct b; [auto | intros _; apply scansE_nil]. Qed.

Lemma fmtln_unit' t env : fmtln t env = render env (t ++ seg_nl).
Proof. unfold fmtln. rewrite render_app. cbn [render seg_nl]. rewrite QuoteRT.append_nil_r. reflexivity. Qed.
