(** C06, checker part: the model of [ValidGrammar::from_grammar] never panics and never runs out
    of fuel.

    - [Panic]: the only site is [check_subword_spaces] meeting a [DistributiveDescription];
      [distribute_descriptions] removes them all and no later pass creates one.
    - [OutOfFuel] in the cycle search: Proofs/CheckCycle.v.
    - [OutOfFuel] in [check_subword_spaces] (the pass that follows references itself, i.e. the
      unbounded recursion of the real code): when the cycle search succeeded, the order it
      returned is a topological order, so [resolve_in_order] leaves no reference to a defined
      name in the table, so the walk enters a definition at most once on every branch. *)
From CG Require Import Base.Prelude Model.Ast Model.Check Spec.Choice Spec.Mistakes.
From CG Require Import Proofs.CheckChoice Proofs.CheckMistakes Proofs.CheckLemmas Proofs.CheckCycle.
From CG Require Import Proofs.CheckWarnings.

(** *** [DistDescr]-freeness is preserved *)
Lemma dd_free_map (f : expr -> expr) cs :
  Forall (fun c => dd_free c -> dd_free (f c)) cs -> dd_free_list cs -> dd_free_list (map f cs).
Proof.
  induction 1; cbn; [auto|]. intros [Hx Hl]. split; auto.
Qed.

Lemma specialize_dd_free sh us bi fs plain e : dd_free e -> dd_free (specialize sh us bi fs plain e).
Proof.
  induction e using expr_ind'; intro Hf; cbn [specialize]; try exact Hf;
    try (cbn in *; auto; fail).
  - unfold specialize_ref. destruct (assoc n us); [exact I|].
    destruct (assoc n fs) as [[c s]|]; [exact I|]. destruct (mem_str n plain); [exact I|].
    destruct (assoc n bi); exact I.
  - rewrite dd_free_seq in *. apply dd_free_map; assumption.
  - rewrite dd_free_alt in *. apply dd_free_map; assumption.
  - rewrite dd_free_fb in *. apply dd_free_map; assumption.
Qed.

Definition table_dd_free (t : list (string * expr)) : Prop :=
  forall n rhs, assoc n t = Some rhs -> dd_free rhs.

Lemma resolve_dd_free t e : table_dd_free t -> dd_free e -> dd_free (resolve t e).
Proof.
  intro Ht. induction e using expr_ind'; intro Hf; cbn [resolve]; try exact Hf;
    try (cbn in *; auto; fail).
  - destruct (assoc n t) eqn:E; [eapply Ht; eauto|exact I].
  - rewrite dd_free_seq in *. apply dd_free_map; assumption.
  - rewrite dd_free_alt in *. apply dd_free_map; assumption.
  - rewrite dd_free_fb in *. apply dd_free_map; assumption.
Qed.

Lemma assoc_update_def m n x t :
  assoc m (update_def n x t) =
  if String.eqb m n then match assoc m t with Some _ => Some x | None => None end else assoc m t.
Proof.
  unfold update_def. induction t as [|[k v] t IH]; cbn [map assoc fst].
  - destruct (String.eqb m n); reflexivity.
  - destruct (String.eqb k n) eqn:Ekn; cbn [assoc].
    + apply String.eqb_eq in Ekn. subst k. destruct (String.eqb m n) eqn:Emn; [reflexivity|exact IH].
    + destruct (String.eqb m k) eqn:Emk.
      * apply String.eqb_eq in Emk. subst k. rewrite Ekn. reflexivity.
      * exact IH.
Qed.

Lemma update_def_keys n x t : map fst (update_def n x t) = map fst t.
Proof.
  unfold update_def. induction t as [|[k v] t IH]; cbn; [reflexivity|].
  destruct (String.eqb k n) eqn:E; cbn; rewrite IH; [|reflexivity].
  apply String.eqb_eq in E. subst. reflexivity.
Qed.

Lemma resolve_in_order_keys ord : forall t, map fst (resolve_in_order ord t) = map fst t.
Proof.
  induction ord as [|n r IH]; intro t; cbn; [reflexivity|].
  destruct (assoc n t); rewrite IH; [apply update_def_keys|reflexivity].
Qed.

Lemma resolve_in_order_dd_free ord : forall t,
  table_dd_free t -> table_dd_free (resolve_in_order ord t).
Proof.
  induction ord as [|n r IH]; intros t Ht; cbn [resolve_in_order]; [exact Ht|].
  destruct (assoc n t) as [rhs|] eqn:E; [|apply IH; exact Ht].
  apply IH. intros m rhs' Hm. rewrite assoc_update_def in Hm.
  destruct (String.eqb m n); [|eapply Ht; eauto].
  destruct (assoc m t); [|discriminate]. inversion Hm; subst.
  apply resolve_dd_free; [exact Ht|eapply Ht; eauto].
Qed.

(** *** References after [resolve] *)
Lemma resolve_refs t e :
  all_refs (resolve t e)
  = flat_map (fun n => match assoc n t with Some rhs => all_refs rhs | None => [n] end) (all_refs e).
Proof.
  induction e using expr_ind'; cbn [resolve all_refs flat_map]; try reflexivity; try assumption.
  - destruct (assoc n t); cbn; rewrite ?app_nil_r; reflexivity.
  - induction H; cbn; [reflexivity|]. rewrite flat_map_app, H, IHForall. reflexivity.
  - induction H; cbn; [reflexivity|]. rewrite flat_map_app, H, IHForall. reflexivity.
  - induction H; cbn; [reflexivity|]. rewrite flat_map_app, H, IHForall. reflexivity.
Qed.

(** [closed names e]: no reference to a name of [names] is left in [e] *)
Definition closed (names : list string) (e : expr) : Prop :=
  forall c, In c (all_refs e) -> ~ In c names.

Section ResolveInOrder.
  Variable table0 : list (string * expr).
  Variable graph : list (string * list (string * span)).
  Let names := map fst table0.

  (** the graph has an edge for every reference to a defined name in the original table *)
  Hypothesis edges : forall n rhs c,
      assoc n table0 = Some rhs -> In c (all_refs rhs) -> In c names -> edge graph n c.

  Definition inv (done : list string) (t : list (string * expr)) : Prop :=
    map fst t = names /\
    forall n rhs, assoc n t = Some rhs ->
                  closed names rhs \/ (assoc n table0 = Some rhs /\ ~ In n done /\ ~ childless graph n).

  Lemma childless_closed n rhs : assoc n table0 = Some rhs -> childless graph n -> closed names rhs.
  Proof.
    intros Hn Hc c Hin Hnames. pose proof (edges _ _ _ Hn Hin Hnames) as He.
    unfold edge in He. rewrite Hc in He. destruct He.
  Qed.

  Lemma inv_init : inv [] table0.
  Proof.
    split; [reflexivity|]. intros n rhs Hn.
    destruct (children graph n) eqn:E.
    - left. eapply childless_closed; eauto.
    - right. split; [exact Hn|]. split; [intros []|]. unfold childless. rewrite E. discriminate.
  Qed.

  Lemma inv_step done t n :
    inv done t -> (forall c, edge graph n c -> In c done \/ childless graph c) ->
    inv (n :: done) (match assoc n t with
                     | Some rhs => update_def n (resolve t rhs) t
                     | None => t
                     end).
  Proof.
    intros [Hk Hi] Hn.
    assert (Hweak : forall m rhs, assoc m t = Some rhs -> m <> n ->
                closed names rhs \/ (assoc m table0 = Some rhs /\ ~ In m (n :: done) /\ ~ childless graph m)).
    { intros m rhs Hm Hne. destruct (Hi _ _ Hm) as [H|(H1 & H2 & H3)]; [left; exact H|].
      right. split; [exact H1|]. split; [|exact H3]. intros [H|H]; [congruence|contradiction]. }
    destruct (assoc n t) as [rhs|] eqn:En.
    - split; [rewrite update_def_keys; exact Hk|].
      intros m rhs' Hm. rewrite assoc_update_def in Hm.
      destruct (String.eqb m n) eqn:Emn.
      + apply String.eqb_eq in Emn. subst m. rewrite En in Hm. inversion Hm; subst rhs'. clear Hm.
        left. intros c Hc Hcn. rewrite resolve_refs in Hc. apply in_flat_map in Hc.
        destruct Hc as [c0 [Hc0 Hc]].
        destruct (assoc c0 t) as [rhs0|] eqn:Ec0.
        * (* c0 is defined: its entry is closed *)
          assert (Hcl : closed names rhs0).
          { destruct (Hi _ _ Ec0) as [H|(H1 & H2 & H3)]; [exact H|]. exfalso.
            destruct (Hi _ _ En) as [Hcn'|(G1 & G2 & G3)].
            - apply (Hcn' c0 Hc0). rewrite <- Hk. eapply assoc_Some_in; eauto.
            - assert (He : edge graph n c0).
              { eapply edges; eauto. rewrite <- Hk. eapply assoc_Some_in; eauto. }
              destruct (Hn _ He); contradiction. }
          apply (Hcl c Hc Hcn).
        * destruct Hc as [Hc|[]]. subst c0. apply assoc_None_notin in Ec0. rewrite Hk in Ec0.
          contradiction.
      + apply Hweak; [exact Hm|]. intro Heq. subst m. rewrite String.eqb_refl in Emn. discriminate.
    - split; [exact Hk|]. intros m rhs Hm. apply Hweak; [exact Hm|]. intro Heq. subst m. congruence.
  Qed.

  Lemma resolve_in_order_inv ord : forall done t,
    inv done t -> ordered graph done ord -> inv (rev ord ++ done) (resolve_in_order ord t).
  Proof.
    induction ord as [|n r IH]; intros done t Hi Ho; cbn [resolve_in_order rev app]; [exact Hi|].
    cbn [ordered] in Ho. destruct Ho as [Hn Ho].
    pose proof (inv_step _ _ _ Hi Hn) as Hi'.
    rewrite <- app_assoc. cbn [app].
    destruct (assoc n t); apply IH; assumption.
  Qed.

  Theorem resolve_in_order_closed ord :
    ordered graph [] ord ->
    (forall n, In n names -> has_children graph n = true -> In n ord) ->
    forall n rhs, assoc n (resolve_in_order ord table0) = Some rhs -> closed names rhs.
  Proof.
    intros Ho Hall n rhs Hn.
    destruct (resolve_in_order_inv ord [] table0 inv_init Ho) as [Hk Hi].
    destruct (Hi _ _ Hn) as [H|(H1 & H2 & H3)]; [exact H|]. exfalso.
    apply H2. rewrite app_nil_r. apply in_rev. rewrite rev_involutive. apply Hall.
    - eapply assoc_Some_in; eauto.
    - unfold has_children, childless in *. destruct (children graph n); [congruence|reflexivity].
  Qed.
End ResolveInOrder.

(** *** The graph of [resolution_order] has the edges required above *)
Lemma refs_map_names l : forall acc x,
  In x (map fst (refs_map l acc)) <-> In x (map fst l) \/ In x (map fst acc).
Proof.
  induction l as [|[n sp] r IH]; intros acc x; [cbn; tauto|]. cbn [refs_map map fst].
  rewrite IH. destruct (mem_str n (map fst acc)) eqn:E.
  - apply mem_str_In in E.
    assert (Hm : map fst (map (fun p : string * span => if String.eqb (fst p) n then (n, sp) else p) acc)
                 = map fst acc).
    { rewrite map_map. apply map_ext. intros [k v]. cbn. destruct (String.eqb k n) eqn:Ek; [|reflexivity].
      apply String.eqb_eq in Ek. subst. reflexivity. }
    rewrite Hm. cbn. split; [tauto|]. intros [[H|H]|H]; auto. subst. auto.
  - rewrite map_app, in_app_iff. cbn. tauto.
Qed.

Lemma get_nonterm_refs_names e x :
  In x (map fst (get_nonterm_refs e)) <-> In x (map fst (nonterm_refs e)).
Proof. unfold get_nonterm_refs. rewrite refs_map_names. cbn. tauto. Qed.

Lemma assoc_graph_of' names defs n :
  assoc n (map (fun d => (d_name d, filter (fun p => mem_str (fst p) names)
                                           (get_nonterm_refs (d_rhs d)))) defs)
  = option_map (fun rhs => filter (fun p : string * span => mem_str (fst p) names) (get_nonterm_refs rhs))
               (assoc n (table0_of defs)).
Proof.
  induction defs as [|d r IH]; cbn; [reflexivity|].
  destruct (String.eqb n (d_name d)); [reflexivity|exact IH].
Qed.

Lemma graph_of_edges defs n rhs c :
  assoc n (table0_of defs) = Some rhs -> dd_free rhs ->
  In c (all_refs rhs) -> In c (map fst (table0_of defs)) -> edge (graph_of defs) n c.
Proof.
  intros Hn Hf Hc Hin. unfold edge, children, graph_of. rewrite assoc_graph_of', Hn. cbn.
  rewrite <- dd_free_refs in Hc by exact Hf. apply get_nonterm_refs_names in Hc.
  apply in_map_iff in Hc. destruct Hc as [[c' sp] [Hc' Hc]]. cbn in Hc'. subst c'.
  apply in_map_iff. exists (c, sp). split; [reflexivity|]. apply filter_In. split; [exact Hc|].
  cbn. apply mem_str_In. unfold table0_of in Hin. rewrite map_map in Hin. exact Hin.
Qed.

(** *** [spaces] *)
Section SpAll.
  Variable rec : expr -> res unit.
  Fixpoint sp_all (l : list expr) : res unit :=
    match l with
    | [] => Ok tt
    | c :: r => do _ <- rec c; sp_all r
    end.
End SpAll.

Definition follow_of (defs : list (string * expr)) (juxt : bool) : option (list (string * expr)) :=
  if juxt then None else Some defs.

Lemma spaces_S defs f e trace within juxt :
  spaces defs (S f) e trace within juxt =
  match e with
  | Sequence cs _ =>
      do _ <- sp_all (fun c => spaces defs f c trace within false) cs;
      if within then
        do adj <- adjacent_terminals (follow_of defs juxt) f cs;
        match adj with
        | Some (l, r) => Err (SubwordSpaces l r trace)
        | None => Ok tt
        end
      else Ok tt
  | Terminal _ _ _ _ | Command _ _ _ _ => Ok tt
  | NontermRef n _ sp =>
      match assoc n defs with
      | None => Ok tt
      | Some rhs => spaces defs f rhs (trace ++ [sp]) within false
      end
  | Subword c _ _ => spaces defs f c trace true true
  | Alternative cs _ | Fallback cs _ => sp_all (fun c => spaces defs f c trace within false) cs
  | Optional c _ | Many1 c _ => spaces defs f c trace within false
  | DistDescr _ _ _ => Panic "check_subword_spaces: DistributiveDescription"
  end.
Proof. reflexivity. Qed.

Lemma expr_head_S follow f e :
  expr_head follow (S f) e =
  match e with
  | NontermRef n _ _ =>
      match followed follow n with Some rhs => expr_head follow f rhs | None => Ok e end
  | Sequence (c :: _) _ => expr_head follow f c
  | Subword c _ _ => expr_head follow f c
  | _ => Ok e
  end.
Proof. reflexivity. Qed.

Lemma expr_tail_S follow f e :
  expr_tail follow (S f) e =
  match e with
  | NontermRef n _ _ =>
      match followed follow n with Some rhs => expr_tail follow f rhs | None => Ok e end
  | Sequence cs _ =>
      match last_opt cs with Some c => expr_tail follow f c | None => Ok e end
  | Subword c _ _ => expr_tail follow f c
  | _ => Ok e
  end.
Proof. reflexivity. Qed.

Definition list_size (cs : list expr) : nat := fold_right (fun c n => expr_size c + n)%nat O cs.

Lemma expr_size_pos e : (1 <= expr_size e)%nat.
Proof. destruct e; cbn; lia. Qed.

Lemma list_size_In c cs : In c cs -> (expr_size c <= list_size cs)%nat.
Proof.
  induction cs as [|x l IH]; [intros []|]. unfold list_size in *. cbn.
  intros [H|H]; [subst; lia|]. apply IH in H. lia.
Qed.

Lemma last_opt_In cs c : last_opt cs = Some c -> In c cs.
Proof.
  unfold last_opt. intro H. apply in_rev. destruct (rev cs); [discriminate|].
  inversion H. left. reflexivity.
Qed.

Lemma sp_all_fine rec cs :
  Forall (fun c => fine (rec c)) cs -> fine (sp_all rec cs).
Proof.
  induction 1; cbn; [exact I|]. destruct (rec x); cbn; try assumption; try contradiction.
Qed.

(** [expr_head]/[expr_tail] never fail; they only need fuel. *)
Definition is_okr {A} (x : res A) : Prop := exists a, x = Ok a.

Section HeadTailOk.
  Variable follow : option (list (string * expr)).
  Variable extra : nat.
  Variable Q : string -> Prop.
  Hypothesis HQh : forall n rhs f, Q n -> followed follow n = Some rhs -> (f >= extra)%nat ->
                                   is_okr (expr_head follow f rhs).
  Hypothesis HQt : forall n rhs f, Q n -> followed follow n = Some rhs -> (f >= extra)%nat ->
                                   is_okr (expr_tail follow f rhs).

  Lemma expr_head_ok e : forall f,
    (forall c, In c (all_refs e) -> Q c) -> (f >= expr_size e + extra)%nat ->
    is_okr (expr_head follow f e).
  Proof.
    induction e using expr_ind'; intros f Hc Hf;
      (destruct f as [|f]; [cbn in Hf; lia|]); rewrite expr_head_S; try (eexists; reflexivity).
    - destruct (followed follow n) as [rhs|] eqn:E; [|eexists; reflexivity].
      eapply HQh; [apply Hc; left; reflexivity|exact E|cbn in Hf; lia].
    - destruct cs as [|c r]; [eexists; reflexivity|]. inversion H; subst. apply H2.
      + intros x Hx. apply Hc. cbn. apply in_or_app. left. exact Hx.
      + cbn in Hf. lia.
    - apply IHe; [exact Hc|cbn in Hf; lia].
  Qed.

  Lemma expr_tail_ok e : forall f,
    (forall c, In c (all_refs e) -> Q c) -> (f >= expr_size e + extra)%nat ->
    is_okr (expr_tail follow f e).
  Proof.
    induction e using expr_ind'; intros f Hc Hf;
      (destruct f as [|f]; [cbn in Hf; lia|]); rewrite expr_tail_S; try (eexists; reflexivity).
    - destruct (followed follow n) as [rhs|] eqn:E; [|eexists; reflexivity].
      eapply HQt; [apply Hc; left; reflexivity|exact E|cbn in Hf; lia].
    - destruct (last_opt cs) as [c|] eqn:El; [|eexists; reflexivity].
      apply last_opt_In in El. rewrite Forall_forall in H. apply (H c El).
      + intros x Hx. apply Hc. cbn. apply in_flat_map. exists c. split; assumption.
      + pose proof (list_size_In c cs El). cbn in Hf. unfold list_size in *. lia.
    - apply IHe; [exact Hc|cbn in Hf; lia].
  Qed.

  Lemma adjacent_terminals_ok cs : forall f,
    (forall c, In c (flat_map all_refs cs) -> Q c) -> (f >= list_size cs + extra)%nat ->
    is_okr (adjacent_terminals follow f cs).
  Proof.
    induction cs as [|a r IH]; intros f Hc Hf; [eexists; reflexivity|].
    destruct r as [|b r']; [eexists; reflexivity|].
    cbn [adjacent_terminals].
    assert (Ha : is_okr (expr_tail follow f a)).
    { apply expr_tail_ok.
      - intros x Hx. apply Hc. cbn. apply in_or_app. left. exact Hx.
      - unfold list_size in Hf. cbn in Hf. lia. }
    assert (Hb : is_okr (expr_head follow f b)).
    { apply expr_head_ok.
      - intros x Hx. apply Hc. cbn. apply in_or_app. right. apply in_or_app. left. exact Hx.
      - unfold list_size in Hf. cbn in Hf. lia. }
    destruct Ha as [ta Ha]. destruct Hb as [hb Hb]. rewrite Ha, Hb. cbn [obind].
    assert (Hr : is_okr (adjacent_terminals follow f (b :: r'))).
    { apply IH.
      - intros x Hx. apply Hc. cbn [flat_map]. apply in_or_app. right. exact Hx.
      - unfold list_size in *. cbn in Hf |- *. lia. }
    destruct ta; try exact Hr. destruct hb; try exact Hr. eexists; reflexivity.
  Qed.
End HeadTailOk.

Section Spaces.
  Variable table : list (string * expr).

  (** One induction for both uses: [Q] says which references may be met, [HQ] how the walk
      continues below them with [extra] fuel left. *)
  Lemma spaces_fine_scheme (extra : nat) (Q : string -> Prop)
        (HQ : forall n rhs f trace within,
            Q n -> assoc n table = Some rhs -> (f >= extra)%nat ->
            fine (spaces table f rhs trace within false))
        (HQh : forall n rhs f, Q n -> assoc n table = Some rhs -> (f >= extra)%nat ->
                               is_okr (expr_head (Some table) f rhs))
        (HQt : forall n rhs f, Q n -> assoc n table = Some rhs -> (f >= extra)%nat ->
                               is_okr (expr_tail (Some table) f rhs)) :
    forall e f trace within juxt,
      dd_free e -> (forall c, In c (all_refs e) -> Q c) ->
      (f >= expr_size e + extra)%nat -> fine (spaces table f e trace within juxt).
  Proof.
    assert (Hlist : forall cs f trace within,
               Forall (fun e => forall f trace within juxt,
                           dd_free e -> (forall c, In c (all_refs e) -> Q c) ->
                           (f >= expr_size e + extra)%nat -> fine (spaces table f e trace within juxt)) cs ->
               dd_free_list cs ->
               (forall c, In c (flat_map all_refs cs) -> Q c) ->
               (f >= list_size cs + extra)%nat ->
               Forall (fun c => fine (spaces table f c trace within false)) cs).
    { intros cs f trace within H. induction H as [|x l Hx Hl IH]; intros Hd Hc Hf; constructor.
      - destruct Hd as [Hdx Hdl]. apply Hx; [exact Hdx| |unfold list_size in *; cbn in Hf |- *; lia].
        intros c Hin. apply Hc. cbn. apply in_or_app. left. exact Hin.
      - destruct Hd as [Hdx Hdl]. apply IH; [exact Hdl| |unfold list_size in *; cbn in Hf |- *; lia].
        intros c Hin. apply Hc. cbn. apply in_or_app. right. exact Hin. }
    induction e using expr_ind'; intros f trace within juxt Hd Hc Hf;
      (destruct f as [|f]; [cbn in Hf; lia|]); rewrite spaces_S; try exact I.
    - (* NontermRef *)
      destruct (assoc n table) as [rhs|] eqn:En; [|exact I].
      apply (HQ n); [apply Hc; left; reflexivity|exact En|cbn in Hf; lia].
    - (* Sequence *)
      assert (Hs : fine (sp_all (fun c => spaces table f c trace within false) cs)).
      { apply sp_all_fine. apply Hlist; try assumption. cbn in Hf. unfold list_size. lia. }
      destruct (sp_all _ cs); cbn [obind]; try exact Hs.
      destruct within; [|exact I].
      assert (Ha : is_okr (adjacent_terminals (follow_of table juxt) f cs)).
      { destruct juxt; cbn [follow_of].
        - apply (adjacent_terminals_ok None O (fun _ => True)).
          + intros n rhs f0 _ Hn. discriminate.
          + intros n rhs f0 _ Hn. discriminate.
          + auto.
          + cbn in Hf. unfold list_size. lia.
        - apply (adjacent_terminals_ok (Some table) extra Q); auto.
          cbn in Hf. unfold list_size. lia. }
      destruct Ha as [adj Ha]. rewrite Ha. cbn [obind]. destruct adj as [[l r]|]; exact I.
    - (* Alternative *)
      apply sp_all_fine. apply Hlist; try assumption. cbn in Hf. unfold list_size. lia.
    - apply IHe; [exact Hd|exact Hc|cbn in Hf; lia].
    - apply IHe; [exact Hd|exact Hc|cbn in Hf; lia].
    - destruct Hd.
    - (* Fallback *)
      apply sp_all_fine. apply Hlist; try assumption. cbn in Hf. unfold list_size. lia.
    - apply IHe; [exact Hd|exact Hc|cbn in Hf; lia].
  Qed.

  Variable bound : nat.
  Hypothesis t_dd : table_dd_free table.
  Hypothesis t_closed : forall n rhs, assoc n table = Some rhs -> closed (map fst table) rhs.
  Hypothesis t_size : forall n rhs, assoc n table = Some rhs -> (expr_size rhs <= bound)%nat.

  (** below a definition nothing more is entered *)
  Lemma head_ok_closed e f :
    closed (map fst table) e -> (f >= expr_size e)%nat -> is_okr (expr_head (Some table) f e).
  Proof.
    intros Hc Hf.
    apply (expr_head_ok (Some table) O (fun n => ~ In n (map fst table))); [|exact Hc|lia].
    intros n rhs f0 Hq Hn _. exfalso. apply Hq. eapply assoc_Some_in; exact Hn.
  Qed.

  Lemma tail_ok_closed e f :
    closed (map fst table) e -> (f >= expr_size e)%nat -> is_okr (expr_tail (Some table) f e).
  Proof.
    intros Hc Hf.
    apply (expr_tail_ok (Some table) O (fun n => ~ In n (map fst table))); [|exact Hc|lia].
    intros n rhs f0 Hq Hn _. exfalso. apply Hq. eapply assoc_Some_in; exact Hn.
  Qed.

  Lemma spaces_fine_closed e f trace within juxt :
    dd_free e -> closed (map fst table) e -> (f >= expr_size e)%nat ->
    fine (spaces table f e trace within juxt).
  Proof.
    intros Hd Hc Hf.
    apply (spaces_fine_scheme O (fun n => ~ In n (map fst table))); [| | |exact Hd|exact Hc|lia].
    - intros n rhs f' tr w Hq Hn _. exfalso. apply Hq. eapply assoc_Some_in; eauto.
    - intros n rhs f' Hq Hn _. exfalso. apply Hq. eapply assoc_Some_in; eauto.
    - intros n rhs f' Hq Hn _. exfalso. apply Hq. eapply assoc_Some_in; eauto.
  Qed.

  Theorem spaces_fine e f trace within juxt :
    dd_free e -> (f >= expr_size e + bound)%nat -> fine (spaces table f e trace within juxt).
  Proof.
    intros Hd Hf.
    apply (spaces_fine_scheme bound (fun _ => True)); [| | |exact Hd|auto|exact Hf].
    - intros n rhs f' tr w _ Hn Hf'. apply spaces_fine_closed.
      + eapply t_dd; eauto.
      + eapply t_closed; eauto.
      + pose proof (t_size _ _ Hn). lia.
    - intros n rhs f' _ Hn Hf'. apply head_ok_closed; [eapply t_closed; eauto|].
      pose proof (t_size _ _ Hn). lia.
    - intros n rhs f' _ Hn Hf'. apply tail_ok_closed; [eapply t_closed; eauto|].
      pose proof (t_size _ _ Hn). lia.
  Qed.
End Spaces.

(** *** The passes before the search *)
Lemma collect_plain_defs_fine ds : forall acc, fine (collect_plain_defs ds acc).
Proof.
  induction ds as [|[[[n nsp] sh] rhs] r IH]; intro acc; cbn [collect_plain_defs]; [exact I|].
  destruct sh; [apply IH|]. destruct (find _ acc); [exact I|apply IH].
Qed.

Lemma get_user_specs_fine target ds : forall acc, fine (get_user_specs target ds acc).
Proof.
  induction ds as [|[[[n nsp] sh] rhs] r IH]; intro acc; cbn [get_user_specs]; [exact I|].
  destruct sh as [[shn shsp]|]; [|apply IH].
  destruct rhs; try exact I. destruct (shell_of_string shn); [|exact I].
  destruct (shell_eqb s target); [|apply IH]. destruct (assoc n acc); [exact I|apply IH].
Qed.

Lemma get_fallback_specs_fine sp ds : forall acc, fine (get_fallback_specs sp ds acc).
Proof.
  induction ds as [|[[[n nsp] sh] rhs] r IH]; intro acc; cbn [get_fallback_specs]; [exact I|].
  destruct sh; [apply IH|]. destruct (mem_str n sp); [|apply IH].
  destruct rhs; try exact I. destruct (assoc n acc) as [[c p]|]; [exact I|apply IH].
Qed.

Lemma get_specializations_fine g sh : fine (get_specializations g sh).
Proof.
  unfold get_specializations. pose proof (get_user_specs_fine sh (all_defs g) []) as H1.
  destruct (get_user_specs sh (all_defs g) []) as [us| | |]; cbn [obind]; try exact H1.
  pose proof (get_fallback_specs_fine (map fst us) (all_defs g) []) as H2.
  destruct (get_fallback_specs _ _ _); cbn [obind]; exact H2.
Qed.

(** *** The table handed to [spaces] *)
Lemma table0_dd_free spec defs1 :
  (forall e, dd_free e -> dd_free (spec e)) ->
  Forall (fun d => dd_free (d_rhs d)) defs1 ->
  table_dd_free (table0_of (defs2_of spec defs1)).
Proof.
  intros Hs Hd n rhs Hn. apply assoc_In in Hn. unfold table0_of, defs2_of in Hn.
  rewrite map_map in Hn. apply in_map_iff in Hn. destruct Hn as [d [Heq Hin]]. cbn in Heq.
  inversion Heq; subst. apply Hs. rewrite Forall_forall in Hd. apply Hd. exact Hin.
Qed.

Lemma defs1_dd_free defs0 : Forall (fun d => dd_free (d_rhs d)) (defs1_of defs0).
Proof.
  apply Forall_forall. intros d Hd. unfold defs1_of in Hd. apply in_map_iff in Hd.
  destruct Hd as [d0 [Heq _]]. subst d. cbn. apply distribute_dd_free.
Qed.

Lemma table_sum_bound (t : list (string * expr)) n rhs :
  assoc n t = Some rhs ->
  (expr_size rhs <= fold_right (fun p n => expr_size (snd p) + n) O t)%nat.
Proof.
  intro H. apply assoc_In in H. induction t as [|[k v] t IH]; [destruct H|].
  cbn. destruct H as [H|H]; [inversion H; subst; lia|]. apply IH in H. lia.
Qed.

Lemma fold_sum_base (t : list (string * expr)) b :
  fold_right (fun p n => expr_size (snd p) + n)%nat b t
  = (fold_right (fun p n => expr_size (snd p) + n) O t + b)%nat.
Proof. induction t as [|[k v] t IH]; cbn; [reflexivity|]. rewrite IH. lia. Qed.

Lemma spaces_fuel_enough t e :
  (spaces_fuel t e >= expr_size e + fold_right (fun p n => expr_size (snd p) + n) O t)%nat.
Proof. unfold spaces_fuel. rewrite fold_sum_base. nia. Qed.

Lemma table0_keys spec defs1 :
  map fst (table0_of (defs2_of spec defs1)) = map d_name defs1.
Proof. unfold table0_of, defs2_of. rewrite !map_map. reflexivity. Qed.

Lemma defs2_names spec defs1 : map d_name (defs2_of spec defs1) = map d_name defs1.
Proof. unfold defs2_of. rewrite map_map. reflexivity. Qed.

(** When the cycle search succeeded, no entry of the resolved table refers to a definition. *)
Theorem resolved_table_closed defs2 ord :
  table_dd_free (table0_of defs2) ->
  resolution_order defs2 = Ok ord ->
  let table := resolve_in_order ord (table0_of defs2) in
  forall n rhs, assoc n table = Some rhs -> closed (map fst table) rhs.
Proof.
  intros Hdd Ho table n rhs Hn. unfold table in *. rewrite resolve_in_order_keys.
  apply resolution_order_ok in Ho. destruct Ho as (_ & Hord & Hall).
  eapply (resolve_in_order_closed (table0_of defs2) (graph_of defs2)); [|exact Hord| |exact Hn].
  - intros m rhs' c Hm Hc Hin. eapply graph_of_edges; eauto.
  - intros m Hm Hc. apply Hall. split; [|exact Hc].
    unfold table0_of in Hm. rewrite map_map in Hm. exact Hm.
Qed.

Theorem spaces_after_search_fine defs2 ord e :
  table_dd_free (table0_of defs2) -> dd_free e ->
  resolution_order defs2 = Ok ord ->
  let table := resolve_in_order ord (table0_of defs2) in
  fine (spaces table (spaces_fuel table e) e [] false false).
Proof.
  intros Hdd He Ho table.
  apply (spaces_fine table (fold_right (fun p n => expr_size (snd p) + n)%nat O table)).
  - apply resolve_in_order_dd_free. exact Hdd.
  - apply resolved_table_closed; assumption.
  - apply table_sum_bound.
  - exact He.
  - apply spaces_fuel_enough.
Qed.

Theorem from_grammar_fine builtins g sh : fine (from_grammar builtins g sh).
Proof.
  unfold from_grammar. fold (cv_names g). fold (expr0_of g).
  destruct (dedup_names [] (cv_names g)) as [|[command cspan] more]; [exact I|].
  destruct more; [|exact I].
  destruct (contains_char slash command); [exact I|].
  pose proof (collect_plain_defs_fine (all_defs g) []) as Hc.
  destruct (collect_plain_defs (all_defs g) []) as [defs0| | |]; cbn [obind]; try exact Hc.
  pose proof (get_specializations_fine g sh) as Hs.
  destruct (get_specializations g sh) as [[us fs]| | |]; cbn [obind]; try exact Hs.
  fold (defs1_of defs0).
  fold (spec_of builtins sh us fs (defs1_of defs0)).
  fold (defs2_of (spec_of builtins sh us fs (defs1_of defs0)) (defs1_of defs0)).
  pose proof (resolution_order_fine (defs2_of (spec_of builtins sh us fs (defs1_of defs0)) (defs1_of defs0))) as Ho.
  destruct (resolution_order _) as [ord| | |] eqn:Eo; cbn [obind]; try exact Ho.
  fold (table0_of (defs2_of (spec_of builtins sh us fs (defs1_of defs0)) (defs1_of defs0))).
  match goal with |- context [spaces ?t ?f ?e [] false false] =>
    change f with (spaces_fuel t e);
    assert (Hsp : fine (spaces t (spaces_fuel t e) e [] false false)) end.
  { apply spaces_after_search_fine; [| |exact Eo].
    - apply table0_dd_free; [|apply defs1_dd_free]. intros e. apply specialize_dd_free.
    - apply specialize_dd_free. apply distribute_dd_free. }
  match goal with |- context [spaces ?t ?f ?e [] false false] =>
    destruct (spaces t f e [] false false) as [[]| | |] end; cbn [obind]; exact Hsp.
Qed.

Lemma fine_cases {A} (x : res A) : fine x <-> (exists a, x = Ok a) \/ (exists e, x = Err e).
Proof.
  destruct x as [a|e|s|]; cbn; split; intro H; try exact I.
  - left. eexists; reflexivity.
  - right. eexists; reflexivity.
  - destruct H.
  - destruct H as [[a H]|[e H]]; discriminate.
  - destruct H.
  - destruct H as [[a H]|[e H]]; discriminate.
Qed.

Theorem from_grammar_total builtins g sh :
  (exists v, from_grammar builtins g sh = Ok v) \/ (exists e, from_grammar builtins g sh = Err e).
Proof. apply fine_cases. apply from_grammar_fine. Qed.

Theorem resolution_order_total defs :
  (exists ord, resolution_order defs = Ok ord) \/ (exists e, resolution_order defs = Err e).
Proof. apply fine_cases. apply resolution_order_fine. Qed.

Theorem spaces_after_search_total defs2 ord e :
  table_dd_free (table0_of defs2) -> dd_free e ->
  resolution_order defs2 = Ok ord ->
  let table := resolve_in_order ord (table0_of defs2) in
  spaces table (spaces_fuel table e) e [] false false = Ok tt \/
  exists err, spaces table (spaces_fuel table e) e [] false false = Err err.
Proof.
  intros Hdd He Ho table.
  pose proof (spaces_after_search_fine defs2 ord e Hdd He Ho) as H. cbn zeta in H.
  apply fine_cases in H. destruct H as [[[] H]|H]; [left; exact H|right; exact H].
Qed.
