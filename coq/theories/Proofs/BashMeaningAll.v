(** C01 over the whole decided domain: grammars whose leaves are literals, external commands,
    undefined nonterminals and within-word expressions over the same kinds of pieces.

    As [BashMeaningMix], with the within-word functions of the script treated by [WordSimGen]: in
    matching mode they decide [Meaning.waccepts] (the script tries the undefined nonterminal of a
    point first -- the greedy-shadow fix -- and otherwise follows the unique tokenisation:
    [WordGen.saccepts_waccepts]); in completing mode they offer [Meaning.wproper]. *)
From CG Require Import Base.Prelude Model.Ast Model.Dfa Model.Tables Model.Glob Model.BashSem.
From CG Require Import Spec.Lang Spec.Rx Spec.Meaning Spec.Domain Spec.DfaEquiv Spec.Invocations Spec.KnownC01.
From CG Require Import Proofs.RxFacts Proofs.MeaningFacts Proofs.MeaningLevels Proofs.TreeFacts Proofs.DomainFacts.
From CG Require Import Proofs.TablesSound Proofs.TablesKeys Proofs.TableLookup Proofs.LangBridge Proofs.DfaMeaning
     Proofs.SimGen Proofs.SubBridge Proofs.SubSim Proofs.SubLang Proofs.SubCompiled Proofs.SubTables Proofs.SubTreeFacts
     Proofs.WordTokens Proofs.SubwordMatch Proofs.SubwordComplete Proofs.WordSim Proofs.LevelsFacts
     Proofs.BashMeaningLit Proofs.BashMeaningTop Proofs.SubwordFacts Proofs.BashMeaningSub Proofs.C17Proofs
     Proofs.WordGen Proofs.WordSimGen Proofs.SubNeeds.

(** *** the trees: [SubBridge.sub_tree] *)
Lemma zero_free_trw_top c : toplevel_tree c = true -> alts_nonempty c = true -> zero_free (trw c) = true.
Proof.
  induction c using expr_ind'; intros Ht Ha; cbn [toplevel_tree alts_nonempty] in *; try discriminate; try reflexivity.
  - rewrite trw_seq. apply zero_free_fold_cat. rewrite Forall_forall in *. rewrite forallb_forall in Ht, Ha.
    intros r Hr. apply in_map_iff in Hr. destruct Hr as [c [<- Hc]]. apply H; [assumption | apply Ht; assumption | apply Ha; assumption].
  - rewrite trw_alt. destruct cs as [| c0 cs0]; [discriminate |]. apply zero_free_fold_alt; [discriminate |].
    rewrite Forall_forall in *. rewrite forallb_forall in Ht, Ha.
    intros r Hr. apply in_map_iff in Hr. destruct Hr as [c [<- Hc]]. apply H; [assumption | apply Ht; assumption | apply Ha; assumption].
  - cbn [trw zero_free]. rewrite IHc by assumption. reflexivity.
  - cbn [trw zero_free]. apply IHc; assumption.
  - rewrite trw_fb. destruct cs as [| c0 cs0]; [discriminate |]. apply zero_free_fold_alt; [discriminate |].
    rewrite Forall_forall in *. rewrite forallb_forall in Ht, Ha.
    intros r Hr. apply in_map_iff in Hr. destruct Hr as [c [<- Hc]]. apply H; [assumption | apply Ht; assumption | apply Ha; assumption].
Qed.

Definition al_leaf (a : leaf) : Prop :=
  match a with
  | LSub x _ => zero_free x = true
  | _ => True
  end.

Lemma all_tree_leaves e : sub_tree e = true -> alts_nonempty e = true -> forall a, In a (leaves (tr e)) -> al_leaf a.
Proof.
  induction e using expr_ind'; intros Ht Hne a Ha; cbn [sub_tree alts_nonempty] in Ht, Hne; try discriminate.
  - cbn in Ha. destruct Ha as [<- | []]. exact I.
  - cbn in Ha. destruct Ha as [<- | []]. exact I.
  - cbn in Ha. destruct Ha as [<- | []]. exact I.
  - rewrite tr_seq in Ha. apply gleaves_fold_cat in Ha. destruct Ha as [r [Hr Ha]].
    apply in_map_iff in Hr. destruct Hr as [c [<- Hc]].
    rewrite Forall_forall in H. rewrite forallb_forall in Ht, Hne. apply (H c Hc (Ht c Hc) (Hne c Hc) a Ha).
  - rewrite tr_alt in Ha. apply gleaves_fold_alt in Ha. destruct Ha as [r [Hr Ha]].
    apply in_map_iff in Hr. destruct Hr as [c [<- Hc]].
    destruct cs as [| c0 cs0]; [discriminate |].
    rewrite Forall_forall in H. rewrite forallb_forall in Ht, Hne. apply (H c Hc (Ht c Hc) (Hne c Hc) a Ha).
  - cbn [tr leaves] in Ha. rewrite app_nil_r in Ha. apply IHe; assumption.
  - cbn [tr leaves] in Ha. apply IHe; assumption.
  - rewrite tr_fb in Ha. apply gleaves_fold_alt in Ha. destruct Ha as [r [Hr Ha]].
    apply in_map_iff in Hr. destruct Hr as [c [<- Hc]].
    destruct cs as [| c0 cs0]; [discriminate |].
    rewrite Forall_forall in H. rewrite forallb_forall in Ht, Hne. apply (H c Hc (Ht c Hc) (Hne c Hc) a Ha).
  - cbn in Ha. destruct Ha as [<- | []]. cbn [al_leaf]. apply zero_free_trw_top; assumption.
Qed.

Lemma zero_free_tr_all e : sub_tree e = true -> alts_nonempty e = true -> zero_free (tr e) = true.
Proof.
  induction e using expr_ind'; intros Ht Ha; cbn [sub_tree alts_nonempty] in *; try discriminate; try reflexivity.
  - rewrite tr_seq. apply zero_free_fold_cat. rewrite Forall_forall in *. rewrite forallb_forall in Ht, Ha.
    intros r Hr. apply in_map_iff in Hr. destruct Hr as [c [<- Hc]]. apply H; [assumption | apply Ht; assumption | apply Ha; assumption].
  - rewrite tr_alt. destruct cs as [| c0 cs0]; [discriminate |]. apply zero_free_fold_alt; [discriminate |].
    rewrite Forall_forall in *. rewrite forallb_forall in Ht, Ha.
    intros r Hr. apply in_map_iff in Hr. destruct Hr as [c [<- Hc]]. apply H; [assumption | apply Ht; assumption | apply Ha; assumption].
  - cbn [tr zero_free]. rewrite IHe by assumption. reflexivity.
  - cbn [tr zero_free]. apply IHe; assumption.
  - rewrite tr_fb. destruct cs as [| c0 cs0]; [discriminate |]. apply zero_free_fold_alt; [discriminate |].
    rewrite Forall_forall in *. rewrite forallb_forall in Ht, Ha.
    intros r Hr. apply in_map_iff in Hr. destruct Hr as [c [<- Hc]]. apply H; [assumption | apply Ht; assumption | apply Ha; assumption].
Qed.

(** *** the loops over the within-word functions of a state, with invocation logs *)
Section SubLoops2.
  Variables (a : alltables) (benv : BashSem.env).

  Lemma top_sub_loop_spec2 w : forall L log,
    (forall sid to, In (sid, to) L -> exists Tw b, subword_tables (a_subwords a) sid = Some Tw
        /\ forall log', exists log'', subword_matches Repaired a benv Tw (BashSem.sub_accepting a sid) w log' = Ok (b, log'')) ->
    exists r log1, top_sub_loop Repaired a benv L w log = Ok (r, log1)
      /\ match r with
         | Some to => exists sid Tw, In (sid, to) L /\ subword_tables (a_subwords a) sid = Some Tw
                                    /\ forall log', exists log'', subword_matches Repaired a benv Tw (BashSem.sub_accepting a sid) w log' = Ok (true, log'')
         | None => forall sid to, In (sid, to) L -> exists Tw, subword_tables (a_subwords a) sid = Some Tw
                                    /\ forall log', exists log'', subword_matches Repaired a benv Tw (BashSem.sub_accepting a sid) w log' = Ok (false, log'')
         end.
  Proof.
    induction L as [| [sid to] L IH]; intros log H; cbn [top_sub_loop].
    - exists None, log. split; [reflexivity | intros sid to []].
    - destruct (H sid to (or_introl eq_refl)) as [Tw [b [HT Hm]]]. rewrite HT. destruct (Hm log) as [log1 E1]. rewrite E1. cbn [obind].
      destruct b.
      + exists (Some to), log1. split; [reflexivity |]. exists sid, Tw. split; [left; reflexivity | split; assumption].
      + destruct (IH log1) as [r [log2 [Hr Hspec]]]; [intros sid' to' Hin; apply (H sid' to'); right; exact Hin |].
        exists r, log2. split; [exact Hr |]. destruct r as [to' |].
        * destruct Hspec as [sid' [T' [Hin Hrest]]]. exists sid', T'. split; [right; exact Hin | exact Hrest].
        * intros sid' to' [E | Hin]; [inversion E; subst; exists Tw; split; assumption | apply (Hspec sid' to' Hin)].
  Qed.

  Lemma top_subs_level_spec2 p (P : N -> string -> Prop) : forall sids matches log,
    (forall sid, In sid sids -> exists Tw reply, subword_tables (a_subwords a) sid = Some Tw
        /\ (forall log', exists log'', subword_complete Repaired a benv Tw p log' = Ok (reply, log''))
        /\ forall o, In o reply <-> P sid o) ->
    exists adds log1, top_subs_level Repaired a benv sids p matches log = Ok (matches ++ adds, log1)
      /\ forall o, In o adds <-> exists sid, In sid sids /\ P sid o.
  Proof.
    induction sids as [| sid sids IH]; intros matches log H; cbn [top_subs_level].
    - exists [], log. rewrite app_nil_r. split; [reflexivity |]. intro o. split; [intros [] | intros [sid [[] _]]].
    - destruct (H sid (or_introl eq_refl)) as [Tw [reply [HT [Hc Hrep]]]]. rewrite HT. destruct (Hc log) as [log1 E1]. rewrite E1. cbn [obind].
      destruct (IH (matches ++ reply) log1) as [adds [log2 [Hr Hspec]]]; [intros sid' Hin; apply (H sid'); right; exact Hin |].
      exists (reply ++ adds), log2. rewrite app_assoc. split; [exact Hr |].
      intro o. rewrite in_app_iff, Hspec, Hrep. split.
      + intros [Hin | [sid' [Hin Hp]]]; [exists sid; split; [left; reflexivity | exact Hin] | exists sid'; split; [right; exact Hin | exact Hp]].
      + intros [sid' [[E | Hin] Hp]]; [subst sid'; left; exact Hp | right; exists sid'; split; assumption].
  Qed.
End SubLoops2.

Section All.
  Variables (c : cdfa) (e : expr) (om : list (string * string)) (os : list (N * list (string * string)))
            (nd : needs) (a : alltables).
  Variables (benv : BashSem.env) (en : Meaning.env) (p : string).
  Hypothesis Htree : sub_tree e = true.
  Hypothesis Hne : alts_nonempty e = true.
  Hypothesis HL : forall w, accepts_items c w <-> Lang.denotes e w.
  Hypothesis Hwf : dfa_wf (c_main c).
  Hypothesis Hinp : NoDup (d_inputs (c_main c)).
  Hypothesis Htrim : trim (c_main c).
  Hypothesis Hall : all_tables Bash c om os = Ok (nd, a).
  Hypothesis Hord : NoDup om.
  Hypothesis Hvalid : valid_literal_order (c_main c) om = true.
  Hypothesis Hdom : C01_domain e = true.
  Hypothesis Henvok : C01_env_ok e en = true.
  Hypothesis Hsubs : forall k l, In (ISub k l) (d_inputs (c_main c)) ->
                                 exists sd, nth_error (c_subs c) (N.to_nat k) = Some sd /\ sub_ok sd.
  Hypothesis Hcanon : subs_deterministic c.
  Hypothesis Hsords : sub_orders_ok c os.
  Hypothesis Hic : e_ignore_case benv = false.
  Hypothesis Hpr : printable_str p = true.
  Hypothesis Hstrip : forall ms, (forall m, In m ms -> String.prefix p m = true) ->
                                 strip_reply benv p ms = Ok (map (Meaning.strip (Meaning.e_wordbreaks en) p) ms).
  Hypothesis Henv : forall cm cid, Tables.index_of cm (a_commands a) = Some cid ->
                                   spec_candidates (cmd_output benv cid) = candidates en cm.

  Notation d := (c_main c).
  Notation T := (a_main a).

  Lemma Hglt' : get_lookup_tables d (a_commands a) 0 (n_top_cmd nd) false (n_top_star nd) om = Ok T.
  Proof. destruct (all_tables_inv _ _ _ _ _ _ Hall) as [rt F]. exact (af_main _ _ _ _ _ _ _ F). Qed.

  Lemma needs_flags : exists rt, rtrans d = Ok rt /\ n_top_cmd nd = has_cmd rt /\ n_top_star nd = has_star rt.
  Proof.
    destruct (all_tables_inv _ _ _ _ _ _ Hall) as [rt F]. exists rt. split; [exact (af_rt _ _ _ _ _ _ _ F) |].
    pose proof (af_needs _ _ _ _ _ _ _ F) as H. unfold get_needs in H.
    rewrite (af_rt _ _ _ _ _ _ _ F) in H. cbn [obind] in H.
    apply obind_ok in H. destruct H as [subs [_ H]]. apply obind_ok in H. destruct H as [srts [_ H]].
    inversion H; subst. split; reflexivity.
  Qed.

  Lemma lrel_det' : forall s a0 x x' t t', lrel c a0 x -> lrel c a0 x' -> trans_on d s x t -> trans_on d s x' t' -> t = t'.
  Proof.
    intros s a0 x x' t t' H1 H2 T1 T2. destruct (plain_leaf a0) eqn:Hp.
    - apply (lrel_plain c a0 x Hp) in H1. apply (lrel_plain c a0 x' Hp) in H2. subst x x'.
      destruct T1 as [i [Hs1 Hn1]]. destruct T2 as [j [Hs2 Hn2]].
      rewrite (nthN_inj d Hinp i j _ Hn1 Hn2) in Hs1. rewrite Hs1 in Hs2. inversion Hs2. reflexivity.
    - destruct a0 as [| | | x0 l]; cbn in Hp; try discriminate.
      apply lrel_sub in H1. apply lrel_sub in H2. destruct H1 as [k [-> E1]]. destruct H2 as [k' [-> E2]].
      apply (Hcanon s k k' l t t' T1 T2). intro v. rewrite E1, E2. reflexivity.
  Qed.

  Record rel (s : N) (S : state) : Prop := {
    rel_sim : rsim c s S;
    rel_z : forall k, In k S -> zero_free k = true;
    rel_leaves : forall k, In k S -> forall a0, In a0 (leaves k) -> In a0 (leaves (tr e));
    rel_reach : reach same_item (start e) S;
    rel_co : coreachable d s
  }.

  Lemma rel_start : rel (d_start d) (start e).
  Proof.
    constructor.
    - apply rsim_start; [exact Htree | exact HL].
    - intros k [<- | []]. apply zero_free_tr_all; assumption.
    - intros k [<- | []] a0 Ha. exact Ha.
    - apply reach_here. intro k. reflexivity.
    - destruct Htrim as [_ Hco]. apply Hco. unfold states. apply nodup_In. left; reflexivity.
  Qed.

  Lemma targets_co' s i t : Dfa.step d s i = Some t -> coreachable d t.
  Proof. intro H. destruct Htrim as [_ Hco]. apply Hco. apply (step_in_states d s i t H). Qed.

  Lemma rel_nonempty s S : rel s S -> S <> [].
  Proof.
    intros R E. destruct (rel_co _ _ R) as [w Hw].
    destruct (accepted_has_inputs d Hwf w s Hw) as [xs [Hd _]].
    apply (proj1 (rel_sim _ _ R)) in Hd. destruct Hd as [k [_ [Hk _]]]. rewrite E in Hk. destruct Hk.
  Qed.

  Lemma move_facts s S a0 k : rel s S -> In (a0, k) (moves S) ->
    al_leaf a0 /\ In a0 (leaves (tr e)) /\ zero_free k = true /\ (forall b, In b (leaves k) -> In b (leaves (tr e))).
  Proof.
    intros R Hin. apply moves_In in Hin. destruct Hin as [r [Hr Hlf]].
    destruct (lf_leaves r a0 k Hlf) as [Ha Hk].
    assert (Hl : In a0 (leaves (tr e))) by (apply (rel_leaves _ _ R r Hr); exact Ha).
    split; [apply (all_tree_leaves e Htree Hne a0 Hl) | split; [exact Hl | split]].
    - eapply zero_free_lf; [apply (rel_z _ _ R r Hr) | exact Hlf].
    - intros b Hb. apply (rel_leaves _ _ R r Hr). apply Hk. exact Hb.
  Qed.

  (** a within-word leaf of the tree: no [Zero], inside the decided domain, pieces from one source *)
  Lemma sub_word_facts x0 l : In (LSub x0 l) (leaves (tr e)) -> zero_free x0 = true /\ word_in_domain x0 /\ env_word_ok en x0.
  Proof.
    intro Hl. pose proof (all_tree_leaves e Htree Hne _ Hl) as Hz. cbn [al_leaf] in Hz.
    assert (Hsw : In x0 (subwords_of (tr e))).
    { unfold subwords_of. apply in_flat_map. exists (LSub x0 l). split; [exact Hl | left; reflexivity]. }
    split; [exact Hz | split].
    - destruct (C01_domain_sound e Hdom) as [Hw _]. apply Hw. exact Hsw.
    - apply (env_ok_sound e en Henvok x0 Hsw).
  Qed.

  Lemma trans_item s S x t : rel s S -> trans_on d s x t -> exists a0 k, In (a0, k) (moves S) /\ lrel c a0 x.
  Proof. intros R Htr. apply (rsim_trans c Hwf s S x t (rel_sim _ _ R)); [intros i t'; apply targets_co' | exact Htr]. Qed.

  Lemma item_trans s S a0 k : rel s S -> In (a0, k) (moves S) -> exists x t, lrel c a0 x /\ trans_on d s x t.
  Proof. intros R Hin. apply (rsim_item c s S a0 k (rel_sim _ _ R) (rel_z _ _ R) Hin). Qed.

  Lemma trans_item_plain s S x t : rel s S -> trans_on d s x t -> (forall k l, x <> ISub k l) ->
    exists a1 k, In (a1, k) (moves S) /\ inp_of_leaf a1 = x /\ plain_leaf a1 = true.
  Proof.
    intros R Htr Hx. destruct (trans_item s S x t R Htr) as [a0 [k [Hin Hl]]].
    destruct (plain_leaf a0) eqn:Hp.
    - apply (lrel_plain c a0 x Hp) in Hl. exists a0, k. split; [exact Hin | split; [symmetry; exact Hl | exact Hp]].
    - destruct a0 as [| | | x0 l]; cbn in Hp; try discriminate.
      apply lrel_sub in Hl. destruct Hl as [k' [E _]]. exfalso. apply (Hx k' l E).
  Qed.

  Lemma item_trans_plain s S a1 k : rel s S -> In (a1, k) (moves S) -> plain_leaf a1 = true -> exists t, trans_on d s (inp_of_leaf a1) t.
  Proof.
    intros R Hin Hp. destruct (item_trans s S a1 k R Hin) as [x [t [Hl Htr]]].
    apply (lrel_plain c a1 x Hp) in Hl. subst x. exists t. exact Htr.
  Qed.

  Lemma trans_lit_item s S w dso l t : rel s S -> trans_on d s (ILit w dso l) t -> exists k, In (LLit w dso l, k) (moves S).
  Proof.
    intros R Htr. destruct (trans_item_plain s S _ t R Htr) as [a1 [k [Hin [Ha Hp]]]]; [intros k1 l1; discriminate |].
    destruct a1; cbn in Ha, Hp; try discriminate. inversion Ha; subst. exists k. exact Hin.
  Qed.

  Lemma item_lit_trans s S w dso l k : rel s S -> In (LLit w dso l, k) (moves S) -> exists t, trans_on d s (ILit w dso l) t.
  Proof. intros R Hin. apply (item_trans_plain s S (LLit w dso l) k R Hin eq_refl). Qed.

  Lemma trans_sub_item s S pi l t : rel s S -> trans_on d s (ISub pi l) t ->
    exists x0 k, In (LSub x0 l, k) (moves S) /\ lrel c (LSub x0 l) (ISub pi l).
  Proof.
    intros R Htr. destruct (trans_item s S _ t R Htr) as [a0 [k [Hin Hl]]].
    destruct (plain_leaf a0) eqn:Hp.
    - apply (lrel_plain c a0 _ Hp) in Hl. destruct a0; cbn in Hp, Hl; discriminate.
    - destruct a0 as [| | | x0 l0]; cbn in Hp; try discriminate.
      pose proof Hl as Hl'. apply lrel_sub in Hl'. destruct Hl' as [k' [E _]]. inversion E; subst. exists x0, k. split; assumption.
  Qed.

  Lemma item_sub_trans s S x0 l k : rel s S -> In (LSub x0 l, k) (moves S) ->
    exists pi t, lrel c (LSub x0 l) (ISub pi l) /\ trans_on d s (ISub pi l) t.
  Proof.
    intros R Hin. destruct (item_trans s S _ k R Hin) as [x [t [Hl Htr]]].
    pose proof Hl as Hl'. apply lrel_sub in Hl'. destruct Hl' as [pi [-> _]]. exists pi, t. split; assumption.
  Qed.

  Lemma same_label s S w d1 l1 k1 d2 l2 k2 :
    rel s S -> In (LLit w d1 l1, k1) (moves S) -> In (LLit w d2 l2, k2) (moves S) -> d1 = d2 /\ l1 = l2.
  Proof.
    intros R H1 H2. destruct (C01_domain_sound e Hdom) as [_ Hp].
    destruct (Hp S (rel_reach _ _ R)) as [P1 _]. apply (P1 w d1 l1 d2 l2 k1 k2); assumption.
  Qed.

  (** *** the within-word function of a transition and the leaf it stands for *)
  Lemma sub_match s S pi l t x0 k0 :
    rel s S -> trans_on d s (ISub pi l) t -> In (LSub x0 l, k0) (moves S) -> lrel c (LSub x0 l) (ISub pi l) ->
    exists id Tw,
      script_id (a_subwords a) pi = Some id
      /\ subword_tables (a_subwords a) id = Some Tw
      /\ (forall pi', script_id (a_subwords a) pi' = Some id -> pi' = pi)
      /\ (forall rt, rtrans d = Ok rt -> assocN pi (get_subwords rt 0) = Some id)
      /\ (forall w log, exists log', subword_matches Repaired a benv Tw (BashSem.sub_accepting a id) w log = Ok (waccepts en x0 w, log'))
      /\ (exists reply, (forall log, exists log', subword_complete Repaired a benv Tw p log = Ok (reply, log'))
                        /\ forall o, In o reply <-> In o (wproper en x0 p)).
  Proof.
    intros R Htr Hin Hl.
    destruct (sub_entry c om os nd a Hwf Hall s pi l t Htr) as [id [sd [Tw [Hid [HT [Hsd [Hglt [Hacc [Hinj Hids]]]]]]]]].
    exists id, Tw. split; [exact Hid | split; [exact HT | split; [exact Hinj | split; [exact Hids |]]]].
    assert (Hinput : In (ISub pi l) (d_inputs d)).
    { destruct Htr as [i [_ Hn]]. unfold nthN in Hn. eapply nth_error_In. exact Hn. }
    destruct (Hsubs pi l Hinput) as [sd' [Hsd' Hok]].
    assert (sd' = sd) by (unfold nthN in Hsd; rewrite Hsd' in Hsd; inversion Hsd; reflexivity). subst sd'.
    assert (Esub : sub_dfa c pi = sd) by (unfold sub_dfa; apply nth_error_nth; exact Hsd').
    apply lrel_sub in Hl. destruct Hl as [pi' [E Hlang]]. inversion E; subst pi'. rewrite Esub in Hlang.
    destruct (move_facts s S _ k0 R Hin) as [_ [Hleaf _]].
    destruct (sub_word_facts x0 l Hleaf) as [Hz [Hwd Hev]].
    destruct (Hsords pi sd Hsd) as [Hordw Hvalidw].
    pose proof (sub_gsim sd x0 (so_plain sd Hok) Hlang) as Hsim0.
    assert (Hnc : forall s' cm l' t', trans_on sd s' (ICmd cm l') t' -> n_sub_cmd nd = true).
    { intros s' cm l' t' H. apply (sub_needs_cmd c om os nd a Hwf Hall s pi l t sd s' cm l' t' (so_wf sd Hok) Htr Hsd H). }
    assert (Hns : forall s' t', trans_on sd s' IStar t' -> n_sub_star nd = true).
    { intros s' t' H. apply (sub_needs_star c om os nd a Hwf Hall s pi l t sd s' t' (so_wf sd Hok) Htr Hsd H). }
    rewrite Hacc. split.
    - intros w log.
      apply (subword_matches_gen sd (a_commands a) (n_sub_cmd nd) false (n_sub_star nd) _ Tw x0 a benv en
               (so_wf sd Hok) (so_inputs sd Hok) (so_trim sd Hok) Hglt Hordw Hvalidw Hsim0 Hz Hwd Hev eq_refl Henv Hnc Hns w (so_start sd Hok) log).
    - apply (subword_complete_gen sd (a_commands a) (n_sub_cmd nd) false (n_sub_star nd) _ Tw x0 a benv en
               (so_wf sd Hok) (so_inputs sd Hok) (so_trim sd Hok) Hglt Hordw Hvalidw Hsim0 Hz Hwd Hev eq_refl Henv Hnc Hic p (so_start sd Hok) Hpr).
  Qed.

  (** *** reading one word *)
  Lemma step_when_lit S w : lit_expected (moves S) w ->
    forall k, In k (step en S w) <-> exists d0 l0, In (LLit w d0 l0, k) (moves S).
  Proof.
    intros Hle k. rewrite step_spec. split.
    - intros [a0 [Hin Hc]]. destruct a0 as [t0 d0 l0 | cm l0 | | x0 l0]; cbn [chosen] in Hc.
      + subst t0. eauto.
      + destruct Hc as [_ Hn]. contradiction.
      + destruct Hc as [Hn _]. contradiction.
      + destruct Hc as [_ Hn]. contradiction.
    - intros [d0 [l0 Hin]]. exists (LLit w d0 l0). split; [exact Hin | reflexivity].
  Qed.

  Lemma rel_after s S w i t x :
    rel s S -> ambiguous_step en S w = false -> step en S w <> [] ->
    Dfa.step d s i = Some t -> nthN (d_inputs d) i = Some x ->
    (forall k, In k (step en S w) <-> exists a0, In (a0, k) (mvs S) /\ lrel c a0 x) ->
    rel t (step en S w).
  Proof.
    intros R Hamb Hne' Hs Hn HS'. constructor.
    - apply (rsim_step c lrel_det' s S i t x (step en S w) (rel_sim _ _ R) Hs Hn HS').
    - intros k Hk. apply HS' in Hk. destruct Hk as [a0 [Hin _]]. apply (move_facts s S a0 k R Hin).
    - intros k Hk. apply HS' in Hk. destruct Hk as [a0 [Hin _]]. apply (move_facts s S a0 k R Hin).
    - destruct (step_istep en S w Hamb Hne') as [a' [Ha' Hi]].
      eapply reach_next; [apply (rel_reach _ _ R) | exact Ha' | exact Hi].
    - apply (targets_co' s i t Hs).
  Qed.

  Lemma accepting_unique S w a1 k1 a2 k2 :
    ~ lit_expected (moves S) w -> ambiguous_step en S w = false ->
    In (a1, k1) (moves S) -> mid_accepts en a1 w = true -> In (a2, k2) (moves S) -> mid_accepts en a2 w = true -> a1 = a2.
  Proof.
    intros Hnl Hamb H1 A1 H2 A2. unfold ambiguous_step in Hamb.
    rewrite (proj2 (lit_next_nil w (moves S)) Hnl) in Hamb.
    set (l := map fst (filter (fun ak => mid_accepts en (fst ak) w) (moves S))) in Hamb.
    assert (I1 : In a1 l) by (apply in_map_iff; exists (a1, k1); split; [reflexivity | apply filter_In; split; assumption]).
    assert (I2 : In a2 l) by (apply in_map_iff; exists (a2, k2); split; [reflexivity | apply filter_In; split; assumption]).
    destruct (dedup_leaf_rep l a1 I1) as [b1 [J1 E1]]. destruct (dedup_leaf_rep l a2 I2) as [b2 [J2 E2]]. subst b1 b2.
    destruct (dedup_leaf l) as [| y [| z r]]; [destruct J1 | | discriminate].
    destruct J1 as [<- | []]. destruct J2 as [<- | []]. reflexivity.
  Qed.

  Lemma chosen_unique s S w a1 k1 a2 k2 :
    rel s S -> ambiguous_step en S w = false ->
    In (a1, k1) (moves S) -> chosen en (moves S) w a1 -> In (a2, k2) (moves S) -> chosen en (moves S) w a2 -> a2 = a1.
  Proof.
    intros R Hamb H1 C1 H2 C2.
    assert (Hmid : forall b kb b' kb', In (b, kb) (moves S) -> mid_accepts en b w = true -> ~ lit_expected (moves S) w ->
                                      In (b', kb') (moves S) -> mid_accepts en b' w = true -> b' = b).
    { intros b kb b' kb' Hb Mb Hnl Hb' Mb'. symmetry. apply (accepting_unique S w b kb b' kb' Hnl Hamb Hb Mb Hb' Mb'). }
    destruct a1 as [t1 d1 l1 | c1 l1 | | x1 l1]; cbn [chosen] in C1.
    - subst t1. destruct a2 as [t2 d2 l2 | c2 l2 | | x2 l2]; cbn [chosen] in C2.
      + subst t2. destruct (same_label s S w d2 l2 k2 d1 l1 k1 R H2 H1) as [-> ->]. reflexivity.
      + destruct C2 as [_ C2]. exfalso. apply C2. exists d1, l1, k1. exact H1.
      + destruct C2 as [C2 _]. exfalso. apply C2. exists d1, l1, k1. exact H1.
      + destruct C2 as [_ C2]. exfalso. apply C2. exists d1, l1, k1. exact H1.
    - destruct C1 as [M1 Nl]. destruct a2 as [t2 d2 l2 | c2 l2 | | x2 l2]; cbn [chosen] in C2.
      + subst t2. exfalso. apply Nl. exists d2, l2, k2. exact H2.
      + destruct C2 as [M2 _]. apply (Hmid _ k1 _ k2 H1 M1 Nl H2 M2).
      + destruct C2 as [_ C2]. exfalso. apply C2. exists (LCmd c1 l1), k1. split; assumption.
      + destruct C2 as [M2 _]. apply (Hmid _ k1 _ k2 H1 M1 Nl H2 M2).
    - destruct C1 as [Nl Nm]. destruct a2 as [t2 d2 l2 | c2 l2 | | x2 l2]; cbn [chosen] in C2.
      + subst t2. exfalso. apply Nl. exists d2, l2, k2. exact H2.
      + destruct C2 as [M2 _]. exfalso. apply Nm. exists (LCmd c2 l2), k2. split; assumption.
      + reflexivity.
      + destruct C2 as [M2 _]. exfalso. apply Nm. exists (LSub x2 l2), k2. split; assumption.
    - destruct C1 as [M1 Nl]. destruct a2 as [t2 d2 l2 | c2 l2 | | x2 l2]; cbn [chosen] in C2.
      + subst t2. exfalso. apply Nl. exists d2, l2, k2. exact H2.
      + destruct C2 as [M2 _]. apply (Hmid _ k1 _ k2 H1 M1 Nl H2 M2).
      + destruct C2 as [_ C2]. exfalso. apply C2. exists (LSub x1 l1), k1. split; assumption.
      + destruct C2 as [M2 _]. apply (Hmid _ k1 _ k2 H1 M1 Nl H2 M2).
  Qed.

  (** an item that stands for the same input as the chosen item is chosen *)
  Lemma chosen_lrel s S w a1 k0 x a' k :
    rel s S -> In (a1, k0) (moves S) -> chosen en (moves S) w a1 -> lrel c a1 x ->
    In (a', k) (moves S) -> lrel c a' x -> chosen en (moves S) w a'.
  Proof.
    intros R Hin1 Hc1 Hl1 Hin' Hl'.
    destruct (plain_leaf a1) eqn:Hp1.
    - apply (lrel_plain c a1 x Hp1) in Hl1. destruct (plain_leaf a') eqn:Hp'.
      + apply (lrel_plain c a' x Hp') in Hl'. rewrite Hl1 in Hl'. rewrite <- (inp_of_leaf_inj a1 a' Hp1 Hp' Hl'). exact Hc1.
      + destruct a' as [| | | x1 l1]; cbn in Hp'; try discriminate. apply lrel_sub in Hl'. destruct Hl' as [k' [E _]].
        rewrite Hl1 in E. destruct a1; cbn in Hp1, E; discriminate.
    - destruct a1 as [| | | x0 l0]; cbn in Hp1; try discriminate.
      pose proof Hl1 as Hl1'. apply lrel_sub in Hl1'. destruct Hl1' as [pi [-> E0]].
      destruct (plain_leaf a') eqn:Hp'.
      + apply (lrel_plain c a' _ Hp') in Hl'. destruct a'; cbn in Hp', Hl'; discriminate.
      + destruct a' as [| | | x1 l1]; cbn in Hp'; try discriminate.
        pose proof Hl' as Hl''. apply lrel_sub in Hl''. destruct Hl'' as [pi' [E E1]]. inversion E; subst pi' l1.
        cbn [chosen mid_accepts] in Hc1 |- *. destruct Hc1 as [Hacc Hnl]. split; [| exact Hnl].
        rewrite <- (waccepts_same_lang en x0 x1 w); [exact Hacc |].
        apply wlangI_denotes. intro v. rewrite <- E0, E1. reflexivity.
  Qed.

  Lemma rel_step_chosen s S w a1 k0 x t :
    rel s S -> ambiguous_step en S w = false ->
    In (a1, k0) (moves S) -> chosen en (moves S) w a1 -> lrel c a1 x -> trans_on d s x t ->
    rel t (step en S w) /\ step en S w <> [].
  Proof.
    intros R Hamb Hin0 Hc0 Hl0 Htr.
    assert (Hk0 : In k0 (step en S w)) by (apply step_spec; exists a1; split; assumption).
    assert (Hne' : step en S w <> []) by (intro E0; rewrite E0 in Hk0; destruct Hk0).
    split; [| exact Hne']. destruct Htr as [i [Hs Hn]].
    apply (rel_after s S w i t x R Hamb Hne' Hs Hn).
    intro k. rewrite step_spec. split.
    - intros [a' [Hin Hc']]. exists a'. split; [exact Hin |].
      rewrite (chosen_unique s S w a1 k0 a' k R Hamb Hin0 Hc0 Hin Hc'). exact Hl0.
    - intros [a' [Hin Ha]]. exists a'. split; [exact Hin |]. apply (chosen_lrel s S w a1 k0 x a' k R Hin0 Hc0 Hl0 Hin Ha).
  Qed.

  Lemma walk_lit s S w : rel s S -> ambiguous_step en S w = false ->
    match lit_lookup T s w with
    | Some t => rel t (step en S w) /\ step en S w <> []
    | None => ~ lit_expected (moves S) w
    end.
  Proof.
    intros R Hamb. destruct (lit_lookup T s w) as [t |] eqn:El.
    - destruct (lit_lookup_sound d (a_commands a) _ _ _ om T Hwf Hord Hglt' s w t El) as [dso [lvl Htr]].
      destruct (trans_lit_item s S w dso lvl t R Htr) as [k0 Hin0].
      apply (rel_step_chosen s S w (LLit w dso lvl) k0 _ t R Hamb Hin0 eq_refl (proj2 (lrel_plain c (LLit w dso lvl) _ eq_refl) eq_refl) Htr).
    - intros [d' [l' [k Hin]]]. destruct (item_lit_trans s S w d' l' k R Hin) as [t Htr].
      destruct (lit_lookup_complete d (a_commands a) _ _ _ om T Hwf Hord Hglt' s w d' l' t Hvalid Htr) as [to' E].
      rewrite El in E. discriminate.
  Qed.

  Lemma row_entry s S row pi to : rel s S -> assocN s (a_subtrans a) = Some row -> In (pi, to) row ->
    exists lvl x0 k0, trans_on d s (ISub pi lvl) to /\ In (LSub x0 lvl, k0) (moves S) /\ lrel c (LSub x0 lvl) (ISub pi lvl).
  Proof.
    intros R Hrow Hin. apply (subtrans_row c om os nd a Hwf Hall s row Hrow pi to) in Hin. destruct Hin as [lvl Htr].
    destruct (trans_sub_item s S pi lvl to R Htr) as [x0 [k0 [Hmv Hl]]]. exists lvl, x0, k0. split; [exact Htr | split; assumption].
  Qed.

  Lemma step_nil_intro S w : (forall k, ~ In k (step en S w)) -> step en S w = [].
  Proof. intro H. destruct (step en S w) as [| k r]; [reflexivity | exfalso; apply (H k); left; reflexivity]. Qed.

  (** the within-word part of the walk *)
  Lemma walk_sub s S w log : rel s S -> ~ lit_expected (moves S) w -> ambiguous_step en S w = false ->
    exists r log1, (match assocN s (a_subtrans a) with
               | Some row => do srow <- sub_row (a_subwords a) row; top_sub_loop Repaired a benv (assoc_of srow) w log
               | None => Ok (None, log)
               end) = Ok (r, log1)
              /\ match r with
                 | Some to => rel to (step en S w) /\ step en S w <> []
                 | None => forall x0 l0 k, In (LSub x0 l0, k) (moves S) -> waccepts en x0 w = false
                 end.
  Proof.
    intros R Hnl Hamb. destruct (assocN s (a_subtrans a)) as [row |] eqn:Erow.
    - destruct (sub_row_spec (a_subwords a) row) as [srow [Hsrow Hf]].
      { intros pi to Hin. destruct (row_entry s S row pi to R Erow Hin) as [lvl [x0 [k0 [Htr [Hmv Hl]]]]].
        destruct (sub_match s S pi lvl to x0 k0 R Htr Hmv Hl) as [id [Tw [Hid _]]]. exists id. exact Hid. }
      rewrite Hsrow. cbn [obind].
      assert (Hentry : forall sid to, In (sid, to) (assoc_of srow) ->
                 exists pi lvl x0 k0 Tw, trans_on d s (ISub pi lvl) to /\ In (LSub x0 lvl, k0) (moves S) /\ lrel c (LSub x0 lvl) (ISub pi lvl)
                   /\ subword_tables (a_subwords a) sid = Some Tw
                   /\ forall log', exists log'', subword_matches Repaired a benv Tw (BashSem.sub_accepting a sid) w log' = Ok (waccepts en x0 w, log'')).
      { intros sid to Hin. apply assoc_of_sub in Hin. destruct (Forall2_in_r _ _ _ _ Hf Hin) as [[pi to'] [Hrow [Eto Hsid]]].
        cbn [fst snd] in Eto, Hsid. subst to'.
        destruct (row_entry s S row pi to R Erow Hrow) as [lvl [x0 [k0 [Htr [Hmv Hl]]]]].
        destruct (sub_match s S pi lvl to x0 k0 R Htr Hmv Hl) as [id [Tw [Hid [HT [_ [_ [Hm _]]]]]]].
        rewrite Hsid in Hid. inversion Hid; subst id. exists pi, lvl, x0, k0, Tw.
        split; [exact Htr | split; [exact Hmv | split; [exact Hl | split; [exact HT | intro log'; apply Hm]]]]. }
      destruct (top_sub_loop_spec2 a benv w (assoc_of srow) log) as [r [log1 [Hr Hspec]]].
      { intros sid to Hin. destruct (Hentry sid to Hin) as [pi [lvl [x0 [k0 [Tw [_ [_ [_ [HT Hm]]]]]]]]]. exists Tw, (waccepts en x0 w). split; assumption. }
      exists r, log1. split; [exact Hr |]. destruct r as [to |].
      + destruct Hspec as [sid [Tw' [Hin [HT' Hm']]]].
        destruct (Hentry sid to Hin) as [pi [lvl [x0 [k0 [Tw [Htr [Hmv [Hl [HT Hm]]]]]]]]].
        rewrite HT in HT'. inversion HT'; subst Tw'.
        assert (Hacc : waccepts en x0 w = true).
        { destruct (Hm []) as [l1 E1]. destruct (Hm' []) as [l2 E2]. rewrite E2 in E1. inversion E1. reflexivity. }
        apply (rel_step_chosen s S w (LSub x0 lvl) k0 _ to R Hamb Hmv (conj Hacc Hnl) Hl Htr).
      + intros x0 l0 k Hin. destruct (waccepts en x0 w) eqn:Hacc; [exfalso | reflexivity].
        destruct (item_sub_trans s S x0 l0 k R Hin) as [pi [t [Hl Htr]]].
        assert (Hrow : In (pi, t) row) by (apply (subtrans_row c om os nd a Hwf Hall s row Erow pi t); eauto).
        destruct (Forall2_in_l _ _ _ _ Hf Hrow) as [[sid t'] [Hsrow' [Et Hsid]]]. cbn [fst snd] in Et, Hsid. subst t'.
        assert (Hkey : In sid (map fst (assoc_of srow))).
        { apply assoc_of_keys. apply in_map_iff. exists (sid, t). split; [reflexivity | exact Hsrow']. }
        apply in_map_iff in Hkey. destruct Hkey as [[sid' to'] [E Hin']]. cbn [fst] in E. subst sid'.
        destruct (Hspec sid to' Hin') as [Tw' [HT' Hm']].
        destruct (sub_match s S pi l0 t x0 k R Htr Hin Hl) as [id [Tw [Hid [HT [_ [_ [Hm _]]]]]]].
        rewrite Hsid in Hid. inversion Hid; subst id. rewrite HT in HT'. inversion HT'; subst Tw'.
        destruct (Hm w []) as [l1 E1]. destruct (Hm' []) as [l2 E2]. rewrite E2 in E1. rewrite Hacc in E1. discriminate.
    - exists None, log. split; [reflexivity |]. intros x0 l0 k Hin. exfalso.
      destruct (item_sub_trans s S x0 l0 k R Hin) as [pi [t [_ Htr]]].
      apply (subtrans_none c om os nd a Hwf Hall s pi l0 t Erow Htr).
  Qed.

  (** *** the command tables at a related state *)
  Lemma mcmd_present s S cm l k : rel s S -> In (LCmd cm l, k) (moves S) ->
    exists ct cid row to, t_mcmd T = Some ct /\ Tables.index_of cm (a_commands a) = Some cid
                          /\ assocN s ct = Some row /\ In (cid, to) row.
  Proof.
    intros R Hin. destruct (item_trans_plain s S _ k R Hin eq_refl) as [t Htr]. cbn [inp_of_leaf] in Htr.
    destruct needs_flags as [rt [Hrt [Hnc _]]]. destruct (glt_inv _ _ _ _ _ _ _ _ Hglt') as [rt' F].
    rewrite (gf_rt _ _ _ _ _ _ _ _ _ F) in Hrt. inversion Hrt; subst rt'.
    assert (Hhas : has_cmd rt = true).
    { unfold has_cmd. apply existsb_exists. exists (s, ICmd cm l, t). split; [exact (proj2 (trans_on_rt d rt s _ t Hwf (gf_rt _ _ _ _ _ _ _ _ _ F)) Htr) | reflexivity]. }
    destruct (gf_mcmd _ _ _ _ _ _ _ _ _ F) as [[_ [ct [Hct Ect]]] | [Hf _]]; [| rewrite Hnc, Hhas in Hf; discriminate].
    pose proof Htr as [i [Hs Hn]]. apply (step_in _ _ _ _ Hwf) in Hs.
    assert (Hid : exists cid, cmd_sel (a_commands a) (ICmd cm l) = Some (Ok cid)).
    { assert (Hs0 : In s (get_all_states d)) by (eapply has_transition_state; eassumption).
      unfold match_table in Hct. apply obind_ok in Hct. destruct Hct as [rows [Hrows _]].
      destruct (omap_ok_total _ _ _ Hrows s Hs0) as [y [Hy _]].
      apply obind_ok in Hy. destruct Hy as [tr [Htr' Hy]]. apply obind_ok in Hy. destruct Hy as [kvs [Hkvs _]].
      assert (Hx : In (ICmd cm l, t) tr) by (apply (rtrans_from_in _ _ _ _ _ Htr'); eauto).
      destruct (omap_ok_total _ _ _ Hkvs _ Hx) as [y' [Hy' _]]. cbn [fst cmd_sel] in Hy'.
      cbn [cmd_sel]. unfold cmd_id_or_panic in *. destruct (Tables.index_of cm (a_commands a)) as [cid |].
      - exists cid. reflexivity.
      - cbn in Hy'. discriminate. }
    destruct Hid as [cid Hsel].
    destruct (match_table_has _ _ _ _ _ _ _ _ Hct Hs Hn Hsel) as [to' Hh].
    destruct (match_table_keys _ _ _ _ (get_all_states_NoDup d) Hct) as [K1 K2].
    apply (tbl_has_assoc _ _ _ _ K1 K2) in Hh. destruct Hh as [row [Hr Hk]].
    exists ct, cid, row, to'. split; [exact Ect | split; [| split; [exact Hr | apply assocN_in; exact Hk]]].
    cbn [cmd_sel] in Hsel. inversion Hsel as [Hc']. apply cmd_id_at in Hc'. exact Hc'.
  Qed.

  Lemma mcmd_entry s S ct row cid to :
    rel s S -> t_mcmd T = Some ct -> assocN s ct = Some row -> In (cid, to) row ->
    exists cm l k, Tables.index_of cm (a_commands a) = Some cid /\ trans_on d s (ICmd cm l) to /\ In (LCmd cm l, k) (moves S).
  Proof.
    intros R Hct Hr Hin.
    assert (Hh : tbl_has ct s cid to) by (exists row; split; [apply assocN_in; exact Hr | exact Hin]).
    destruct (mcmd_sound d (a_commands a) 0 _ _ _ om T Hwf Hglt' ct s cid to Hct Hh) as [cm [l [Htr Hid]]].
    destruct (trans_item_plain s S _ to R Htr) as [a1 [k [Hmv [Ha Hp]]]]; [intros k1 l1; discriminate |].
    destruct a1; cbn in Ha, Hp; try discriminate. inversion Ha; subst. exists cm, l, k. split; [exact Hid | split; [exact Htr | exact Hmv]].
  Qed.

  Lemma accepts_cid_item cm cid w : Tables.index_of cm (a_commands a) = Some cid ->
    accepts_cid benv w cid = mid_accepts en (LCmd cm 0) w.
  Proof.
    intro Hid. unfold accepts_cid. rewrite (Henv cm cid Hid). cbn [mid_accepts]. unfold mem_str. reflexivity.
  Qed.

  Lemma mstar_lookup s S : rel s S ->
    match (match t_mstar T with Some stars => assocN s stars | None => None end) with
    | Some to => trans_on d s IStar to
    | None => forall k, ~ In (LAny, k) (moves S)
    end.
  Proof.
    intro R. destruct needs_flags as [rt [Hrt [_ Hns]]]. destruct (glt_inv _ _ _ _ _ _ _ _ Hglt') as [rt' F].
    rewrite (gf_rt _ _ _ _ _ _ _ _ _ F) in Hrt. inversion Hrt; subst rt'.
    destruct (t_mstar T) as [stars |] eqn:Est.
    - destruct (assocN s stars) as [to |] eqn:Ea.
      + apply assocN_in in Ea. apply (mstar_exact d (a_commands a) 0 _ _ _ om T Hwf Hglt' stars s to Est). exact Ea.
      + intros k Hin. destruct (item_trans_plain s S _ k R Hin eq_refl) as [t Htr]. cbn [inp_of_leaf] in Htr.
        apply (mstar_exact d (a_commands a) 0 _ _ _ om T Hwf Hglt' stars s t Est) in Htr.
        apply assocN_none_keys in Ea. apply Ea. apply in_map_iff. exists (s, t). split; [reflexivity | exact Htr].
    - intros k Hin. destruct (item_trans_plain s S _ k R Hin eq_refl) as [t Htr]. cbn [inp_of_leaf] in Htr.
      rewrite (gf_mstar _ _ _ _ _ _ _ _ _ F) in Est. rewrite Hns in Est.
      assert (Hhas : has_star rt = true).
      { unfold has_star. apply existsb_exists. exists (s, IStar, t). split; [exact (proj2 (trans_on_rt d rt s _ t Hwf (gf_rt _ _ _ _ _ _ _ _ _ F)) Htr) | reflexivity]. }
      rewrite Hhas in Est. discriminate.
  Qed.

  Lemma Hcands : forall cid, command_lines Repaired (cmd_output benv cid) = spec_candidates (cmd_output benv cid).
  Proof. intro cid. apply filter_lines_repaired_spec. Qed.

  Lemma cmd_part s S w last log :
    rel s S ->
    exists r log1,
      match t_mcmd T with
      | Some ct => match assocN s ct with
                   | Some row => top_cmd_loop Repaired a benv (assoc_of row) w last log
                   | None => Ok (WNone, log)
                   end
      | None => Ok (WNone, log)
      end = Ok (match r with Some to => WNext to | None => WNone end, log1)
      /\ match r with
         | Some to => exists cm l k, In (LCmd cm l, k) (moves S) /\ mid_accepts en (LCmd cm l) w = true /\ trans_on d s (ICmd cm l) to
         | None => forall cm l k, In (LCmd cm l, k) (moves S) -> mid_accepts en (LCmd cm l) w = false
         end.
  Proof.
    intro R. destruct (t_mcmd T) as [ct |] eqn:Ect.
    - destruct (assocN s ct) as [row |] eqn:Er.
      + assert (Krow : NoDup (map fst row)).
        { destruct (glt_inv _ _ _ _ _ _ _ _ Hglt') as [rt F].
          pose proof Ect as Ect0.
          destruct (gf_mcmd _ _ _ _ _ _ _ _ _ F) as [[_ [m [Hm Em]]] | [_ Em]]; rewrite Em in Ect0; [| discriminate].
          inversion Ect0; subst m.
          destruct (match_table_keys _ _ _ _ (get_all_states_NoDup d) Hm) as [_ K2]. apply (K2 s row). apply assocN_in. exact Er. }
        assert (Hvalid' : forall cid to, In (cid, to) (assoc_of row) -> nthN (a_commands a) cid <> None).
        { intros cid to Hin. apply (assoc_of_in row Krow) in Hin.
          destruct (mcmd_entry s S ct row cid to R Ect Er Hin) as [cm [l [k [Hid _]]]].
          rewrite (index_of_nth _ _ _ Hid). discriminate. }
        destruct (spec_cmd_loop_spec a benv w (assoc_of row) last log Hvalid') as [log' [esc E]].
        pose proof (top_cmd_loop_spec Repaired a benv Hcands w last (fun H => match Bool.diff_false_true H with end) _ _ _ _ _ E
                      (fun H => match Bool.diff_false_true H with end)) as Et.
        eexists _, log'. split; [exact Et |].
        destruct (find (fun ct0 => accepts_cid benv w (fst ct0)) (assoc_of row)) as [[cid to] |] eqn:Ef.
        * apply find_some in Ef. destruct Ef as [Hin Hacc]. cbn [fst snd] in *.
          apply (assoc_of_in row Krow) in Hin.
          destruct (mcmd_entry s S ct row cid to R Ect Er Hin) as [cm [l [k [Hid [Htr Hmv]]]]].
          exists cm, l, k. split; [exact Hmv | split; [| exact Htr]].
          rewrite (accepts_cid_item cm cid w Hid) in Hacc. exact Hacc.
        * intros cm l k Hmv. destruct (mcmd_present s S cm l k R Hmv) as [ct' [cid [row' [to [Ect' [Hid [Er' Hin]]]]]]].
          rewrite Ect in Ect'. inversion Ect'; subst ct'. rewrite Er in Er'. inversion Er'; subst row'.
          apply (assoc_of_in row Krow) in Hin.
          pose proof (find_none _ _ Ef _ Hin) as Hn. cbn [fst] in Hn. rewrite (accepts_cid_item cm cid w Hid) in Hn. exact Hn.
      + exists None, log. split; [reflexivity |].
        intros cm l k Hmv. destruct (mcmd_present s S cm l k R Hmv) as [ct' [cid [row' [to [Ect' [_ [Er' _]]]]]]].
        rewrite Ect in Ect'. inversion Ect'; subst ct'. rewrite Er in Er'. discriminate.
    - exists None, log. split; [reflexivity |].
      intros cm l k Hmv. destruct (mcmd_present s S cm l k R Hmv) as [ct' [cid [row' [to [Ect' _]]]]]. rewrite Ect in Ect'. discriminate.
  Qed.

  (** *** the walk over the complete words *)
  Theorem walk_words : forall ws s S log, rel s S -> ambiguous_run en S ws = false ->
    exists log',
      match run en S ws with
      | [] => walk Repaired a benv s ws log = Ok (None, log')
      | _ :: _ => exists t, walk Repaired a benv s ws log = Ok (Some t, log') /\ rel t (run en S ws)
      end.
  Proof.
    induction ws as [| w rest IH]; intros s S log R Hamb.
    - exists log. cbn [run fold_left walk]. destruct S as [| k0 S0] eqn:ES; [exfalso; apply (rel_nonempty s [] R); reflexivity |].
      exists s. split; [reflexivity | exact R].
    - cbn [ambiguous_run] in Hamb. apply orb_false_iff in Hamb. destruct Hamb as [Hamb1 Hamb2].
      change (run en S (w :: rest)) with (run en (step en S w) rest).
      cbn [walk]. fold (lit_lookup T s w). pose proof (walk_lit s S w R Hamb1) as Hlit.
      destruct (lit_lookup T s w) as [to |].
      + destruct Hlit as [R1 _]. apply (IH to _ log R1 Hamb2).
      + destruct (walk_sub s S w log R Hlit Hamb1) as [r [log0 [Hr Hsw]]].
        match goal with |- context [obind ?X _] => assert (ES : X = Ok (r, log0)) by exact Hr; rewrite ES end. cbn [obind].
        destruct r as [to |].
        * destruct Hsw as [R1 _]. apply (IH to _ log0 R1 Hamb2).
        * destruct (cmd_part s S w (match rest with [] => true | _ => false end) log0 R) as [r2 [log1 [Hc Hcmd]]].
          match goal with |- context [obind ?X _] =>
            assert (EE : X = Ok (match r2 with Some to => WNext to | None => WNone end, log1)) by exact Hc; rewrite EE
          end. cbn [obind]. destruct r2 as [to |].
          -- destruct Hcmd as [cm [l [k [Hmv [Hacc Htr]]]]].
             destruct (rel_step_chosen s S w (LCmd cm l) k _ to R Hamb1 Hmv (conj Hacc Hlit)
                         (proj2 (lrel_plain c (LCmd cm l) _ eq_refl) eq_refl) Htr) as [R1 _].
             apply (IH to _ log1 R1 Hamb2).
          -- assert (Hnm : ~ mid_expected en (moves S) w).
             { intros [a0 [k [Hin Hacc]]]. destruct a0 as [t0 d0 l0 | cm l0 | | x0 l0].
               - cbn in Hacc. discriminate.
               - rewrite (Hcmd cm l0 k Hin) in Hacc. discriminate.
               - cbn in Hacc. discriminate.
               - cbn [mid_accepts] in Hacc. rewrite (Hsw x0 l0 k Hin) in Hacc. discriminate. }
             pose proof (mstar_lookup s S R) as Hst.
             destruct (match t_mstar T with Some stars => assocN s stars | None => None end) as [to |].
             ++ destruct (trans_item_plain s S _ to R Hst) as [a1 [k [Hmv [Ha Hp]]]]; [intros k1 l1; discriminate |].
                destruct a1; cbn in Ha, Hp; try discriminate.
                destruct (rel_step_chosen s S w LAny k _ to R Hamb1 Hmv (conj Hlit Hnm)
                            (proj2 (lrel_plain c LAny _ eq_refl) eq_refl) Hst) as [R1 _].
                apply (IH to _ log1 R1 Hamb2).
             ++ exists log1. assert (E : step en S w = []).
                { apply step_nil_intro. intros k Hk. apply step_spec in Hk. destruct Hk as [a0 [Hin Hch]].
                  destruct a0 as [t0 d0 l0 | cm l0 | | x0 l0]; cbn [chosen] in Hch.
                  - apply Hlit. subst t0. exists d0, l0, k. exact Hin.
                  - destruct Hch as [Hacc _]. rewrite (Hcmd cm l0 k Hin) in Hacc. discriminate.
                  - apply (Hst k Hin).
                  - destruct Hch as [Hacc _]. cbn [mid_accepts] in Hacc. rewrite (Hsw x0 l0 k Hin) in Hacc. discriminate. }
                rewrite E, run_nil. reflexivity.
  Qed.

  (** *** completion *)
  Definition lit_offered (s : N) (L : nat) : list string :=
    filter (String.prefix p) (map (fun id => append (literal_at T id) " ") (level_row (t_clit T) L s)).

  Lemma lit_offered_spec s S L o : rel s S ->
    (In o (lit_offered s L) <-> exists t d0 k, In (LLit t d0 (N.of_nat L), k) (moves S) /\ o = append t " " /\ String.prefix p o = true).
  Proof.
    intro R. unfold lit_offered. rewrite filter_In, in_map_iff. split.
    - intros [[id [<- Hid]] Hp]. rewrite <- (Nat2N.id L) in Hid.
      apply (level_row_lit d (a_commands a) _ _ _ om T Hwf Hord Hglt') in Hid. destruct Hid as [text [dso [to [Htr Hl]]]].
      rewrite (literal_at_lit d (a_commands a) _ _ _ om T Hglt' id text _ Hl) in *.
      destruct (trans_lit_item s S text dso _ to R Htr) as [k Hin]. exists text, dso, k. split; [exact Hin | split; [reflexivity | exact Hp]].
    - intros [t [d0 [k [Hin [-> Hp]]]]]. destruct (item_lit_trans s S t d0 _ k R Hin) as [to Htr].
      pose proof Htr as [i [_ Hn]]. destruct (valid_order_covers d om 0 i t d0 _ Hvalid Hn) as [id Hl].
      split; [| exact Hp]. exists id. split; [rewrite (literal_at_lit d (a_commands a) _ _ _ om T Hglt' id t _ Hl); reflexivity |].
      rewrite <- (Nat2N.id L). apply (level_row_lit d (a_commands a) _ _ _ om T Hwf Hord Hglt'). eauto.
  Qed.

  Lemma csub_keys : Forall (fun lv : list (N * list N) => NoDup (map fst lv)) (a_csub a).
  Proof. destruct (all_tables_inv _ _ _ _ _ _ Hall) as [rt F]. eapply completion_table_keys. apply (af_csub _ _ _ _ _ _ _ F). Qed.

  Lemma csub_row s L sid :
    In sid (level_row (a_csub a) L s) <->
    exists rt pi to, rtrans d = Ok rt /\ trans_on d s (ISub pi (N.of_nat L)) to /\ assocN pi (get_subwords rt 0) = Some sid.
  Proof.
    rewrite <- (csub_exact Bash c om os nd a Hwf Hall (N.of_nat L) s sid).
    rewrite (mem3_level_row (a_csub a) (N.of_nat L) s sid csub_keys). rewrite Nat2N.id. unfold level_row. reflexivity.
  Qed.

  Lemma sub_adds s S L matches log : rel s S ->
    exists adds log1, top_subs_level Repaired a benv (level_row (a_csub a) L s) p matches log = Ok (matches ++ adds, log1)
      /\ forall o, In o adds <-> exists x0 k0, In (LSub x0 (N.of_nat L), k0) (moves S) /\ In o (wproper en x0 p).
  Proof.
    intro R.
    (* what the function with script id [sid] offers: the continuations of some leaf it stands for *)
    set (P := fun (sid : N) (o : string) =>
                exists pi to x0 k0 rt, rtrans d = Ok rt /\ assocN pi (get_subwords rt 0) = Some sid
                  /\ trans_on d s (ISub pi (N.of_nat L)) to /\ In (LSub x0 (N.of_nat L), k0) (moves S)
                  /\ lrel c (LSub x0 (N.of_nat L)) (ISub pi (N.of_nat L)) /\ In o (wproper en x0 p)).
    assert (Hsid : forall sid, In sid (level_row (a_csub a) L s) ->
               exists Tw reply, subword_tables (a_subwords a) sid = Some Tw
                 /\ (forall log', exists log'', subword_complete Repaired a benv Tw p log' = Ok (reply, log''))
                 /\ forall o, In o reply <-> P sid o).
    { intros sid Hin. apply csub_row in Hin. destruct Hin as [rt [pi [to [Hrt [Htr Hid]]]]].
      destruct (trans_sub_item s S pi _ to R Htr) as [x0 [k0 [Hmv Hl]]].
      destruct (sub_match s S pi _ to x0 k0 R Htr Hmv Hl) as [id [Tw [_ [HT [_ [Hids [_ [reply [Hc Hspec]]]]]]]]].
      pose proof Hid as Hid0. rewrite (Hids rt Hrt) in Hid. inversion Hid; subst id.
      exists Tw, reply. split; [exact HT | split; [exact Hc |]]. intro o. split.
      - intro Ho. exists pi, to, x0, k0, rt. split; [exact Hrt | split; [exact Hid0 | split; [exact Htr | split; [exact Hmv | split; [exact Hl | apply Hspec; exact Ho]]]]].
      - intros [pi' [to' [x1 [k1 [rt' [Hrt' [Hid' [Htr' [Hmv' [Hl' Ho]]]]]]]]]].
        rewrite Hrt in Hrt'. inversion Hrt'; subst rt'.
        destruct (sub_match s S pi' _ to' x1 k1 R Htr' Hmv' Hl') as [id' [Tw' [_ [HT' [_ [Hids' [_ [reply' [Hc' Hspec']]]]]]]]].
        rewrite (Hids' rt Hrt) in Hid'. inversion Hid'; subst id'. rewrite HT in HT'. inversion HT'; subst Tw'.
        destruct (Hc []) as [l1 E1]. destruct (Hc' []) as [l2 E2]. rewrite E2 in E1. inversion E1; subst reply'.
        apply Hspec'. exact Ho. }
    destruct (top_subs_level_spec2 a benv p P (level_row (a_csub a) L s) matches log Hsid) as [adds [log1 [Hr Hspec]]].
    exists adds, log1. split; [exact Hr |]. intro o. rewrite Hspec. split.
    - intros [sid [_ [pi [to [x0 [k0 [rt [_ [_ [_ [Hmv [_ Ho]]]]]]]]]]]]. exists x0, k0. split; assumption.
    - intros [x0 [k0 [Hmv Ho]]].
      destruct (item_sub_trans s S x0 _ k0 R Hmv) as [pi [t [Hl Htr]]].
      destruct (sub_match s S pi _ t x0 k0 R Htr Hmv Hl) as [id [Tw [_ [HT [_ [Hids _]]]]]].
      destruct (all_tables_inv _ _ _ _ _ _ Hall) as [rt F]. pose proof (af_rt _ _ _ _ _ _ _ F) as Hrt.
      exists id. split.
      + apply csub_row. exists rt, pi, t. split; [exact Hrt | split; [exact Htr | apply (Hids rt Hrt)]].
      + exists pi, t, x0, k0, rt. split; [exact Hrt | split; [apply (Hids rt Hrt) | split; [exact Htr | split; [exact Hmv | split; [exact Hl | exact Ho]]]]].
  Qed.

  Lemma match_or_nil l : (match l with [] => Ok [] | _ => match_fn benv p l end) = Ok (filter (String.prefix p) l).
  Proof. destruct l as [| x l]; [reflexivity |]. apply (match_fn_prefix_filter benv p _ Hic Hpr). Qed.

  Lemma level_cands_spec S l o :
    In (l, o) (state_cands en S p) <->
    (exists t d0 k, In (LLit t d0 l, k) (moves S) /\ o = append t " " /\ String.prefix p o = true)
    \/ (exists x0 k0, In (LSub x0 l, k0) (moves S) /\ In o (wproper en x0 p))
    \/ (exists cm k0, In (LCmd cm l, k0) (moves S) /\ In o (filter (String.prefix p) (candidates en cm))).
  Proof.
    unfold state_cands. rewrite in_flat_map. split.
    - intros [[a0 k] [Hin H]]. cbn [fst] in H. destruct a0 as [t0 d0 l0 | cm l0 | | x0 l0]; cbn [item_cands] in H.
      + destruct (String.prefix p (append t0 " ")) eqn:Ep; [| destruct H]. destruct H as [E | []]. inversion E; subst.
        left. exists t0, d0, k. split; [exact Hin | split; [reflexivity | exact Ep]].
      + apply in_map_iff in H. destruct H as [o' [E Ho]]. inversion E; subst. right; right. exists cm, k. split; assumption.
      + destruct H.
      + apply in_map_iff in H. destruct H as [o' [E Ho]]. inversion E; subst. right; left. exists x0, k. split; assumption.
    - intros [[t [d0 [k [Hin [-> Hp]]]]] | [[x0 [k0 [Hin Ho]]] | [cm [k0 [Hin Ho]]]]].
      + exists (LLit t d0 l, k). split; [exact Hin |]. cbn [fst item_cands]. rewrite Hp. left; reflexivity.
      + exists (LSub x0 l, k0). split; [exact Hin |]. cbn [fst item_cands]. apply in_map_iff. exists o. split; [reflexivity | exact Ho].
      + exists (LCmd cm l, k0). split; [exact Hin |]. cbn [fst item_cands]. apply in_map_iff. exists o. split; [reflexivity | exact Ho].
  Qed.

  Lemma ccmd_facts : forall cc, t_ccmd T = Some cc ->
    Forall (fun lv => NoDup (map fst lv)) cc /\ List.length cc = (N.to_nat (t_maxlevel T) + 1)%nat.
  Proof.
    intros cc Hcc. destruct (glt_inv _ _ _ _ _ _ _ _ Hglt') as [rt F].
    destruct (gf_ccmd _ _ _ _ _ _ _ _ _ F) as [[_ [m [Hm Em]]] | [_ Em]]; rewrite Em in Hcc; [| discriminate].
    inversion Hcc; subst m. split; [eapply completion_table_keys; exact Hm |].
    apply (completion_table_spec _ _ _ _ _ insertN_in Hm).
  Qed.

  Lemma level_row_mem3 (Lv : list (list (N * list N))) j s id : In id (level_row Lv j s) -> mem3 Lv (N.of_nat j) s id.
  Proof.
    unfold level_row, mem3, mem2. rewrite Nat2N.id. intro H.
    destruct (nth_error Lv j) as [rows |]; [| destruct H]. exists rows. split; [reflexivity |].
    destruct (assocN s rows) as [ids |] eqn:Ea; [| destruct H]. exists ids. split; [apply assocN_in; exact Ea | exact H].
  Qed.

  Lemma ccmd_present s S cm l k : rel s S -> In (LCmd cm l, k) (moves S) ->
    exists cc cid, t_ccmd T = Some cc /\ Tables.index_of cm (a_commands a) = Some cid /\ In cid (level_row cc (N.to_nat l) s).
  Proof.
    intros R Hin. destruct (mcmd_present s S cm l k R Hin) as [ct [cid [row [to [Ect [Hid _]]]]]].
    destruct (item_trans_plain s S _ k R Hin eq_refl) as [t Htr]. cbn [inp_of_leaf] in Htr.
    destruct (glt_inv _ _ _ _ _ _ _ _ Hglt') as [rt F].
    destruct (gf_mcmd _ _ _ _ _ _ _ _ _ F) as [[Hnc _] | [_ Em]]; [| rewrite Em in Ect; discriminate].
    destruct (gf_ccmd _ _ _ _ _ _ _ _ _ F) as [[_ [cc [Hm Ecc]]] | [Hf _]]; [| rewrite Hnc in Hf; discriminate].
    exists cc, cid. split; [exact Ecc | split; [exact Hid |]].
    destruct (ccmd_facts cc Ecc) as [K _].
    unfold level_row. apply (mem3_level_row cc l s cid K).
    apply (ccmd_exact d (a_commands a) 0 _ _ _ om T Hwf Hglt' cc l s cid Ecc). eauto.
  Qed.

  Definition cmd_off (s : N) (L : nat) : list string :=
    match t_ccmd T with Some cc => cmd_offered benv p (level_row cc L s) | None => [] end.

  Lemma cmd_off_spec s S L o : rel s S ->
    (In o (cmd_off s L) <-> exists cm k0, In (LCmd cm (N.of_nat L), k0) (moves S) /\ In o (filter (String.prefix p) (candidates en cm))).
  Proof.
    intro R. unfold cmd_off. split.
    - destruct (t_ccmd T) as [cc |] eqn:Ecc; [| intros []]. intro H.
      unfold cmd_offered in H. apply in_flat_map in H. destruct H as [cid [Hcid H]].
      apply level_row_mem3 in Hcid.
      apply (ccmd_exact d (a_commands a) 0 _ _ _ om T Hwf Hglt' cc _ s cid Ecc) in Hcid.
      destruct Hcid as [cm [to [Htr Hid]]].
      destruct (trans_item_plain s S _ to R Htr) as [a1 [k' [Hmv [Ha Hpl]]]]; [intros k1 l1; discriminate |].
      destruct a1; cbn in Ha, Hpl; try discriminate. inversion Ha; subst.
      exists cm, k'. split; [exact Hmv |]. rewrite <- (Henv cm cid Hid). exact H.
    - intros [cm [k0 [Hmv Ho]]].
      destruct (ccmd_present s S cm _ k0 R Hmv) as [cc [cid [Ecc [Hid Hrow]]]]. rewrite Ecc. rewrite Nat2N.id in Hrow.
      unfold cmd_offered. apply in_flat_map. exists cid. split; [exact Hrow |]. rewrite (Henv cm cid Hid). exact Ho.
  Qed.

  Lemma cmd_level s S L cands matches log : rel s S ->
    exists cands' log',
      (match t_ccmd T with
       | Some cc => top_cmds_level Repaired a benv (level_row cc L s) p cands matches log
       | None => Ok (cands, matches, log)
       end) = Ok (cands', matches ++ cmd_off s L, log').
  Proof.
    intro R. unfold cmd_off. destruct (t_ccmd T) as [cc |] eqn:Ecc.
    - assert (Hc : forall cid, In cid (level_row cc L s) -> nthN (a_commands a) cid <> None).
      { intros cid Hcid. apply level_row_mem3 in Hcid.
        apply (ccmd_exact d (a_commands a) 0 _ _ _ om T Hwf Hglt' cc _ s cid Ecc) in Hcid.
        destruct Hcid as [cm [to [_ Hid]]]. rewrite (index_of_nth _ _ _ Hid). discriminate. }
      destruct (spec_cmds_level_spec a benv p (level_row cc L s) matches log Hc) as [log' E].
      destruct (top_cmds_level_spec Repaired a benv Hcands Hic p Hpr _ cands _ _ _ _ E) as [cands' [Et _]].
      exists cands', log'. exact Et.
    - exists cands, log. rewrite app_nil_r. reflexivity.
  Qed.

  Lemma top_levels_spec s S : rel s S -> forall n L cands log,
    exists reply log', top_levels n L Repaired a benv s p cands [] log = Ok (reply, log')
      /\ ((exists j m, (L <= j < L + n)%nat /\ m <> [] /\ (forall o, In o m <-> In (N.of_nat j, o) (state_cands en S p))
                        /\ (forall i o, (L <= i < j)%nat -> ~ In (N.of_nat i, o) (state_cands en S p))
                        /\ reply = map (Meaning.strip (Meaning.e_wordbreaks en) p) m)
          \/ ((forall i o, (L <= i < L + n)%nat -> ~ In (N.of_nat i, o) (state_cands en S p)) /\ reply = [])).
  Proof.
    intro R. induction n as [| n IH]; intros L cands log.
    - exists [], log. split; [reflexivity |]. right. split; [intros i o Hi; lia | reflexivity].
    - cbn [top_levels quirky]. cbn [List.app]. rewrite match_or_nil. cbn [obind]. fold (lit_offered s L).
      destruct (sub_adds s S L (lit_offered s L) log R) as [adds [log0 [Hr Hadds]]]. rewrite Hr. cbn [obind].
      destruct (cmd_level s S L (map (fun id => append (literal_at T id) " ") (level_row (t_clit T) L s))
                          (lit_offered s L ++ adds) log0 R) as [cands' [log' Hc]].
      match goal with |- context [obind ?X _] =>
        assert (EE : X = Ok (cands', (lit_offered s L ++ adds) ++ cmd_off s L, log')) by exact Hc; rewrite EE
      end. cbn [obind].
      set (m3 := (lit_offered s L ++ adds) ++ cmd_off s L).
      assert (Hspec : forall o, In o m3 <-> In (N.of_nat L, o) (state_cands en S p)).
      { intro o. unfold m3. rewrite !in_app_iff, (lit_offered_spec s S L o R), Hadds, (cmd_off_spec s S L o R), level_cands_spec.
        split; [intros [[H | H] | H]; [left; exact H | right; left; exact H | right; right; exact H]
               | intros [H | [H | H]]; [left; left; exact H | left; right; exact H | right; exact H]]. }
      destruct m3 as [| o0 m3'] eqn:Em.
      + destruct (IH (Datatypes.S L) cands' log') as [reply [log2 [Hrep Hcase]]].
        exists reply, log2. split; [exact Hrep |]. destruct Hcase as [[j [m [Hj [Hm [Hin [Hfirst Hreply]]]]]] | [Hnone Hreply]].
        * left. exists j, m. split; [lia | split; [exact Hm | split; [exact Hin | split; [| exact Hreply]]]].
          intros i o Hi Hc'. destruct (Nat.eq_dec i L) as [-> | Ne]; [apply Hspec in Hc'; destruct Hc' | apply (Hfirst i o); [lia | exact Hc']].
        * right. split; [| exact Hreply]. intros i o Hi Hc'.
          destruct (Nat.eq_dec i L) as [-> | Ne]; [apply Hspec in Hc'; destruct Hc' | apply (Hnone i o); [lia | exact Hc']].
      + rewrite <- Em in *.
        assert (Hpre : forall m, In m m3 -> String.prefix p m = true).
        { intros m Hm. apply Hspec in Hm. apply (state_cands_prefix en S p _ m Hm). }
        rewrite (Hstrip m3 Hpre). cbn [obind]. eexists _, log'. split; [reflexivity |].
        left. exists L, m3. split; [lia | split; [rewrite Em; discriminate | split; [exact Hspec | split; [intros i o Hi; lia | reflexivity]]]].
  Qed.

  Lemma cand_level_range s S l o : rel s S -> In (l, o) (state_cands en S p) -> (N.to_nat l < Datatypes.S (N.to_nat (t_maxlevel T)))%nat.
  Proof.
    intros R Hin. apply level_cands_spec in Hin. destruct Hin as [[t [d0 [k [Hmv _]]]] | [[x0 [k0 [Hmv _]]] | [cm [k0 [Hmv _]]]]].
    - destruct (item_lit_trans s S t d0 l k R Hmv) as [to Htr].
      apply (level_in_range d (a_commands a) _ _ _ om T Hwf Hord Hglt' l s t d0 to Hvalid Htr).
    - destruct (item_sub_trans s S x0 l k0 R Hmv) as [pi [t [Hl Htr]]].
      destruct (sub_match s S pi l t x0 k0 R Htr Hmv Hl) as [id [Tw [_ [_ [_ [Hids _]]]]]].
      destruct (all_tables_inv _ _ _ _ _ _ Hall) as [rt F]. pose proof (af_rt _ _ _ _ _ _ _ F) as Hrt.
      assert (M : mem3 (a_csub a) l s id).
      { apply (csub_exact Bash c om os nd a Hwf Hall l s id). exists rt, pi, t. split; [exact Hrt | split; [exact Htr | apply (Hids rt Hrt)]]. }
      destruct M as [row [Hrow _]].
      destruct (completion_table_spec _ _ _ _ _ push_in (af_csub _ _ _ _ _ _ _ F)) as [Hlen _].
      assert (N.to_nat l < List.length (a_csub a))%nat by (apply nth_error_Some; rewrite Hrow; discriminate). lia.
    - destruct (ccmd_present s S cm l k0 R Hmv) as [cc [cid [Ecc [_ Hrow]]]].
      destruct (ccmd_facts cc Ecc) as [_ Hlen].
      unfold level_row in Hrow. destruct (nth_error cc (N.to_nat l)) as [rows |] eqn:En; [| destruct Hrow].
      assert (N.to_nat l < List.length cc)%nat by (apply nth_error_Some; rewrite En; discriminate). lia.
  Qed.

  Theorem levels_lowest_mix s S log : rel s S ->
    exists reply log', top_levels (Datatypes.S (N.to_nat (t_maxlevel T))) 0 Repaired a benv s p [] [] log = Ok (reply, log')
      /\ forall x, In x reply <-> In x (map (Meaning.strip (Meaning.e_wordbreaks en) p) (lowest (state_cands en S p))).
  Proof.
    intro R. destruct (top_levels_spec s S R (Datatypes.S (N.to_nat (t_maxlevel T))) 0%nat [] log) as [reply [log' [Hr Hcase]]].
    exists reply, log'. split; [exact Hr |]. intro x.
    destruct Hcase as [[j [m [Hj [Hm [Hin [Hfirst ->]]]]]] | [Hnone ->]].
    - rewrite !in_map_iff. split; intros [o [Eo Ho]]; exists o; (split; [exact Eo |]).
      + apply lowest_spec. exists (N.of_nat j). split; [apply Hin; exact Ho |].
        intros l' c' Hc'. destruct (N.lt_ge_cases l' (N.of_nat j)) as [Hlt | Hge]; [exfalso | exact Hge].
        apply (Hfirst (N.to_nat l') c'); [lia | rewrite N2Nat.id; exact Hc'].
      + apply lowest_spec in Ho. destruct Ho as [l [Hc Hmin]].
        destruct m as [| o0 m']; [contradiction |].
        assert (H0 : In (N.of_nat j, o0) (state_cands en S p)) by (apply Hin; left; reflexivity).
        pose proof (Hmin _ _ H0) as Hle.
        destruct (N.eq_dec l (N.of_nat j)) as [-> | Ne]; [apply Hin; exact Hc | exfalso].
        apply (Hfirst (N.to_nat l) o); [lia | rewrite N2Nat.id; exact Hc].
    - split; [intros [] |]. intro H. apply in_map_iff in H. destruct H as [o [_ Ho]].
      apply lowest_spec in Ho. destruct Ho as [l [Hc _]].
      pose proof (cand_level_range s S l o R Hc) as Hrange.
      apply (Hnone (N.to_nat l) o); [lia | rewrite N2Nat.id; exact Hc].
  Qed.

  (** *** the whole run *)
  Theorem run_meaning_all ws :
    ambiguous_run en (start e) ws = false ->
    match complete e en ws p with
    | None => exists log, run_from Repaired (d_start d) a benv ws p = Ok (mkresult 1 [] log)
    | Some (req, al) =>
        exists reply log, run_from Repaired (d_start d) a benv ws p = Ok (mkresult 0 reply log)
                          /\ (forall x, In x reply <-> In x req) /\ incl req al
    end.
  Proof.
    intros Hamb. destruct (walk_words ws (d_start d) (start e) [] rel_start Hamb) as [log1 Hw].
    unfold complete, run_from. destruct (run en (start e) ws) as [| k0 r0] eqn:Erun.
    - rewrite Hw. cbn [obind]. eexists. reflexivity.
    - destruct Hw as [t [Hwalk R]]. rewrite Hwalk. cbn [obind].
      destruct (levels_lowest_mix t _ log1 R) as [reply [log2 [Hr Hspec]]]. rewrite Hr. cbn [obind].
      exists reply. eexists. split; [reflexivity | split; [exact Hspec |]].
      intros x Hx. apply in_map_iff in Hx. destruct Hx as [o [Eo Ho]]. apply in_map_iff. exists o. split; [exact Eo | apply in_or_app; left; exact Ho].
  Qed.
End All.
