(** The words of a validated tree and the pool of [from_expr]: every word is interned, its
    regex is accepted by [check_tail_only] iff the placeholder predicate holds of the word, and
    every within-word input of the main regex comes from a word. *)
From CG Require Import Base.Prelude Model.Ast Model.Regex Spec.Mistakes.
From CG Require Import Proofs.RxLang Proofs.Glushkov Proofs.Useful Proofs.FromExpr Proofs.TreeFacts.
From CG Require Import Proofs.RegexFuel Proofs.RegexNoPanic Proofs.TailOnlySpec Proofs.C02Lang Proofs.WfTrim.
From CG Require Import Proofs.PhFollow Proofs.PhExpr Proofs.PhWalk.

Definition is_sub (i : rinput) : Prop := match i with RSub _ _ _ => True | _ => False end.

(** input [i] stands for the word [c] *)
Definition W (P : pool) (c : expr) (i : rinput) : Prop :=
  exists rid l sp x, i = RSub rid l sp /\ nthN P rid = Some x /\
                     (check_tail_only x = Ok tt <-> ph_last isref c = true) /\
                     (forall e, check_tail_only x = Err e -> ph_last isref c = false).

Definition cover (ws : list expr) (t : rx) (I : list rinput) (P : pool) : Prop :=
  (forall c, In c ws -> exists p i, In p (positions t) /\ nthN I p = Some i /\ W P c i) /\
  (forall p i, In p (positions t) -> nthN I p = Some i -> is_sub i -> exists c, In c ws /\ W P c i).

Definition PG (e : expr) : Prop :=
  forall s pl id t s' pl',
    do_from_expr e s pl = Ok (id, t, s', pl') -> flat_subwords e = true ->
    (forall c, In c (words_of e) -> ops_nonempty c = true) ->
    prefix (b_inputs s) (b_inputs s') /\ prefix pl pl' /\
    forall I P, prefix (b_inputs s') I -> prefix pl' P -> cover (words_of e) t I P.

Lemma leaf_PG x k e :
  (forall s pl, do_from_expr e s pl =
                Ok (lenN (b_nodes s), XPos k (lenN (b_inputs s)),
                    mkbst (b_nodes s ++ [match k with KTerm => NTerm (lenN (b_inputs s)) | KNonterm => NNonterm (lenN (b_inputs s))
                                                   | KCmd => NCmd (lenN (b_inputs s)) | KSub => NSub (lenN (b_inputs s))
                                                   | KEnd => NEnd (lenN (b_inputs s)) end])
                          (b_inputs s ++ [x]), pl)) ->
  ~ is_sub x -> words_of e = [] -> PG e.
Proof.
  intros Hd Hx Hw s pl id t s' pl' E _ _. rewrite Hd in E. inversion E; subst. cbn [b_inputs].
  split; [apply prefix_snoc|]. split; [apply prefix_refl|]. intros I P HI _. rewrite Hw. split.
  - intros c [].
  - intros p i [<-|[]] Hn Hs. rewrite (nthN_prefix_mid _ _ _ HI) in Hn. inversion Hn; subst. contradiction.
Qed.

Lemma children_PG cs : Forall PG cs ->
  forall s pl ids ts s' pl',
    do_children do_from_expr cs s pl = Ok (ids, ts, s', pl') ->
    forallb flat_subwords cs = true ->
    (forall c, In c (flat_map words_of cs) -> ops_nonempty c = true) ->
    prefix (b_inputs s) (b_inputs s') /\ prefix pl pl' /\
    forall I P, prefix (b_inputs s') I -> prefix pl' P ->
      cover (flat_map words_of cs) (XCat ts) I P.
Proof.
  intros HF. induction HF as [|c cs Hc HF IH]; intros s pl ids ts s' pl' E Hf Ho.
  - simpl in E. inversion E; subst. split; [apply prefix_refl|]. split; [apply prefix_refl|].
    intros I P _ _. split; [intros c []|intros p i []].
  - simpl in E.
    destruct (do_from_expr c s pl) as [[[[id t] s1] pl1]| | |] eqn:E1; simpl in E; try discriminate.
    destruct (do_children do_from_expr cs s1 pl1) as [[[[ids2 ts2] s2] pl2]| | |] eqn:E2;
      simpl in E; try discriminate.
    inversion E; subst. cbn [forallb] in Hf. apply andb_true_iff in Hf. destruct Hf as [Hf1 Hf2].
    cbn [flat_map] in Ho.
    assert (Ho1 : forall w, In w (words_of c) -> ops_nonempty w = true)
      by (intros w Hw; apply Ho; apply in_or_app; left; exact Hw).
    assert (Ho2 : forall w, In w (flat_map words_of cs) -> ops_nonempty w = true)
      by (intros w Hw; apply Ho; apply in_or_app; right; exact Hw).
    destruct (Hc _ _ _ _ _ _ E1 Hf1 Ho1) as (Pi1 & Pp1 & L1).
    destruct (IH _ _ _ _ _ _ E2 Hf2 Ho2) as (Pi2 & Pp2 & L2).
    split; [eapply prefix_trans; eauto|]. split; [eapply prefix_trans; eauto|].
    intros I P HI HP.
    destruct (L1 I P (prefix_trans _ _ _ Pi2 HI) (prefix_trans _ _ _ Pp2 HP)) as [A1 B1].
    destruct (L2 I P HI HP) as [A2 B2]. cbn [flat_map]. split.
    + intros w Hw. apply in_app_iff in Hw. destruct Hw as [Hw|Hw].
      * destruct (A1 w Hw) as (p & i & Hp & Hn & HW). exists p, i. split; [|auto].
        cbn [positions flat_map]. apply in_or_app. left. exact Hp.
      * destruct (A2 w Hw) as (p & i & Hp & Hn & HW). exists p, i. split; [|auto].
        cbn [positions flat_map]. apply in_or_app. right. exact Hp.
    + intros p i Hp Hn Hs. cbn [positions flat_map] in Hp. apply in_app_iff in Hp. destruct Hp as [Hp|Hp].
      * destruct (B1 p i Hp Hn Hs) as (w & Hw & HW). exists w. split; [apply in_or_app; left; exact Hw|exact HW].
      * destruct (B2 p i Hp Hn Hs) as (w & Hw & HW). exists w. split; [apply in_or_app; right; exact Hw|exact HW].
Qed.

Lemma cover_same ws t t' I P : (forall p, In p (positions t') <-> In p (positions t)) -> cover ws t I P -> cover ws t' I P.
Proof.
  intros H [A B]. split.
  - intros c Hc. destruct (A c Hc) as (p & i & Hp & R). exists p, i. split; [apply H; exact Hp|exact R].
  - intros p i Hp. apply B. apply H. exact Hp.
Qed.

Theorem do_from_expr_PG : forall e, PG e.
Proof.
  induction e using expr_ind'.
  - eapply (leaf_PG (RLit t d l sp) KTerm); [intros; reflexivity|intros []|reflexivity].
  - eapply (leaf_PG (RNonterm n l sp) KNonterm); [intros; reflexivity|intros []|reflexivity].
  - eapply (leaf_PG (RCmd c z l sp) KCmd); [intros; reflexivity|intros []|reflexivity].
  - intros s pl id t s' pl' E Hf Ho. cbn [do_from_expr] in E. cbn [flat_subwords words_of] in Hf, Ho.
    destruct (do_children do_from_expr cs s pl) as [[[[ids ts] s1] pl1]| | |] eqn:E1; cbn [obind] in E; try discriminate.
    unfold Regex.alloc in E. inversion E; subst. cbn [b_inputs].
    exact (children_PG cs H _ _ _ _ _ _ E1 Hf Ho).
  - intros s pl id t s' pl' E Hf Ho. cbn [do_from_expr] in E. cbn [flat_subwords words_of] in Hf, Ho.
    destruct (do_children do_from_expr cs s pl) as [[[[ids ts] s1] pl1]| | |] eqn:E1; cbn [obind] in E; try discriminate.
    unfold Regex.alloc in E. inversion E; subst. cbn [b_inputs].
    destruct (children_PG cs H _ _ _ _ _ _ E1 Hf Ho) as (Pi & Pp & L). split; [exact Pi|]. split; [exact Pp|].
    intros I P HI HP. eapply cover_same; [|apply (L I P HI HP)]. intro p. reflexivity.
  - intros s pl id t s' pl' E Hf Ho. cbn [do_from_expr] in E. cbn [flat_subwords words_of] in Hf, Ho.
    destruct (do_from_expr e s pl) as [[[[cid ct] s1] pl1]| | |] eqn:E1; cbn [obind] in E; try discriminate.
    unfold Regex.alloc in E. inversion E; subst. cbn [b_inputs].
    destruct (IHe _ _ _ _ _ _ E1 Hf Ho) as (Pi & Pp & L). split; [exact Pi|]. split; [exact Pp|].
    intros I P HI HP. eapply cover_same; [|apply (L I P HI HP)]. intro p. cbn [positions flat_map].
    rewrite app_nil_r. reflexivity.
  - intros s pl id t s' pl' E Hf Ho. cbn [do_from_expr] in E. cbn [flat_subwords words_of] in Hf, Ho.
    destruct (do_from_expr e s pl) as [[[[cid ct] s1] pl1]| | |] eqn:E1; cbn [obind] in E; try discriminate.
    unfold Regex.alloc in E. inversion E; subst. cbn [b_inputs].
    destruct (IHe _ _ _ _ _ _ E1 Hf Ho) as (Pi & Pp & L). split; [exact Pi|]. split; [exact Pp|].
    intros I P HI HP. eapply cover_same; [|apply (L I P HI HP)]. intro p. cbn [positions flat_map].
    rewrite app_nil_r, in_app_iff. tauto.
  - intros s pl id t s' pl' E. discriminate.
  - intros s pl id t s' pl' E Hf Ho. cbn [do_from_expr] in E. cbn [flat_subwords words_of] in Hf, Ho.
    destruct (do_children do_from_expr cs s pl) as [[[[ids ts] s1] pl1]| | |] eqn:E1; cbn [obind] in E; try discriminate.
    unfold Regex.alloc in E. inversion E; subst. cbn [b_inputs].
    destruct (children_PG cs H _ _ _ _ _ _ E1 Hf Ho) as (Pi & Pp & L). split; [exact Pi|]. split; [exact Pp|].
    intros I P HI HP. eapply cover_same; [|apply (L I P HI HP)]. intro p. reflexivity.
  - (* Subword *)
    clear IHe. intros s pl id t s' pl' E Hf Ho. cbn [do_from_expr] in E. cbn [flat_subwords words_of] in Hf, Ho.
    destruct (do_from_expr e empty_bst pl) as [[[[cid ct] cs] pl1]| | |] eqn:E1; cbn [obind] in E; try discriminate.
    destruct (pool_intern (finish_regex cid ct cs) pl1) as [rid pl2] eqn:Ei.
    unfold push_input, Regex.alloc in E. inversion E; subst. cbn [b_inputs].
    destruct (do_from_expr_pure _ _ _ _ _ _ _ Hf E1) as [-> _].
    destruct (FromExpr.pool_intern_spec _ _ _ _ Ei) as [Hpre Hnth].
    assert (Hoe : ops_nonempty e = true) by (apply Ho; left; reflexivity).
    pose proof (word_regex_verdict e pl cid ct cs pl E1 Hf Hoe) as Hv.
    split; [apply prefix_snoc|]. split; [exact Hpre|]. intros I P HI HP.
    assert (HW : W P e (RSub rid l sp)).
    { exists rid, l, sp, (finish_regex cid ct cs). split; [reflexivity|]. split; [eapply prefix_nthN; eauto|].
      split; [exact Hv|]. intros e0 He0. destruct (ph_last isref e) eqn:Ep; [|reflexivity].
      assert (Hk : check_tail_only (finish_regex cid ct cs) = Ok tt) by (apply Hv; reflexivity). congruence. }
    split.
    + intros c [<-|[]]. exists (lenN (b_inputs s)), (RSub rid l sp). split; [left; reflexivity|].
      split; [eapply nthN_prefix_mid; eauto|exact HW].
    + intros p i [<-|[]] Hn _. rewrite (nthN_prefix_mid _ _ _ HI) in Hn. inversion Hn; subst.
      exists e. split; [left; reflexivity|exact HW].
Qed.

(** * [from_valid_expr] rejects exactly the trees with a word whose placeholder is not last *)
From CG Require Import Proofs.C02Total.

Theorem from_valid_expr_placeholder e :
  dd_free e = true -> flat_subwords e = true -> alts_nonempty e = true ->
  (forall c, In c (words_of e) -> ops_nonempty c = true) ->
  ((exists a b, from_valid_expr e = Err (UnboundedMatchable a b)) <->
   exists w, In w (words_of e) /\ ph_last isref w = false) /\
  ((exists rp, from_valid_expr e = Ok rp) \/ exists a b, from_valid_expr e = Err (UnboundedMatchable a b)).
Proof.
  intros Hd Hf Ha Ho.
  destruct (from_expr_total e [] Hd) as (r & pl & E).
  pose proof (check_ambiguities_result e r pl Hf E) as Hres.
  destruct (from_expr_good e [] r pl Ha E (Forall_nil _)) as [(t' & Ht' & Sh & Or & Rg & Hend) _].
  pose proof E as E0. unfold from_expr in E0.
  destruct (do_from_expr e empty_bst []) as [[[[id t] s] pl1]| | |] eqn:E1; cbn [obind] in E0; try discriminate.
  inversion E0; subst r pl1. clear E0.
  destruct (finish_regex_fields id t s) as [Hi [He Ht]]. set (r := finish_regex id t s) in *.
  assert (Htt : t' = t).
  { rewrite Ht in Ht'. unfold with_end in Ht'. inversion Ht'. reflexivity. }
  subst t'.
  destruct (do_from_expr_PG e _ _ _ _ _ _ E1 Hf Ho) as (_ & _ & L).
  destruct (L (b_inputs s) pl (prefix_refl _) (prefix_refl _)) as [CA CB]. rewrite <- Hi in CA, CB.
  assert (Hfv : from_valid_expr e = do _ <- check_ambiguities r pl; Ok (r, pl)).
  { unfold from_valid_expr. rewrite E. reflexivity. }
  assert (Hiff : (exists a b, check_ambiguities r pl = Err (UnboundedMatchable a b)) <->
                 exists w, In w (words_of e) /\ ph_last isref w = false).
  { split.
    - intros (a & b & Hc). destruct (check_ambiguities_rejects r pl _ Hc) as (p & Hp & Hne & rid & l & sp & x & Hn & Hx & Hce).
      destruct (reachable_positions r t Ht' p Hp) as [Hpos|Hpe]; [|contradiction].
      destruct (CB p _ Hpos Hn I) as (w & Hw & rid' & l' & sp' & x' & Heq & Hx' & _ & Herr).
      inversion Heq; subst rid' l' sp'. rewrite Hx in Hx'. inversion Hx'; subst x'.
      exists w. split; [exact Hw|]. eapply Herr. exact Hce.
    - intros (w & Hw & Hpl). destruct Hres as [Hok|Herr]; [|exact Herr]. exfalso.
      destruct (CA w Hw) as (p & i & Hpos & Hn & rid & l & sp & x & -> & Hx & Hv & _).
      assert (Hne : p <> r_end r).
      { intro Heq. specialize (Rg p Hpos). lia. }
      pose proof (check_ambiguities_accepts r pl Hok p (positions_reachable r t Ht' Sh Or Rg p Hpos) Hne) as Hs.
      destruct (Hs rid l sp Hn) as (x' & Hx' & Hok'). rewrite Hx in Hx'. inversion Hx'; subst x'.
      apply Hv in Hok'. congruence. }
  split.
  - rewrite <- Hiff, Hfv. split; intros (a & b & H); exists a, b.
    + destruct (check_ambiguities r pl) as [[]|e0| |]; cbn [obind] in H; try discriminate. inversion H. reflexivity.
    + rewrite H. reflexivity.
  - rewrite Hfv. destruct Hres as [Hok|(a & b & Herr)].
    + left. rewrite Hok. eexists. reflexivity.
    + right. exists a, b. rewrite Herr. reflexivity.
Qed.
