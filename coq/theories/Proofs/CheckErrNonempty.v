(** The span lists carried by checker errors are never empty, so [handle_error] prints at least one
    message for every located error ([Proofs/MainRun.v]: exit 1 comes with a diagnostic). *)
From CG Require Import Base.Prelude Model.Ast Model.Check Spec.Choice Spec.Mistakes.
From CG Require Import Proofs.CheckChoice Proofs.CheckMistakes Proofs.CheckLemmas Proofs.CheckWarnings.
From CG Require Import Proofs.CheckCycle Proofs.CheckTotal Proofs.CheckFront Proofs.CheckCycleSpec.
From CG Require Import Proofs.CheckSpans Proofs.CheckProvenance.
Open Scope list_scope.

Definition err_nonempty (e : Check.cerror) : Prop :=
  match e with
  | VaryingCommandNames spans | NonterminalDefinitionsCycle spans => spans <> []
  | _ => True
  end.

Theorem from_grammar_err_nonempty builtins g sh e :
  from_grammar builtins g sh = Err e -> err_nonempty e.
Proof.
  intro H0. pose proof (errors_provenance builtins g sh e H0) as Prov. revert H0.
  rewrite from_grammar_named_eq. unfold from_grammar_named.
  destruct (dedup_names [] (cv_names g)) as [|[command cspan] more] eqn:Hd.
  { intro H. inversion H. exact Logic.I. }
  destruct more as [|m more].
  2:{ intro H. inversion H; subst e. cbn. discriminate. }
  destruct (contains_char slash command).
  { intro H. inversion H; subst e. exact Logic.I. }
  destruct (collect_plain_defs (all_defs g) []) as [defs0|e0| |] eqn:Hc; cbn [obind]; try discriminate.
  2:{ intro H. inversion H; subst e0.
      assert (P : defs_err_prov sh ([] ++ all_defs g) e).
      { apply (collect_plain_defs_prov sh (all_defs g) [] [] e); [intros d []|exact Hc]. }
      destruct e; cbn in P; try contradiction; exact Logic.I. }
  unfold get_specializations.
  destruct (get_user_specs sh (all_defs g) []) as [us|e0| |] eqn:Hus; cbn [obind]; try discriminate.
  2:{ intro H. inversion H; subst e0.
      assert (P : defs_err_prov sh ([] ++ all_defs g) e).
      { apply (get_user_specs_prov sh (all_defs g) [] [] e); [intros n s []|exact Hus]. }
      destruct e; cbn in P; try contradiction; exact Logic.I. }
  destruct (get_fallback_specs (map fst us) (all_defs g) []) as [fs|e0| |] eqn:Hfs; cbn [obind];
    try discriminate.
  2:{ intro H. inversion H; subst e0.
      assert (P : defs_err_prov sh ([] ++ all_defs g) e).
      { apply (get_fallback_specs_prov sh (map fst us) (all_defs g) [] [] e); [intros n c s []|exact Hfs]. }
      destruct e; cbn in P; try contradiction; exact Logic.I. }
  cbn [fst snd]. unfold back_end. cbn zeta.
  destruct (resolution_order _) as [ord|e0| |] eqn:Ho; cbn [obind]; try discriminate.
  2:{ intro H. inversion H; subst e0. apply resolution_order_err_cycle in Ho.
      destruct Ho as [[spans ->] _]. cbn in Prov. destruct Prov as (nsp & rest & -> & _). cbn. discriminate. }
  match goal with |- context [spaces ?t ?f ?x [] false false] =>
    destruct (spaces t f x [] false false) as [[]|e0| |] eqn:Es end; cbn [obind]; try discriminate.
  intro H. inversion H; subst e0. apply spaces_err_kind in Es.
  destruct e; cbn in Es; try contradiction; exact Logic.I.
Qed.

