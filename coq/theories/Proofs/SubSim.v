(** [DfaMeaning.sim] with within-word items.

    A leaf of the specification stands for an input of the compiled automaton ([lrel]) when the
    items they denote are equivalent: a plain leaf for the equal input, a within-word leaf
    [LSub x l] for an input [ISub k l] whose automaton accepts the language of [x].  [rsim s S]:
    whatever the automaton accepts from [s] is denoted by a residual in [S] through [lrel], and
    whatever a residual in [S] denotes is accepted from [s] through [lrel].  It holds initially by
    C02 and [SubBridge.sbridge] ([rsim_start]); a transition preserves it ([rsim_step]) provided the
    inputs a leaf stands for lead, from one state, to one state ([lrel_det]: two within-word
    automata with the same language under the same level are not alternatives at a state). *)
From CG Require Import Base.Prelude Model.Ast Model.Dfa Spec.Lang Spec.Rx Spec.Meaning Spec.DfaEquiv.
From CG Require Import Proofs.RxFacts Proofs.MeaningFacts Proofs.TablesSound Proofs.LangBridge Proofs.DfaMeaning
     Proofs.DomainFacts Proofs.SimGen Proofs.SubBridge.

Section RSim.
  Variable c : cdfa.
  Notation d := (c_main c).
  Hypothesis Hwf : dfa_wf d.
  Hypothesis Hinputs : NoDup (d_inputs d).

  Definition lrel (a : leaf) (x : inp) : Prop := item_equiv (item_of_inp c x) (item_of_leaf' a).

  Lemma lrel_plain a x : plain_leaf a = true -> (lrel a x <-> x = inp_of_leaf a).
  Proof.
    intro Hp. unfold lrel. split.
    - intro H. destruct a; cbn in Hp; try discriminate; cbn [item_of_leaf' item_of_leaf] in H;
        destruct x; cbn [item_of_inp item_equiv] in H; try contradiction; inversion H; subst; reflexivity.
    - intros ->. destruct a; cbn in Hp; try discriminate; cbn; reflexivity.
  Qed.

  Lemma lrel_sub x0 l x :
    lrel (LSub x0 l) x <-> exists k, x = ISub k l /\ forall v, Lang.waccepts (sub_dfa c k) v <-> wlangI x0 v.
  Proof.
    unfold lrel. cbn [item_of_leaf']. split.
    - intro H. destruct x; cbn [item_of_inp item_equiv] in H; try contradiction. destruct H as [-> H]. eauto.
    - intros [k [-> H]]. cbn [item_of_inp item_equiv]. split; [reflexivity | exact H].
  Qed.

  (** the inputs a leaf stands for lead, from one state, to one state *)
  Hypothesis lrel_det : forall s a x x' t t', lrel a x -> lrel a x' -> trans_on d s x t -> trans_on d s x' t' -> t = t'.

  Definition rsim (s : N) (S : state) : Prop :=
    (forall xs, dacc d s xs -> exists k ls, In k S /\ denotes k ls /\ Forall2 lrel ls xs)
    /\ (forall k ls, In k S -> denotes k ls -> exists xs, Forall2 lrel ls xs /\ dacc d s xs).

  Lemma nthN_In {A} (l : list A) i x : nthN l i = Some x -> In x l.
  Proof. unfold nthN. apply nth_error_In. Qed.

  Theorem rsim_step s S i t x S' :
    rsim s S -> Dfa.step d s i = Some t -> nthN (d_inputs d) i = Some x ->
    (forall k, In k S' <-> exists a, In (a, k) (mvs S) /\ lrel a x) ->
    rsim t S'.
  Proof.
    intros [H1 H2] Es Hi HS'. split.
    - intros xs Hd.
      assert (Hd' : dacc d s (x :: xs)) by (apply dacc_cons; exists i, t; repeat split; assumption).
      apply H1 in Hd'. destruct Hd' as [k [ls [Hk [Hden Hf]]]].
      inversion Hf as [| a x' ls' xs' Hax Hf']; subst.
      apply lf_correct in Hden. destruct Hden as [k' [Hlf Hden']].
      exists k', ls'. split; [| split; assumption].
      apply HS'. exists a. split; [apply mvs_In; exists k; split; assumption | exact Hax].
    - intros k' ls Hk' Hden. apply HS' in Hk'. destruct Hk' as [a [Hmv Ha]].
      apply mvs_In in Hmv. destruct Hmv as [k [Hk Hlf]].
      assert (Hden' : denotes k (a :: ls)) by (eapply lf_sound; eassumption).
      destruct (H2 k _ Hk Hden') as [xs0 [Hf Hd]].
      inversion Hf as [| a' x0 ls' xs Hax0 Hf']; subst.
      apply dacc_cons in Hd. destruct Hd as [j [t' [Es' [Hj Hd']]]].
      assert (t' = t) by (apply (lrel_det s a x0 x t' t Hax0 Ha); [exists j | exists i]; split; assumption). subst t'.
      exists xs. split; assumption.
  Qed.

  Theorem rsim_trans s S x t :
    rsim s S -> (forall i t, Dfa.step d s i = Some t -> coreachable d t) ->
    trans_on d s x t -> exists a k, In (a, k) (mvs S) /\ lrel a x.
  Proof.
    intros [H1 _] Hco [i [Es Hi]]. destruct (Hco i t Es) as [w Hw].
    destruct (accepted_has_inputs d Hwf w t Hw) as [xs [Hd _]].
    assert (Hd' : dacc d s (x :: xs)) by (apply dacc_cons; exists i, t; repeat split; assumption).
    apply H1 in Hd'. destruct Hd' as [k [ls [Hk [Hden Hf]]]].
    inversion Hf as [| a x' ls' xs' Hax Hf']; subst.
    apply lf_correct in Hden. destruct Hden as [k' [Hlf _]].
    exists a, k'. split; [apply mvs_In; exists k; split; assumption | exact Hax].
  Qed.

  Theorem rsim_item s S a k :
    rsim s S -> (forall r, In r S -> zero_free r = true) ->
    In (a, k) (mvs S) -> exists x t, lrel a x /\ trans_on d s x t.
  Proof.
    intros [_ H2] G Hmv. apply mvs_In in Hmv. destruct Hmv as [r [Hr Hlf]].
    assert (Hz : zero_free k = true) by (eapply zero_free_lf; [apply G; exact Hr | exact Hlf]).
    destruct (zero_free_inhabited k Hz) as [ls Hls].
    assert (Hden : denotes r (a :: ls)) by (eapply lf_sound; eassumption).
    destruct (H2 r _ Hr Hden) as [xs0 [Hf Hd]].
    inversion Hf as [| a' x0 ls' xs Hax0 Hf']; subst.
    apply dacc_cons in Hd. destruct Hd as [j [t [Es [Hj _]]]].
    exists x0, t. split; [exact Hax0 | exists j; split; assumption].
  Qed.

  Lemma rsim_accepting s S : rsim s S -> (is_accepting d s = true <-> exists k, In k S /\ nullable k = true).
  Proof.
    intros [H1 H2]. rewrite <- (dacc_nil d). split.
    - intro Hd. destruct (H1 [] Hd) as [k [ls [Hk [Hden Hf]]]]. inversion Hf; subst.
      exists k. split; [assumption | apply nullable_denotes; assumption].
    - intros [k [Hk Hn]]. apply nullable_denotes in Hn. destruct (H2 k [] Hk Hn) as [xs [Hf Hd]].
      inversion Hf; subst. exact Hd.
  Qed.

  (** *** initially: C02 *)
  Theorem rsim_start (e : expr) :
    sub_tree e = true ->
    (forall w, accepts_items c w <-> Lang.denotes e w) ->
    rsim (d_start d) (start e).
  Proof.
    intros Ht HL. unfold start. split.
    - intros xs [ids [Ha Hf]].
      assert (Hacc : accepts_items c (map (item_of_inp c) xs)).
      { exists ids. split; [exact Ha |]. clear Ha. induction Hf as [| i x ids xs Hi Hf IH]; cbn [map]; constructor; [| assumption].
        exists x. split; [assumption | apply item_equiv_refl]. }
      apply HL in Hacc. apply (sbridge e _ Ht) in Hacc. destruct Hacc as [ls [Hden Hfl]].
      exists (tr e), ls. split; [left; reflexivity | split; [assumption |]].
      clear -Hfl. revert ls Hfl. induction xs as [| x xs IH]; intros ls Hfl; cbn [map] in Hfl; inversion Hfl; subst; constructor.
      + assumption.
      + apply IH. assumption.
    - intros k ls [<- | []] Hden.
      assert (Hacc : accepts_items c (map item_of_leaf' ls)).
      { apply HL. apply (sbridge e _ Ht). exists ls. split; [exact Hden |].
        clear. induction ls; cbn [map]; constructor; [apply leaf_item_refl | assumption]. }
      destruct Hacc as [ids [Ha Hf]].
      assert (G : exists xs, Forall2 lrel ls xs /\ Forall2 (fun i x => nthN (d_inputs d) i = Some x) ids xs).
      { clear Ha Hden. revert ids Hf. induction ls as [| a ls IH]; intros ids Hf; cbn [map] in Hf.
        - inversion Hf; subst. exists []. split; constructor.
        - inversion Hf as [| i it ids' its [x [Hi Heq]] Hf']; subst.
          destruct (IH ids' Hf') as [xs [F1 F2]]. exists (x :: xs). split; constructor; assumption. }
      destruct G as [xs [F1 F2]]. exists xs. split; [exact F1 |]. exists ids. split; assumption.
  Qed.
End RSim.
