(** The positions the reference printer threads through a tree are the positions of the text:
    with the repaired lexer configuration, the position after printing [e] from [p] is
    [adv_str (txt lay ctx e) p], i.e. what nom_locate computes from the bytes. *)
From CG Require Import Base.Prelude Model.Ast Model.Lexer Model.Parser Spec.Printer
  Proofs.LexBase Proofs.ExprDefs.
From CGgen Require Import Consts.

Lemma pieces_adv_true : forall ps p, pieces_adv repaired ps p = adv_str (pieces_text ps) p.
Proof.
  induction ps as [|x ps IH]; intros; [reflexivity|]. cbn [pieces_adv pieces_text]. rewrite adv_str_app, IH.
  destruct x; reflexivity.
Qed.

Lemma paren_adv : forall g1 g2 B p,
    adv_str (paren_text g1 g2 B) p = paren_close g2 (adv_str B (paren_open g1 p)).
Proof.
  intros. unfold paren_text, paren_close, paren_open. cbn [adv_str]. rewrite !adv_str_app. reflexivity.
Qed.

Lemma wrap_adv : forall L j T p,
    adv_str (wrap_text L j T) p = wrap_close L j (adv_str T (wrap_open L j p)).
Proof.
  induction j as [|j IH]; intros; [reflexivity|]. cbn [wrap_text wrap_close wrap_open].
  rewrite paren_adv, IH. reflexivity.
Qed.

Definition PosOk (e : expr) : Prop :=
  forall lay ctx p, snd (loc repaired lay ctx e p) = adv_str (txt lay ctx e) p.

Lemma pos_list : forall (layk : nat -> layout) (cc : nat) (sep : nat -> string) xs,
    Forall PosOk xs ->
    forall k q,
      snd (loc_list (fun k x q => loc repaired (layk k) cc x q) (fun k q => adv_str (sep k) q) k xs q)
      = adv_str (txt_list (fun k x => txt (layk k) cc x) sep k xs) q.
Proof.
  induction 1 as [|x xs Hx Hxs IH]; intros k q; [reflexivity|]. cbn [loc_list txt_list].
  specialize (Hx (layk k) cc (match k with O => q | S _ => adv_str (sep k) q end)).
  destruct (loc repaired (layk k) cc x _) as [x' q1]. cbn [snd] in Hx.
  specialize (IH (S k) q1). destruct (loc_list _ _ (S k) xs q1) as [rs q2]. cbn [snd] in *.
  rewrite !adv_str_app. rewrite IH, Hx. destruct k; reflexivity.
Qed.

Lemma pos_sub : forall (layk : nat -> layout) xs,
    Forall PosOk xs ->
    forall k prev q,
      snd (loc_sub (fun k cx x q => loc repaired (layk k) cx x q) k prev xs q)
      = adv_str (txt_sub (fun k cx x => txt (layk k) cx x) k prev xs) q.
Proof.
  induction 1 as [|x xs Hx Hxs IH]; intros k prev q; [reflexivity|]. cbn [loc_sub txt_sub].
  specialize (Hx (layk k) (factor_ctx prev x) q).
  destruct (loc repaired (layk k) (factor_ctx prev x) x q) as [x' q1]. cbn [snd] in Hx.
  specialize (IH (S k) (factor_open (factor_ctx prev x) x) q1).
  destruct (loc_sub _ (S k) (factor_open (factor_ctx prev x) x) xs q1) as [rs q2]. cbn [snd] in *.
  rewrite adv_str_app. rewrite IH, Hx. reflexivity.
Qed.

Definition PosQ (e : expr) : Prop :=
  PosOk e /\ match e with Sequence fs _ => Forall PosOk fs | _ => True end.

Lemma Forall_PosQ : forall cs, Forall PosQ cs -> Forall PosOk cs.
Proof. induction 1; constructor; auto. destruct H; auto. Qed.

Lemma pos_of_body : forall e,
    (forall lay ctx pb, snd (body_loc repaired lay ctx e pb) = adv_str (body_txt lay ctx e) pb) -> PosOk e.
Proof.
  intros e H lay ctx p. rewrite loc_eq, txt_eq. cbv zeta. rewrite wrap_adv.
  specialize (H lay ctx). destruct (Nat.ltb (prec e) ctx).
  - rewrite paren_adv. specialize (H (paren_open (nl_gap (lay []) 2) (wrap_open (lay []) (wraps (lay []) ctx) p))).
    destruct (body_loc repaired lay ctx e _) as [e' pe]. cbn [snd] in *. rewrite H. reflexivity.
  - specialize (H (wrap_open (lay []) (wraps (lay []) ctx) p)).
    destruct (body_loc repaired lay ctx e _) as [e' pe]. cbn [snd] in *. rewrite H. reflexivity.
Qed.

Theorem pos_all : forall e, PosQ e.
Proof.
  induction e using expr_ind'; (split; [apply pos_of_body; intros lay ctx pb; cbn [body_loc body_txt]|try (cbn iota; constructor)]).
  - destruct d; cbn [snd]; rewrite ?app_nil_r_s, ?adv_str_app, ?pieces_adv_true; reflexivity.
  - cbn [snd adv_str]. rewrite adv_str_app. reflexivity.
  - cbn [snd]. rewrite !adv_str_app. reflexivity.
  - apply Forall_PosQ in H.
    pose proof (pos_list (fun k => sub lay k) 3 (seq_sep (lay [])) cs H 0%nat pb) as X. cbv beta in X.
    destruct (loc_list _ _ 0 cs pb) as [cs' p1]. cbn [snd] in *. exact X.
  - apply Forall_PosQ; auto.
  - apply Forall_PosQ in H.
    pose proof (pos_list (fun k => sub lay k) 2 (alt_sep (lay [])) cs H 0%nat pb) as X. cbv beta in X.
    destruct (loc_list _ _ 0 cs pb) as [cs' p1]. cbn [snd] in *. exact X.
  - destruct IHe as [IH _]. specialize (IH (sub lay 0) 0%nat (adv_str (gap_text (nl_gap (lay []) 0)) (adv_char LBRACK pb))).
    destruct (loc repaired (sub lay 0) 0 e _) as [ch' p2]. cbn [snd adv_str] in *. rewrite !adv_str_app. rewrite IH.
    reflexivity.
  - destruct IHe as [IH _]. specialize (IH (sub lay 0) 6%nat pb).
    destruct (loc repaired (sub lay 0) 6 e pb) as [ch' p2]. cbn [snd] in *. rewrite !adv_str_app. rewrite IH. reflexivity.
  - destruct IHe as [IH _]. specialize (IH (sub lay 0) (if open_end e then 7 else 4)%nat pb).
    destruct (loc repaired (sub lay 0) _ e pb) as [ch' p2]. cbn [snd] in *. rewrite !adv_str_app. rewrite IH. reflexivity.
  - apply Forall_PosQ in H.
    pose proof (pos_list (fun k => sub lay k) 1 (fb_sep (lay [])) cs H 0%nat pb) as X. cbv beta in X.
    destruct (loc_list _ _ 0 cs pb) as [cs' p1]. cbn [snd] in *. exact X.
  - destruct IHe as [IH IHfs]. destruct e; cbn [body_loc body_txt].
    all: try (specialize (IH (sub lay 0) 5%nat pb);
              match goal with |- context [loc repaired ?b 5 ?x ?d] => destruct (loc repaired b 5 x d) as [r' p1] end;
              cbn [snd] in *; exact IH).
    pose proof (pos_sub (fun k => sub (sub lay 0) k) children IHfs 0%nat false pb) as X. cbv beta in X.
    destruct (loc_sub _ 0 false children pb) as [cs' p1]. cbn [snd] in *. exact X.
Qed.

(** The end position of a printed expression is the nom_locate position after its text. *)
Theorem loc_end_true : forall e lay ctx p, snd (loc repaired lay ctx e p) = adv_str (txt lay ctx e) p.
Proof. intros e. apply (pos_all e). Qed.
