(** What the C01 proofs need to know about the automaton the model pipeline returns
    ([Driver.compile_valid]): it accepts exactly what the validated tree denotes (C02), it is trim
    (C03), its transition table is a map whose entries name inputs ([TablesSound.dfa_wf]), and its
    input pool has no duplicates. *)
From CG Require Import Base.Prelude Model.Ast Model.Dfa Model.Check Model.Regex Model.Subset Model.Minimize
     Model.Ambiguity Model.Driver Spec.Lang Spec.DfaEquiv Spec.MinimizeSpec.
From CG Require Import Proofs.TablesSound Proofs.SubsetConstr Proofs.TreeFacts Proofs.C02Total Proofs.WfTrim
     Proofs.MinimizeCorrect Proofs.AmbTotal Proofs.DriverCorrect Proofs.MinimizePostGen.

(** *** the input pool *)
Lemma inp_find_none x l : forall i, inp_find x l i = None -> ~ In x l.
Proof.
  induction l as [| y r IH]; intros i H Hin; [destruct Hin |].
  cbn [inp_find] in H. destruct (inp_eqb y x) eqn:E; [discriminate |].
  destruct Hin as [-> | Hin].
  - assert (inp_eqb x x = true) by (apply inp_eqb_eq; reflexivity). congruence.
  - apply (IH _ H Hin).
Qed.

Lemma intern_all_NoDup labels : NoDup (intern_all labels).
Proof.
  unfold intern_all.
  assert (G : forall acc, NoDup acc -> NoDup (fold_left (fun acc x => inp_intern x acc) labels acc)).
  { induction labels as [| x labels IH]; intros acc H; [exact H |]. cbn [fold_left]. apply IH.
    unfold inp_intern. destruct (inp_find x acc 0) eqn:E; [exact H |].
    apply NoDup_snoc; [exact H | eapply inp_find_none; eassumption]. }
  apply G. constructor.
Qed.

Lemma dfa_from_regex_inputs pick fuel submap r d states :
  dfa_from_regex pick fuel submap r = Ok (d, states) -> NoDup (d_inputs d).
Proof.
  unfold dfa_from_regex. intro H.
  destruct (omap (from_input submap) (r_inputs r)) as [labels | | |]; cbn [obind] in H; try discriminate.
  destruct (loop _ _ _ _ _ _ _) as [st | | |]; cbn [obind] in H; try discriminate.
  destruct (find_set _ _); [| discriminate]. inversion H; subst. cbn [d_inputs]. apply intern_all_NoDup.
Qed.

(** *** the transition table of the minimised automaton *)
Lemma row_insert_keys i t row x : In x (map fst (row_insert i t row)) <-> x = i \/ In x (map fst row).
Proof.
  induction row as [| [i0 t0] r IH]; cbn [row_insert map fst In].
  - split; [intros [H | []]; left; symmetry; exact H | intros [H | []]; left; symmetry; exact H].
  - destruct (N.eqb i0 i) eqn:E; cbn [map fst In].
    + apply N.eqb_eq in E. subst i0. split; [intros [H | H]; [left; symmetry; exact H | right; right; exact H]
                                            | intros [H | [H | H]]; [left; symmetry; exact H | left; exact H | right; exact H]].
    + rewrite IH. split; [intros [H | [H | H]]; [right; left; exact H | left; exact H | right; right; exact H]
                        | intros [H | [H | H]]; [right; left; exact H | left; exact H | right; right; exact H]].
Qed.

Lemma row_insert_NoDup i t row : NoDup (map fst row) -> NoDup (map fst (row_insert i t row)).
Proof.
  induction row as [| [i0 t0] r IH]; intro H; cbn [row_insert].
  - cbn. constructor; [intros [] | constructor].
  - cbn [map fst] in H. inversion H as [| x xs Hnot Hnd]; subst. destruct (N.eqb i0 i) eqn:E; cbn [map fst].
    + constructor; assumption.
    + constructor; [| apply IH; assumption]. intro Hin. apply row_insert_keys in Hin.
      apply N.eqb_neq in E. destruct Hin as [-> | Hin]; [apply E; reflexivity | apply Hnot; exact Hin].
Qed.

Lemma tbl_insert_keys f i t tbl x : In x (map fst (tbl_insert f i t tbl)) <-> x = f \/ In x (map fst tbl).
Proof.
  induction tbl as [| [f0 row] r IH]; cbn [tbl_insert map fst In].
  - split; [intros [H | []]; left; symmetry; exact H | intros [H | []]; left; symmetry; exact H].
  - destruct (N.eqb f0 f) eqn:E; cbn [map fst In].
    + apply N.eqb_eq in E. subst f0. split; [intros [H | H]; [left; symmetry; exact H | right; right; exact H]
                                            | intros [H | [H | H]]; [left; symmetry; exact H | left; exact H | right; exact H]].
    + rewrite IH. split; [intros [H | [H | H]]; [right; left; exact H | left; exact H | right; right; exact H]
                        | intros [H | [H | H]]; [right; left; exact H | left; exact H | right; right; exact H]].
Qed.

Definition tbl_ok (tbl : list (N * list (N * N))) : Prop :=
  NoDup (map fst tbl) /\ forall f row, In (f, row) tbl -> NoDup (map fst row).

Lemma tbl_insert_ok f i t tbl : tbl_ok tbl -> tbl_ok (tbl_insert f i t tbl).
Proof.
  induction tbl as [| [f0 row] r IH]; intros [H1 H2]; cbn [tbl_insert].
  - split; [cbn; constructor; [intros [] | constructor] |].
    intros f' row' [E | []]. inversion E; subst. cbn. constructor; [intros [] | constructor].
  - cbn [map fst] in H1. inversion H1 as [| x xs Hnot Hnd]; subst.
    assert (IHr : tbl_ok (tbl_insert f i t r)).
    { apply IH. split; [exact Hnd | intros f' row' Hin; apply (H2 f' row'); right; exact Hin]. }
    destruct (N.eqb f0 f) eqn:E.
    + split; [cbn [map fst]; constructor; assumption |].
      intros f' row' [E' | Hin].
      * inversion E'; subst. apply row_insert_NoDup. apply (H2 f' row). left; reflexivity.
      * apply (H2 f' row'). right; exact Hin.
    + split.
      * cbn [map fst]. constructor; [| apply (proj1 IHr)]. intro Hin. apply tbl_insert_keys in Hin.
        apply N.eqb_neq in E. destruct Hin as [-> | Hin]; [apply E; reflexivity | apply Hnot; exact Hin].
      * intros f' row' [E' | Hin]; [inversion E'; subst; apply (H2 f' row'); left; reflexivity | apply (proj2 IHr f' row'); exact Hin].
Qed.

Lemma hashmap_ok ts : tbl_ok (hashmap_transitions_from_vec ts).
Proof.
  unfold hashmap_transitions_from_vec.
  assert (G : forall tbl, tbl_ok tbl -> tbl_ok (fold_left (fun tbl t => tbl_insert (tr_from t) (tr_input t) (tr_to t) tbl) ts tbl)).
  { induction ts as [| t ts IH]; intros tbl H; [exact H |]. cbn [fold_left]. apply IH. apply tbl_insert_ok. exact H. }
  apply G. split; [constructor | intros f row []].
Qed.

Lemma minimize_dfa_wf d m : wf d -> trim d -> minimize d = Ok m -> dfa_wf m.
Proof.
  intros W TR H.
  pose proof (minimize_inputs_in_range d m W TR H) as Hr.
  unfold minimize in H. destruct (do_minimize_inv d _ m H) as [h [reps [_ [_ [_ [_ Hrest]]]]]].
  cbn zeta in Hrest. destruct Hrest as [s' [ts' [accn [_ ->]]]].
  destruct (hashmap_ok ts') as [K1 K2]. split; [exact K1 |].
  intros s tos Hin. cbn [d_trans] in Hin. split; [apply (K2 s tos Hin) |].
  intros i t Hit.
  assert (Hlt : i < lenN (d_inputs (mkdfa s' (hashmap_transitions_from_vec ts') accn (d_inputs d)))).
  { apply (Hr s i t). unfold transitions_from. cbn [d_trans].
    rewrite (in_assocN s _ tos K1 Hin). exact Hit. }
  cbn [d_inputs] in *. unfold nthN, lenN in *.
  destruct (nth_error (d_inputs d) (N.to_nat i)) as [x |] eqn:E; [eauto |].
  apply nth_error_None in E. lia.
Qed.

(** *** everything the C01 proofs use *)
Theorem compiled_facts pick fuel v c :
  alts_nonempty (v_expr v) = true ->
  compile_valid pick fuel v = Ok c ->
  (forall w, accepts_items c w <-> Lang.denotes (v_expr v) w)
  /\ dfa_wf (c_main c) /\ NoDup (d_inputs (c_main c)) /\ trim (c_main c).
Proof.
  intros Ha H. split; [apply (driver_correct pick fuel v c Ha H) |].
  unfold compile_valid in H.
  destruct (from_valid_expr (v_expr v)) as [[r pl] | | |] eqn:E; simpl in H; try discriminate.
  apply from_valid_expr_ok in E.
  destruct (compile_subs pick fuel (r_inputs r) pl [] []) as [[submap subs] | | |] eqn:Es; simpl in H; try discriminate.
  destruct (dfa_from_regex pick fuel submap r) as [[raw st] | | |] eqn:Ed; simpl in H; try discriminate.
  destruct (minimize raw) as [m | | |] eqn:Em; simpl in H; try discriminate.
  destruct (check_ambiguity_best_effort m) as [[] | | |]; simpl in H; try discriminate.
  inversion H; subst c. cbn [c_main].
  destruct (wf_trim_from_regex pick fuel submap (v_expr v) [] r pl raw st Ha (Forall_nil _) E Ed) as [W TR].
  destruct (minimize_correct raw m W TR Em) as [_ [TRm _]].
  split; [apply (minimize_dfa_wf raw m W TR Em) | split; [| exact TRm]].
  rewrite (minimize_inputs raw m Em). eapply dfa_from_regex_inputs. exact Ed.
Qed.
