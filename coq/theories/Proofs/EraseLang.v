(** Forgetting what matching cannot see -- [||] levels, descriptions, and the [||] / [|]
    distinction -- on the item languages of [Spec.Lang]: the validated tree of a grammar and of
    its [|] variant ([CheckBar.bar_grammar]) denote the same item words once every item is erased
    ([erases]), because [denotes (norm e)] IS the erased language of [denotes e]. *)
From CG Require Import Base.Prelude Model.Ast Model.Check Spec.Lang.
From CG Require Import Proofs.LangDen Proofs.LangJudge Proofs.MeaningLevels Proofs.CheckBar.

(** *** Erasing items *)
Definition erase_witem (a : witem) : witem :=
  match a with
  | WLit t _ _ => WLit t None 0
  | WCmd c _ => WCmd c 0
  | WCompadd c _ => WCompadd c 0
  | WStar => WStar
  end.

Definition erase_lang (L : list witem -> Prop) (u : list witem) : Prop :=
  exists v, L v /\ map erase_witem v = u.

(** [y] is (equivalent to) the erasure of [x] *)
Definition erases (x y : item) : Prop :=
  match x with
  | ILeaf a => item_equiv (ILeaf (erase_witem a)) y
  | IWord L _ => item_equiv (IWord (erase_lang L) 0) y
  end.

(** the erased image of a language of item words *)
Definition erased_lang (L : list item -> Prop) (u : list item) : Prop :=
  exists w, L w /\ Forall2 erases w u.

Lemma erase_lang_iff : forall L L', (forall v, L v <-> L' v) -> forall u, erase_lang L u <-> erase_lang L' u.
Proof. intros L L' H u. split; intros [v [Hv E]]; exists v; split; auto; apply H; auto. Qed.

Lemma erases_equiv_l : forall x x' y, item_equiv x x' -> erases x y -> erases x' y.
Proof.
  intros [a|L l] [a'|L' l'] y He H; simpl in He; try tauto.
  - subst. exact H.
  - destruct He as [-> He]. unfold erases in *. eapply item_equiv_trans; [|exact H].
    simpl. split; [reflexivity|]. intros v. apply erase_lang_iff. intros v0. symmetry. apply He.
Qed.

Lemma erases_equiv_r : forall x y y', item_equiv y y' -> erases x y -> erases x y'.
Proof. intros [a|L l] y y' He H; unfold erases in *; eapply item_equiv_trans; eauto. Qed.

(** *** [den] of a normalised tree, generically *)
Section NormDen.
  Variables A A' : Type.
  Variable leaf : expr -> list A -> Prop.
  Variable leaf' : expr -> list A' -> Prop.
  Variable R : A -> A' -> Prop.

  Definition eimg (e : expr) (u : list A') : Prop := exists w, den A leaf e w /\ Forall2 R w u.

  Hypothesis leaf_norm : forall e, is_leaf e = true ->
    forall u, leaf' (norm e) u <-> exists w, leaf e w /\ Forall2 R w u.

  Lemma is_leaf_norm : forall e, is_leaf (norm e) = is_leaf e.
  Proof. destruct e; reflexivity. Qed.

  Lemma eimg_seq_nil : forall sp u, eimg (Sequence [] sp) u <-> u = [].
  Proof.
    intros sp u. unfold eimg. split.
    - intros [w [D F]]. apply den_seq_nil in D. subst. inversion F. reflexivity.
    - intros ->. exists []. split; [apply den_seq_nil; reflexivity|constructor].
  Qed.

  Lemma eimg_seq_cons : forall c cs sp u,
    eimg (Sequence (c :: cs) sp) u <-> exists u1 u2, u = u1 ++ u2 /\ eimg c u1 /\ eimg (Sequence cs sp) u2.
  Proof.
    intros c cs sp u. unfold eimg. split.
    - intros [w [D F]]. apply den_seq_cons in D. destruct D as [w1 [w2 [-> [D1 D2]]]].
      apply Forall2_app_inv_l in F. destruct F as [u1 [u2 [F1 [F2 ->]]]].
      exists u1, u2. split; [reflexivity|]. split; eauto.
    - intros [u1 [u2 [-> [[w1 [D1 F1]] [w2 [D2 F2]]]]]]. exists (w1 ++ w2). split.
      + apply den_seq_cons. eauto.
      + apply Forall2_app; assumption.
  Qed.

  Lemma eimg_alt : forall cs sp u, eimg (Alternative cs sp) u <-> exists c, In c cs /\ eimg c u.
  Proof.
    intros cs sp u. unfold eimg. split.
    - intros [w [D F]]. apply den_alt in D. destruct D as [c [Hc D]]. eauto.
    - intros [c [Hc [w [D F]]]]. exists w. split; auto. apply den_alt. eauto.
  Qed.

  Lemma eimg_fb : forall cs sp u, eimg (Fallback cs sp) u <-> exists c, In c cs /\ eimg c u.
  Proof.
    intros cs sp u. unfold eimg. split.
    - intros [w [D F]]. apply den_fb in D. destruct D as [c [Hc D]]. eauto.
    - intros [c [Hc [w [D F]]]]. exists w. split; auto. apply den_fb. eauto.
  Qed.

  Lemma eimg_opt : forall c sp u, eimg (Optional c sp) u <-> u = [] \/ eimg c u.
  Proof.
    intros c sp u. unfold eimg. split.
    - intros [w [D F]]. apply den_opt in D. destruct D as [->|D]; [left; inversion F; reflexivity|right; eauto].
    - intros [->|[w [D F]]].
      + exists []. split; [apply den_opt; auto|constructor].
      + exists w. split; auto. apply den_opt. auto.
  Qed.

  Lemma eimg_many : forall c sp u, eimg (Many1 c sp) u <-> plusP (eimg c) u.
  Proof.
    intros c sp u. unfold eimg. split.
    - intros [w [D F]]. apply den_many in D. revert u F.
      induction D as [w D|w1 w2 D1 D2 IH]; intros u F.
      + apply PP_one. eauto.
      + apply Forall2_app_inv_l in F. destruct F as [u1 [u2 [F1 [F2 ->]]]].
        apply PP_more; [eauto|]. apply IH. exact F2.
    - intros P. induction P as [u [w [D F]]|u1 u2 [w1 [D1 F1]] P [w2 [D2 F2]]].
      + exists w. split; auto. apply den_many. apply PP_one. exact D.
      + exists (w1 ++ w2). split; [|apply Forall2_app; assumption].
        apply den_many. apply PP_more; [exact D1|]. apply den_many in D2. exact D2.
  Qed.

  Theorem den_norm : forall e u, den A' leaf' (norm e) u <-> eimg e u.
  Proof.
    induction e using expr_ind'; intros u.
    - rewrite den_leaf_iff by reflexivity. rewrite (leaf_norm (Terminal t d l sp)) by reflexivity.
      unfold eimg. split; intros [w [Hw F]]; exists w; split; auto;
        [apply den_leaf_iff|apply (den_leaf_iff A leaf) in Hw]; auto.
    - rewrite den_leaf_iff by reflexivity. rewrite (leaf_norm (NontermRef n l sp)) by reflexivity.
      unfold eimg. split; intros [w [Hw F]]; exists w; split; auto;
        [apply den_leaf_iff|apply (den_leaf_iff A leaf) in Hw]; auto.
    - rewrite den_leaf_iff by reflexivity. rewrite (leaf_norm (Command c z l sp)) by reflexivity.
      unfold eimg. split; intros [w [Hw F]]; exists w; split; auto;
        [apply den_leaf_iff|apply (den_leaf_iff A leaf) in Hw]; auto.
    - (* Sequence *)
      cbn [norm]. revert u. induction H as [|c cs Hc H IH]; intros u; cbn [map].
      + rewrite den_seq_nil, eimg_seq_nil. tauto.
      + rewrite den_seq_cons, eimg_seq_cons.
        split; intros [u1 [u2 [-> [H1 H2]]]]; exists u1, u2; (split; [reflexivity|]); split;
          try (apply Hc; assumption); apply IH; assumption.
    - (* Alternative *)
      cbn [norm]. rewrite den_alt, eimg_alt. rewrite Forall_forall in H. split.
      + intros [c' [Hin D]]. apply in_map_iff in Hin. destruct Hin as [c [<- Hin]].
        exists c. split; auto. apply H; auto.
      + intros [c [Hin D]]. exists (norm c). split; [apply in_map; exact Hin|]. apply H; auto.
    - cbn [norm]. rewrite den_opt, eimg_opt, IHe. tauto.
    - cbn [norm]. rewrite den_many, eimg_many. apply plusP_iff. exact IHe.
    - cbn [norm]. split.
      + intros D. destruct (den_dd _ _ _ _ _ _ D).
      + intros [w [D _]]. destruct (den_dd _ _ _ _ _ _ D).
    - (* Fallback becomes Alternative *)
      cbn [norm]. rewrite den_alt, eimg_fb. rewrite Forall_forall in H. split.
      + intros [c' [Hin D]]. apply in_map_iff in Hin. destruct Hin as [c [<- Hin]].
        exists c. split; auto. apply H; auto.
      + intros [c [Hin D]]. exists (norm c). split; [apply in_map; exact Hin|]. apply H; auto.
    - rewrite den_leaf_iff by reflexivity. rewrite (leaf_norm (Subword e l sp)) by reflexivity.
      unfold eimg. split; intros [w [Hw F]]; exists w; split; auto;
        [apply den_leaf_iff|apply (den_leaf_iff A leaf) in Hw]; auto.
  Qed.
End NormDen.

(** *** Inside a word *)
Lemma Forall2_erase_map : forall v u, Forall2 (fun a a' => a' = erase_witem a) v u <-> map erase_witem v = u.
Proof.
  intros v u. split.
  - intros F. induction F; simpl; congruence.
  - intros <-. induction v; simpl; constructor; auto.
Qed.

Lemma wleaf_norm : forall e, is_leaf e = true ->
  forall u, wleaf (norm e) u <-> exists w, wleaf e w /\ Forall2 (fun a a' => a' = erase_witem a) w u.
Proof.
  intros e _ u. destruct e; cbn [norm wleaf]; try (split; [tauto|intros [w [[] _]]]).
  - split.
    + intros ->. eexists. split; [reflexivity|]. repeat constructor.
    + intros [w [-> F]]. apply Forall2_erase_map in F. subst. reflexivity.
  - split.
    + intros ->. eexists. split; [reflexivity|]. repeat constructor.
    + intros [w [-> F]]. apply Forall2_erase_map in F. subst. reflexivity.
  - split.
    + intros ->. eexists. split; [reflexivity|]. constructor; [destruct compadd; reflexivity|constructor].
    + intros [w [-> F]]. apply Forall2_erase_map in F. subst. destruct compadd; reflexivity.
Qed.

Theorem wdenotes_norm : forall c u, wdenotes (norm c) u <-> erase_lang (wdenotes c) u.
Proof.
  intros c u. unfold wdenotes. rewrite (den_norm witem witem wleaf wleaf _ wleaf_norm c u).
  unfold eimg, erase_lang. split; intros [v [D F]]; exists v; split; auto; apply Forall2_erase_map; auto.
Qed.

(** *** On the command line *)
Lemma tleaf_norm : forall e, is_leaf e = true ->
  forall u, tleaf (norm e) u <-> exists w, tleaf e w /\ Forall2 erases w u.
Proof.
  intros e _ u.
  assert (G : forall X Y, erases X Y ->
              ((exists it, u = [it] /\ item_equiv it Y) <->
               (exists w, (exists it0, w = [it0] /\ item_equiv it0 X) /\ Forall2 erases w u))).
  { intros X Y HXY. split.
    - intros [it [-> Hit]]. exists [X]. split; [exists X; split; [reflexivity|apply item_equiv_refl]|].
      constructor; [|constructor]. eapply erases_equiv_r; [apply item_equiv_sym; exact Hit|exact HXY].
    - intros [w [[it0 [-> H0]] F]]. inversion F as [|? y ? ? Hy F']; subst. inversion F'; subst.
      exists y. split; [reflexivity|].
      (* y is an erasure of it0 ~ X, Y is an erasure of X: they are equivalent *)
      assert (HXy : erases X y) by (eapply erases_equiv_l; eauto).
      destruct X as [a|L l]; unfold erases in HXY, HXy;
        (eapply item_equiv_trans; [apply item_equiv_sym; exact HXy|exact HXY]). }
  destruct e; cbn [norm]; unfold tleaf.
  - apply G. simpl. reflexivity.
  - apply G. simpl. reflexivity.
  - apply G. simpl. destruct compadd; reflexivity.
  - split; [intros [it [_ []]]|intros [w [[it [_ []]] _]]].
  - split; [intros [it [_ []]]|intros [w [[it [_ []]] _]]].
  - split; [intros [it [_ []]]|intros [w [[it [_ []]] _]]].
  - split; [intros [it [_ []]]|intros [w [[it [_ []]] _]]].
  - split; [intros [it [_ []]]|intros [w [[it [_ []]] _]]].
  - split; [intros [it [_ []]]|intros [w [[it [_ []]] _]]].
  - apply G. simpl. split; [reflexivity|]. intros v. symmetry. apply wdenotes_norm.
Qed.

(** [denotes (norm e)] is the erased language of [denotes e] *)
Theorem denotes_norm : forall e u, denotes (norm e) u <-> erased_lang (denotes e) u.
Proof. intros e u. unfold denotes. apply (den_norm item item tleaf tleaf erases tleaf_norm e u). Qed.

Corollary erased_denotes_of_norm_eq : forall e e', norm e = norm e' ->
  forall u, erased_lang (denotes e) u <-> erased_lang (denotes e') u.
Proof. intros e e' H u. rewrite <- !denotes_norm, H. tauto. Qed.

(** *** The [|] variant of a source grammar *)
Theorem from_grammar_bar_norm : forall builtins g sh v v',
  from_grammar builtins g sh = Ok v ->
  from_grammar builtins (bar_grammar g) sh = Ok v' ->
  norm (v_expr v') = norm (v_expr v).
Proof.
  intros builtins g sh v v' H H'.
  apply from_grammar_expand in H. destruct H as [defs0 [us [fs [ord [Ed [Es [Eo Ev]]]]]]].
  apply from_grammar_expand in H'. destruct H' as [defs0' [us' [fs' [ord' [Ed' [Es' [Eo' Ev']]]]]]].
  rewrite get_specializations_bar, Es in Es'. inversion Es'; subst us' fs'.
  rewrite all_defs_bar in Ed'. pose proof (collect_plain_defs_bar (all_defs g) []) as C.
  cbn [map] in C. rewrite Ed, Ed' in C. inversion C; subst defs0'. clear C.
  assert (Hnames : map d_name (map bar_defn defs0) = map d_name defs0).
  { rewrite map_map. reflexivity. }
  assert (Hplain : plain_of (map bar_defn defs0) = bar_defs (plain_of defs0)).
  { unfold plain_of, bar_defs. rewrite !map_map. reflexivity. }
  assert (Eord : ord' = ord).
  { assert (R : resolution_order (prepared_defns sh us (builtins sh) fs (map bar_defn defs0))
                = resolution_order (prepared_defns sh us (builtins sh) fs defs0)).
    { apply resolution_order_ext; unfold prepared_defns; rewrite Hnames, !map_map; cbn [d_name d_span d_rhs bar_defn];
        try reflexivity.
      apply map_ext. intro d. apply get_nonterm_refs_of_norm_eq.
      rewrite !norm_specialize, !norm_distribute_descriptions, norm_bar. reflexivity. }
    rewrite R, Eo in Eo'. inversion Eo'. reflexivity. }
  subst ord'. rewrite Ev, Ev', Hnames, Hplain, call_expr_bar.
  apply expand_bar.
Qed.
