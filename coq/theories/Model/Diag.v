(** Model of how [main.rs] renders a located message ([ErrMsg::error] / [WarnMsg::warning] /
    [into_string], [snippet_columns], [handle_error], the three warning loops of [aot]).

    What is modelled: which messages are printed for an error or for the warnings of an accepted
    grammar, in which order, with which label / annotation / help text; and for each message the
    header [path:line:col:], the source line that is quoted ([source.lines().nth(line - 1)], Rust's
    [str::lines]: split at LF, one CR before the LF stripped, no empty last line) and the columns
    that are underlined ([snippet_columns]).  Not modelled: the drawing itself (crate [chic] /
    annotate-snippets: gutter, colours of the markers).  [Panic] where [.unwrap()] on the line
    lookup, or a [usize] subtraction, would panic. *)
From Coq Require Import DecimalString.
From CG Require Import Base.Prelude Model.Ast Model.Lexer Model.Check Model.Regex Model.Driver.

Definition CR : ascii := ascii_of_N 13.

(** [strip_suffix('\r')] *)
Definition strip_cr (s : string) : string :=
  match srev s with
  | String c r => if Ascii.eqb c CR then srev r else s
  | EmptyString => s
  end.

(** [str::lines]: [cur] = the bytes of the current line so far *)
Fixpoint lines_acc (cur : string) (s : string) : list string :=
  match s with
  | EmptyString => match cur with EmptyString => [] | _ => [cur] end
  | String c r =>
      if Ascii.eqb c LF then strip_cr cur :: lines_acc EmptyString r
      else lines_acc (append cur (String c EmptyString)) r
  end.

Definition lines (s : string) : list string := lines_acc EmptyString s.

Definition dec (n : N) : string := NilZero.string_of_uint (N.to_uint n).

Record rendered := mkrendered {
  r_header : string;          (* "path:line:col:" *)
  r_line_no : N;              (* the number shown in the gutter *)
  r_line : string;            (* the quoted source line *)
  r_cols : N * N              (* underlined columns, 0-based, end exclusive *)
}.

(** [snippet_columns] (with [column_start_machine] / [column_end_machine] = column - 1) *)
Definition snippet_columns (sp : span) (line : string) : N * N :=
  let cs := scol sp - 1 in
  let ce := secol sp - 1 in
  if N.ltb cs ce then (cs, ce) else (cs, N.max (slen line) (cs + 1)).

Definition render (path source : string) (sp : span) : outcome unit rendered :=
  if N.eqb (sline sp) 0 || N.eqb (scol sp) 0 || N.eqb (secol sp) 0 then Panic "attempt to subtract with overflow"
  else
    match nth_error (lines source) (N.to_nat (sline sp - 1)) with
    | None => Panic "lines().nth(span.line_machine()).unwrap()"
    | Some line =>
        Ok (mkrendered (append path (append ":" (append (dec (sline sp)) (append ":" (append (dec (scol sp)) ":")))))
                       (sline sp) line (snippet_columns sp line))
    end.

(** *** Which messages *)

Record message := mkmsg {
  m_warning : bool;
  m_label : string;
  m_span : span;
  m_what : string;
  m_help : option string
}.

Definition emsg (label : string) (sp : span) (what : string) (help : option string) : message :=
  mkmsg false label sp what help.

(** [handle_error]: the located messages, in the order they are printed *)
Definition error_messages (e : derror) : list message :=
  match e with
  | DParse sp => [emsg "Parse error" sp "" None]
  | DCheck ce =>
      match ce with
      | MissingCallVariants => []
      | InvalidCommandName sp => [emsg "Invalid command name" sp "" None]
      | VaryingCommandNames spans => map (fun sp => emsg "Varying command names:" sp "" None) spans
      | NonterminalDefinitionsCycle spans =>
          map (fun sp => emsg "Nonterminal definitions cycle" sp "" None) spans
      | DuplicateNonterminalDefinition first second =>
          [emsg "Duplicate nonterminal definition" second "" None; emsg "Previous definition" first "" None]
      | UnknownShell sp =>
          [emsg "Unknown shell" sp "" (Some "Can only use one of: bash, fish, zsh, pwsh")]
      | NonCommandSpecialization sp =>
          [emsg "Can only specialize external commands" sp "" (Some "Use a {{{ ... }}} command here instead")]
      | SubwordSpaces l r trace =>
          emsg "Adjacent literals in expression used in a subword context" l "First one" None
          :: emsg "" r "Second one"
               (Some "Join the adjacent literals into one as spaces are invalid in a subword context")
          :: map (fun t => emsg "Referenced in a subword context at" t "" None) trace
      end
  | DRegex (UnboundedMatchable a b) =>
      [emsg "Ambiguous grammar" a "matching can't tell where this ends" None;
       emsg "" b "and where this begins" None]
  | DSubset _ | DAmb _ => []
  end.

(** [sort_unstable_by_key(|span| (line, column_start, column_end))] (the keys of distinct
    constructs are distinct, so stability is not observable) *)
Definition span_leb (a b : span) : bool :=
  if N.ltb (sline a) (sline b) then true
  else if N.ltb (sline b) (sline a) then false
  else if N.ltb (scol a) (scol b) then true
  else if N.ltb (scol b) (scol a) then false
  else N.leb (secol a) (secol b).

Fixpoint insert_span (x : span) (l : list span) : list span :=
  match l with
  | [] => [x]
  | y :: r => if span_leb x y then x :: l else y :: insert_span x r
  end.

Definition sort_spans (l : list span) : list span := fold_right insert_span [] l.

Definition wmsgs (label : string) (l : list span) : list message :=
  map (fun sp => mkmsg true label sp "" None) (sort_spans l).

(** the three warning loops of [aot] ([_] is never reported as undefined) *)
Definition warning_messages (v : valid_grammar) : list message :=
  wmsgs "Undefined" (map snd (filter (fun p => negb (String.eqb (fst p) "_")) (v_undefined v)))
  ++ wmsgs "Unused" (map snd (v_unused v))
  ++ wmsgs "Unused specialization" (map snd (v_unused_specs v)).
