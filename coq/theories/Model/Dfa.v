(** Mirror of [dfa::Inp], [dfa::DFA] and [tables::LookupTables] as plain data, plus the basic
    notions (step, run, acceptance) that several models and specifications share.

    - state, input, literal, command ids are [N];
    - [d_trans] mirrors [IndexMap<StateId, IndexMap<InpId, StateId>>] in insertion order;
    - [d_accepting] mirrors the [RoaringBitmap] (increasing);
    - [d_inputs] mirrors [InpInternPool]: the id of an input is its index;
    - the within-word automata ([DFAInternPool]) are kept beside the main automaton: within-word
      automata never contain further ones (the dump harness checks this). *)
From CG Require Import Base.Prelude.

Inductive inp :=
| ILit (text : string) (descr : option string) (level : N)
| ISub (sub : N) (level : N)
| ICmd (cmd : string) (level : N)
| ICompadd (cmd : string) (level : N)
| IStar.

Definition inp_eqb (a b : inp) : bool :=
  match a, b with
  | ILit t d l, ILit t' d' l' => String.eqb t t' && option_eqb String.eqb d d' && N.eqb l l'
  | ISub s l, ISub s' l' => N.eqb s s' && N.eqb l l'
  | ICmd c l, ICmd c' l' => String.eqb c c' && N.eqb l l'
  | ICompadd c l, ICompadd c' l' => String.eqb c c' && N.eqb l l'
  | IStar, IStar => true
  | _, _ => false
  end.

Definition inp_level (i : inp) : option N :=
  match i with
  | ILit _ _ l | ISub _ l | ICmd _ l | ICompadd _ l => Some l
  | IStar => None
  end.

Record dfa := mkdfa {
  d_start : N;
  d_trans : list (N * list (N * N));
  d_accepting : list N;
  d_inputs : list inp
}.

Record cdfa := mkcdfa { c_main : dfa; c_subs : list dfa }.

(** Transition on an input *id*. *)
Definition step (d : dfa) (s : N) (i : N) : option N :=
  match assocN s (d_trans d) with
  | Some tos => assocN i tos
  | None => None
  end.

Fixpoint run (d : dfa) (s : N) (w : list N) : option N :=
  match w with
  | [] => Some s
  | i :: r => match step d s i with Some t => run d t r | None => None end
  end.

Definition is_accepting (d : dfa) (s : N) : bool := memN s (d_accepting d).

Definition accepts_from (d : dfa) (s : N) (w : list N) : bool :=
  match run d s w with Some t => is_accepting d t | None => false end.

Definition accepts (d : dfa) (w : list N) : bool := accepts_from d (d_start d) w.

(** All states mentioned by a transition (as source or target) plus the start state. *)
Definition trans_states (d : dfa) : list N :=
  flat_map (fun p => fst p :: map snd (snd p)) (d_trans d).

(** *** LookupTables *)
Record tables := mktables {
  t_literals : list (N * string * string);              (* (id, text, description or "") *)
  t_mlit : list (N * list (N * N));                     (* state -> literal id -> state *)
  t_mcmd : option (list (N * list (N * N)));
  t_mcompadd : option (list (N * list (N * N)));
  t_mstar : option (list (N * N));
  t_maxlevel : N;
  t_clit : list (list (N * list N));                    (* level -> state -> literal ids *)
  t_ccmd : option (list (list (N * list N)));
  t_ccompadd : option (list (list (N * list N)))
}.

Record alltables := mkall {
  a_commands : list string;
  a_states : list N;
  a_main : tables;
  a_subtrans : list (N * list (N * N));                 (* state -> within-word id -> state *)
  a_csub : list (list (N * list N));                    (* level -> state -> within-word ids *)
  a_subwords : list (N * N * tables);                   (* (pool index, script id, tables) *)
  a_subaccepting : list (N * list N)                    (* script id -> accepting states of that within-word automaton (+ array base) *)
}.
