(** Structural equality of automata as used for interning ([impl PartialEq for DFA] after the
    repair of the input-pool comparison): start, transitions, accepting states and the input
    pool, all IN ORDER.  Properties: Proofs/DfaEq.v. *)
From CG Require Import Base.Prelude Model.Dfa.

Fixpoint list_eqb {A} (eqb : A -> A -> bool) (l1 l2 : list A) : bool :=
  match l1, l2 with
  | [], [] => true
  | x :: r, y :: s => eqb x y && list_eqb eqb r s
  | _, _ => false
  end.

Definition pairN_eqb (a b : N * N) : bool := N.eqb (fst a) (fst b) && N.eqb (snd a) (snd b).
Definition row_eqb (a b : N * list (N * N)) : bool :=
  N.eqb (fst a) (fst b) && list_eqb pairN_eqb (snd a) (snd b).

Definition dfa_eqb (a b : dfa) : bool :=
  N.eqb (d_start a) (d_start b)
  && list_eqb row_eqb (d_trans a) (d_trans b)
  && list_eqb N.eqb (d_accepting a) (d_accepting b)
  && list_eqb inp_eqb (d_inputs a) (d_inputs b).
