(** What the pipeline emits for the grammar family of C12

        cmd <pre>(<v1> | ... | <vn>) <next>;

    as a function of the literal array of the within-word automaton ([lits]: the piece [pre] and the values, in
    the order dfa.rs puts them: decreasing length) and the position [ipre] of the piece in it.
    The minimised automata are  0 --word--> 1 --next--> 2  and, inside the word,  0 --pre--> 1 --vi--> 2.
    lib/vf/checks/c12.py compares [chain_alltables] with cg-dump's TABLES for every grammar of the exhaustive
    family (Rust's own literal order is the oracle for [lits]); Proofs/C12Chain.v proves the end-to-end theorem
    for every [lits] in decreasing length. *)
From CG Require Import Base.Prelude Model.Dfa Model.BashSem.

Definition chain_vals (lits : list string) (ipre : N) : list (N * string) :=
  filter (fun x => negb (N.eqb (fst x) ipre)) (indexed_from 0 lits).

Definition chain_sub_tables (lits : list string) (ipre : N) : tables :=
  mktables (map (fun x => (fst x, snd x, EmptyString)) (indexed_from 0 lits))
           [(0, [(ipre, 1)]); (1, map (fun x => (fst x, 2)) (chain_vals lits ipre))]
           None None None 0
           [[(0, [ipre]); (1, map fst (chain_vals lits ipre))]]
           None None.

Definition chain_main_tables (next : string) : tables :=
  mktables [(0, next, EmptyString)] [(1, [(0, 2)])] None None None 0 [[(1, [0])]] None None.

Definition chain_alltables (lits : list string) (ipre : N) (next : string) : alltables :=
  mkall [] [0; 1; 2] (chain_main_tables next)
        [(0, [(0, 1)])] [[(0, [0])]] [(0, 0, chain_sub_tables lits ipre)] [(0, [2])].
