(** The whole of [complgen --bash] as ONE Gallina function from the source text to the script text:

      [compile_bash o builtins text]
        = [Driver.compile] (text -> parse -> check -> regex -> within-word automata -> subset
          construction -> minimise -> ambiguity check), then [Tables.all_tables Bash] (tables.rs and
          the dfa.rs getters), then [EmitBash.script] (bash.rs).

    The only things the source code does not determine are the choices it leaves to hash tables
    and to an unstable sort; they are the fields of [oracles], and each is validated by the model:

    - [o_pops]: which element of the [unmarked_states] hash set [iter().next()] yields, for the
      main regex and for every within-word regex: a finite table (number of states popped so
      far, work-list in insertion order) -> index popped.  [Driver.compile] is parametric in
      the choice function and its theorems hold for every one; a table that does not mention a
      situation pops the first element.  The correspondence check builds the table from the row
      order of Rust's raw automata (rows are in pop order) and the raw and minimised automata,
      hence the script, then have to coincide exactly;
    - [o_main_lits], [o_sub_lits]: the order of literals of equal (length, text) rank left open by
      [sort_unstable_by], validated by [Tables.valid_literal_order];
    - [o_groups]: the order of the shape groups of within-word automata ([shape_hash] order),
      validated by [EmitBash.valid_grouping];
    - [o_sig]: the text after "# " on the first line (complgen's version, [git describe] at build
      time);
    - [o_fuel]: the fuel of the subset construction (the one loop of the pipeline whose bound is
      not computed by the model; see [PipelineTotal.fuel_covers]).

    An oracle that fails its validation is an error value of its own ([CBadOracle]), never a
    script. *)
From CG Require Import Base.Prelude Model.Ast Model.Check Model.Regex Model.Dfa Model.Subset Model.Driver.
From CG Require Import Model.Tables Model.EmitBash.

Record oracles := mkoracles {
  o_pops : list (nat * list (list N) * nat);
  o_fuel : nat;
  o_main_lits : list (string * string);
  o_sub_lits : list (N * list (string * string));
  o_groups : list (list N);
  o_sig : string
}.

Fixpoint sets_eqb (a b : list (list N)) : bool :=
  match a, b with
  | [], [] => true
  | x :: r, y :: r' => listN_eqb x y && sets_eqb r r'
  | _, _ => false
  end.

(** replay of a recorded pop order: the entry for (step, work-list), else the first element *)
Fixpoint pick_table (tbl : list (nat * list (list N) * nat)) (step : nat) (todo : list (list N)) : nat :=
  match tbl with
  | [] => O
  | (s, t, i) :: r => if Nat.eqb s step && sets_eqb t todo then i else pick_table r step todo
  end.

Inductive cerror :=
| CDriver (e : derror)       (* the grammar is rejected: parse / check / regex / ambiguity error *)
| CBadOracle.                (* a literal order or the shape grouping fails its validation *)

Definition cres := outcome cerror.

(** the literal order used for the within-word automaton with pool index [i] *)
Definition ord_for (os : list (N * list (string * string))) (i : N) : list (string * string) :=
  match assocN i os with Some o => o | None => [] end.

(** every literal order is valid: the main one, every listed one ([Tables.valid_orders]), and the one
    used for every within-word automaton of the pool (a missing entry means the empty order) *)
Definition orders_ok (c : cdfa) (om : list (string * string)) (os : list (N * list (string * string))) : bool :=
  valid_orders c om os
  && forallb (fun isd => valid_literal_order (snd isd) (ord_for os (fst isd))) (number_from 0 (c_subs c)).

(** [Tables.all_tables Bash] then [EmitBash.script], behind the validation of the oracles *)
Definition emit_bash (o : oracles) (v : valid_grammar) (c : cdfa) : cres string :=
  if orders_ok c (o_main_lits o) (o_sub_lits o) then
    match all_tables Bash c (o_main_lits o) (o_sub_lits o) with
    | Ok (nd, a) =>
        if valid_grouping a (o_groups o) then
          match script (v_command v) (o_sig o) (d_start (c_main c)) nd a (o_groups o) with
          | Ok s => Ok s
          | Err _ => Panic "emit: impossible error"
          | Panic site => Panic site
          | OutOfFuel => OutOfFuel
          end
        else Err CBadOracle
    | Err _ => Panic "tables: impossible error"
    | Panic site => Panic site
    | OutOfFuel => OutOfFuel
    end
  else Err CBadOracle.

Definition compile_bash (o : oracles) (builtins : shell -> list (string * string)) (text : string)
  : cres string :=
  match compile (pick_table (o_pops o)) (o_fuel o) builtins text Bash with
  | Ok (v, c) => emit_bash o v c
  | Err e => Err (CDriver e)
  | Panic site => Panic site
  | OutOfFuel => OutOfFuel
  end.

(** ** the other three shells, as far as the emitter models go

    [EmitData] models the DATA SECTIONS of the fish, zsh and pwsh scripts (command functions,
    within-word wrapper / shape functions, the two data sections of the completion function); the
    fixed skeleton between them is not modelled.  [compile_data sh] = [Driver.compile ... sh] ;
    [Tables.all_tables sh] ; [EmitData.{Z,P,F}.data], behind the same validation of the oracles
    (which are those of the run for THAT shell: the validated tree, hence the automata, their pop
    orders, literal lists and shape groups depend on the shell through [<X@shell>] definitions). *)
From CG Require Import Model.EmitData.

Definition data_blocks (sh : shell) (command : string) (nd : needs) (a : alltables) (groups : list (list N))
  : Tables.res blocks :=
  match sh with
  | Zsh => Z.data command nd a groups
  | Pwsh => P.data command nd a groups
  | Fish => F.data command nd a groups
  | Bash => Ok []
  end.

Definition emit_data (sh : shell) (o : oracles) (v : valid_grammar) (c : cdfa) : cres blocks :=
  if orders_ok c (o_main_lits o) (o_sub_lits o) then
    match all_tables sh c (o_main_lits o) (o_sub_lits o) with
    | Ok (nd, a) =>
        if valid_grouping a (o_groups o) then
          match data_blocks sh (v_command v) nd a (o_groups o) with
          | Ok bs => Ok bs
          | Err _ => Panic "emit: impossible error"
          | Panic site => Panic site
          | OutOfFuel => OutOfFuel
          end
        else Err CBadOracle
    | Err _ => Panic "tables: impossible error"
    | Panic site => Panic site
    | OutOfFuel => OutOfFuel
    end
  else Err CBadOracle.

Definition compile_data (sh : shell) (o : oracles) (builtins : shell -> list (string * string)) (text : string)
  : cres blocks :=
  match compile (pick_table (o_pops o)) (o_fuel o) builtins text sh with
  | Ok (v, c) => emit_data sh o v c
  | Err e => Err (CDriver e)
  | Panic site => Panic site
  | OutOfFuel => OutOfFuel
  end.
