(** Model of [check.rs] ([ValidGrammar::from_grammar]) and of [parse.rs::get_specializations],
    pass by pass, on trees.

    Deviations from the letter of the Rust, each extensionally irrelevant and tied by T1:
    - no arena: passes rebuild trees instead of allocating nodes;
    - the "used"/"unused" bookkeeping that the Rust threads through [specialize_nonterminals] and
      [resolve_nonterminals] as mutable maps is computed from the set of references met (every
      [NontermRef] of every plain definition and of the call variants is visited exactly once by
      [specialize_nonterminals], which removes the name and marks the specialisation used before
      anything else happens);
    - hash-map iteration orders (roots of the dependency search, children of a vertex) are fixed to
      source order; they are unobservable on acyclic grammars and only select *which* cycle is
      reported otherwise. *)
From CG Require Import Base.Prelude Model.Ast.

Inductive cerror :=
| MissingCallVariants
| VaryingCommandNames (spans : list span)
| InvalidCommandName (sp : span)
| DuplicateNonterminalDefinition (first second : span)
| UnknownShell (sp : span)
| NonCommandSpecialization (sp : span)
| NonterminalDefinitionsCycle (spans : list span)
| SubwordSpaces (left right : span) (trace : list span).

Definition res := outcome cerror.

Record defn := mkdefn { d_name : string; d_span : span; d_rhs : expr }.

Record valid_grammar := mkvalid {
  v_command : string;
  v_expr : expr;
  v_undefined : list (string * span);
  v_unused : list (string * span);
  v_unused_specs : list (string * span)
}.

(** *** Statement views *)

Definition call_variants (g : grammar) : list (string * span * expr) :=
  flat_map (fun s => match s with
                     | CallVariant n sp e => [(n, sp, e)]
                     | NontermDef _ _ _ _ => []
                     end) g.

(** [stable_dedup_by] on the command name. *)
Fixpoint dedup_names (seen : list string) (l : list (string * span)) : list (string * span) :=
  match l with
  | [] => []
  | (n, sp) :: r =>
      if mem_str n seen then dedup_names seen r else (n, sp) :: dedup_names (n :: seen) r
  end.

(** *** distribute_descriptions: the pending description is a state threaded left to right. *)
Fixpoint distribute (e : expr) (d : option string) : expr * option string :=
  match e with
  | DistDescr c descr _ => (fst (distribute c (Some descr)), d)
  | Terminal t None l sp =>
      match d with
      | Some x => (Terminal t (Some x) l sp, None)
      | None => (e, d)
      end
  | Terminal _ (Some _) _ _ => (e, d)
  | NontermRef _ _ _ | Command _ _ _ _ => (e, d)
  | Sequence cs sp =>
      let fix go (l : list expr) (d : option string) : list expr * option string :=
        match l with
        | [] => ([], d)
        | c :: r => let (c', d1) := distribute c d in
                    let (r', d2) := go r d1 in (c' :: r', d2)
        end in
      let (cs', d') := go cs d in (Sequence cs' sp, d')
  | Fallback cs sp =>
      let fix go (l : list expr) (d : option string) : list expr * option string :=
        match l with
        | [] => ([], d)
        | c :: r => let (c', d1) := distribute c d in
                    let (r', d2) := go r d1 in (c' :: r', d2)
        end in
      let (cs', d') := go cs d in (Fallback cs' sp, d')
  | Alternative cs sp => (Alternative (map (fun c => fst (distribute c d)) cs) sp, d)
  | Optional c sp => let (c', d') := distribute c d in (Optional c' sp, d')
  | Many1 c sp => let (c', d') := distribute c d in (Many1 c' sp, d')
  | Subword c l sp => let (c', d') := distribute c d in (Subword c' l sp, d')
  end.

Definition distribute_descriptions (e : expr) : expr := fst (distribute e None).

(** *** get_specializations (parse.rs) *)

Record user_spec := mkspec { us_cmd : string; us_span : span }.

Definition all_defs (g : grammar) : list (string * span * option (string * span) * expr) :=
  flat_map (fun s => match s with
                     | NontermDef n sp sh rhs => [(n, sp, sh, rhs)]
                     | CallVariant _ _ _ => []
                     end) g.

Fixpoint get_user_specs (target : shell)
         (ds : list (string * span * option (string * span) * expr))
         (acc : list (string * user_spec)) : res (list (string * user_spec)) :=
  match ds with
  | [] => Ok acc
  | (n, nsp, None, _) :: r => get_user_specs target r acc
  | (n, nsp, Some (shn, shsp), rhs) :: r =>
      match rhs with
      | Command cmd _ _ _ =>
          match shell_of_string shn with
          | None => Err (UnknownShell shsp)
          | Some sh =>
              if shell_eqb sh target then
                match assoc n acc with
                | Some prev => Err (DuplicateNonterminalDefinition (us_span prev) nsp)
                | None => get_user_specs target r (acc ++ [(n, mkspec cmd nsp)])
                end
              else get_user_specs target r acc
          end
      | _ => Err (NonCommandSpecialization (expr_span rhs))
      end
  end.

Fixpoint get_fallback_specs (specialized : list string)
         (ds : list (string * span * option (string * span) * expr))
         (acc : list (string * (string * span))) : res (list (string * (string * span))) :=
  match ds with
  | [] => Ok acc
  | (n, nsp, Some _, _) :: r => get_fallback_specs specialized r acc
  | (n, nsp, None, rhs) :: r =>
      if mem_str n specialized then
        match rhs with
        | Command cmd _ _ _ =>
            match assoc n acc with
            | Some (_, prev) => Err (DuplicateNonterminalDefinition prev nsp)
            | None => get_fallback_specs specialized r (acc ++ [(n, (cmd, nsp))])
            end
        | _ => Err (NonCommandSpecialization (expr_span rhs))
        end
      else get_fallback_specs specialized r acc
  end.

Definition get_specializations (g : grammar) (target : shell)
  : res (list (string * user_spec) * list (string * (string * span))) :=
  do us <- get_user_specs target (all_defs g) [];
  do fs <- get_fallback_specs (map fst us) (all_defs g) [];
  Ok (us, fs).

(** *** specialize_nonterminals.  [builtins] is the table of [make_builtin_specializations] for
    the target shell (regenerated from the source by the translator). *)
Section Specialize.
  Variable target : shell.
  Variable user_specs : list (string * user_spec).
  Variable builtins : list (string * string).
  Variable fallbacks : list (string * (string * span)).
  Variable plain : list string.   (* names that have a plain definition *)

  Definition is_zsh : bool := shell_eqb target Zsh.

  (** Lookup order: definition for the target shell, then the plain definition (as a command
      when the name is specialised for the target, otherwise left for [resolve]), then the
      built-in, then "any word". *)
  Definition specialize_ref (n : string) (l : N) (sp : span) : expr :=
    match assoc n user_specs with
    | Some s => Command (us_cmd s) is_zsh l sp
    | None =>
        match assoc n fallbacks with
        | Some (cmd, _) => Command cmd false l sp
        | None =>
            if mem_str n plain then NontermRef n l sp else
            match assoc n builtins with
            | Some cmd => Command cmd is_zsh l sp
            | None => NontermRef n l sp
            end
        end
    end.

  Fixpoint specialize (e : expr) : expr :=
    match e with
    | Terminal _ _ _ _ | Command _ _ _ _ => e
    | NontermRef n l sp => specialize_ref n l sp
    | Subword c l sp => Subword (specialize c) l sp
    | Sequence cs sp => Sequence (map specialize cs) sp
    | Alternative cs sp => Alternative (map specialize cs) sp
    | Fallback cs sp => Fallback (map specialize cs) sp
    | Optional c sp => Optional (specialize c) sp
    | Many1 c sp => Many1 (specialize c) sp
    | DistDescr c d sp => DistDescr (specialize c) d sp
    end.
End Specialize.

(** Names of all [NontermRef]s, in traversal order (with repetitions), with the span of each.
    Mirrors [do_get_nonterm_refs], which does not look below a [DistributiveDescription]. *)
Fixpoint nonterm_refs (e : expr) : list (string * span) :=
  match e with
  | Terminal _ _ _ _ | Command _ _ _ _ => []
  | NontermRef n _ sp => [(n, sp)]
  | Subword c _ _ | Optional c _ | Many1 c _ => nonterm_refs c
  | Sequence cs _ | Alternative cs _ | Fallback cs _ => flat_map nonterm_refs cs
  | DistDescr _ _ _ => []
  end.

(** [UstrMap::insert] keeps the last span for a name; iteration order is irrelevant downstream,
    so the map is kept in first-occurrence order. *)
Fixpoint refs_map (l : list (string * span)) (acc : list (string * span)) : list (string * span) :=
  match l with
  | [] => acc
  | (n, sp) :: r =>
      let acc' := if mem_str n (map fst acc)
                  then map (fun p => if String.eqb (fst p) n then (n, sp) else p) acc
                  else acc ++ [(n, sp)] in
      refs_map r acc'
  end.

Definition get_nonterm_refs (e : expr) : list (string * span) := refs_map (nonterm_refs e) [].

(** *** Resolution order: depth-first post-order over the dependency graph, cycle = a child that
    is on the current path.  Every vertex is eventually used as a search root (first those nobody
    depends on, then whatever is still unvisited), so every cycle is found. *)
Section Order.
  Variable graph : list (string * list (string * span)).

  Definition children (v : string) : list (string * span) :=
    match assoc v graph with Some c => c | None => [] end.

  Record dfs_state := mkdfs { visited : list string; order : list string }.

  (** [path] is the current search path, innermost last. *)
  Fixpoint dfs (fuel : nat) (v : string) (path : list (string * span)) (st : dfs_state)
    : res dfs_state :=
    match fuel with
    | O => OutOfFuel
    | S fuel' =>
        let st0 := mkdfs (v :: visited st) (order st) in
        (fix each (cs : list (string * span)) (st : dfs_state) : res dfs_state :=
           match cs with
           | [] => Ok st
           | (c, sp) :: r =>
               if mem_str c (map fst path) then
                 Err (NonterminalDefinitionsCycle (map snd (path ++ [(v, sp)])))
               else if mem_str c (visited st) then each r st
               else
                 do st1 <- dfs fuel' c (path ++ [(c, sp)]) st;
                 each r (mkdfs (visited st1) (order st1 ++ [c]))
           end) (children v) st0
    end.

  Definition indegree_zero (v : string) : bool :=
    negb (existsb (fun p => mem_str v (map fst (snd p))) graph).

  Fixpoint search_roots (fuel : nat) (roots : list (string * span)) (st : dfs_state)
    : res dfs_state :=
    match roots with
    | [] => Ok st
    | (v, vsp) :: r =>
        if mem_str v (visited st) then search_roots fuel r st
        else
          do st1 <- dfs fuel v [(v, vsp)] st;
          search_roots fuel r (mkdfs (visited st1) (order st1 ++ [v]))
    end.
End Order.

Definition resolution_order (defs : list defn) : res (list string) :=
  let names := map d_name defs in
  let graph := map (fun d => (d_name d,
                              filter (fun p => mem_str (fst p) names)
                                     (get_nonterm_refs (d_rhs d)))) defs in
  let verts := map (fun d => (d_name d, d_span d)) defs in
  let roots := filter (fun p => indegree_zero graph (fst p)) verts in
  let fuel := S (List.length defs) in
  do st <- search_roots graph fuel (roots ++ verts) (mkdfs [] []);
  Ok (filter (fun v => match children graph v with [] => false | _ => true end) (order st)).

(** *** resolve_nonterminals *)
Fixpoint resolve (defs : list (string * expr)) (e : expr) : expr :=
  match e with
  | Terminal _ _ _ _ | Command _ _ _ _ => e
  | NontermRef n _ _ => match assoc n defs with Some rhs => rhs | None => e end
  | Subword c l sp => Subword (resolve defs c) l sp
  | Sequence cs sp => Sequence (map (resolve defs) cs) sp
  | Alternative cs sp => Alternative (map (resolve defs) cs) sp
  | Fallback cs sp => Fallback (map (resolve defs) cs) sp
  | Optional c sp => Optional (resolve defs c) sp
  | Many1 c sp => Many1 (resolve defs c) sp
  | DistDescr c d sp => DistDescr (resolve defs c) d sp
  end.

Definition update_def (n : string) (rhs : expr) (defs : list (string * expr))
  : list (string * expr) :=
  map (fun p => if String.eqb (fst p) n then (n, rhs) else p) defs.

Fixpoint resolve_in_order (ord : list string) (defs : list (string * expr))
  : list (string * expr) :=
  match ord with
  | [] => defs
  | n :: r =>
      match assoc n defs with
      | Some rhs => resolve_in_order r (update_def n (resolve defs rhs) defs)
      | None => resolve_in_order r defs
      end
  end.

(** *** check_subword_spaces (follows references itself, on the not yet resolved root) *)

(** [expr_get_head] / [expr_get_tail]: the leaf an expression starts / ends with.  With
    [follow = Some defs] a reference that has a definition stands for that definition (the Rust
    recursion is unbounded, guarded by the cycle check: fuel here). *)
Definition last_opt (l : list expr) : option expr :=
  match rev l with [] => None | c :: _ => Some c end.

Section HeadTail.
  Variable follow : option (list (string * expr)).

  Definition followed (n : string) : option expr :=
    match follow with Some defs => assoc n defs | None => None end.

  Fixpoint expr_head (fuel : nat) (e : expr) : res expr :=
    match fuel with
    | O => OutOfFuel
    | S fuel' =>
        match e with
        | NontermRef n _ _ =>
            match followed n with Some rhs => expr_head fuel' rhs | None => Ok e end
        | Sequence (c :: _) _ => expr_head fuel' c
        | Subword c _ _ => expr_head fuel' c
        | _ => Ok e
        end
    end.

  Fixpoint expr_tail (fuel : nat) (e : expr) : res expr :=
    match fuel with
    | O => OutOfFuel
    | S fuel' =>
        match e with
        | NontermRef n _ _ =>
            match followed n with Some rhs => expr_tail fuel' rhs | None => Ok e end
        | Sequence cs _ =>
            match last_opt cs with Some c => expr_tail fuel' c | None => Ok e end
        | Subword c _ _ => expr_tail fuel' c
        | _ => Ok e
        end
    end.

  (** the first pair of consecutive items ending / starting with a literal *)
  Fixpoint adjacent_terminals (fuel : nat) (cs : list expr) : res (option (span * span)) :=
    match cs with
    | a :: ((b :: _) as r) =>
        do ta <- expr_tail fuel a;
        do hb <- expr_head fuel b;
        match ta, hb with
        | Terminal _ _ _ lsp, Terminal _ _ _ rsp => Ok (Some (lsp, rsp))
        | _, _ => adjacent_terminals fuel r
        end
    | _ => Ok None
    end.
End HeadTail.

Section SubwordSpaces.
  Variable defs : list (string * expr).

  (** [juxt]: [e] is the root of a word; if it is a sequence its items are juxtaposed (and may
      legitimately start with a literal through a reference: [--opt=<VALUE>]), every other
      sequence inside a word is space-separated. *)
  Fixpoint spaces (fuel : nat) (e : expr) (trace : list span) (within juxt : bool) : res unit :=
    match fuel with
    | O => OutOfFuel
    | S fuel' =>
        let all := fix all (l : list expr) : res unit :=
                     match l with
                     | [] => Ok tt
                     | c :: r => do _ <- spaces fuel' c trace within false; all r
                     end in
        match e with
        | Sequence cs _ =>
            do _ <- all cs;
            if within then
              do adj <- adjacent_terminals (if juxt then None else Some defs) fuel' cs;
              match adj with
              | Some (l, r) => Err (SubwordSpaces l r trace)
              | None => Ok tt
              end
            else Ok tt
        | Terminal _ _ _ _ | Command _ _ _ _ => Ok tt
        | NontermRef n _ sp =>
            match assoc n defs with
            | None => Ok tt
            | Some rhs => spaces fuel' rhs (trace ++ [sp]) within false
            end
        | Subword c _ _ => spaces fuel' c trace true true
        | Alternative cs _ | Fallback cs _ => all cs
        | Optional c _ | Many1 c _ => spaces fuel' c trace within false
        | DistDescr _ _ _ => Panic "check_subword_spaces: DistributiveDescription"
        end
    end.
End SubwordSpaces.

Fixpoint expr_size (e : expr) : nat :=
  match e with
  | Terminal _ _ _ _ | NontermRef _ _ _ | Command _ _ _ _ => 1
  | Sequence cs _ | Alternative cs _ | Fallback cs _ =>
      S (fold_right (fun c n => expr_size c + n) 0 cs)
  | Optional c _ | Many1 c _ | DistDescr c _ _ | Subword c _ _ => S (expr_size c)
  end%nat.

(** *** collapse_subwords / flatten_expr *)
Fixpoint flatten (e : expr) : expr :=
  match e with
  | Subword c _ _ => flatten c
  | Terminal _ _ _ _ | NontermRef _ _ _ | Command _ _ _ _ => e
  | Sequence cs sp => Sequence (map flatten cs) sp
  | Alternative cs sp => Alternative (map flatten cs) sp
  | Fallback cs sp => Fallback (map flatten cs) sp
  | Optional c sp => Optional (flatten c) sp
  | Many1 c sp => Many1 (flatten c) sp
  | DistDescr c d sp => DistDescr (flatten c) d sp
  end.

Fixpoint collapse (e : expr) : expr :=
  match e with
  | Subword c l sp => Subword (flatten c) l sp
  | Terminal _ _ _ _ | NontermRef _ _ _ | Command _ _ _ _ => e
  | Sequence cs sp => Sequence (map collapse cs) sp
  | Alternative cs sp => Alternative (map collapse cs) sp
  | Fallback cs sp => Fallback (map collapse cs) sp
  | Optional c sp => Optional (collapse c) sp
  | Many1 c sp => Many1 (collapse c) sp
  | DistDescr c d sp => DistDescr (collapse c) d sp
  end.

(** *** propagate_fallback_levels: every leaf gets the index of the innermost enclosing [||]
    branch (0 outside). *)
Fixpoint mapi_from {A B} (f : N -> A -> B) (i : N) (l : list A) : list B :=
  match l with
  | [] => []
  | x :: r => f i x :: mapi_from f (N.succ i) r
  end.

Fixpoint propagate (e : expr) (lvl : N) : expr :=
  match e with
  | Terminal t d _ sp => Terminal t d lvl sp
  | NontermRef n _ sp => NontermRef n lvl sp
  | Command c z _ sp => Command c z lvl sp
  | Fallback cs sp =>
      Fallback ((fix go (i : N) (l : list expr) : list expr :=
                   match l with
                   | [] => []
                   | c :: r => propagate c i :: go (N.succ i) r
                   end) 0 cs) sp
  | Sequence cs sp => Sequence (map (fun c => propagate c lvl) cs) sp
  | Alternative cs sp => Alternative (map (fun c => propagate c lvl) cs) sp
  | Optional c sp => Optional (propagate c lvl) sp
  | Many1 c sp => Many1 (propagate c lvl) sp
  | Subword c _ sp => Subword (propagate c lvl) lvl sp
  | DistDescr c d sp => DistDescr (propagate c lvl) d sp
  end.

(** *** from_grammar *)
Fixpoint collect_plain_defs (ds : list (string * span * option (string * span) * expr))
         (acc : list defn) : res (list defn) :=
  match ds with
  | [] => Ok acc
  | (n, nsp, Some _, _) :: r => collect_plain_defs r acc
  | (n, nsp, None, rhs) :: r =>
      match find (fun d => String.eqb (d_name d) n) acc with
      | Some dup => Err (DuplicateNonterminalDefinition (d_span dup) nsp)
      | None => collect_plain_defs r (acc ++ [mkdefn n nsp rhs])
      end
  end.

Definition slash : ascii := "/"%char.

Definition from_grammar (builtins : shell -> list (string * string)) (g : grammar) (sh : shell)
  : res valid_grammar :=
  let cvs := call_variants g in
  match dedup_names [] (map (fun x => (fst (fst x), snd (fst x))) cvs) with
  | [] => Err MissingCallVariants
  | (command, command_span) :: more =>
      match more with
      | _ :: _ => Err (VaryingCommandNames (command_span :: map snd more))
      | [] =>
          if contains_char slash command then Err (InvalidCommandName command_span) else
          let expr0 := match map snd cvs with
                       | [e] => e
                       | es => Alternative es (match es with e :: _ => expr_span e
                                                        | [] => mkspan 0 0 0 end)
                       end in
          do defs0 <- collect_plain_defs (all_defs g) [];
          let defs1 := map (fun d => mkdefn (d_name d) (d_span d)
                                            (distribute_descriptions (d_rhs d))) defs0 in
          let expr1 := distribute_descriptions expr0 in
          do specs <- get_specializations g sh;
          let (user_specs, fallbacks) := specs in
          let spec := specialize sh user_specs (builtins sh) fallbacks (map d_name defs1) in
          let referenced := map fst (flat_map (fun d => nonterm_refs (d_rhs d)) defs1
                                              ++ nonterm_refs expr1) in
          let defs2 := map (fun d => mkdefn (d_name d) (d_span d) (spec (d_rhs d))) defs1 in
          let expr2 := spec expr1 in
          let unused := filter (fun p => negb (mem_str (fst p) referenced))
                               (map (fun d => (d_name d, d_span d)) defs1) in
          let unused_specs := filter (fun p => negb (mem_str (fst p) referenced))
                                     (map (fun p => (fst p, us_span (snd p))) user_specs) in
          do ord <- resolution_order defs2;
          let table := resolve_in_order ord (map (fun d => (d_name d, d_rhs d)) defs2) in
          let fuel := S (fold_right (fun p n => expr_size (snd p) + n)
                                    (expr_size expr2) table)%nat in
          do _ <- spaces table (fuel * S (List.length table)) expr2 [] false false;
          let expr3 := resolve table expr2 in
          let expr4 := collapse expr3 in
          let expr5 := propagate expr4 0 in
          Ok (mkvalid command expr5 (get_nonterm_refs expr5) unused unused_specs)
      end
  end.
