(** Model of src/fish.rs [write_completion_script]: the WHOLE fish script, from the templates the
    translator regenerates (coq/gen/TplFish.v) and the data printers of [EmitData.F].  [write!] = [fmt],
    [writeln!] = [fmtln].  Parameters that are not computed here: the signature line, the literal orders
    (inside the tables) and the order of the shape groups (DESIGN 4.3), as for bash. *)
From CG Require Import Base.Prelude Model.Ast Model.Dfa Model.Tpl Model.Quote Model.Tables Model.EmitBash Model.EmitData.
From CGgen Require Import Consts.
From CGgen Require TplFish.
Import TplFish.
Open Scope N_scope.
Open Scope list_scope.

Definition env_cmd (command : string) : list (string * string) :=
  [("command", command); ("MATCH_FN_NAME", match_fn_name_fish)].

Definition write_subword_fn (command : string) (nc ns : bool) : string :=
  let env := env_cmd command in
  sconcat [ fmt write_subword_fn_0 env; fmt write_subword_fn_1 env;
            (if nc then fmt write_subword_fn_2 env else EmptyString);
            (if ns then fmt write_subword_fn_3 env else EmptyString);
            fmt write_subword_fn_4 env; fmt write_subword_fn_5 env;
            (if nc then fmt write_subword_fn_6 env else EmptyString);
            fmt write_subword_fn_7 env ].

Definition group_text (command : string) (a : alltables) (sid : N) (group : list N) : res string :=
  group_block (F.wrapper command) (F.shape_fn command) (F.shape_wrapper command) a sid group.

Definition script (command sig : string) (start_state : N) (nd : needs) (a : alltables)
           (groups : list (list N)) : res string :=
  let env := env_cmd command in
  let main := a_main a in
  let st := F.st in
  let msc := F.msc in
  do groups_part <-
    (if n_subwords nd then
       do gs <- omap (fun ig => group_text command a (fst ig) (snd ig)) (number_from 0 groups);
       Ok (sconcat gs)
     else Ok EmptyString);
  do rows <- (if n_subwords nd then resolve_rows a else Ok []);
  Ok (sconcat [
    append "# " (append sig nl); nl;
    sconcat (map (fun ic => fmt write_completion_script_0 (("id", sN (fst ic)) :: ("cmd", snd ic) :: env))
                 (number_from 0 (a_commands a)));
    groups_part;
    fmtln write_match_fn_0 env;
    (if n_subwords nd then write_subword_fn command (n_sub_cmd nd) (n_sub_star nd) else EmptyString);
    nl;
    fmt write_completion_script_1 env; fmt write_completion_script_2 env; fmt write_completion_script_3 env;
    fmtln write_completion_script_4 []; fmtln write_completion_script_5 [];
    F.write_literals false (t_literals main);
    fmtln write_completion_script_6 []; fmtln write_completion_script_7 [];
    fmtln write_completion_script_8 []; fmtln write_completion_script_9 [];
    F.write_matching_tables false main;
    (if n_subwords nd then
       sconcat (map (fun row =>
                       append (fmtln write_completion_script_10
                                 [("0", sN (fst row + st)); ("1", msc (join " " (map (fun p => sN (fst p)) (snd row))))])
                              (fmtln write_completion_script_11
                                 [("0", sN (fst row + st)); ("1", msc (join " " (map (fun p => sN (snd p + st)) (snd row))))]))
                    rows)
     else EmptyString);
    fmt write_completion_script_12 (("starting_state", sN (start_state + st)) :: env);
    (if n_subwords nd then fmt write_completion_script_13 env else EmptyString);
    (if n_top_cmd nd then fmt write_completion_script_14 env else EmptyString);
    (if n_top_star nd then fmt write_completion_script_15 env else EmptyString);
    fmt write_completion_script_16 env; nl;
    F.write_completion_tables false main;
    (if n_subwords nd then
       sconcat (map (fun kl =>
                       append (fmtln write_completion_script_17
                                 [("level", sN (fst kl)); ("froms_initializer", join " " (map (fun r => sN (fst r + st)) (snd kl)))])
                              (fmtln write_completion_script_19
                                 [("level", sN (fst kl));
                                  ("subwords_initializer",
                                   join " " (map (fun r => fmt write_completion_script_18 [("0", join " " (map sN (snd r)))]) (snd kl)))]))
                    (number_from 0 (a_csub a)))
     else EmptyString);
    fmt write_completion_script_20 (("max_fallback_level", sN (t_maxlevel main)) :: env);
    (if n_subwords nd then fmt write_completion_script_21 env else EmptyString);
    (if n_top_cmd nd then fmt write_completion_script_22 env else EmptyString);
    fmtln write_completion_script_23 env;
    fmtln write_completion_script_24 env;
    fmtln write_completion_script_25 env ]).

Definition script_of_dfa (command sig : string) (c : cdfa) (ord_main : list (string * string))
           (ord_subs : list (N * list (string * string))) (groups : list (list N)) : res (string * bool) :=
  do na <- all_tables Fish c ord_main ord_subs;
  do s <- script command sig (d_start (c_main c)) (fst na) (snd na) groups;
  Ok (s, valid_orders c ord_main ord_subs && valid_grouping (snd na) groups).
