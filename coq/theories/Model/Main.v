(** The observable behaviour of the [complgen] command ([main.rs]: [main], [aot], [handle_error],
    [get_file_or_stdin], [get_file_or_stdout]) as ONE Gallina function: from the parsed command
    line, the content of the usage file and the oracles of [Model/Compiler.v] to the trace of
    effects, in program order:

      [Stdout] (only [--version]), [Stderr] messages, [Write] (a destination is created --
      [File::create] truncates -- and written, or standard output is written when the path is [-]),
      and the final [Exit].

    The stages are those of [Driver.compile], re-composed here because [main.rs] interleaves them
    with effects ([Proofs/MainRun.v], [compile_unfold]: the composition is [Driver.compile]).  The order of main.rs:
    [--version]; missing usage path; the usage file is read; [Grammar::parse]; only THEN the
    "exactly one of --bash/--fish/--zsh/--pwsh" test; [from_grammar]; [Regex::from_valid_grammar];
    the three sorted warning loops; the [--regex] file; [DFA::from_regex_raw] (which compiles,
    minimises and checks every within-word automaton); [minimize]; the [--dfa] file;
    [check_ambiguity_best_effort]; the script destination is created; (zsh: the file-name warning;)
    the script is written; exit 0.  Every [handle_error] ends in [exit(1)].

    Not modelled: clap's own rejection of a malformed command line (exit 2); failures of
    [File::create] / writes (the destinations are assumed writable; an [anyhow] error would print
    [Error: ..] and exit 1); the text of the two Graphviz files ([Model/Dot.v] has it) and of the
    fish / zsh / pwsh scripts (opaque tokens; the bash script is [Compiler.emit_bash]). *)
From CG Require Import Base.Prelude Model.Ast Model.Lexer Model.Parser Model.Check Model.Regex.
From CG Require Import Model.Dfa Model.Subset Model.Minimize Model.Ambiguity Model.Driver Model.Diag Model.Compiler.

Record cli_args := mkargs {
  a_version : bool;
  a_usage : option string;
  a_bash : option string;
  a_fish : option string;
  a_zsh : option string;
  a_pwsh : option string;
  a_regex : option string;
  a_dfa : option string
}.

Inductive content :=
| CBash (script : string)                                  (* [bash::write_completion_script] *)
| COpaque (sh : shell) (v : valid_grammar) (c : cdfa).     (* the fish / zsh / pwsh emitters *)

Inductive fkind := KRegexDot | KDfaDot | KScript (c : content).

Inductive dest := ToStdout | ToFile (path : string).

Definition dest_of (path : string) : dest := if String.eqb path "-" then ToStdout else ToFile path.

Inductive smsg :=
| SMissingUsage                               (* "Missing usage file path argument" *)
| SCannotRead (path : string)                 (* anyhow: "Error: <path>" + cause (missing file, not UTF-8) *)
| SExactlyOne                                 (* "Please specify exactly one of: --bash, --fish, --zsh, --pwsh" *)
| SLocated (m : message) (r : rendered)       (* ErrMsg / WarnMsg [into_string] *)
| SPlain (s : string)                         (* [eprintln!("{}", e)] of an error without location *)
| SAmbiguity (e : aerror) (command : string)  (* "error: DFA Ambiguity:" / "error: Conflicting descriptions:" *)
| SZshName (expected : string).               (* "warning: ZSH requires the output script to be named .." *)

Inductive effect :=
| Stdout (s : string)
| Stderr (m : smsg)
| Write (d : dest) (k : fkind)
| Exit (code : N).

Inductive run_error := BadOracle.   (* a literal order / shape grouping of the oracles fails its validation *)

Definition trace := list effect.
Definition rres := outcome run_error.

(** the match on the four shell options *)
Definition select_shell (a : cli_args) : option (shell * string) :=
  match a_bash a, a_fish a, a_zsh a, a_pwsh a with
  | Some p, None, None, None => Some (Bash, p)
  | None, Some p, None, None => Some (Fish, p)
  | None, None, Some p, None => Some (Zsh, p)
  | None, None, None, Some p => Some (Pwsh, p)
  | _, _, _, _ => None
  end.

(** [ErrMsg::error] / [WarnMsg::warning] + [into_string] for a list of messages *)
Fixpoint render_all (path source : string) (ms : list message) : rres trace :=
  match ms with
  | [] => Ok []
  | m :: rest =>
      match render path source (m_span m) with
      | Ok r => do tl <- render_all path source rest; Ok (Stderr (SLocated m r) :: tl)
      | Err _ => Panic "render: impossible error"
      | Panic s => Panic s
      | OutOfFuel => OutOfFuel
      end
  end.

Definition MISSING_CALL_VARIANTS : string := "Grammar needs to contain at least one call variant, e.g. grep;".

(** [handle_error]: what is printed, then [exit(1)] *)
Definition fail_with (upath source command : string) (e : derror) : rres trace :=
  match e with
  | DCheck MissingCallVariants => Ok [Stderr (SPlain MISSING_CALL_VARIANTS); Exit 1]
  | DAmb ae => Ok [Stderr (SAmbiguity ae command); Exit 1]
  | DSubset _ => Panic "from_regex_raw: within-word automaton missing"
  | _ => do ms <- render_all upath source (error_messages e); Ok (ms ++ [Exit 1])
  end.

Definition opt_write (p : option string) (k : fkind) : trace :=
  match p with Some path => [Write (dest_of path) k] | None => [] end.

(** [DFA::from_regex_raw]: the within-word automata, then the subset construction *)
Definition stage_raw (pick : nat -> list (list N) -> nat) (fuel : nat) (r : regex) (pl : pool)
  : dres (dfa * list dfa) :=
  do cs <- compile_subs pick fuel (r_inputs r) pl [] [];
  let (submap, subs) := cs in
  do raw <- lift DSubset (dfa_from_regex pick fuel submap r);
  Ok (fst raw, subs).

(** [Path::file_name] for the zsh check: the last component (trailing slashes ignored; [..] has none) *)
Fixpoint last_component (cur : string) (s : string) : string :=
  match s with
  | EmptyString => cur
  | String c r =>
      if Ascii.eqb c (ascii_of_N 47) then (match r with EmptyString => cur | _ => last_component EmptyString r end)
      else last_component (append cur (String c EmptyString)) r
  end.

Definition file_name (path : string) : string :=
  let n := last_component EmptyString path in
  if String.eqb n ".." then EmptyString else n.

Definition zsh_warning (sh : shell) (path command : string) : trace :=
  match sh with
  | Zsh =>
      let expected := append "_" command in
      if negb (String.eqb path "-") && negb (String.eqb (file_name path) expected)
      then [Stderr (SZshName expected)] else []
  | _ => []
  end.

Section Run.
  Variable builtins : shell -> list (string * string).
  Variable o : oracles.
  Variable version : string.

  Let pick := pick_table (o_pops o).
  Let fuel := o_fuel o.

  Definition script_content (sh : shell) (v : valid_grammar) (c : cdfa) : rres content :=
    match sh with
    | Bash =>
        match emit_bash o v c with
        | Ok s => Ok (CBash s)
        | Err CBadOracle => Err BadOracle
        | Err (CDriver _) => Panic "emit_bash: impossible error"
        | Panic s => Panic s
        | OutOfFuel => OutOfFuel
        end
    | _ => Ok (COpaque sh v c)
    end.

  (** after the warnings: [--regex], raw automaton, minimise, [--dfa], ambiguity check, script *)
  Definition after_warnings (a : cli_args) (upath text : string)
             (sh : shell) (path : string) (v : valid_grammar) (r : regex) (pl : pool) : rres trace :=
    let t1 := opt_write (a_regex a) KRegexDot in
    match stage_raw pick fuel r pl with
    | Err e => do f <- fail_with upath text (v_command v) e; Ok (t1 ++ f)
    | Panic s => Panic s
    | OutOfFuel => OutOfFuel
    | Ok (raw, subs) =>
        match minimize raw with
        | Err _ => Panic "minimize: impossible error"
        | Panic s => Panic s
        | OutOfFuel => OutOfFuel
        | Ok m =>
            let t2 := t1 ++ opt_write (a_dfa a) KDfaDot in
            match check_ambiguity_best_effort m with
            | Err ae => do f <- fail_with upath text (v_command v) (DAmb ae); Ok (t2 ++ f)
            | Panic s => Panic s
            | OutOfFuel => OutOfFuel
            | Ok _ =>
                do c <- script_content sh v (mkcdfa m subs);
                Ok (t2 ++ [Write (dest_of path) (KScript c)] ++ zsh_warning sh path (v_command v) ++ [Exit 0])
            end
        end
    end.

  (** from the regex on: the warnings, then the rest.
      [wm] = which warnings are printed ([Diag.warning_messages] in [run]) *)
  Definition after_regex (wm : valid_grammar -> list message) (a : cli_args) (upath text : string)
             (sh : shell) (path : string) (v : valid_grammar) (r : regex) (pl : pool) : rres trace :=
    do ws <- render_all upath text (wm v);
    do rest <- after_warnings a upath text sh path v r pl;
    Ok (ws ++ rest).

  Definition run_with (wm : valid_grammar -> list message) (a : cli_args) (input : option string) : rres trace :=
    if a_version a then Ok [Stdout version; Exit 0] else
    match a_usage a with
    | None => Ok [Stderr SMissingUsage; Exit 1]
    | Some upath =>
        match input with
        | None => Ok [Stderr (SCannotRead upath); Exit 1]
        | Some text =>
            match parse text with
            | Err sp => fail_with upath text "dummy" (DParse sp)
            | Panic s => Panic s
            | OutOfFuel => OutOfFuel
            | Ok g =>
                match select_shell a with
                | None => Ok [Stderr SExactlyOne; Exit 1]
                | Some (sh, path) =>
                    match from_grammar builtins g sh with
                    | Err ce => fail_with upath text "dummy" (DCheck ce)
                    | Panic s => Panic s
                    | OutOfFuel => OutOfFuel
                    | Ok v =>
                        match from_valid_expr (v_expr v) with
                        | Err re => fail_with upath text (v_command v) (DRegex re)
                        | Panic s => Panic s
                        | OutOfFuel => OutOfFuel
                        | Ok (r, pl) => after_regex wm a upath text sh path v r pl
                        end
                    end
                end
            end
        end
    end.

  Definition run : cli_args -> option string -> rres trace := run_with warning_messages.
End Run.
