(** Model of [dfa.rs]: [Inp::from_input] and [dfa_from_regex] (Dragon book 3.9.5).

    Opaque orders and oracles (DESIGN 4.3):
    - the work-list [unmarked_states] is a [HashSet]; which element [iter().next()] yields is not
      predictable, so the choice is the parameter [pick : nat -> list (list N) -> nat] (number of
      states popped so far, the work-list in insertion order) -> index of the element to pop
      (out of range = the first).  The theorems hold for every [pick];
    - the within-word automaton a within-word regex is compiled to ([from_regex] + [minimize] +
      interning by equality) belongs to other stages; [submap] gives, for every within-word regex
      id, the id of its automaton.  [valid_submap] checks what this stage itself guarantees about
      it: ids are handed out densely in order of first use (position order). *)
From CG Require Import Base.Prelude Model.Ast Model.Dfa Model.Regex.

Inductive serror :=
| MissingSubAutomaton (rid : N).

Definition sres := outcome serror.

Definition from_input (submap : list (N * N)) (i : rinput) : sres inp :=
  match i with
  | RLit t d l _ => Ok (ILit t d l)
  | RSub rid l _ =>
      match assocN rid submap with
      | Some k => Ok (ISub k l)
      | None => Err (MissingSubAutomaton rid)
      end
  | RNonterm _ _ _ => Ok IStar
  | RCmd c z l _ => Ok (if z then ICompadd c l else ICmd c l)
  end.

(** [InpInternPool::intern] *)
Fixpoint inp_find (x : inp) (l : list inp) (i : N) : option N :=
  match l with
  | [] => None
  | y :: r => if inp_eqb y x then Some i else inp_find x r (N.succ i)
  end.

Definition inp_intern (x : inp) (l : list inp) : list inp :=
  match inp_find x l 0 with Some _ => l | None => l ++ [x] end.

Definition intern_all (labels : list inp) : list inp :=
  fold_left (fun acc x => inp_intern x acc) labels [].

(** Ids handed out in order of first use: the [k]-th distinct automaton met has id [k]. *)
Fixpoint valid_submap_from (inputs : list rinput) (submap : list (N * N)) (next : N) : bool :=
  match inputs with
  | [] => true
  | RSub rid _ _ :: rest =>
      match assocN rid submap with
      | None => false
      | Some k =>
          if N.ltb k next then valid_submap_from rest submap next
          else N.eqb k next && valid_submap_from rest submap (N.succ next)
      end
  | _ :: rest => valid_submap_from rest submap next
  end.

Definition valid_submap (r : regex) (submap : list (N * N)) : bool :=
  valid_submap_from (r_inputs r) submap 0.

(** *** The work-list loop *)

Fixpoint find_set (s : list N) (ids : list (list N * N)) : option N :=
  match ids with
  | [] => None
  | (s', i) :: r => if listN_eqb s' s then Some i else find_set s r
  end.

Record sst := mksst {
  s_ids : list (list N * N);              (* state_id_from_set_of_positions, insertion order *)
  s_next : N;                             (* unallocated_state_id *)
  s_trans : list (N * list (N * N));      (* transitions, insertion order = pop order *)
  s_todo : list (list N)                  (* unmarked_states, insertion order *)
}.

Fixpoint remove_nth {A} (n : nat) (l : list A) : list A :=
  match n, l with
  | _, [] => []
  | O, _ :: r => r
  | S k, x :: r => x :: remove_nth k r
  end.

(** Pops the element chosen by [pick]; an index out of range means the first one. *)
Definition pop {A} (n : nat) (l : list A) : option (A * list A) :=
  match nth_error l n with
  | Some x => Some (x, remove_nth n l)
  | None => match l with [] => None | x :: r => Some (x, r) end
  end.

Section Loop.
  Variable labels : list inp.             (* [Inp::from_input] of every position *)
  Variable fw : list (N * list N).        (* followpos *)
  Variable inputs : list inp.             (* interned inputs: id = index *)

  (** Union of [followpos p] over the [p] of the state whose input is [x]. *)
  Definition target (state : list N) (x : inp) : list N :=
    fold_left (fun acc p =>
                 match nthN labels p with
                 | Some y => if inp_eqb y x
                             then match assocN p fw with
                                  | Some f => punion acc f
                                  | None => acc
                                  end
                             else acc
                 | None => acc
                 end) state [].

  (** The [for (inp_id, inp) in inputs.pairs()] loop for one popped state. *)
  Fixpoint process (state : list N) (xs : list inp) (id : N) (st : sst) (row : list (N * N))
    : sst * list (N * N) :=
    match xs with
    | [] => (st, row)
    | x :: rest =>
        match target state x with
        | [] => process state rest (N.succ id) st row
        | t =>
            match find_set t (s_ids st) with
            | Some to => process state rest (N.succ id) st (row ++ [(id, to)])
            | None =>
                let to := s_next st in
                let st1 := mksst (s_ids st ++ [(t, to)]) (N.succ to) (s_trans st)
                                 (s_todo st ++ [t]) in
                process state rest (N.succ id) st1 (row ++ [(id, to)])
            end
        end
    end.

  Variable pick : nat -> list (list N) -> nat.

  Fixpoint loop (fuel : nat) (step : nat) (st : sst) : sres sst :=
    match fuel with
    | O => OutOfFuel
    | S f =>
        match pop (pick step (s_todo st)) (s_todo st) with
        | None => Ok st
        | Some (state, rest) =>
            match find_set state (s_ids st) with
            | None => Panic "state_id_from_set_of_positions.get"
            | Some from =>
                let st0 := mksst (s_ids st) (s_next st) (s_trans st) rest in
                let (st1, row) := process state inputs 0 st0 [] in
                loop f (S step)
                     (mksst (s_ids st1) (s_next st1) (s_trans st1 ++ [(from, row)]) (s_todo st1))
            end
        end
    end.
End Loop.

Definition first_state_id : N := 1.

Definition dfa_from_regex (pick : nat -> list (list N) -> nat) (fuel : nat)
           (submap : list (N * N)) (r : regex) : sres (dfa * list (list N * N)) :=
  do labels <- omap (from_input submap) (r_inputs r);
  let inputs := intern_all labels in
  let start := regex_first r in
  let st0 := mksst [(start, first_state_id)] (N.succ first_state_id) [] [start] in
  do st <- loop labels (regex_follow r) inputs pick fuel 0 st0;
  let accepting := flat_map (fun si => if memN (r_end r) (fst si) then [snd si] else [])
                            (s_ids st) in
  match find_set start (s_ids st) with
  | None => Panic "state_id_from_set_of_positions.get(start)"
  | Some s => Ok (mkdfa s (s_trans st) accepting inputs, s_ids st)
  end.

(** Two canonical pop orders used by the correspondence check. *)
Definition pick_first (_ : nat) (_ : list (list N)) : nat := O.
Definition pick_last (_ : nat) (l : list (list N)) : nat := Nat.pred (List.length l).

(** Replay of a given pop order: the [n]-th popped state is the [n]-th set of the script. *)
Fixpoint index_of (s : list N) (l : list (list N)) : nat :=
  match l with
  | [] => O
  | x :: r => if listN_eqb x s then O else S (index_of s r)
  end.

Definition pick_script (script : list (list N)) (step : nat) (todo : list (list N)) : nat :=
  match nth_error script step with
  | Some s => index_of s todo
  | None => O
  end.
