(** Bash pattern matching as the emitted completion script uses it (bash 5.2.15, LC_ALL=C).

    INTERFACE (used by Model/BashSem.v and by other packages)
    - [glob_match ext pat s : option bool]   [[ s == pat ]] with an UNQUOTED right-hand side ([ext = true]:
      inside [[ ]] extended patterns are always enabled) or the pattern of a ${x#pat} / ${x%pat}
      expansion ([ext = false]: `shopt extglob` is off in the shells T2 runs).
      [None] = the pattern uses a construct this model does not cover (an extended pattern
      "?(..)" "*(..)" "+(..)" "@(..)" "!(..)" when [ext = true]; a "[:class:]", "[=c=]", "[.c.]" inside a
      bracket expression; a bracket expression that ends in the middle of a range or escape).
      Callers report that as "outside the modelled domain", never as a verdict.
    - [printf_q s : option string]           printf '%q' s, for printable ASCII [s] ([None] otherwise: bash
      switches to the $'..' form there).
    - [rm_longest_prefix], [rm_shortest_prefix], [rm_shortest_suffix]: ${x##pat}, ${x#pat}, ${x%pat}.

    Patterns are first cut into tokens ([parse]); matching ([gmatch]) is structural on the token list.
    Supported syntax: ordinary characters, [?], [*], backslash escapes, bracket expressions with
    negation ([!]/[^]), a leading "]", ranges by byte value, backslash escapes inside brackets; a "[" with
    no closing "]" is an ordinary character (sm_loop.c: BRACKMATCH returns [savep]).  The model is
    compared with real bash on generated pattern/string pairs by lib/vf/t2.py ([glob_tie]).  *)
From CG Require Import Base.Prelude.

Inductive bitem :=
| BChar (c : ascii)
| BRange (lo hi : ascii).

Inductive gtok :=
| TChar (c : ascii)                          (* this character, literally *)
| TAny                                       (* ? *)
| TStar                                      (* * *)
| TSet (neg : bool) (items : list bitem).    (* [...] *)

Definition ch (n : N) : ascii := ascii_of_N n.
Definition c_bslash : ascii := ch 92.
Definition c_lbrack : ascii := ch 91.
Definition c_rbrack : ascii := ch 93.
Definition c_star : ascii := ch 42.
Definition c_quest : ascii := ch 63.
Definition c_lparen : ascii := ch 40.
Definition c_bang : ascii := ch 33.
Definition c_caret : ascii := ch 94.
Definition c_minus : ascii := ch 45.
Definition c_plus : ascii := ch 43.
Definition c_at : ascii := ch 64.
Definition c_colon : ascii := ch 58.
Definition c_equal : ascii := ch 61.
Definition c_dot : ascii := ch 46.
Definition c_hash : ascii := ch 35.
Definition c_tilde : ascii := ch 126.

Definition aeq (a b : ascii) : bool := Ascii.eqb a b.
Definition ale (a b : ascii) : bool := N.leb (N_of_ascii a) (N_of_ascii b).

(** Result of scanning a bracket expression, the text after the opening "[" (and after "!"/"^"). *)
Inductive bres :=
| BrSet (items : list bitem) (rest : string)  (* closed: the items, and the pattern text after "]" *)
| BrLiteral                                   (* no closing "]": the "[" is an ordinary character *)
| BrUnsupported.

(** One item per round: a character (possibly escaped), optionally "-" and a range end that is not "]".
    After an item a "]" closes the expression; the very first character cannot close it.
    [first] is true only for the first item. *)
Fixpoint scan_items (fuel : nat) (s : string) (first : bool) (acc : list bitem) : bres :=
  match fuel with
  | O => BrUnsupported
  | S fuel' =>
    match s with
    | EmptyString => BrLiteral
    | String c r =>
      if aeq c c_rbrack && negb first then BrSet (rev acc) r
      else
        (* class / equivalence / collating openers are not modelled *)
        let opener := match r with
                      | String d _ => aeq c c_lbrack && (aeq d c_colon || aeq d c_equal || aeq d c_dot)
                      | EmptyString => false
                      end in
        if opener then BrUnsupported
        else
          (* the start character *)
          let start :=
            if aeq c c_bslash then
              match r with
              | EmptyString => None                      (* "[..\" : bash gives up the whole match *)
              | String d r' => Some (d, r')
              end
            else Some (c, r) in
          match start with
          | None => BrUnsupported
          | Some (cs, r1) =>
            match r1 with
            | EmptyString => BrLiteral
            | String d r2 =>
              if aeq d c_minus then
                match r2 with
                | EmptyString => BrUnsupported           (* "[a-" : cend = NUL, bash gives up *)
                | String e r3 =>
                  if aeq e c_rbrack then
                    (* "-" is the last character of the class: not a range *)
                    scan_items fuel' r1 false (BChar cs :: acc)
                  else
                    let fin :=
                      if aeq e c_bslash then
                        match r3 with
                        | EmptyString => None
                        | String f r4 => Some (f, r4)
                        end
                      else Some (e, r3) in
                    match fin with
                    | None => BrUnsupported
                    | Some (ce, r5) =>
                      if aeq ce c_lbrack && match r5 with String f _ => aeq f c_dot | _ => false end
                      then BrUnsupported
                      else
                        (* an inverted range contributes nothing; the scan goes on after it *)
                        let acc' := if ale cs ce then BRange cs ce :: acc else acc in
                        match r5 with
                        | EmptyString => BrLiteral
                        | String g r6 =>
                          if aeq g c_rbrack then BrSet (rev acc') r6
                          else scan_items fuel' r5 false acc'
                        end
                    end
                end
              else scan_items fuel' r1 false (BChar cs :: acc)
            end
          end
    end
  end.

Definition is_ext_opener (c : ascii) : bool :=
  aeq c c_quest || aeq c c_star || aeq c c_plus || aeq c c_at || aeq c c_bang.

Definition next_is_lparen (r : string) : bool :=
  match r with String d _ => aeq d c_lparen | EmptyString => false end.

(** Cut a pattern into tokens. *)
Fixpoint parse (fuel : nat) (ext : bool) (s : string) : option (list gtok) :=
  match fuel with
  | O => None
  | S fuel' =>
    match s with
    | EmptyString => Some []
    | String c r =>
      if ext && is_ext_opener c && next_is_lparen r then None
      else if aeq c c_bslash then
        match r with
        | EmptyString =>
          (* a trailing backslash: inside [[ ]] it matches a final backslash; in ${x#pat} bash 5.2 matches
             nothing with it (observed) -- left outside the model there *)
          if ext then Some [TChar c_bslash] else None
        | String d r' => option_map (cons (TChar d)) (parse fuel' ext r')
        end
      else if aeq c c_quest then option_map (cons TAny) (parse fuel' ext r)
      else if aeq c c_star then option_map (cons TStar) (parse fuel' ext r)
      else if aeq c c_lbrack then
        let '(neg, body) :=
          match r with
          | String d r' => if aeq d c_bang || aeq d c_caret then (true, r') else (false, r)
          | EmptyString => (false, r)
          end in
        match scan_items (S (String.length body)) body true [] with
        | BrSet items rest => option_map (cons (TSet neg items)) (parse fuel' ext rest)
        | BrLiteral => option_map (cons (TChar c_lbrack)) (parse fuel' ext r)
        | BrUnsupported => None
        end
      else option_map (cons (TChar c)) (parse fuel' ext r)
    end
  end.

Definition item_has (c : ascii) (i : bitem) : bool :=
  match i with
  | BChar d => aeq c d
  | BRange lo hi => ale lo c && ale c hi
  end.

Definition set_has (neg : bool) (items : list bitem) (c : ascii) : bool :=
  xorb neg (existsb (item_has c) items).

(** Matching: structural on the tokens, [*] tries every split point. *)
Fixpoint gmatch (ts : list gtok) (s : string) : bool :=
  match ts with
  | [] => match s with EmptyString => true | _ => false end
  | TChar c :: r => match s with String d s' => aeq c d && gmatch r s' | EmptyString => false end
  | TAny :: r => match s with String _ s' => gmatch r s' | EmptyString => false end
  | TSet neg items :: r =>
    match s with String d s' => set_has neg items d && gmatch r s' | EmptyString => false end
  | TStar :: r =>
    (fix star (s : string) : bool :=
       gmatch r s || match s with String _ s' => star s' | EmptyString => false end) s
  end.

Definition glob_match (ext : bool) (pat s : string) : option bool :=
  match parse (S (String.length pat)) ext pat with
  | Some ts => Some (gmatch ts s)
  | None => None
  end.

(** *** printf '%q' on printable ASCII: backslash before every character of bash's [bstab], before a
    leading "#", and before "~" at the start or after ":" / "=".  *)
Definition q_special : string := " !""$&'()*,;<>?[\]^`{|}".

Definition printable (c : ascii) : bool :=
  let n := N_of_ascii c in N.leb 32 n && N.leb n 126.

Fixpoint printable_str (s : string) : bool :=
  match s with EmptyString => true | String c r => printable c && printable_str r end.

(** [prev] = the previous character ([None] at the start of the string). *)
Fixpoint q_chars (prev : option ascii) (s : string) : string :=
  match s with
  | EmptyString => EmptyString
  | String c r =>
    let esc :=
      contains_char c q_special
      || (aeq c c_hash && match prev with None => true | Some _ => false end)
      || (aeq c c_tilde && match prev with
                           | None => true
                           | Some p => aeq p c_colon || aeq p c_equal
                           end) in
    let tail := String c (q_chars (Some c) r) in
    if esc then String c_bslash tail else tail
  end.

Definition printf_q (s : string) : option string :=
  match s with
  | EmptyString => Some "''"
  | _ => if printable_str s then Some (q_chars None s) else None
  end.

(** *** ${x##pat}  ${x#pat}  ${x%pat} *)
Fixpoint stake (n : nat) (s : string) : string :=
  match n, s with
  | S k, String c r => String c (stake k r)
  | _, _ => EmptyString
  end.

Fixpoint sdrop (n : nat) (s : string) : string :=
  match n, s with
  | S k, String _ r => sdrop k r
  | _, _ => s
  end.

(** candidates for the cut position [k], tried in the given order; the first [k] for which
    [test k] holds wins *)
Fixpoint first_cut (ks : list nat) (test : nat -> bool) : option nat :=
  match ks with
  | [] => None
  | k :: r => if test k then Some k else first_cut r test
  end.

Definition upto (n : nat) : list nat := seq 0 (S n).          (* 0 .. n *)
Definition downfrom (n : nat) : list nat := rev (upto n).      (* n .. 0 *)

Definition with_pat (ext : bool) (pat : string) (f : list gtok -> string) : option string :=
  match parse (S (String.length pat)) ext pat with
  | Some ts => Some (f ts)
  | None => None
  end.

(** ${x##pat}: remove the longest prefix matching [pat]. *)
Definition rm_longest_prefix (pat x : string) : option string :=
  with_pat false pat (fun ts =>
    match first_cut (downfrom (String.length x)) (fun k => gmatch ts (stake k x)) with
    | Some k => sdrop k x
    | None => x
    end).

(** ${x#pat}: remove the shortest prefix matching [pat]. *)
Definition rm_shortest_prefix (pat x : string) : option string :=
  with_pat false pat (fun ts =>
    match first_cut (upto (String.length x)) (fun k => gmatch ts (stake k x)) with
    | Some k => sdrop k x
    | None => x
    end).

(** ${x%pat}: remove the shortest suffix matching [pat]. *)
Definition rm_shortest_suffix (pat x : string) : option string :=
  with_pat false pat (fun ts =>
    match first_cut (downfrom (String.length x)) (fun k => gmatch ts (sdrop k x)) with
    | Some k => stake k x
    | None => x
    end).
