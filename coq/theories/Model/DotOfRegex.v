(** The regex of [Model/Regex.v] (the model of [Regex::from_expr], with fallback levels, spans, the
    end-marker position and the tree view) seen as the arena [Model/Dot.v] prints: levels, spans and
    the tree are forgotten, the pool's regexes get their index as id.  With it the C16 theorem about
    [Regex::to_dot] is stated directly over the regex package's types ([Props/C16.v],
    [C16_regex_dot_model]). *)
From CG Require Import Base.Prelude.
From CG Require Model.Regex Model.Dot.

Definition conv_input (i : Regex.rinput) : Dot.rinput :=
  match i with
  | Regex.RLit t d _ _ => Dot.RLit t d
  | Regex.RNonterm n _ _ => Dot.RNonterm n
  | Regex.RCmd c _ _ _ => Dot.RCmd c
  | Regex.RSub r _ _ => Dot.RSub r
  end.

Definition conv_node (n : Regex.rnode) : Dot.rnode :=
  match n with
  | Regex.NEps => Dot.REps
  | Regex.NTerm p => Dot.RTerm p
  | Regex.NNonterm p => Dot.RNt p
  | Regex.NCmd p => Dot.RCommand p
  | Regex.NSub p => Dot.RSubword p
  | Regex.NEnd p => Dot.REnd p
  | Regex.NCat l => Dot.RCat l
  | Regex.NOr l => Dot.ROr l
  | Regex.NStar c => Dot.RStar c
  end.

Definition conv_regex (r : Regex.regex) : Dot.regex :=
  Dot.mkregex (Regex.r_root r) (map conv_input (Regex.r_inputs r)) (map conv_node (Regex.r_arena r)).

Fixpoint conv_pool_from (i : N) (p : Regex.pool) : Dot.rpool :=
  match p with
  | [] => []
  | r :: rest => (i, conv_regex r) :: conv_pool_from (N.succ i) rest
  end.

Definition conv_pool (p : Regex.pool) : Dot.rpool := conv_pool_from 0 p.

(** [Regex::to_dot] on the regex package's data *)
Definition regex_to_dot (p : Regex.pool) (r : Regex.regex) : outcome unit string :=
  Dot.of_regex (conv_pool p) (conv_regex r).
