(** Mirror of [parse::Expr], [parse::Statement], [parse::Shell], [parse::HumanSpan] as trees.
    The Rust arena ([Vec<Expr>] + [ExprId]) is only an allocation device: no [ExprId] reaches an
    output, so the model works on trees and the dump harness unfolds the arena. *)
From CG Require Import Base.Prelude.

Record span := mkspan { sline : N; scol : N; secol : N }.

Definition span_eqb (a b : span) : bool :=
  N.eqb (sline a) (sline b) && N.eqb (scol a) (scol b) && N.eqb (secol a) (secol b).

Inductive shell := Bash | Fish | Zsh | Pwsh.

Definition shell_eqb (a b : shell) : bool :=
  match a, b with
  | Bash, Bash | Fish, Fish | Zsh, Zsh | Pwsh, Pwsh => true
  | _, _ => false
  end.

Definition shell_of_string (s : string) : option shell :=
  if String.eqb s "bash" then Some Bash
  else if String.eqb s "fish" then Some Fish
  else if String.eqb s "zsh" then Some Zsh
  else if String.eqb s "pwsh" then Some Pwsh
  else None.

Inductive expr :=
| Terminal (term : string) (descr : option string) (level : N) (sp : span)
| NontermRef (name : string) (level : N) (sp : span)
| Command (cmd : string) (compadd : bool) (level : N) (sp : span)
| Sequence (children : list expr) (sp : span)
| Alternative (children : list expr) (sp : span)
| Optional (child : expr) (sp : span)
| Many1 (child : expr) (sp : span)
| DistDescr (child : expr) (descr : string) (sp : span)
| Fallback (children : list expr) (sp : span)
| Subword (root : expr) (level : N) (sp : span).

Definition expr_span (e : expr) : span :=
  match e with
  | Terminal _ _ _ sp | NontermRef _ _ sp | Command _ _ _ sp | Sequence _ sp
  | Alternative _ sp | Optional _ sp | Many1 _ sp | DistDescr _ _ sp | Fallback _ sp
  | Subword _ _ sp => sp
  end.

Inductive statement :=
| CallVariant (name : string) (nsp : span) (e : expr)
| NontermDef (name : string) (nsp : span) (sh : option (string * span)) (rhs : expr).

Definition grammar := list statement.

(** A strong induction principle for the nested inductive [expr]. *)
Section ExprInd.
  Variable P : expr -> Prop.
  Hypothesis HT : forall t d l sp, P (Terminal t d l sp).
  Hypothesis HN : forall n l sp, P (NontermRef n l sp).
  Hypothesis HC : forall c z l sp, P (Command c z l sp).
  Hypothesis HS : forall cs sp, Forall P cs -> P (Sequence cs sp).
  Hypothesis HA : forall cs sp, Forall P cs -> P (Alternative cs sp).
  Hypothesis HO : forall c sp, P c -> P (Optional c sp).
  Hypothesis HM : forall c sp, P c -> P (Many1 c sp).
  Hypothesis HD : forall c d sp, P c -> P (DistDescr c d sp).
  Hypothesis HF : forall cs sp, Forall P cs -> P (Fallback cs sp).
  Hypothesis HW : forall c l sp, P c -> P (Subword c l sp).

  Fixpoint expr_ind' (e : expr) : P e :=
    let fix go (l : list expr) : Forall P l :=
      match l with
      | [] => Forall_nil P
      | x :: r => Forall_cons x (expr_ind' x) (go r)
      end in
    match e with
    | Terminal t d l sp => HT t d l sp
    | NontermRef n l sp => HN n l sp
    | Command c z l sp => HC c z l sp
    | Sequence cs sp => HS cs sp (go cs)
    | Alternative cs sp => HA cs sp (go cs)
    | Optional c sp => HO c sp (expr_ind' c)
    | Many1 c sp => HM c sp (expr_ind' c)
    | DistDescr c d sp => HD c d sp (expr_ind' c)
    | Fallback cs sp => HF cs sp (go cs)
    | Subword c l sp => HW c l sp (expr_ind' c)
    end.
End ExprInd.
