(** Model of [regex.rs]: [Regex::from_expr] / [do_from_expr] with the intern pool,
    [nullable] / [do_firstpos] / [do_lastpos] / [do_followpos], and [check_ambiguities].

    Representation choices (each tied by T1 on every run):
    - [RoaringBitmap] = strictly increasing [list N] ([pins]/[punion]); [BTreeMap<Position,
      RoaringBitmap>] = association list with increasing keys and non-empty increasing values
      ([follow_table]).  The relation itself is first produced as the list of pairs in the order
      in which the Rust code inserts them ([followpos]).
    - The node arena is produced in allocation order ([r_arena], what [cg-dump] prints).  Because
      the table functions only ever walk the arena from the root, they are written on the tree
      that the arena represents ([r_tree], type [rx]); [Many1 x = Cat [x; Star x]] *shares* the
      node [x], which in the tree shows as two copies of [x] carrying the same positions.
      [unfold_arena] rebuilds the tree from the arena; the driver checks that it gives [r_tree]. *)
From CG Require Import Base.Prelude Model.Ast.

(** *** Data *)

Inductive rinput :=
| RLit (t : string) (d : option string) (l : N) (sp : span)
| RNonterm (n : string) (l : N) (sp : span)
| RCmd (c : string) (z : bool) (l : N) (sp : span)
| RSub (rid : N) (l : N) (sp : span).

Definition rinput_span (i : rinput) : span :=
  match i with RLit _ _ _ sp | RNonterm _ _ sp | RCmd _ _ _ sp | RSub _ _ sp => sp end.

Definition rinput_eqb (a b : rinput) : bool :=
  match a, b with
  | RLit t d l sp, RLit t' d' l' sp' =>
      String.eqb t t' && option_eqb String.eqb d d' && N.eqb l l' && span_eqb sp sp'
  | RNonterm n l sp, RNonterm n' l' sp' => String.eqb n n' && N.eqb l l' && span_eqb sp sp'
  | RCmd c z l sp, RCmd c' z' l' sp' =>
      String.eqb c c' && Bool.eqb z z' && N.eqb l l' && span_eqb sp sp'
  | RSub r l sp, RSub r' l' sp' => N.eqb r r' && N.eqb l l' && span_eqb sp sp'
  | _, _ => false
  end.

(** [RegexNode] with child ids (the arena). *)
Inductive rnode :=
| NEps
| NTerm (p : N) | NNonterm (p : N) | NCmd (p : N) | NSub (p : N) | NEnd (p : N)
| NCat (cs : list N) | NOr (cs : list N) | NStar (c : N).

Fixpoint listN_eqb (a b : list N) : bool :=
  match a, b with
  | [], [] => true
  | x :: a', y :: b' => N.eqb x y && listN_eqb a' b'
  | _, _ => false
  end.

Definition rnode_eqb (a b : rnode) : bool :=
  match a, b with
  | NEps, NEps => true
  | NTerm p, NTerm q | NNonterm p, NNonterm q | NCmd p, NCmd q | NSub p, NSub q
  | NEnd p, NEnd q => N.eqb p q
  | NCat x, NCat y | NOr x, NOr y => listN_eqb x y
  | NStar x, NStar y => N.eqb x y
  | _, _ => false
  end.

(** The same nodes as a tree. *)
Inductive pkind := KTerm | KNonterm | KCmd | KSub | KEnd.

Inductive rx :=
| XEps
| XPos (k : pkind) (p : N)
| XCat (cs : list rx)
| XOr (cs : list rx)
| XStar (c : rx).

Record regex := mkregex {
  r_root : N;
  r_inputs : list rinput;
  r_end : N;
  r_arena : list rnode;
  r_tree : rx
}.

Fixpoint list_eqb {A} (eqb : A -> A -> bool) (a b : list A) : bool :=
  match a, b with
  | [], [] => true
  | x :: a', y :: b' => eqb x y && list_eqb eqb a' b'
  | _, _ => false
  end.

Fixpoint rx_eqb (a b : rx) : bool :=
  match a, b with
  | XEps, XEps => true
  | XPos k p, XPos k' p' =>
      N.eqb p p' && match k, k' with
                    | KTerm, KTerm | KNonterm, KNonterm | KCmd, KCmd | KSub, KSub | KEnd, KEnd => true
                    | _, _ => false
                    end
  | XCat x, XCat y | XOr x, XOr y =>
      (fix go (l m : list rx) : bool :=
         match l, m with
         | [], [] => true
         | u :: l', v :: m' => rx_eqb u v && go l' m'
         | _, _ => false
         end) x y
  | XStar x, XStar y => rx_eqb x y
  | _, _ => false
  end.

(** [impl PartialEq for Regex]: root, inputs (spans included), end marker, arena.  The tree is
    compared as well: it is the unfolding of the arena from the root ([arena_consistent], checked by
    the driver on every regex), so this never changes the answer; it makes [regex_eqb] reflect
    equality of the model's records. *)
Definition regex_eqb (a b : regex) : bool :=
  N.eqb (r_root a) (r_root b) && list_eqb rinput_eqb (r_inputs a) (r_inputs b)
  && N.eqb (r_end a) (r_end b) && list_eqb rnode_eqb (r_arena a) (r_arena b)
  && rx_eqb (r_tree a) (r_tree b).

(** [RegexInternPool]: the id of a regex is its index. *)
Definition pool := list regex.

Fixpoint pool_find (r : regex) (p : pool) (i : N) : option N :=
  match p with
  | [] => None
  | x :: rest => if regex_eqb x r then Some i else pool_find r rest (N.succ i)
  end.

Definition pool_intern (r : regex) (p : pool) : N * pool :=
  match pool_find r p 0 with
  | Some i => (i, p)
  | None => (lenN p, p ++ [r])
  end.

(** *** Position sets *)

Fixpoint pins (x : N) (l : list N) : list N :=
  match l with
  | [] => [x]
  | y :: r => if N.ltb x y then x :: l else if N.eqb x y then l else y :: pins x r
  end.

(** [a |= b] *)
Definition punion (a b : list N) : list N := fold_right pins a b.

Definition pprod (xs ys : list N) : list (N * N) :=
  flat_map (fun x => map (fun y => (x, y)) ys) xs.

(** *** nullable / firstpos / lastpos / followpos *)

Definition pk_nullable (k : pkind) : bool := match k with KEnd => true | _ => false end.

Fixpoint nullable (r : rx) : bool :=
  match r with
  | XEps => true
  | XPos k _ => pk_nullable k
  | XOr cs => existsb nullable cs
  | XCat cs => forallb nullable cs
  | XStar _ => true
  end.

Fixpoint firstpos (r : rx) : list N :=
  match r with
  | XEps => []
  | XPos _ p => [p]
  | XOr cs => fold_right (fun c acc => punion (firstpos c) acc) [] cs
  | XCat cs =>
      (fix go (l : list rx) : list N :=
         match l with
         | [] => []
         | c :: rest => if nullable c then punion (firstpos c) (go rest) else firstpos c
         end) cs
  | XStar c => firstpos c
  end.

Fixpoint lastpos (r : rx) : list N :=
  match r with
  | XEps => []
  | XPos _ p => [p]
  | XOr cs => fold_right (fun c acc => punion (lastpos c) acc) [] cs
  | XCat cs =>
      (* [children.iter().rev()] up to and including the first child that is not nullable *)
      (fix go (l : list rx) : list N :=
         match l with
         | [] => []
         | c :: rest => if forallb nullable rest then punion (lastpos c) (go rest) else go rest
         end) cs
  | XStar c => lastpos c
  end.

(** The heads that may follow the left sibling: [first] of the right siblings up to and including
    the first one that is not nullable (the [while j < children.len()] loop). *)
Fixpoint cat_heads (rest : list rx) : list N :=
  match rest with
  | [] => []
  | c :: rest' => if nullable c then punion (firstpos c) (cat_heads rest') else firstpos c
  end.

Fixpoint cat_pairs (cs : list rx) : list (N * N) :=
  match cs with
  | [] => []
  | c :: rest => pprod (lastpos c) (cat_heads rest) ++ cat_pairs rest
  end.

(** Pairs [(tail, head)] in insertion order.  [Star] does not descend into its child. *)
Fixpoint followpos (r : rx) : list (N * N) :=
  match r with
  | XEps | XPos _ _ => []
  | XOr cs => flat_map followpos cs
  | XCat cs => flat_map followpos cs ++ cat_pairs cs
  | XStar c => pprod (lastpos c) (firstpos c)
  end.

(** The [BTreeMap<Position, RoaringBitmap>] the pairs end up in. *)
Fixpoint tbl_add (p q : N) (t : list (N * list N)) : list (N * list N) :=
  match t with
  | [] => [(p, [q])]
  | (k, s) :: r =>
      if N.ltb p k then (p, [q]) :: t
      else if N.eqb p k then (k, pins q s) :: r
      else (k, s) :: tbl_add p q r
  end.

Definition follow_table (pairs : list (N * N)) : list (N * list N) :=
  fold_left (fun t pq => tbl_add (fst pq) (snd pq) t) pairs [].

Definition regex_first (r : regex) : list N := firstpos (r_tree r).
Definition regex_follow (r : regex) : list (N * list N) := follow_table (followpos (r_tree r)).

(** *** from_expr *)

Inductive rerror :=
| UnboundedMatchable (a b : span).

Definition rres := outcome rerror.

Record bst := mkbst { b_nodes : list rnode; b_inputs : list rinput }.

Definition alloc (n : rnode) (s : bst) : N * bst :=
  (lenN (b_nodes s), mkbst (b_nodes s ++ [n]) (b_inputs s)).

Definition push_input (i : rinput) (s : bst) : N * bst :=
  (lenN (b_inputs s), mkbst (b_nodes s) (b_inputs s ++ [i])).

(** [Regex::from_expr] after [do_from_expr] returned: end marker, root. *)
Definition finish_regex (id : N) (t : rx) (s : bst) : regex :=
  let endp := lenN (b_inputs s) in
  let (eid, s1) := alloc (NEnd endp) s in
  let (rid, s2) := alloc (NCat [id; eid]) s1 in
  mkregex rid (b_inputs s2) endp (b_nodes s2) (XCat [t; XPos KEnd endp]).

Definition empty_bst : bst := mkbst [] [].

(** The [subexprs.iter().map(do_from_expr).collect::<Result<_>>()] of the n-ary nodes. *)
Section Children.
  Variable f : expr -> bst -> pool -> rres (N * rx * bst * pool).

  Fixpoint do_children (l : list expr) (s : bst) (pl : pool)
    : rres (list N * list rx * bst * pool) :=
    match l with
    | [] => Ok ([], [], s, pl)
    | c :: rest =>
        do r1 <- f c s pl;
        let '(id, t, s1, pl1) := r1 in
        do r2 <- do_children rest s1 pl1;
        let '(ids, ts, s2, pl2) := r2 in
        Ok (id :: ids, t :: ts, s2, pl2)
    end.
End Children.

(** Result: node id, the tree below it, builder state, pool. *)
Fixpoint do_from_expr (e : expr) (s : bst) (pl : pool) : rres (N * rx * bst * pool) :=
  let children := do_children do_from_expr in
  match e with
  | Terminal t d l sp =>
      let (p, s1) := push_input (RLit t d l sp) s in
      let (id, s2) := alloc (NTerm p) s1 in
      Ok (id, XPos KTerm p, s2, pl)
  | Subword c l sp =>
      do r <- do_from_expr c empty_bst pl;
      let '(cid, ct, cs, pl1) := r in
      let (rid, pl2) := pool_intern (finish_regex cid ct cs) pl1 in
      let (p, s1) := push_input (RSub rid l sp) s in
      let (id, s2) := alloc (NSub p) s1 in
      Ok (id, XPos KSub p, s2, pl2)
  | NontermRef n l sp =>
      let (p, s1) := push_input (RNonterm n l sp) s in
      let (id, s2) := alloc (NNonterm p) s1 in
      Ok (id, XPos KNonterm p, s2, pl)
  | Command c z l sp =>
      let (p, s1) := push_input (RCmd c z l sp) s in
      let (id, s2) := alloc (NCmd p) s1 in
      Ok (id, XPos KCmd p, s2, pl)
  | Sequence cs _ =>
      do r <- children cs s pl;
      let '(ids, ts, s1, pl1) := r in
      let (id, s2) := alloc (NCat ids) s1 in
      Ok (id, XCat ts, s2, pl1)
  | Alternative cs _ | Fallback cs _ =>
      do r <- children cs s pl;
      let '(ids, ts, s1, pl1) := r in
      let (id, s2) := alloc (NOr ids) s1 in
      Ok (id, XOr ts, s2, pl1)
  | Optional c _ =>
      do r <- do_from_expr c s pl;
      let '(cid, ct, s1, pl1) := r in
      let (eid, s2) := alloc NEps s1 in
      let (id, s3) := alloc (NOr [cid; eid]) s2 in
      Ok (id, XOr [ct; XEps], s3, pl1)
  | Many1 c _ =>
      do r <- do_from_expr c s pl;
      let '(cid, ct, s1, pl1) := r in
      let (sid, s2) := alloc (NStar cid) s1 in
      let (id, s3) := alloc (NCat [cid; sid]) s2 in
      Ok (id, XCat [ct; XStar ct], s3, pl1)
  | DistDescr _ _ _ => Panic "do_from_expr: DistributiveDescription"
  end.

Definition from_expr (e : expr) (pl : pool) : rres (regex * pool) :=
  do r <- do_from_expr e empty_bst pl;
  let '(id, t, s, pl1) := r in
  Ok (finish_regex id t s, pl1).

(** The tree an arena represents below node [id] (fuel = nesting depth). *)
Fixpoint unfold_arena (fuel : nat) (arena : list rnode) (id : N) : option rx :=
  match fuel with
  | O => None
  | S f =>
      let all := fix all (l : list N) : option (list rx) :=
                   match l with
                   | [] => Some []
                   | c :: r => match unfold_arena f arena c, all r with
                               | Some t, Some ts => Some (t :: ts)
                               | _, _ => None
                               end
                   end in
      match nthN arena id with
      | None => None
      | Some NEps => Some XEps
      | Some (NTerm p) => Some (XPos KTerm p)
      | Some (NNonterm p) => Some (XPos KNonterm p)
      | Some (NCmd p) => Some (XPos KCmd p)
      | Some (NSub p) => Some (XPos KSub p)
      | Some (NEnd p) => Some (XPos KEnd p)
      | Some (NCat cs) => option_map XCat (all cs)
      | Some (NOr cs) => option_map XOr (all cs)
      | Some (NStar c) => option_map XStar (unfold_arena f arena c)
      end
  end.

Definition arena_consistent (r : regex) : bool :=
  match unfold_arena (S (List.length (r_arena r))) (r_arena r) (r_root r) with
  | Some t => rx_eqb t (r_tree r)
  | None => false
  end.

(** *** check_ambiguities *)

Definition is_star_subword (i : rinput) : rres bool :=
  match i with
  | RNonterm _ _ _ => Ok true
  | RLit _ _ _ _ | RCmd _ _ _ _ => Ok false
  | RSub _ _ _ => Panic "is_star_subword: Subword"
  end.

Definition input_at (r : regex) (p : N) : rres rinput :=
  match nthN (r_inputs r) p with
  | Some i => Ok i
  | None => Panic "input_from_position: index out of range"
  end.

Definition inputs_of (r : regex) (firstpos : list N) : rres (list rinput) :=
  omap (input_at r) (filter (fun p => negb (N.eqb p (r_end r))) firstpos).

(** The test at the top of [do_check_ambiguous_inputs_tail_only_subword]: something (the first
    input of this position set) follows the unbounded item met on the way here. *)
Definition first_clash (path_prev : option rinput) (inputs : list rinput) : option rerror :=
  match path_prev, inputs with
  | Some p, inp :: _ => Some (UnboundedMatchable (rinput_span p) (rinput_span inp))
  | _, _ => None
  end.

Definition opt_or {A} (a b : option A) : option A := match a with Some _ => a | None => b end.

Section TailOnly.
  Variable r : regex.
  Variable fw : list (N * list N).

  (** Only what follows the unbounded item itself is ambiguous: [prev] is computed per position
      (after [visited.insert]; [r_end] is always visited, so the index is in range for a
      well-formed regex). *)
  Fixpoint tail_only (fuel : nat) (firstpos : list N) (path_prev : option rinput)
           (visited : list N) : rres (list N) :=
    match fuel with
    | O => OutOfFuel
    | S f =>
        do inputs <- inputs_of r firstpos;
        match first_clash path_prev inputs with
        | Some e => Err e
        | None =>
            (fix each (ps : list N) (visited : list N) : rres (list N) :=
               match ps with
               | [] => Ok visited
               | p :: rest =>
                   if memN p visited then each rest visited
                   else match assocN p fw with
                        | None => each rest visited
                        | Some follow =>
                            do inp <- input_at r p;
                            do st <- is_star_subword inp;
                            do v1 <- tail_only f follow
                                       (opt_or path_prev (if st then Some inp else None)) (p :: visited);
                            each rest v1
                        end
               end) firstpos visited
        end
    end.
End TailOnly.

(** Every nested call of the two walks below marks one more key of the follow table as visited,
    so [|follow table| + 2] levels suffice (Proofs/RegexFuel.v). *)
Definition regex_fuel (r : regex) : nat := S (S (List.length (regex_follow r))).

Definition check_tail_only (r : regex) : rres unit :=
  do _ <- tail_only r (regex_follow r) (regex_fuel r) (regex_first r) None [r_end r];
  Ok tt.

Definition sub_ids_of (inputs : list rinput) : list N :=
  flat_map (fun i => match i with RSub rid _ _ => [rid] | _ => [] end) inputs.

Section CheckSubwords.
  Variable r : regex.
  Variable fw : list (N * list N).
  Variable pl : pool.

  Fixpoint check_each_sub (ids : list N) (checked : list N) : rres (list N) :=
    match ids with
    | [] => Ok checked
    | rid :: rest =>
        match nthN pl rid with
        | None => Panic "RegexInternPool::lookup"
        | Some sub =>
            do _ <- check_tail_only sub;
            check_each_sub rest (rid :: checked)
        end
    end.

  (** state: visited positions, checked within-word regex ids *)
  Fixpoint check_subwords (fuel : nat) (firstpos : list N) (visited checked : list N)
    : rres (list N * list N) :=
    match fuel with
    | O => OutOfFuel
    | S f =>
        do inputs <- inputs_of r firstpos;
        let ids := filter (fun rid => negb (memN rid checked)) (sub_ids_of inputs) in
        do checked1 <- check_each_sub ids checked;
        (fix each (ps : list N) (visited checked : list N) : rres (list N * list N) :=
           match ps with
           | [] => Ok (visited, checked)
           | p :: rest =>
               if memN p visited then each rest visited checked
               else match assocN p fw with
                    | None => each rest visited checked
                    | Some follow =>
                        do vc <- check_subwords f follow (p :: visited) checked;
                        each rest (fst vc) (snd vc)
                    end
           end) firstpos visited checked1
    end.
End CheckSubwords.

Definition check_ambiguities (r : regex) (pl : pool) : rres unit :=
  do _ <- check_subwords r (regex_follow r) pl (regex_fuel r) (regex_first r) [r_end r] [];
  Ok tt.

(** [Regex::from_valid_grammar] on the validated tree (pool starts empty). *)
Definition from_valid_expr (e : expr) : rres (regex * pool) :=
  do rp <- from_expr e [];
  do _ <- check_ambiguities (fst rp) (snd rp);
  Ok rp.
