(** Model of src/tables.rs ([get_lookup_tables], [isomorphic_to]) and of the getters of
    src/dfa.rs that feed it (lines ~1017-1470: [get_all_literals], [get_commands], [get_subwords],
    [get_all_states], [get_*_transitions], [get_*_completions], [get_max_fallback_level], the
    [needs_*_code] switches), plus the way the four emitters call them.

    Containers: [RoaringBitmap] / [BTreeMap] = increasing lists ([insertN], [bt_insert]: a later
    insert with the same key overwrites, as [collect()] into a [BTreeMap] does); [IndexSet] /
    [IndexMap] = lists in insertion order; [HashMap::collect] = the last entry for a key wins.
    Partial operations ([unwrap], indexing, intern-pool lookups) return [Panic site].

    Opaque order (DESIGN 4.3): the ties of [sort_unstable_by] on (length, text) in
    [get_top_level_literals_decreasing_length] are not modelled; the literal order [ord] is a
    parameter of the model, validated by [valid_literal_order]. *)
From CG Require Import Base.Prelude Model.Ast Model.Dfa.
From CGgen Require Import Consts.
Open Scope N_scope.
Open Scope list_scope.

Definition res := outcome unit.

(** ** containers *)
Fixpoint insertN (x : N) (l : list N) : list N :=
  match l with
  | [] => [x]
  | y :: r => if N.ltb x y then x :: l else if N.eqb x y then l else y :: insertN x r
  end.

Definition setN (l : list N) : list N := fold_left (fun acc x => insertN x acc) l [].

Fixpoint bt_update {V} (k : N) (f : option V -> V) (m : list (N * V)) : list (N * V) :=
  match m with
  | [] => [(k, f None)]
  | (k', v') :: r =>
      if N.ltb k k' then (k, f None) :: m
      else if N.eqb k k' then (k, f (Some v')) :: r
      else (k', v') :: bt_update k f r
  end.

Definition bt_insert {V} (k : N) (v : V) (m : list (N * V)) : list (N * V) :=
  bt_update k (fun _ => v) m.

Definition bt_of_list {V} (l : list (N * V)) : list (N * V) :=
  fold_left (fun acc kv => bt_insert (fst kv) (snd kv) acc) l [].

Fixpoint list_eqb {A} (eqb : A -> A -> bool) (a b : list A) : bool :=
  match a, b with
  | [], [] => true
  | x :: r, y :: r' => eqb x y && list_eqb eqb r r'
  | _, _ => false
  end.

Fixpoint number_from {A} (n : N) (l : list A) : list (N * A) :=
  match l with
  | [] => []
  | x :: r => (n, x) :: number_from (n + 1) r
  end.

Fixpoint index_of (c : string) (l : list string) : option N :=
  match l with
  | [] => None
  | x :: r => if String.eqb c x then Some 0 else option_map N.succ (index_of c r)
  end.

Definition push_new (c : string) (l : list string) : list string :=
  if mem_str c l then l else l ++ [c].

Fixpoint update_nth {A} (n : nat) (f : A -> A) (l : list A) : option (list A) :=
  match l, n with
  | [], _ => None
  | x :: r, O => Some (f x :: r)
  | x :: r, S k => option_map (cons x) (update_nth k f r)
  end.

(** ** basic iteration *)
Definition get_input (d : dfa) (i : N) : res inp :=
  match nthN (d_inputs d) i with
  | Some x => Ok x
  | None => Panic "InpInternPool::lookup"
  end.

Definition iter_transitions (d : dfa) : list (N * N * N) :=
  flat_map (fun ft => map (fun it => (fst ft, fst it, snd it)) (snd ft)) (d_trans d).

(** [iter_transitions] with the inputs looked up: (from, input, to) *)
Definition rtrans (d : dfa) : res (list (N * inp * N)) :=
  omap (fun fit => match fit with (f, i, t) => do x <- get_input d i; Ok (f, x, t) end) (iter_transitions d).

Definition transitions_from (d : dfa) (s : N) : list (N * N) :=
  match assocN s (d_trans d) with Some tos => tos | None => [] end.

Definition rtrans_from (d : dfa) (s : N) : res (list (inp * N)) :=
  omap (fun it => do x <- get_input d (fst it); Ok (x, snd it)) (transitions_from d s).

(** [get_all_states]: every source and target, and the dead state 0 *)
Definition get_all_states (d : dfa) : list N :=
  insertN 0 (setN (flat_map (fun fit => match fit with (f, _, t) => [f; t] end) (iter_transitions d))).

(** ** literals *)
Definition unwrap_descr (o : option string) : string :=
  match o with Some s => s | None => EmptyString end.

Definition pair_eqb (a b : string * string) : bool :=
  String.eqb (fst a) (fst b) && String.eqb (snd a) (snd b).

Definition opair_eqb (a b : string * option string) : bool :=
  String.eqb (fst a) (fst b) && option_eqb String.eqb (snd a) (snd b).

(** the [IndexSet<(Ustr, Option<Ustr>)>] collected from ALL interned inputs, before sorting *)
Definition literal_pairs (d : dfa) : list (string * option string) :=
  fold_left (fun acc i => match i with
                          | ILit t ds _ => if existsb (opair_eqb (t, ds)) acc then acc else acc ++ [(t, ds)]
                          | _ => acc
                          end) (d_inputs d) [].

(** (byte length, bytes) order of [sort_unstable_by] *)
Definition key_leb (a b : string) : bool :=
  let la := String.length a in
  let lb := String.length b in
  if Nat.ltb la lb then true
  else if Nat.ltb lb la then false
  else match String.compare a b with Gt => false | _ => true end.

Fixpoint sorted_desc (l : list (string * string)) : bool :=
  match l with
  | [] => true
  | x :: r => match r with
              | [] => true
              | y :: _ => key_leb (fst y) (fst x) && sorted_desc r
              end
  end.

Definition count_pair (x : string * string) (l : list (string * string)) : nat :=
  List.length (filter (pair_eqb x) l).

(** [ord] (texts with [description.unwrap_or("")]) is what [get_all_literals] may return: the
    de-duplicated pairs in some order that is decreasing in (length, text). *)
Definition valid_literal_order (d : dfa) (ord : list (string * string)) : bool :=
  let ref := map (fun p => (fst p, unwrap_descr (snd p))) (literal_pairs d) in
  Nat.eqb (List.length ord) (List.length ref)
  && forallb (fun x => Nat.eqb (count_pair x ord) (count_pair x ref)) (ord ++ ref)
  && sorted_desc ord.

Definition all_literals (ord : list (string * string)) (start : N) : list (N * string * string) :=
  map (fun ip => (fst ip, fst (snd ip), snd (snd ip))) (number_from start ord).

(** [id_from_literal_description]: HashMap collected from [all_literals]; the last entry wins *)
Definition lit_id (lits : list (N * string * string)) (t ds : string) : option N :=
  fold_left (fun acc e => match e with (i, t', d') =>
                            if String.eqb t t' && String.eqb ds d' then Some i else acc end) lits None.

Definition lit_id_or_panic (lits : list (N * string * string)) (t : string) (ds : option string) : res N :=
  match lit_id lits t (unwrap_descr ds) with
  | Some i => Ok i
  | None => Panic "id_from_literal_description.get().unwrap()"
  end.

Definition cmd_id_or_panic (cmds : list string) (c : string) : res N :=
  match index_of c cmds with
  | Some i => Ok i
  | None => Panic "id_from_cmd.get_index_of().unwrap()"
  end.

(** ** match tables: state -> key -> state, for the inputs selected by [sel] *)
Definition match_table (d : dfa) (states : list N) (sel : inp -> option (res N)) : res (list (N * list (N * N))) :=
  do rows <- omap (fun s =>
      do tr <- rtrans_from d s;
      do kvs <- omap (fun xt => match sel (fst xt) with
                                | Some r => do k <- r; Ok [(k, snd xt)]
                                | None => Ok []
                                end) tr;
      Ok (s, bt_of_list (List.concat kvs))) states;
  Ok (filter (fun row => match snd row with [] => false | _ => true end) rows).

Definition get_literal_transitions (d : dfa) (states : list N) (lits : list (N * string * string)) :=
  match_table d states (fun x => match x with ILit t ds _ => Some (lit_id_or_panic lits t ds) | _ => None end).

Definition get_command_transitions (d : dfa) (states : list N) (cmds : list string) :=
  match_table d states (fun x => match x with ICmd c _ => Some (cmd_id_or_panic cmds c) | _ => None end).

Definition get_compadd_transitions (d : dfa) (states : list N) (cmds : list string) :=
  match_table d states (fun x => match x with ICompadd c _ => Some (cmd_id_or_panic cmds c) | _ => None end).

Definition star_transitions (rt : list (N * inp * N)) : list (N * N) :=
  flat_map (fun fxt => match fxt with (f, IStar, t) => [(f, t)] | _ => [] end) rt.

(** ** completion tables: level -> state -> ids *)
Definition get_max_fallback_level (rt : list (N * inp * N)) : option N :=
  fold_left (fun acc fxt => match fxt with (_, x, _) =>
               match inp_level x with
               | Some l => match acc with Some m => Some (N.max m l) | None => Some l end
               | None => acc
               end end) rt None.

(** [sel] gives (level, id); [add] is [RoaringBitmap::insert] ([insertN]) or [Vec::push] *)
Definition completion_table (rt : list (N * inp * N)) (maxlevel : N)
           (sel : inp -> option (N * res N)) (add : N -> list N -> list N) : res (list (list (N * list N))) :=
  fold_left (fun acc fxt =>
      do levels <- acc;
      match fxt with (f, x, _) =>
        match sel x with
        | None => Ok levels
        | Some (lvl, rid) =>
            do id <- rid;
            match update_nth (N.to_nat lvl)
                    (bt_update f (fun old => add id (match old with Some l => l | None => [] end))) levels with
            | Some l' => Ok l'
            | None => Panic "completion table: fallback level out of bounds"
            end
        end
      end) rt (Ok (repeat [] (N.to_nat maxlevel + 1))).

Definition push (x : N) (l : list N) : list N := l ++ [x].

Definition get_literal_completions rt lits maxlevel :=
  completion_table rt maxlevel
    (fun x => match x with ILit t ds l => Some (l, lit_id_or_panic lits t ds) | _ => None end) insertN.

Definition get_command_completions rt cmds maxlevel :=
  completion_table rt maxlevel
    (fun x => match x with ICmd c l => Some (l, cmd_id_or_panic cmds c) | _ => None end) insertN.

Definition get_completion_compadds rt cmds maxlevel :=
  completion_table rt maxlevel
    (fun x => match x with ICompadd c l => Some (l, cmd_id_or_panic cmds c) | _ => None end) push.

Definition opt_when {A} (b : bool) (r : res A) : res (option A) :=
  if b then (do x <- r; Ok (Some x)) else Ok None.

(** tables.rs [get_lookup_tables] *)
Definition get_lookup_tables (d : dfa) (cmds : list string) (start : N)
           (needs_cmd needs_compadd needs_star : bool) (ord : list (string * string)) : res tables :=
  let lits := all_literals ord start in
  let states := get_all_states d in
  do mlit <- get_literal_transitions d states lits;
  do mcmd <- opt_when needs_cmd (get_command_transitions d states cmds);
  do mcompadd <- opt_when needs_compadd (get_compadd_transitions d states cmds);
  do rt <- rtrans d;
  let mstar := if needs_star then Some (star_transitions rt) else None in
  let maxlevel := match get_max_fallback_level rt with Some m => m | None => start end in
  do clit <- get_literal_completions rt lits maxlevel;
  do ccmd <- opt_when needs_cmd (get_command_completions rt cmds maxlevel);
  do ccompadd <- opt_when needs_compadd (get_completion_compadds rt cmds maxlevel);
  Ok (mktables lits mlit mcmd mcompadd mstar maxlevel clit ccmd ccompadd).

(** tables.rs [isomorphic_to]: everything but the literal texts (since 5c017d7 the completion-side
    compadd table is compared as well) *)
Definition nested_eqb (a b : list (N * list (N * N))) : bool :=
  list_eqb (fun x y => N.eqb (fst x) (fst y)
                       && list_eqb (fun p q => N.eqb (fst p) (fst q) && N.eqb (snd p) (snd q)) (snd x) (snd y)) a b.

Definition levels_eqb (a b : list (list (N * list N))) : bool :=
  list_eqb (list_eqb (fun x y => N.eqb (fst x) (fst y) && list_eqb N.eqb (snd x) (snd y))) a b.

Definition isomorphic_to (a b : tables) : bool :=
  nested_eqb (t_mlit a) (t_mlit b)
  && option_eqb nested_eqb (t_mcmd a) (t_mcmd b)
  && option_eqb nested_eqb (t_mcompadd a) (t_mcompadd b)
  && option_eqb (list_eqb (fun p q => N.eqb (fst p) (fst q) && N.eqb (snd p) (snd q))) (t_mstar a) (t_mstar b)
  && N.eqb (t_maxlevel a) (t_maxlevel b)
  && levels_eqb (t_clit a) (t_clit b)
  && option_eqb levels_eqb (t_ccmd a) (t_ccmd b)
  && option_eqb levels_eqb (t_ccompadd a) (t_ccompadd b).

(** ** what the emitters compute around the tables *)
Definition lookup_sub (c : cdfa) (i : N) : res dfa :=
  match nthN (c_subs c) i with
  | Some d => Ok d
  | None => Panic "DFAInternPool::lookup"
  end.

Definition cmds_of_inputs (acc : list string) (xs : list inp) : list string :=
  fold_left (fun acc x => match x with ICmd c _ | ICompadd c _ => push_new c acc | _ => acc end) xs acc.

(** [get_commands]: first occurrence over the main transitions, descending into each within-word
    automaton where it is met *)
Definition get_commands (c : cdfa) : res (list string) :=
  do rt <- rtrans (c_main c);
  fold_left (fun acc fxt =>
      do l <- acc;
      match fxt with (_, x, _) =>
        match x with
        | ICmd cm _ | ICompadd cm _ => Ok (push_new cm l)
        | ISub s _ =>
            do sd <- lookup_sub c s;
            do srt <- rtrans sd;
            Ok (cmds_of_inputs l (map (fun fxt => snd (fst fxt)) srt))
        | _ => Ok l
        end
      end) rt (Ok []).

(** [get_subwords first_id]: pool index -> script id, first occurrence over the transitions *)
Definition get_subwords (rt : list (N * inp * N)) (first : N) : list (N * N) :=
  fold_left (fun acc fxt => match fxt with (_, ISub s _, _) =>
                              if existsb (fun p => N.eqb (fst p) s) acc then acc
                              else acc ++ [(s, first + lenN acc)]
                            | _ => acc end) rt [].

Record needs := mkneeds {
  n_subwords : bool;
  n_top_cmd : bool;
  n_sub_cmd : bool;
  n_top_compadd : bool;
  n_sub_compadd : bool;
  n_top_star : bool;
  n_sub_star : bool
}.

Definition has_cmd (rt : list (N * inp * N)) : bool :=
  existsb (fun fxt => match snd (fst fxt) with ICmd _ _ => true | _ => false end) rt.
Definition has_compadd (rt : list (N * inp * N)) : bool :=
  existsb (fun fxt => match snd (fst fxt) with ICompadd _ _ => true | _ => false end) rt.
Definition has_star (rt : list (N * inp * N)) : bool :=
  existsb (fun fxt => match snd (fst fxt) with IStar => true | _ => false end) rt.

(** [iter_subwords]: the within-word automaton of every sub-word input met on a transition *)
Definition iter_subwords (c : cdfa) (rt : list (N * inp * N)) : res (list dfa) :=
  do l <- omap (fun fxt => match snd (fst fxt) with
                           | ISub s _ => do sd <- lookup_sub c s; Ok [sd]
                           | _ => Ok []
                           end) rt;
  Ok (List.concat l).

Definition get_needs (c : cdfa) : res needs :=
  do rt <- rtrans (c_main c);
  do subs <- iter_subwords c rt;
  do srts <- omap rtrans subs;
  Ok (mkneeds (match subs with [] => false | _ => true end)
              (has_cmd rt) (existsb has_cmd srts)
              (has_compadd rt) (existsb has_compadd srts)
              (has_star rt) (existsb has_star srts)).

Definition array_start (sh : shell) : N :=
  match sh with
  | Bash => array_start_bash | Fish => array_start_fish | Zsh => array_start_zsh | Pwsh => array_start_pwsh
  end.

(** only zsh.rs passes the real compadd switches; the other emitters pass [false] *)
Definition compadd_switch (sh : shell) (b : bool) : bool :=
  match sh with Zsh => b | _ => false end.

(** [get_subword_transitions_from] for every state that has some: state -> (pool index, to) in the
    order of that state's transitions *)
Definition subword_transitions (d : dfa) (states : list N) : res (list (N * list (N * N))) :=
  do rows <- omap (fun s =>
      do tr <- rtrans_from d s;
      Ok (s, flat_map (fun xt => match fst xt with ISub sd _ => [(sd, snd xt)] | _ => [] end) tr)) states;
  Ok (filter (fun row => match snd row with [] => false | _ => true end) rows).

Definition sub_id_or_panic (ids : list (N * N)) (s : N) : res N :=
  match assocN s ids with
  | Some i => Ok i
  | None => Panic "id_from_dfa.get().unwrap()"
  end.

Definition get_completion_subwords rt ids maxlevel :=
  completion_table rt maxlevel
    (fun x => match x with ISub s l => Some (l, sub_id_or_panic ids s) | _ => None end) push.

(** Everything an emitter computes from the automaton, for shell [sh].  [ord_main] and [ord_subs]
    (keyed by pool index) are the literal orders (oracle). *)
Definition all_tables (sh : shell) (c : cdfa) (ord_main : list (string * string))
           (ord_subs : list (N * list (string * string))) : res (needs * alltables) :=
  let start := array_start sh in
  let d := c_main c in
  do nd <- get_needs c;
  do cmds <- get_commands c;
  do rt <- rtrans d;
  let states := get_all_states d in
  do main <- get_lookup_tables d cmds start (n_top_cmd nd) (compadd_switch sh (n_top_compadd nd)) (n_top_star nd) ord_main;
  do subtrans <- subword_transitions d states;
  let ids := get_subwords rt start in
  do csub <- get_completion_subwords rt ids (t_maxlevel main);
  do subs <- omap (fun pi =>
      do sd <- lookup_sub c (fst pi);
      let ord := match assocN (fst pi) ord_subs with Some o => o | None => [] end in
      do t <- get_lookup_tables sd cmds start (n_sub_cmd nd) (compadd_switch sh (n_sub_compadd nd)) (n_sub_star nd) ord;
      Ok (fst pi, snd pi, t)) ids;
  (* bash.rs accepting_from_id: the accepting states of each within-word automaton, + ARRAY_START *)
  do subacc <- omap (fun pi =>
      do sd <- lookup_sub c (fst pi);
      Ok (snd pi, map (fun s => s + start) (d_accepting sd))) ids;
  Ok (nd, mkall cmds states main subtrans csub subs subacc).

(** every literal order used is valid *)
Definition valid_orders (c : cdfa) (ord_main : list (string * string))
           (ord_subs : list (N * list (string * string))) : bool :=
  valid_literal_order (c_main c) ord_main
  && forallb (fun po => match nthN (c_subs c) (fst po) with
                        | Some sd => valid_literal_order sd (snd po)
                        | None => false
                        end) ord_subs.
