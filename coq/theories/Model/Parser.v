(** Model of the expression and statement parsers of [parse.rs], on trees (no arena: an [ExprId]
    never reaches an output; nodes allocated by an attempt that later fails are unobservable).

    nom's ordered choice ([alt], the labelled-block chains of `if let Ok`) is [<|>]; every
    `while let Ok(..) = p(after)` loop is [loop_p]: repeat while [Ok], a recoverable error in a
    continuation is a silent stop that leaves [after] where it was.

    One fuel [n] serves the recursion through brackets ([unary_expr] -> [expr]) and every loop;
    each of them consumes at least one byte per round, so [n > String.length text] is enough
    (see [parse]).  [OutOfFuel] is never taken for a parse error.

    Mirrored functions: [terminal_opt_description_expr], [nonterm_expr], [command_expr],
    [optional_expr], [parenthesized_expr], [unary_expr], [flatten_expr], [subword_sequence_expr],
    [subword_sequence_expr_opt_description], [sequence_expr], [do_alternative_expr],
    [alternative_expr], [do_fallback_expr], [fallback_expr], [expr], [call_variant], [nonterm_def],
    [nonterm_def_statement], [statement], [grammar] (with nom's [many0], including its
    no-progress error), [Grammar::parse]. *)
From CG Require Import Base.Prelude Model.Ast Model.Lexer.
From CGgen Require Import Consts.

(** The two switches of the terminal lexer (see Lexer.v). *)
Record cfg := mkcfg { reset_after_backslash : bool; reset_after_escaped : bool }.

(** what parse.rs does now (regenerated) / what it does once the span reset is repaired *)
Definition pinned : cfg := mkcfg terminal_reset_after_backslash terminal_reset_after_escaped.
Definition repaired : cfg := mkcfg false false.

Definition terminal (c : cfg) : input -> pres string :=
  terminal_with (reset_after_backslash c) (reset_after_escaped c).

(** `while let Ok((rest, x)) = step(after) { xs.push(x); after = rest; }` *)
Fixpoint loop_p {A} (k : nat) (step : input -> pres A) (i : input) : pres (list A) :=
  match k with
  | O => OutOfFuel
  | S k' =>
      match step i with
      | Ok (a, i1) => do (l, i2) <- loop_p k' step i1; Ok (a :: l, i2)
      | Err _ => Ok ([], i)
      | Panic s => Panic s
      | OutOfFuel => OutOfFuel
      end
  end.

Definition terminal_opt_description_expr (c : cfg) (i : input) : pres expr :=
  do (term, after) <- terminal c i;
  do (descr, after) <- opt_description after;
  Ok (Terminal term descr 0 (from_range i after), after).

Definition nonterm_expr (i : input) : pres expr :=
  do (ns, after) <- nonterm i;
  Ok (NontermRef (fst ns) 0 (from_range i after), after).

Definition command_expr (i : input) : pres expr :=
  do (cmd, after) <- triple_bracket_command i;
  Ok (Command cmd false 0 (from_range i after), after).

Definition LBRACK : ascii := ascii_of_N 91.
Definition RBRACK : ascii := ascii_of_N 93.
Definition LPAREN : ascii := ascii_of_N 40.
Definition RPAREN : ascii := ascii_of_N 41.
Definition BAR : ascii := ascii_of_N 124.

Definition optional_expr (ex : input -> pres expr) (i : input) : pres expr :=
  do (_, after) <- char_p LBRACK i;
  do (_, after) <- multiblanks0 after;
  do (e, after) <- ex after;
  do (_, after) <- multiblanks0 after;
  do (_, after) <- char_p RBRACK after;
  Ok (Optional e (from_range i after), after).

Definition parenthesized_expr (ex : input -> pres expr) (i : input) : pres expr :=
  do (_, i1) <- char_p LPAREN i;
  do (_, i2) <- multiblanks0 i1;
  do (e, i3) <- ex i2;
  do (_, i4) <- multiblanks0 i3;
  do (_, i5) <- char_p RPAREN i4;
  Ok (e, i5).

Definition unary_expr (c : cfg) (ex : input -> pres expr) (i : input) : pres expr :=
  do (e, after) <- (nonterm_expr i
                    <|> optional_expr ex i
                    <|> parenthesized_expr ex i
                    <|> command_expr i
                    <|> terminal_opt_description_expr c i);
  match many1_tag after with
  | Ok (_, after') => Ok (Many1 e (from_range i after'), after')
  | Err _ => Ok (e, after)
  | Panic s => Panic s
  | OutOfFuel => OutOfFuel
  end.

(** [flatten_expr]: removes every [Subword] node below (keeping all spans). *)
Fixpoint flatten_expr (e : expr) : expr :=
  match e with
  | Terminal _ _ _ _ | NontermRef _ _ _ | Command _ _ _ _ => e
  | Subword root _ _ => flatten_expr root
  | Sequence cs sp => Sequence (map flatten_expr cs) sp
  | Alternative cs sp => Alternative (map flatten_expr cs) sp
  | Optional c sp => Optional (flatten_expr c) sp
  | Many1 c sp => Many1 (flatten_expr c) sp
  | DistDescr c d sp => DistDescr (flatten_expr c) d sp
  | Fallback cs sp => Fallback (map flatten_expr cs) sp
  end.

Definition subword_sequence_expr (k : nat) (unary : input -> pres expr) (i : input) : pres expr :=
  do (lft, after) <- unary i;
  do (more, after) <- loop_p k unary after;
  match more with
  | [] => Ok (lft, after)
  | _ => let sp := from_range i after in
         Ok (Subword (Sequence (map flatten_expr (lft :: more)) sp) 0 sp, after)
  end.

Definition subword_sequence_expr_opt_description (k : nat) (unary : input -> pres expr) (i : input)
  : pres expr :=
  do (e, after) <- subword_sequence_expr k unary i;
  do (d, after') <- opt_description after;
  match d with
  | Some descr => Ok (DistDescr e descr (from_range i after'), after')
  | None => Ok (e, after)
  end.

Definition sequence_expr (k : nat) (item : input -> pres expr) (i : input) : pres expr :=
  do (lft, after) <- item i;
  do (more, after) <- loop_p k (fun j => do (_, j1) <- multiblanks1 j; item j1) after;
  match more with
  | [] => Ok (lft, after)
  | _ => Ok (Sequence (lft :: more) (from_range i after), after)
  end.

Definition do_alternative_expr (seq : input -> pres expr) (i : input) : pres expr :=
  do (_, i1) <- multiblanks0 i;
  do (_, i2) <- char_p BAR i1;
  do (_, i3) <- multiblanks0 i2;
  seq i3.

Definition alternative_expr (k : nat) (seq : input -> pres expr) (i : input) : pres expr :=
  do (lft, after) <- seq i;
  do (more, after) <- loop_p k (do_alternative_expr seq) after;
  match more with
  | [] => Ok (lft, after)
  | _ => Ok (Alternative (lft :: more) (from_range i after), after)
  end.

Definition do_fallback_expr (alt : input -> pres expr) (i : input) : pres expr :=
  do (_, i1) <- multiblanks0 i;
  do (_, i2) <- tag_p "||" i1;
  do (_, i3) <- multiblanks0 i2;
  alt i3.

Definition fallback_expr (k : nat) (alt : input -> pres expr) (i : input) : pres expr :=
  do (lft, after) <- alt i;
  do (more, after) <- loop_p k (do_fallback_expr alt) after;
  match more with
  | [] => Ok (lft, after)
  | _ => Ok (Fallback (lft :: more) (from_range i after), after)
  end.

(** [expr] = [fallback_expr]; the recursion through [[ ]] and [( )] costs one unit of fuel. *)
Fixpoint expr_p (c : cfg) (n : nat) (i : input) : pres expr :=
  match n with
  | O => OutOfFuel
  | S m =>
      fallback_expr m
        (alternative_expr m
           (sequence_expr m
              (subword_sequence_expr_opt_description m
                 (unary_expr c (expr_p c m))))) i
  end.

(** *** Statements *)

Definition call_variant (c : cfg) (ex : input -> pres expr) (i : input) : pres statement :=
  do (name, after) <- terminal c i;
  let name_span := from_range i after in
  do (_, after) <- multiblanks1 after;
  do (e, after) <- ex after;
  do (_, after) <- multiblanks0 after;
  do (_, after) <- end_of_statement after;
  Ok (CallVariant name name_span e, after).

Definition nonterm_def (i : input) : pres (string * span * option (string * span)) :=
  match nonterm_specialization i with
  | Ok ((name, nsp, shell, ssp), i1) => Ok ((name, nsp, Some (shell, ssp)), i1)
  | Panic s => Panic s
  | OutOfFuel => OutOfFuel
  | Err _ =>
      match nonterm i with
      | Ok ((name, nsp), i1) => Ok ((name, nsp, None), i1)
      | Panic s => Panic s
      | OutOfFuel => OutOfFuel
      | Err _ => fail
      end
  end.

Definition nonterm_def_statement (ex : input -> pres expr) (i : input) : pres statement :=
  do (hd, i1) <- nonterm_def i;
  do (_, i2) <- multiblanks0 i1;
  do (_, i3) <- (tag_p "::=" i2 <|> tag_p "=" i2);
  do (_, i4) <- multiblanks0 i3;
  do (rhs, i5) <- ex i4;
  do (_, i6) <- multiblanks0 i5;
  do (_, i7) <- end_of_statement i6;
  let '(name, nsp, shell) := hd in
  Ok (NontermDef name nsp shell rhs, i7).

Definition statement_p (c : cfg) (ex : input -> pres expr) (i : input) : pres statement :=
  do (st, i1) <- (call_variant c ex i <|> nonterm_def_statement ex i);
  do (_, i2) <- multiblanks0 i1;
  Ok (st, i2).

(** nom's [many0]: stop on a recoverable error; a parser that succeeds without consuming anything
    is an error at the position where it was applied. *)
Fixpoint many0_p {A} (k : nat) (p : input -> pres A) (i : input) : outcome input (list A * input) :=
  match k with
  | O => OutOfFuel
  | S k' =>
      match p i with
      | Ok (a, i1) =>
          if Nat.eqb (String.length (rest i1)) (String.length (rest i)) then Err i
          else match many0_p k' p i1 with
               | Ok (l, i2) => Ok (a :: l, i2)
               | Err e => Err e
               | Panic s => Panic s
               | OutOfFuel => OutOfFuel
               end
      | Err _ => Ok ([], i)
      | Panic s => Panic s
      | OutOfFuel => OutOfFuel
      end
  end.

Definition grammar_p (c : cfg) (n : nat) (i : input) : outcome input (grammar * input) :=
  match multiblanks0 i with
  | Ok (_, i1) =>
      match many0_p n (statement_p c (expr_p c n)) i1 with
      | Ok (stmts, i2) =>
          match multiblanks0 i2 with
          | Ok (_, i3) => Ok (stmts, i3)
          | Err _ => Err i2
          | Panic s => Panic s
          | OutOfFuel => OutOfFuel
          end
      | Err e => Err e
      | Panic s => Panic s
      | OutOfFuel => OutOfFuel
      end
  | Err _ => Err i
  | Panic s => Panic s
  | OutOfFuel => OutOfFuel
  end.

(** [Grammar::parse]: the error is [Error::ParseError(HumanSpan::from_machine(..))]. *)
Definition parse_with (c : cfg) (s : string) : outcome span grammar :=
  match grammar_p c (S (S (String.length s))) (start s) with
  | Ok (g, after) =>
      match rest after with
      | EmptyString => Ok g
      | _ => Err (from_machine after)
      end
  | Err e => Err (from_machine e)
  | Panic s => Panic s
  | OutOfFuel => OutOfFuel
  end.

Definition parse (s : string) : outcome span grammar := parse_with pinned s.
