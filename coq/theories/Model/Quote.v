(** Model of the four [make_string_constant] functions (bash.rs, fish.rs, zsh.rs, pwsh.rs):
    format!(DQ {} DQ, s.replace(p1, r1).replace(p2, r2)...) where DQ is the double-quote character.
    The delimiters and the replace chains are regenerated from the source on every run
    (coq/gen/Consts.v); [replace_all] mirrors Rust's [str::replace] (leftmost, non-overlapping,
    a single left-to-right pass; an empty pattern matches before every character and at the end). *)
From CG Require Import Base.Prelude Model.Ast.
From CGgen Require Import Consts.

Fixpoint is_prefix (p s : string) : bool :=
  match p with
  | EmptyString => true
  | String c p' =>
      match s with
      | String d s' => if Ascii.eqb c d then is_prefix p' s' else false
      | EmptyString => false
      end
  end.

(** [go skip s]: [skip] characters of a match that has already been replaced are still to be
    dropped. *)
Fixpoint replace_go (p r : string) (skip : nat) (s : string) : string :=
  match s with
  | EmptyString => match p with EmptyString => r | _ => EmptyString end
  | String c t =>
      match skip with
      | S k => replace_go p r k t
      | O =>
          if is_prefix p s then
            match p with
            | EmptyString => append r (String c (replace_go p r O t))
            | String _ p' => append r (replace_go p r (String.length p') t)
            end
          else String c (replace_go p r O t)
      end
  end.

Definition replace_all (p r s : string) : string := replace_go p r O s.

Definition apply_chain (chain : list (string * string)) (s : string) : string :=
  fold_left (fun acc pr => replace_all (fst pr) (snd pr) acc) chain s.

Definition chain (sh : shell) : list (string * string) :=
  match sh with
  | Bash => quote_chain_bash
  | Fish => quote_chain_fish
  | Zsh => quote_chain_zsh
  | Pwsh => quote_chain_pwsh
  end.

Definition quote_open (sh : shell) : string :=
  match sh with
  | Bash => quote_open_bash | Fish => quote_open_fish | Zsh => quote_open_zsh | Pwsh => quote_open_pwsh
  end.

Definition quote_close (sh : shell) : string :=
  match sh with
  | Bash => quote_close_bash | Fish => quote_close_fish | Zsh => quote_close_zsh | Pwsh => quote_close_pwsh
  end.

Definition make_string_constant (sh : shell) (s : string) : string :=
  append (quote_open sh) (append (apply_chain (chain sh) s) (quote_close sh)).
