(** Model of the compilation pipeline of [main.rs::aot] up to the minimised automaton:
    read -> [Grammar::parse] -> [ValidGrammar::from_grammar] -> [Regex::from_valid_grammar]
    -> [DFA::from_regex_raw] (compiling, minimising, checking and interning every within-word
    automaton on the way, in position order, as [Inp::from_input] does) -> [minimize]
    -> [check_ambiguity_best_effort].  It composes the stage models of the other files; each stage
    is tied to the code separately, and the whole is tied end to end by lib/vf/checks/c06.py. *)
From CG Require Import Base.Prelude Model.Ast Model.Lexer Model.Parser Model.Check Model.Regex.
From CG Require Import Model.Dfa Model.DfaEqb Model.Subset Model.Minimize Model.Ambiguity.

Inductive derror :=
| DParse (sp : span)
| DCheck (e : cerror)
| DRegex (e : rerror)
| DSubset (e : serror)
| DAmb (e : aerror).

Definition dres := outcome derror.

Definition lift {E A} (f : E -> derror) (x : outcome E A) : dres A :=
  match x with
  | Ok a => Ok a
  | Err e => Err (f e)
  | Panic s => Panic s
  | OutOfFuel => OutOfFuel
  end.

Definition lift_noerr {A} (x : outcome noerr A) : dres A :=
  match x with
  | Ok a => Ok a
  | Err _ => Panic "minimize: impossible error"
  | Panic s => Panic s
  | OutOfFuel => OutOfFuel
  end.

Section Compile.
  Variable pick : nat -> list (list N) -> nat.
  Variable fuel : nat.

  (** [DFA::from_regex] (raw automaton + ambiguity check) then [minimize] then the check again:
      what [Inp::from_input] does for a within-word regex before interning the result. *)
  Definition compile_sub (r : regex) : dres dfa :=
    do raw <- lift DSubset (dfa_from_regex pick fuel [] r);
    do _ <- lift DAmb (check_ambiguity_best_effort (fst raw));
    do m <- lift_noerr (minimize (fst raw));
    do _ <- lift DAmb (check_ambiguity_best_effort m);
    Ok m.

  Fixpoint intern_dfa (d : dfa) (subs : list dfa) (i : N) : N * list dfa :=
    match subs with
    | [] => (i, [d])
    | x :: r => if dfa_eqb x d then (i, subs)
                else let (k, r') := intern_dfa d r (N.succ i) in (k, x :: r')
    end.

  (** within-word regexes in position order, one compilation per regex id ([subwords_cache]) *)
  Fixpoint compile_subs (inputs : list rinput) (pl : pool) (cache : list (N * N)) (subs : list dfa)
    : dres (list (N * N) * list dfa) :=
    match inputs with
    | [] => Ok (cache, subs)
    | RSub rid _ _ :: rest =>
        match assocN rid cache with
        | Some _ => compile_subs rest pl cache subs
        | None =>
            match nthN pl rid with
            | None => Panic "RegexInternPool::lookup"
            | Some r =>
                do d <- compile_sub r;
                let (k, subs') := intern_dfa d subs 0 in
                compile_subs rest pl (cache ++ [(rid, k)]) subs'
            end
        end
    | _ :: rest => compile_subs rest pl cache subs
    end.

  Definition compile_valid (v : valid_grammar) : dres cdfa :=
    do rp <- lift DRegex (from_valid_expr (v_expr v));
    let (r, pl) := rp in
    do cs <- compile_subs (r_inputs r) pl [] [];
    let (submap, subs) := cs in
    do raw <- lift DSubset (dfa_from_regex pick fuel submap r);
    do m <- lift_noerr (minimize (fst raw));
    do _ <- lift DAmb (check_ambiguity_best_effort m);
    Ok (mkcdfa m subs).

  Definition compile (builtins : shell -> list (string * string)) (text : string) (sh : shell)
    : dres (valid_grammar * cdfa) :=
    do g <- match parse text with
            | Ok g => Ok g
            | Err sp => Err (DParse sp)
            | Panic s => Panic s
            | OutOfFuel => OutOfFuel
            end;
    do v <- lift DCheck (from_grammar builtins g sh);
    do c <- compile_valid v;
    Ok (v, c).
End Compile.
