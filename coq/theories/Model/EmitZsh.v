(** Model of src/zsh.rs [write_completion_script]: the WHOLE zsh script, from the templates the translator
    regenerates (coq/gen/TplZsh.v) and the data printers of [EmitData.Z].  [write!] = [fmt],
    [writeln!] = [fmtln].  Parameters that are not computed here: the signature line, the literal orders
    (inside the tables) and the order of the shape groups (DESIGN 4.3), as for bash. *)
From CG Require Import Base.Prelude Model.Ast Model.Dfa Model.Tpl Model.Quote Model.Tables Model.EmitBash Model.EmitData.
From CGgen Require Import Consts.
From CGgen Require TplZsh.
Import TplZsh.
Open Scope N_scope.
Open Scope list_scope.

Definition env_cmd (command : string) : list (string * string) := [("command", command)].

Definition write_subword_fn (command : string) (nc ncp ns : bool) : string :=
  let env := env_cmd command in
  sconcat [ fmt write_subword_fn_0 env; fmt write_subword_fn_1 env;
            (if ncp then fmt write_subword_fn_2 env else EmptyString);
            (if nc then fmt write_subword_fn_3 env else EmptyString);
            (if ns then fmt write_subword_fn_4 env else EmptyString);
            fmt write_subword_fn_5 env; fmt write_subword_fn_6 env;
            (if ncp then fmt write_subword_fn_7 env else EmptyString);
            fmt write_subword_fn_8 env;
            (if nc then fmt write_subword_fn_9 env else EmptyString);
            (if ncp then append (fmt write_subword_fn_10 env) (fmt write_subword_fn_11 env) else EmptyString);
            fmt write_subword_fn_12 env; nl ].

Definition group_text (command : string) (a : alltables) (sid : N) (group : list N) : res string :=
  group_block (Z.wrapper command) (Z.shape_fn command) (Z.shape_wrapper command) a sid group.

Definition script (command sig : string) (start_state : N) (nd : needs) (a : alltables)
           (groups : list (list N)) : res string :=
  let env := env_cmd command in
  let main := a_main a in
  let st := Z.st in
  do groups_part <-
    (if n_subwords nd then
       do gs <- omap (fun ig => group_text command a (fst ig) (snd ig)) (number_from 0 groups);
       Ok (sconcat gs)
     else Ok EmptyString);
  do rows <- (if n_subwords nd then resolve_rows a else Ok []);
  Ok (sconcat [
    fmtln write_completion_script_0 env;
    append "# " (append sig nl); nl;
    sconcat (map (fun ic => fmt write_completion_script_1 (("id", sN (fst ic)) :: ("cmd", snd ic) :: env))
                 (number_from 0 (a_commands a)));
    groups_part;
    (if n_top_compadd nd || n_sub_compadd nd then fmtln write_compadd_hook_fn_0 [] else EmptyString);
    (if n_subwords nd then write_subword_fn command (n_sub_cmd nd) (n_sub_compadd nd) (n_sub_star nd) else EmptyString);
    fmtln write_completion_script_2 env;
    Z.write_literals EmptyString (t_literals main);
    Z.write_match_transitions EmptyString main;
    (if n_subwords nd then
       append (fmtln write_completion_script_3 [])
              (sconcat (map (fun row => fmtln write_completion_script_4
                                          [("0", sN (fst row + st)); ("state_transitions", join " " (map Z.zkv (snd row)))]) rows))
     else EmptyString);
    fmt write_completion_script_5 (("starting_state", sN (start_state + st)) :: env);
    (if n_subwords nd then fmt write_completion_script_6 env else EmptyString);
    (if n_top_cmd nd then fmt write_completion_script_7 env else EmptyString);
    (if n_top_compadd nd then fmt write_completion_script_8 env else EmptyString);
    (if n_top_star nd then fmtln write_completion_script_9 env else EmptyString);
    fmtln write_completion_script_10 env;
    Z.write_completion_tables EmptyString main;
    (if n_subwords nd then
       sconcat (map (fun kl =>
                       fmtln write_completion_script_12
                         [("level", sN (fst kl));
                          ("initializer",
                           join " " (map (fun r => fmt write_completion_script_11
                                                     [("from_state_zsh", sN (fst r + st)); ("0", join " " (map sN (snd r)))])
                                         (snd kl)))])
                    (number_from 0 (a_csub a)))
     else EmptyString);
    fmt write_completion_script_13 env;
    (if n_top_compadd nd then fmt write_completion_script_14 env else EmptyString);
    fmt write_completion_script_15 env;
    (if n_subwords nd then fmt write_completion_script_16 env else EmptyString);
    (if n_top_cmd nd then fmt write_completion_script_17 env else EmptyString);
    (if n_top_compadd nd then fmt write_completion_script_18 env else EmptyString);
    fmt write_completion_script_19 env;
    (if n_top_compadd nd then fmt write_completion_script_20 env else fmt write_completion_script_21 env);
    fmt write_completion_script_22 env;
    fmt write_completion_script_23 env ]).

Definition script_of_dfa (command sig : string) (c : cdfa) (ord_main : list (string * string))
           (ord_subs : list (N * list (string * string))) (groups : list (list N)) : res (string * bool) :=
  do na <- all_tables Zsh c ord_main ord_subs;
  do s <- script command sig (d_start (c_main c)) (fst na) (snd na) groups;
  Ok (s, valid_orders c ord_main ord_subs && valid_grouping (snd na) groups).
