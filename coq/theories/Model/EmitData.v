(** Models of the DATA SECTIONS of the fish, zsh and pwsh emitters (src/fish.rs, src/zsh.rs,
    src/pwsh.rs): the functions of external commands, the wrapper and shape functions of within-word
    automata (whole functions: header, data statements, call, end) and the two data sections of the
    completion function (literal list + match tables + within-word transitions; candidate tables per
    level + within-word candidates).  The fixed skeleton between them is NOT modelled (DESIGN C04,
    effort valve): the tie (lib/vf/checks/c04.py) finds these blocks byte for byte, in order, in
    Rust's script and checks that everything else is a line of the regenerated skeleton templates.

    Every line comes from a regenerated template (coq/gen/Tpl{Fish,Zsh,Pwsh}.v); the small non-raw
    format strings of the printers ("[{input}]={}", "{cmd},{to}", the separators) are transcribed. *)
From CG Require Import Base.Prelude Model.Ast Model.Dfa Model.Tpl Model.Quote Model.Tables Model.EmitBash.
From CGgen Require Import Consts.
From CGgen Require TplFish TplZsh TplPwsh.
Open Scope N_scope.
Open Scope list_scope.

Definition app3 (a b c : string) : string := append a (append b c).

(** [IndexSet] of the non-empty descriptions, in order of first occurrence *)
Definition descr_set (lits : list (N * string * string)) : list string :=
  fold_left (fun acc l => let d := snd l in
                          match d with
                          | EmptyString => acc
                          | _ => if mem_str d acc then acc else acc ++ [d]
                          end) lits [].

Definition tables_of (a : alltables) (id : N) : res tables := tables_of_id a id.

(** the blocks of a script: (kind, text) in script order *)
Definition blocks := list (string * string).

Section Groups.
Variable wrapper : N -> tables -> string.             (* a within-word automaton with its own tables *)
Variable shape_fn : N -> tables -> string.            (* the shared tables *)
Variable shape_wrapper : N -> N -> tables -> string.  (* literals + call of the shape function *)

Definition group_block (a : alltables) (sid : N) (group : list N) : res string :=
  match group with
  | [] => Panic "chunk_by: empty chunk"
  | [id] => do t <- tables_of a id; Ok (append (wrapper id t) nl)
  | leader :: _ =>
      do lt <- tables_of a leader;
      do ws <- omap (fun id => do t <- tables_of a id; Ok (append (shape_wrapper id sid t) nl)) group;
      Ok (append (shape_fn sid lt) (append nl (sconcat ws)))
  end.

Definition group_blocks (a : alltables) (groups : list (list N)) : res (list (string * string)) :=
  omap (fun ig => do b <- group_block a (fst ig) (snd ig); Ok ("group", b)) (number_from 0 groups).
End Groups.

Definition resolve_rows (a : alltables) : res (list (N * list (N * N))) :=
  omap (fun row : N * list (N * N) =>
          do kvs <- omap (fun pt : N * N => do id <- script_id a (fst pt); Ok (id, snd pt)) (snd row);
          Ok (fst row, kvs)) (a_subtrans a).

(** ** zsh *)
Module Z.
Import TplZsh.
Open Scope N_scope.
Open Scope list_scope.
Definition st := array_start_zsh.
Definition msc := make_string_constant Zsh.

Definition zkv (p : N * N) : string := append "[" (append (sN (fst p)) (append "]=" (sN (snd p + st)))).

Definition rows (tpl : list seg) (prefix : string) (m : list (N * list (N * N))) : string :=
  sconcat (map (fun row => fmtln tpl [("prefix", prefix); ("0", sN (fst row + st));
                                      ("transitions", join " " (map zkv (snd row)))]) m).

Definition write_match_transitions (prefix : string) (t : tables) : string :=
  sconcat [ fmtln write_match_transitions_0 [("prefix", prefix)];
            rows write_match_transitions_1 prefix (t_mlit t);
            match t_mcmd t with
            | Some m => append (fmtln write_match_transitions_2 [("prefix", prefix)]) (rows write_match_transitions_3 prefix m)
            | None => EmptyString
            end;
            match t_mcompadd t with
            | Some m => append (fmtln write_match_transitions_4 [("prefix", prefix)]) (rows write_match_transitions_5 prefix m)
            | None => EmptyString
            end;
            match t_mstar t with
            | Some l => fmtln write_match_transitions_6
                          [("prefix", prefix);
                           ("transitions", join " " (map (fun p => append "[" (append (sN (fst p + st)) (append "]=" (sN (snd p + st))))) l))]
            | None => EmptyString
            end ].

Definition write_literals (prefix : string) (lits : list (N * string * string)) : string :=
  let ds := descr_set lits in
  sconcat [ fmtln write_literals_0 [("prefix", prefix); ("literals", join " " (map (fun l => msc (snd (fst l))) lits))];
            fmtln write_literals_1 [("prefix", prefix)];
            sconcat (map (fun id => fmtln write_literals_2 [("prefix", prefix); ("id", sN (fst id)); ("0", msc (snd id))])
                         (number_from 0 ds));
            fmtln write_literals_3
              [("prefix", prefix);
               ("initializer",
                join " " (flat_map (fun l => match index_of (snd l) ds with
                                             | Some d => [append "[" (append (sN (fst (fst l))) (append "]=" (sN d)))]
                                             | None => []
                                             end) lits))] ].

Definition levels (cell line : list seg) (prefix : string) (ls : list (list (N * list N))) : string :=
  sconcat (map (fun kl =>
                  fmtln line [("prefix", prefix); ("level", sN (fst kl));
                              ("initializer",
                               join " " (map (fun r => fmt cell [("from_state_zsh", sN (fst r + st)); ("0", join " " (map sN (snd r)))])
                                             (snd kl)))])
               (number_from 0 ls)).

Definition write_completion_tables (prefix : string) (t : tables) : string :=
  sconcat [ levels write_completion_tables_0 write_completion_tables_1 prefix (t_clit t);
            match t_ccmd t with Some m => levels write_completion_tables_2 write_completion_tables_3 prefix m | None => EmptyString end;
            match t_ccompadd t with Some m => levels write_completion_tables_4 write_completion_tables_5 prefix m | None => EmptyString end;
            fmtln write_completion_tables_6 [("prefix", prefix); ("0", sN (t_maxlevel t))] ].

Definition wrapper (command : string) (id : N) (t : tables) : string :=
  sconcat [ fmtln write_subword_wrapper_fn_0 [("command", command); ("id", sN id)];
            write_literals "subword_" (t_literals t); write_match_transitions "subword_" t;
            write_completion_tables "subword_" t;
            fmtln write_subword_wrapper_fn_1 [("command", command)]; fmtln write_subword_wrapper_fn_2 [] ].

Definition shape_fn (command : string) (sid : N) (t : tables) : string :=
  sconcat [ fmtln write_subword_shape_fn_0 [("command", command); ("shape_id", sN sid)];
            write_match_transitions "subword_" t; write_completion_tables "subword_" t;
            fmtln write_subword_shape_fn_1 [("command", command)]; fmtln write_subword_shape_fn_2 [] ].

Definition shape_wrapper (command : string) (id sid : N) (t : tables) : string :=
  sconcat [ fmtln write_subword_shape_wrapper_fn_0 [("command", command); ("id", sN id)];
            write_literals "subword_" (t_literals t);
            fmtln write_subword_shape_wrapper_fn_1 [("command", command); ("shape_id", sN sid)];
            fmtln write_subword_shape_wrapper_fn_2 [] ].

Definition data (command : string) (nd : needs) (a : alltables) (groups : list (list N)) : res blocks :=
  let main := a_main a in
  do gs <- (if n_subwords nd then group_blocks (wrapper command) (shape_fn command) (shape_wrapper command) a groups
            else Ok []);
  do rows <- (if n_subwords nd then resolve_rows a else Ok []);
  Ok (map (fun ic => ("cmd", fmt write_completion_script_1 [("command", command); ("id", sN (fst ic)); ("cmd", snd ic)]))
          (number_from 0 (a_commands a))
      ++ gs
      ++ [("main-match",
           sconcat [ fmtln write_completion_script_2 [("command", command)];
                     write_literals EmptyString (t_literals main); write_match_transitions EmptyString main;
                     if n_subwords nd then
                       append (fmtln write_completion_script_3 [])
                              (sconcat (map (fun row => fmtln write_completion_script_4
                                                          [("0", sN (fst row + st)); ("state_transitions", join " " (map zkv (snd row)))]) rows))
                     else EmptyString ]);
          ("main-completion",
           append (write_completion_tables EmptyString main)
                  (if n_subwords nd then
                     sconcat (map (fun kl =>
                                     fmtln write_completion_script_12
                                       [("level", sN (fst kl));
                                        ("initializer",
                                         join " " (map (fun r => fmt write_completion_script_11
                                                                   [("from_state_zsh", sN (fst r + st)); ("0", join " " (map sN (snd r)))])
                                                       (snd kl)))])
                                  (number_from 0 (a_csub a)))
                   else EmptyString))]).
End Z.

(** ** pwsh *)
Module P.
Import TplPwsh.
Open Scope N_scope.
Open Scope list_scope.
Definition msc := make_string_constant Pwsh.

Definition pkv (p : N * N) : string := append (sN (fst p)) (append "=" (sN (snd p))).

Definition write_literals (lits : list (N * string * string)) : string :=
  let ds := flat_map (fun l => match snd l with
                               | EmptyString => []
                               | d => [append "        " (append (sN (fst (fst l))) (append " = " (append (msc d) ";")))]
                               end) lits in
  append (fmtln write_literals_0 [("literals", join ", " (map (fun l => msc (snd (fst l))) lits))])
         (match ds with
          | [] => fmtln write_literals_1 []
          | _ => fmtln write_literals_2 [("descriptions", join nl ds)]
          end).

Definition rows (tpl : list seg) (m : list (N * list (N * N))) : string :=
  sconcat (map (fun row => fmtln tpl [("state", sN (fst row)); ("transitions", join ";" (map pkv (snd row)))]) m).

Definition write_matching_tables (t : tables) : string :=
  sconcat [ fmtln write_matching_tables_0 []; rows write_matching_tables_1 (t_mlit t);
            match t_mcmd t with
            | Some m => append (fmtln write_matching_tables_2 []) (rows write_matching_tables_3 m)
            | None => EmptyString
            end;
            match t_mstar t with
            | Some l => fmtln write_matching_tables_4 [("star_transitions", join ";" (map pkv l))]
            | None => EmptyString
            end ].

Definition cell (r : N * list N) : string :=
  append (sN (fst r)) (append "=@(" (append (join "," (map sN (snd r))) ")")).

Definition levels (line : list seg) (ls : list (list (N * list N))) : string :=
  sconcat (map (fun kl => fmtln line [("level", sN (fst kl)); ("initializer", join "; " (map cell (snd kl)))])
               (number_from 0 ls)).

Definition write_completion_tables (t : tables) : string :=
  sconcat [ levels write_completion_tables_0 (t_clit t);
            match t_ccmd t with Some m => levels write_completion_tables_1 m | None => EmptyString end;
            fmtln write_completion_tables_2 [("max_fallback_level", sN (t_maxlevel t))] ].

Definition wrapper (command : string) (id : N) (t : tables) : string :=
  sconcat [ fmtln write_subword_wrapper_fn_0 [("command", command); ("id", sN id)];
            write_literals (t_literals t); write_matching_tables t; write_completion_tables t;
            fmtln write_subword_wrapper_fn_1 [("command", command)]; fmtln write_subword_wrapper_fn_2 [] ].

Definition shape_fn (command : string) (sid : N) (t : tables) : string :=
  sconcat [ fmtln write_subword_shape_fn_0 [("command", command); ("shape_id", sN sid)];
            write_matching_tables t; write_completion_tables t;
            fmtln write_subword_shape_fn_1 [("command", command)]; fmtln write_subword_shape_fn_2 [] ].

Definition shape_wrapper (command : string) (id sid : N) (t : tables) : string :=
  sconcat [ fmtln write_subword_shape_wrapper_fn_0 [("command", command); ("id", sN id)];
            write_literals (t_literals t);
            fmtln write_subword_shape_wrapper_fn_1 [("command", command); ("shape_id", sN sid)];
            fmtln write_subword_shape_wrapper_fn_2 [] ].

Definition cmd_body (c : string) : string :=
  match trim c with EmptyString => "# empty command" | b => b end.

Definition data (command : string) (nd : needs) (a : alltables) (groups : list (list N)) : res blocks :=
  let main := a_main a in
  do gs <- (if n_subwords nd then group_blocks (wrapper command) (shape_fn command) (shape_wrapper command) a groups
            else Ok []);
  do rows <- (if n_subwords nd then resolve_rows a else Ok []);
  Ok (map (fun ic => ("cmd", fmtln write_completion_script_1 [("command", command); ("id", sN (fst ic)); ("cmd", cmd_body (snd ic))]))
          (number_from 0 (a_commands a))
      ++ gs
      ++ [("main-match",
           sconcat [ write_literals (t_literals main); write_matching_tables main;
                     if n_subwords nd then
                       append (fmtln write_completion_script_4 [])
                              (sconcat (map (fun row => fmtln write_completion_script_5
                                                          [("state", sN (fst row)); ("state_transitions", join ";" (map pkv (snd row)))]) rows))
                     else EmptyString ]);
          ("main-completion",
           append (write_completion_tables main)
                  (if n_subwords nd then
                     sconcat (map (fun kl =>
                                     fmtln write_completion_script_12
                                       [("level", sN (fst kl));
                                        ("initializer",
                                         join "; " (map (fun r => fmt write_completion_script_11
                                                                    [("from_state", sN (fst r)); ("0", join "," (map sN (snd r)))])
                                                        (snd kl)))])
                                  (number_from 0 (a_csub a)))
                   else EmptyString))]).
End P.

(** ** fish *)
Module F.
Import TplFish.
Open Scope N_scope.
Open Scope list_scope.
Definition st := array_start_fish.
Definition msc := make_string_constant Fish.

Definition scope (sub : bool) : string := if sub then "--global subword_" else EmptyString.

Definition write_literals (sub : bool) (lits : list (N * string * string)) : string :=
  let sp := scope sub in
  let ds := descr_set lits in          (* ids start at 1: the dummy "" is element 0 of the IndexSet *)
  let pairs := flat_map (fun l => match snd l with
                                  | EmptyString => []
                                  | d => match index_of d ds with Some k => [(fst (fst l), k + 1)] | None => [] end
                                  end) lits in
  sconcat [ fmtln write_literals_0 [("scope_patch", sp); ("literals", join " " (map (fun l => msc (snd (fst l))) lits))];
            sconcat (map (fun id => fmtln write_literals_1 [("scope_patch", sp); ("id", sN (fst id + 1)); ("0", msc (snd id))])
                         (number_from 0 ds));
            match pairs with
            | [] => EmptyString
            | _ => append (fmtln write_literals_2 [("scope_patch", sp); ("descr_literal_ids", join " " (map (fun p => sN (fst p)) pairs))])
                          (fmtln write_literals_3 [("scope_patch", sp); ("descr_ids", join " " (map (fun p => sN (snd p)) pairs))])
            end ].

(** the states 0..=max, each with its row or none *)
Fixpoint upto (n : nat) : list N :=
  match n with O => [0] | S k => upto k ++ [N.of_nat (S k)] end.

Definition max_key (m : list (N * list (N * N))) : option N :=
  fold_left (fun acc row => match acc with Some x => Some (N.max x (fst row)) | None => Some (fst row) end) m None.

Definition write_matching_tables (sub : bool) (t : tables) : string :=
  let sp := scope sub in
  sconcat [ match max_key (t_mlit t) with
            | None => EmptyString
            | Some mx =>
                let cells f := join " " (map (fun s => match assocN s (t_mlit t) with
                                                       | Some row => msc (join " " (map f row))
                                                       | None => msc EmptyString
                                                       end) (upto (N.to_nat mx))) in
                append (fmtln write_matching_tables_0 [("scope_patch", sp); ("0", cells (fun p => sN (fst p)))])
                       (fmtln write_matching_tables_1 [("scope_patch", sp); ("0", cells (fun p => sN (snd p + st)))])
            end;
            match t_mcmd t with
            | Some m => sconcat (map (fun row => fmtln write_matching_tables_2
                                                   [("scope_patch", sp); ("0", sN (fst row + st));
                                                    ("1", msc (join " " (map (fun p => append (sN (fst p)) (append "," (sN (snd p + st)))) (snd row))))]) m)
            | None => EmptyString
            end;
            match t_mstar t with
            | Some (p :: l) =>
                append (fmtln write_matching_tables_3 [("scope_patch", sp); ("star_transitions_from", join " " (map (fun q => sN (fst q + st)) (p :: l)))])
                       (fmtln write_matching_tables_4 [("scope_patch", sp); ("star_transitions_to", join " " (map (fun q => sN (snd q + st)) (p :: l)))])
            | _ => EmptyString
            end ].

Definition write_completion_tables (sub : bool) (t : tables) : string :=
  let sp := scope sub in
  sconcat [ sconcat (map (fun kl =>
                            append (fmtln write_completion_tables_0 [("scope_patch", sp); ("level", sN (fst kl));
                                                                     ("froms_initializer", join " " (map (fun r => sN (fst r + st)) (snd kl)))])
                                   (fmtln write_completion_tables_1 [("scope_patch", sp); ("level", sN (fst kl));
                                                                     ("0", join " " (map (fun r => msc (join " " (map sN (snd r)))) (snd kl)))]))
                         (number_from 0 (t_clit t)));
            match t_ccmd t with
            | Some m =>
                sconcat (map (fun kl =>
                                append (fmtln write_completion_tables_2 [("scope_patch", sp); ("level", sN (fst kl));
                                                                         ("from_initializer", join " " (map (fun r => sN (fst r + st)) (snd kl)))])
                                       (fmtln write_completion_tables_4 [("scope_patch", sp); ("level", sN (fst kl));
                                                                         ("commands_initializer",
                                                                          join " " (map (fun r => fmt write_completion_tables_3 [("0", join " " (map sN (snd r)))]) (snd kl)))]))
                             (number_from 0 m))
            | None => EmptyString
            end;
            fmtln write_completion_tables_5 [("0", sN (t_maxlevel t))] ].

Definition wrapper (command : string) (id : N) (t : tables) : string :=
  sconcat [ fmtln write_subword_wrapper_fn_0 [("command", command); ("id", sN id)];
            write_literals true (t_literals t); write_matching_tables true t; write_completion_tables true t;
            fmtln write_subword_wrapper_fn_1 [("command", command)]; fmtln write_subword_wrapper_fn_2 [] ].

Definition shape_fn (command : string) (sid : N) (t : tables) : string :=
  sconcat [ fmtln write_subword_shape_fn_0 [("command", command); ("shape_id", sN sid)];
            write_matching_tables true t; write_completion_tables true t;
            fmtln write_subword_shape_fn_1 [("command", command)]; fmtln write_subword_shape_fn_2 [] ].

Definition shape_wrapper (command : string) (id sid : N) (t : tables) : string :=
  sconcat [ fmtln write_subword_shape_wrapper_fn_0 [("command", command); ("id", sN id)];
            write_literals true (t_literals t);
            fmtln write_subword_shape_wrapper_fn_1 [("command", command); ("shape_id", sN sid)];
            fmtln write_subword_shape_wrapper_fn_2 [] ].

Definition data (command : string) (nd : needs) (a : alltables) (groups : list (list N)) : res blocks :=
  let main := a_main a in
  do gs <- (if n_subwords nd then group_blocks (wrapper command) (shape_fn command) (shape_wrapper command) a groups
            else Ok []);
  do rows <- (if n_subwords nd then resolve_rows a else Ok []);
  Ok (map (fun ic => ("cmd", fmt write_completion_script_0 [("command", command); ("id", sN (fst ic)); ("cmd", snd ic)]))
          (number_from 0 (a_commands a))
      ++ gs
      ++ [("main-match",
           sconcat [ fmtln write_completion_script_4 []; fmtln write_completion_script_5 [];
                     write_literals false (t_literals main);
                     fmtln write_completion_script_6 []; fmtln write_completion_script_7 [];
                     fmtln write_completion_script_8 []; fmtln write_completion_script_9 [];
                     write_matching_tables false main;
                     if n_subwords nd then
                       sconcat (map (fun row =>
                                       append (fmtln write_completion_script_10
                                                 [("0", sN (fst row + st)); ("1", msc (join " " (map (fun p => sN (fst p)) (snd row))))])
                                              (fmtln write_completion_script_11
                                                 [("0", sN (fst row + st)); ("1", msc (join " " (map (fun p => sN (snd p + st)) (snd row))))]))
                                    rows)
                     else EmptyString ]);
          ("main-completion",
           append (write_completion_tables false main)
                  (if n_subwords nd then
                     sconcat (map (fun kl =>
                                     append (fmtln write_completion_script_17
                                               [("level", sN (fst kl)); ("froms_initializer", join " " (map (fun r => sN (fst r + st)) (snd kl)))])
                                            (fmtln write_completion_script_19
                                               [("level", sN (fst kl));
                                                ("subwords_initializer",
                                                 join " " (map (fun r => fmt write_completion_script_18 [("0", join " " (map sN (snd r)))]) (snd kl)))]))
                                  (number_from 0 (a_csub a)))
                   else EmptyString))]).
End F.

(** the pipeline the tie runs: tables from the automaton, then the blocks *)
Definition data_of_dfa (sh : shell) (command : string) (c : cdfa) (ord_main : list (string * string))
           (ord_subs : list (N * list (string * string))) (groups : list (list N)) : res blocks :=
  do na <- all_tables sh c ord_main ord_subs;
  match sh with
  | Zsh => Z.data command (fst na) (snd na) groups
  | Pwsh => P.data command (fst na) (snd na) groups
  | Fish => F.data command (fst na) (snd na) groups
  | Bash => Ok []
  end.
