(** Tables of the two witness grammars of C17, as cg-dump prints them (lib/vf/checks/c17.py compares them with
    Rust's TABLES on every run):
      w1 :  cmd ({{{ c1 }}} x | {{{ c2 }}} y);
      w2 :  cmd p:({{{ c1 }}})... next;                                                      *)
From CG Require Import Base.Prelude Model.Dfa.

Definition w1_main : tables :=
  mktables [(0, "y", ""); (1, "x", "")]
           [(1, [(1, 3)]); (2, [(0, 3)])]
           (Some [(0, [(0, 1); (1, 2)])]) None None 0
           [[(1, [1]); (2, [0])]]
           (Some [[(0, [0; 1])]]) None.

Definition w1 : alltables := mkall ["c1"; "c2"] [0; 1; 2; 3] w1_main [] [[]] [] [].

Definition w2_sub : tables :=
  mktables [(0, "p:", "")]
           [(0, [(0, 1)])]
           (Some [(1, [(0, 2)]); (2, [(0, 2)])]) None None 0
           [[(0, [0])]]
           (Some [[(1, [0]); (2, [0])]]) None.

Definition w2 : alltables :=
  mkall ["c1"] [0; 1; 2]
        (mktables [(0, "next", "")] [(1, [(0, 2)])] None None None 0 [[(1, [0])]] None None)
        [(0, [(0, 1)])] [[(0, [0])]] [(0, 0, w2_sub)] [(0, [2])].
