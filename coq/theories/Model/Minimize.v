(** Model of [DFA::minimize] = [do_minimize] in src/dfa.rs (the repaired code: no early return
    when every state is accepting, no [break] when the popped group splits itself), function by
    function:

      [get_all_states], [make_transitions_image], [find_bounds], [SetInternPool],
      the Hopcroft loop of [do_minimize], the representative map,
      [keep_only_states_with_input_transitions],
      [eliminate_nonaccepting_states_without_output_transitions], [renumber_states],
      [hashmap_transitions_from_vec].

    Data: a [RoaringBitmap] is a strictly increasing [list N] (its iteration order); the
    [SetInternPool] is the list of interned sets, a [SetId] is an index into it; a
    [HashSet<SetId>] is a duplicate-free list in insertion order; [HashMap]s are association
    lists in first-insertion order.

    Opaque orders.  [worklist.iter().next()], [partitions.iter()] and
    [transitions_to_group.values()] iterate hash tables.  The model takes the list order.  For
    the repaired algorithm the final partition does not depend on these orders (it is the Nerode
    partition of the completed automaton, Proofs/HopcroftLoop.v), and everything after the loop
    depends on the partition only, so the model's result can be compared with Rust's exactly.

    [sort_unstable_by_key] is modelled by a stable insertion sort: the order among transitions
    with the same target only influences the insertion order of a [HashMap] whose iteration
    order is opaque anyway.  [find_bounds] (binary search for some transition whose target lies
    in [group_min, group_max], then extension of the window in both directions) is modelled by
    its result on a target-sorted slice: the maximal run of transitions with target in the
    interval, or [None] if there is none. *)
From CG Require Import Base.Prelude Model.Dfa.

(** No [Err] in this stage. *)
Inductive noerr : Type := .

Record transition := mktr { tr_from : N; tr_to : N; tr_input : N }.

Definition transition_eqb (a b : transition) : bool :=
  N.eqb (tr_from a) (tr_from b) && N.eqb (tr_to a) (tr_to b) && N.eqb (tr_input a) (tr_input b).

(** *** RoaringBitmap *)
Fixpoint bm_insert (x : N) (s : list N) : list N :=
  match s with
  | [] => [x]
  | y :: r => if N.ltb x y then x :: s else if N.eqb x y then s else y :: bm_insert x r
  end.

Definition bm_from_iter (l : list N) : list N := fold_left (fun s x => bm_insert x s) l [].
Definition bm_inter (a b : list N) : list N := filter (fun x => memN x b) a.
Definition bm_diff (a b : list N) : list N := filter (fun x => negb (memN x b)) a.
Definition bm_is_disjoint (a b : list N) : bool := forallb (fun x => negb (memN x b)) a.
Definition bm_min (s : list N) : option N := hd_error s.
Fixpoint bm_max (s : list N) : option N :=
  match s with
  | [] => None
  | [x] => Some x
  | _ :: r => bm_max r
  end.
(** [HashableRoaringBitmap::eq]: same length and equal element by element. *)
Fixpoint bm_eqb (a b : list N) : bool :=
  match a, b with
  | [], [] => true
  | x :: r, y :: r' => N.eqb x y && bm_eqb r r'
  | _, _ => false
  end.

(** *** SetInternPool *)
Fixpoint pool_find (set : list N) (pool : list (list N)) (i : N) : option N :=
  match pool with
  | [] => None
  | s :: r => if bm_eqb s set then Some i else pool_find set r (i + 1)
  end.

Definition pool_intern (pool : list (list N)) (set : list N) : list (list N) * N :=
  match pool_find set pool 0 with
  | Some id => (pool, id)
  | None => (pool ++ [set], lenN pool)
  end.

Definition pool_lookup (pool : list (list N)) (id : N) : option (list N) := nthN pool id.

(** *** HashSet<SetId> *)
Definition hs_insert (x : N) (s : list N) : list N := if memN x s then s else s ++ [x].
Definition hs_remove (x : N) (s : list N) : list N := filter (fun y => negb (N.eqb y x)) s.

(** *** DFA accessors *)
Definition iter_transitions (d : dfa) : list transition :=
  flat_map (fun ft => map (fun it => mktr (fst ft) (snd it) (fst it)) (snd ft)) (d_trans d).

Definition get_all_states (d : dfa) : list N :=
  bm_insert 0 (fold_left (fun s t => bm_insert (tr_to t) (bm_insert (tr_from t) s))
                         (iter_transitions d) []).

Definition input_ids (d : dfa) : list N := map N.of_nat (seq 0 (List.length (d_inputs d))).

(** *** make_transitions_image *)
Fixpoint insert_by_to (t : transition) (l : list transition) : list transition :=
  match l with
  | [] => [t]
  | u :: r => if N.ltb (tr_to u) (tr_to t) then u :: insert_by_to t r else t :: l
  end.

Definition sort_by_to (l : list transition) : list transition := fold_right insert_by_to [] l.

Fixpoint dedup (l : list transition) : list transition :=
  match l with
  | [] => []
  | a :: r =>
      match r with
      | [] => [a]
      | b :: _ => if transition_eqb a b then dedup r else a :: dedup r
      end
  end.

Definition completed_row (d : dfa) (ft : N * list (N * N)) : list transition :=
  map (fun it => mktr (fst ft) (snd it) (fst it)) (snd ft)
  ++ map (fun i => mktr (fst ft) 0 i)
         (filter (fun i => negb (memN i (map fst (snd ft)))) (input_ids d)).

Definition make_transitions_image (d : dfa) : list transition :=
  dedup (sort_by_to (flat_map (completed_row d) (d_trans d))).

(** *** find_bounds *)
Fixpoint drop_below (gmin : N) (ts : list transition) : list transition :=
  match ts with
  | [] => []
  | t :: r => if N.ltb (tr_to t) gmin then drop_below gmin r else ts
  end.

Fixpoint take_upto (gmax : N) (ts : list transition) : list transition :=
  match ts with
  | [] => []
  | t :: r => if N.leb (tr_to t) gmax then t :: take_upto gmax r else []
  end.

Definition find_bounds (ts : list transition) (gmin gmax : N) : option (list transition) :=
  match take_upto gmax (drop_below gmin ts) with
  | [] => None
  | w => Some w
  end.

(** *** the Hopcroft loop *)
Record hop := mkhop { h_pool : list (list N); h_parts : list N; h_work : list N }.

Fixpoint ofold {E A B} (f : A -> B -> outcome E A) (l : list B) (a : A) : outcome E A :=
  match l with
  | [] => Ok a
  | x :: r => do a' <- f a x; ofold f r a'
  end.

(** [HashMap<InpId, RoaringBitmap>]: [entry(input).or_default().insert(from)] *)
Fixpoint gt_insert (input from : N) (m : list (N * list N)) : list (N * list N) :=
  match m with
  | [] => [(input, [from])]
  | (i, s) :: r => if N.eqb i input then (i, bm_insert from s) :: r else (i, s) :: gt_insert input from r
  end.

Definition transitions_to_group (ts : list transition) (group : list N) : list (N * list N) :=
  fold_left (fun m t => if memN (tr_to t) group then gt_insert (tr_input t) (tr_from t) m else m) ts [].

Fixpoint overlapping_sets (pool : list (list N)) (from_states : list N) (parts : list N)
  : outcome noerr (list N) :=
  match parts with
  | [] => Ok []
  | id :: r =>
      match pool_lookup pool id with
      | None => Panic "do_minimize: pool.lookup(set_id).unwrap() in overlapping_sets"
      | Some s =>
          do rest <- overlapping_sets pool from_states r;
          Ok (if bm_is_disjoint s from_states then rest else id :: rest)
      end
  end.

(** body of [for intern_id in overlapping_sets] *)
Definition split_group (from_states : list N) (h : hop) (intern_id : N) : outcome noerr hop :=
  match pool_lookup (h_pool h) intern_id with
  | None => Panic "do_minimize: pool.lookup(intern_id).unwrap()"
  | Some states =>
      let states_to_remove := bm_inter states from_states in
      let remaining_states := bm_diff states states_to_remove in
      match remaining_states with
      | [] => Ok h
      | _ :: _ =>
          let parts1 := hs_remove intern_id (h_parts h) in
          let '(pool1, id_remove) := pool_intern (h_pool h) states_to_remove in
          let '(pool2, id_remaining) := pool_intern pool1 remaining_states in
          let parts2 := hs_insert id_remaining (hs_insert id_remove parts1) in
          let work :=
            if memN intern_id (h_work h) then
              hs_insert id_remaining (hs_insert id_remove (hs_remove intern_id (h_work h)))
            else if Nat.leb (List.length states_to_remove) (List.length remaining_states) then
              hs_insert id_remove (h_work h)
            else
              hs_insert id_remaining (h_work h) in
          Ok (mkhop pool2 parts2 work)
      end
  end.

(** body of [for from_states in transitions_to_group.values()] *)
Definition refine_with (h : hop) (from_states : list N) : outcome noerr hop :=
  do ov <- overlapping_sets (h_pool h) from_states (h_parts h);
  ofold (split_group from_states) ov h.

(** body of the [while let] after the group has been removed from the work-list *)
Definition process_group (image : list transition) (h : hop) (group_id : N) : outcome noerr hop :=
  match pool_lookup (h_pool h) group_id with
  | None => Panic "do_minimize: pool.lookup(group_id).unwrap()"
  | Some group =>
      match bm_min group, bm_max group with
      | Some gmin, Some gmax =>
          match find_bounds image gmin gmax with
          | None => Ok h
          | Some ts => ofold refine_with (map snd (transitions_to_group ts group)) h
          end
      | _, _ => Panic "do_minimize: group.min().unwrap()"
      end
  end.

Fixpoint hopcroft_loop (fuel : nat) (image : list transition) (h : hop) : outcome noerr hop :=
  match fuel with
  | O => OutOfFuel
  | S f =>
      match h_work h with
      | [] => Ok h
      | group_id :: _ =>
          do h' <- process_group image
                     (mkhop (h_pool h) (h_parts h) (hs_remove group_id (h_work h))) group_id;
          hopcroft_loop f image h'
      end
  end.

Definition initial_partition (d : dfa) : hop :=
  let dead_state_group := [0] in
  let all_states := get_all_states d in
  let nonaccepting_states := bm_diff (bm_diff all_states (d_accepting d)) dead_state_group in
  let '(pool0, id_dead) := pool_intern [] dead_state_group in
  let parts0 := hs_insert id_dead [] in
  let '(pool1, parts1) :=
    match d_accepting d with
    | [] => (pool0, parts0)
    | _ :: _ => let '(p, id) := pool_intern pool0 (d_accepting d) in (p, hs_insert id parts0)
    end in
  let '(pool2, parts2) :=
    match nonaccepting_states with
    | [] => (pool1, parts1)
    | _ :: _ => let '(p, id) := pool_intern pool1 nonaccepting_states in (p, hs_insert id parts1)
    end in
  mkhop pool2 parts2 parts2.

(** *** the representative map *)
Fixpoint map_insert (k v : N) (m : list (N * N)) : list (N * N) :=
  match m with
  | [] => [(k, v)]
  | (k', v') :: r => if N.eqb k' k then (k', v) :: r else (k', v') :: map_insert k v r
  end.

Definition representatives (pool : list (list N)) (parts : list N) : outcome noerr (list (N * N)) :=
  ofold (fun m id =>
           match pool_lookup pool id with
           | None => Panic "do_minimize: pool.lookup(*intern_id).unwrap()"
           | Some element =>
               match bm_min element with
               | None => Panic "do_minimize: partition_element.min().unwrap()"
               | Some rep => Ok (fold_left (fun m s => map_insert s rep m) element m)
               end
           end) parts [].

Definition rep_get (site : string) (reps : list (N * N)) (s : N) : outcome noerr N :=
  match assocN s reps with
  | Some r => Ok r
  | None => Panic site
  end.

(** *** the three post-passes *)
Definition keep_only_states_with_input_transitions
  (starting_state : N) (transitions : list transition) (accepting_states : list N)
  : list transition * list N :=
  let states_with_input_transition := bm_from_iter (map tr_to transitions) in
  let alive_accepting_states :=
    filter (fun s => N.eqb s starting_state || memN s states_with_input_transition) accepting_states in
  let alive_transitions :=
    filter (fun t =>
              if N.eqb (tr_from t) starting_state then true
              else if negb (memN (tr_from t) states_with_input_transition)
                      || negb (memN (tr_to t) states_with_input_transition) then false
              else true) transitions in
  (alive_transitions, alive_accepting_states).

Definition eliminate_nonaccepting_states_without_output_transitions
  (transitions : list transition) (accepting_states : list N) : list transition :=
  let states_with_output_transition := bm_from_iter (map tr_from transitions) in
  filter (fun t => memN (tr_to t) accepting_states || memN (tr_to t) states_with_output_transition)
         transitions.

(** [entry(old).or_insert_with(|| fresh id)] *)
Definition alloc (old : N) (st : list (N * N) * N) : list (N * N) * N :=
  match assocN old (fst st) with
  | Some _ => st
  | None => (fst st ++ [(old, snd st)], snd st + 1)
  end.

Definition renumber_states (starting_state : N) (transitions : list transition) (accepting_states : list N)
  : outcome noerr (N * list transition * list N) :=
  let new_from_old :=
    fst (fold_left (fun st t => alloc (tr_to t) (alloc (tr_from t) st)) transitions
                   (alloc starting_state ([], 0))) in
  do new_start <- rep_get "renumber_states: get(&starting_state).unwrap()" new_from_old starting_state;
  do new_transitions <-
    omap (fun t =>
            do f <- rep_get "renumber_states: get(from).unwrap()" new_from_old (tr_from t);
            do to <- rep_get "renumber_states: get(to).unwrap()" new_from_old (tr_to t);
            Ok (mktr f to (tr_input t))) transitions;
  do new_acc <- omap (rep_get "renumber_states: get(&old).unwrap() (accepting)" new_from_old) accepting_states;
  Ok (new_start, new_transitions, bm_from_iter new_acc).

(** [IndexMap::insert]: overwrite in place, or append *)
Fixpoint row_insert (input to : N) (row : list (N * N)) : list (N * N) :=
  match row with
  | [] => [(input, to)]
  | (i, t) :: r => if N.eqb i input then (i, to) :: r else (i, t) :: row_insert input to r
  end.

Fixpoint tbl_insert (from input to : N) (tbl : list (N * list (N * N))) : list (N * list (N * N)) :=
  match tbl with
  | [] => [(from, [(input, to)])]
  | (f, row) :: r =>
      if N.eqb f from then (f, row_insert input to row) :: r else (f, row) :: tbl_insert from input to r
  end.

Definition hashmap_transitions_from_vec (ts : list transition) : list (N * list (N * N)) :=
  fold_left (fun tbl t => tbl_insert (tr_from t) (tr_input t) (tr_to t) tbl) ts [].

(** *** do_minimize *)
Definition quotient_transitions (d : dfa) (reps : list (N * N)) : outcome noerr (list transition) :=
  omap (fun t =>
          do r <- rep_get "do_minimize: representative_id_from_state_id.get(to).unwrap()" reps (tr_to t);
          Ok (mktr (tr_from t) r (tr_input t))) (iter_transitions d).

Definition do_minimize (fuel : nat) (d : dfa) : outcome noerr dfa :=
  let image := make_transitions_image d in
  do h <- hopcroft_loop fuel image (initial_partition d);
  do reps <- representatives (h_pool h) (h_parts h);
  do starting_state <-
    rep_get "do_minimize: representative_id_from_state_id.get(&dfa.starting_state).unwrap()" reps (d_start d);
  do acc <- omap (rep_get "do_minimize: representative_id_from_state_id.get(&state_id).unwrap()" reps)
                 (d_accepting d);
  let accepting_states := bm_from_iter acc in
  do transitions <- quotient_transitions d reps;
  let '(transitions, accepting_states) :=
    keep_only_states_with_input_transitions starting_state transitions accepting_states in
  let transitions :=
    eliminate_nonaccepting_states_without_output_transitions transitions accepting_states in
  do r <- renumber_states starting_state transitions accepting_states;
  let '(starting_state, transitions, accepting_states) := r in
  Ok (mkdfa starting_state (hashmap_transitions_from_vec transitions) accepting_states (d_inputs d)).

(** One pop per iteration; every split raises the number of groups by one and the size of the
    work-list by one, so [|states| + 3] pops suffice (Proofs: [minimize_fuel_enough]). *)
Definition minimize_fuel (d : dfa) : nat := (2 * List.length (get_all_states d) + 2 * List.length (d_accepting d) + 8)%nat.

Definition minimize (d : dfa) : outcome noerr dfa := do_minimize (minimize_fuel d) d.
