(** Model of the two Graphviz printers: [DFA::to_dot] / [do_to_dot] / [diagnostic_display_input] /
    [get_all_states] / [get_subwords] (src/dfa.rs) and [Regex::to_dot] / [do_to_dot] /
    [make_dot_string_constant] (src/regex.rs).

    Both printers write a fixed repertoire of physical lines; the model produces the same lines as
    data ([item]: a line, or a [subgraph NAME { ... }] block) in the order the Rust code writes
    them, and [render_doc] turns them into the exact bytes (indentation = one tab per nesting
    level plus one, as [indentation] in the Rust code).  [of_dfa] / [of_regex] are byte-for-byte
    what the current code writes (tie T1 against the DFADOT / REGEXDOT stages).

    The printers are parameterised by a [variant] so that the code *as it is now* ([current]), the
    code *before commit 0e66d33* ([old]: the refuted one, kept for the witnesses) and the code with
    the remaining optional hunk applied ([patched]) are instances of one definition:
      - [v_escape]     how the label of a transition is made safe for a DOT quoted string
                       (old: only double quotes are escaped, after [{:?}] has already escaped the
                       description; current: backslashes, then double quotes);
      - [v_subacc]     whether the accepting states of a within-word automaton get [+ array_start]
                       in the dashed edges that leave a cluster (old: no; current: yes);
      - [v_dead0]      whether the regular states come from [get_all_states], which inserts state 0
                       unconditionally (old and current: yes; patched: no -- latent, see
                       [known_phantom]);
      - [v_rx_escape]  how literal / description / nonterminal name are written into a label of
                       the --regex file (old: verbatim; current: as [v_escape]).

    Rust's [{:?}] on [str] is modelled for ASCII exactly (backslash escapes for quote, backslash,
    NUL, tab, CR, LF; [\u{..}] for the other control characters and DEL).  Bytes >= 128 are
    copied, which is what Rust does for printable characters that are not grapheme extenders; the
    Unicode tables behind [char::is_printable] are not modelled (generators stay inside). *)
From Coq Require Import DecimalString.
From CG Require Import Base.Prelude Model.Dfa.

(** ** Small text helpers *)
Local Infix "+++" := append (right associativity, at level 60).

Definition dec (n : N) : string := NilEmpty.string_of_uint (N.to_uint n).

Definition dq : string := String """"%char "".
Definition bs : string := String "\"%char "".
Definition tab : string := String (ascii_of_nat 9) "".
Definition nl : string := String (ascii_of_nat 10) "".

(** [str::replace(c, by)] for a single character *)
Fixpoint replace_char (c : ascii) (by_ : string) (s : string) : string :=
  match s with
  | EmptyString => EmptyString
  | String a r => if Ascii.eqb a c then by_ +++ replace_char c by_ r else String a (replace_char c by_ r)
  end.

(** [.replace('"', "\\\"")] *)
Definition escape_quotes (s : string) : string := replace_char """"%char (bs +++ dq) s.
(** [.replace('\\', "\\\\")] *)
Definition escape_backslashes (s : string) : string := replace_char "\"%char (bs +++ bs) s.
(** the body of [make_dot_string_constant] (without the surrounding quotes) *)
Definition escape_dot (s : string) : string := escape_quotes (escape_backslashes s).

Definition hexdigit (n : N) : ascii :=
  if n <? 10 then ascii_of_N (48 + n) else ascii_of_N (87 + n).
Definition hex_lower (n : N) : string :=
  if n <? 16 then String (hexdigit n) "" else String (hexdigit (n / 16)) (String (hexdigit (n mod 16)) "").

(** [char::escape_debug_ext] with escape_double_quote, without escape_single_quote, on a byte *)
Definition debug_char (c : ascii) : string :=
  let n := N_of_ascii c in
  if n =? 0 then bs +++ "0"
  else if n =? 9 then bs +++ "t"
  else if n =? 13 then bs +++ "r"
  else if n =? 10 then bs +++ "n"
  else if n =? 92 then bs +++ bs
  else if n =? 34 then bs +++ dq
  else if (n <? 32) || (n =? 127) then bs +++ "u{" +++ hex_lower n +++ "}"
  else String c "".

Fixpoint debug_body (s : string) : string :=
  match s with
  | EmptyString => EmptyString
  | String c r => debug_char c +++ debug_body r
  end.

(** [format!("{:?}", s)] *)
Definition debug_str (s : string) : string := dq +++ debug_body s +++ dq.

(** ** diagnostic_display_input *)
Definition diagnostic_display_input (i : inp) : outcome unit string :=
  match i with
  | ILit t None l => Ok (t +++ " (" +++ dec l +++ ")")
  | ILit t (Some d) l => Ok (t +++ " " +++ debug_str d +++ " (" +++ dec l +++ ")")
  | IStar => Ok "*"
  | ICmd c _ => Ok ("{{{ " +++ c +++ " }}}")
  | ICompadd c _ => Ok ("{{{ " +++ c +++ " }}}compadd")
  | ISub _ _ => Ok "<subword>"
  end.

(** ** The lines both printers write *)
Inductive line :=
| LBlank                                   (* an empty line, no indentation *)
| LNodeDefault (shape : string)            (* node [shape=SHAPE]; *)
| LNode (id body : string)                 (* ID[label="BODY"]; *)
| LEdge (a b : string)                     (* A -> B; *)
| LEdgeQ (a b key body : string)           (* A -> B [KEY="BODY"]; *)
| LAssign (k v : string)                   (* K=V; *)
| LAssignQ (k body : string).              (* K="BODY"; *)

Inductive item :=
| ILine (l : line)
| IBlock (name : string) (body : list item).     (* subgraph NAME { ... } *)

Fixpoint tabs (n : nat) : string :=
  match n with O => EmptyString | S k => tab +++ tabs k end.

Definition render_line (l : line) : string :=
  match l with
  | LBlank => EmptyString
  | LNodeDefault sh => "node [shape=" +++ sh +++ "];"
  | LNode i b => i +++ "[label=" +++ dq +++ b +++ dq +++ "];"
  | LEdge a b => a +++ " -> " +++ b +++ ";"
  | LEdgeQ a b k body => a +++ " -> " +++ b +++ " [" +++ k +++ "=" +++ dq +++ body +++ dq +++ "];"
  | LAssign k v => k +++ "=" +++ v +++ ";"
  | LAssignQ k body => k +++ "=" +++ dq +++ body +++ dq +++ ";"
  end.

Fixpoint render_item (depth : nat) (i : item) : string :=
  match i with
  | ILine LBlank => nl
  | ILine l => tabs (S depth) +++ render_line l +++ nl
  | IBlock name body =>
      tabs (S depth) +++ "subgraph " +++ name +++ " {" +++ nl
      +++ (fix go (l : list item) : string :=
            match l with [] => EmptyString | x :: r => render_item (S depth) x +++ go r end) body
      +++ tabs (S depth) +++ "}" +++ nl
  end.

Fixpoint render_items (depth : nat) (l : list item) : string :=
  match l with [] => EmptyString | x :: r => render_item depth x +++ render_items depth r end.

Definition render_doc (name : string) (l : list item) : string :=
  "digraph " +++ name +++ " {" +++ nl +++ render_items 0 l +++ "}" +++ nl.

(** ** DFA side *)
Record variant := mkvariant {
  v_escape : string -> string;
  v_subacc : bool;
  v_dead0 : bool;
  v_rx_escape : string -> string
}.

Definition old : variant := mkvariant escape_quotes false true (fun s => s).
Definition current : variant := mkvariant escape_dot true true escape_dot.
Definition patched : variant := mkvariant escape_dot true false escape_dot.

(** RoaringBitmap: a strictly increasing list *)
Fixpoint insert_sorted (x : N) (l : list N) : list N :=
  match l with
  | [] => [x]
  | y :: r => if x <? y then x :: l else if x =? y then l else y :: insert_sorted x r
  end.

Definition get_all_states (v : variant) (d : dfa) : list N :=
  let s := fold_left (fun acc x => insert_sorted x acc) (trans_states d) [] in
  if v_dead0 v then insert_sorted 0 s else s.

Definition get_input (d : dfa) (i : N) : outcome unit inp :=
  match nthN (d_inputs d) i with
  | Some x => Ok x
  | None => Panic "InpInternPool::lookup: index out of range"
  end.

(** all (from, input id, to) in the iteration order of the two IndexMaps *)
Definition iter_transitions (d : dfa) : list (N * N * N) :=
  flat_map (fun row => map (fun p => (fst row, fst p, snd p)) (snd row)) (d_trans d).

(** [get_subwords(first_id)]: within-word automaton (pool index) -> id, in order of first use *)
Fixpoint get_subwords_go (d : dfa) (ts : list (N * N * N)) (next : N) (acc : list (N * N))
  : outcome unit (list (N * N)) :=
  match ts with
  | [] => Ok acc
  | (_, i, _) :: r =>
      do x <- get_input d i;
      match x with
      | ISub sub _ =>
          match assocN sub acc with
          | Some _ => get_subwords_go d r next acc
          | None => get_subwords_go d r (next + 1) (acc ++ [(sub, next)])
          end
      | _ => get_subwords_go d r next acc
      end
  end.

Definition get_subwords (d : dfa) (first_id : N) : outcome unit (list (N * N)) :=
  get_subwords_go d (iter_transitions d) first_id [].

Definition node_id (prefix : string) (n : N) : string := "_" +++ prefix +++ dec n.

Definition state_line (prefix : string) (base s : N) : item :=
  ILine (LNode (node_id prefix (s + base)) (prefix +++ dec (s + base))).

Definition lookup_sub (subs : list dfa) (i : N) : outcome unit dfa :=
  match nthN subs i with
  | Some x => Ok x
  | None => Panic "DFAInternPool::lookup: index out of range"
  end.

(** the lines written for one transition *)
Definition transition_lines (v : variant) (base : N) (subs : list dfa) (ids : list (N * N))
           (d : dfa) (prefix : string) (t : N * N * N) : outcome unit (list item) :=
  let '(from, i, to) := t in
  do x <- get_input d i;
  match x with
  | ISub sub _ =>
      do sd <- lookup_sub subs sub;
      match assocN sub ids with
      | None => Panic "id_from_dfa.get(subdfaid).unwrap()"
      | Some id =>
          let sp := dec id +++ "_" in
          Ok (ILine (LEdgeQ (node_id prefix (from + base)) (node_id sp (d_start sd + base)) "style" "dashed")
              :: map (fun a =>
                        ILine (LEdgeQ (node_id sp (if v_subacc v then a + base else a))
                                      (node_id prefix (to + base)) "style" "dashed"))
                     (d_accepting sd))
      end
  | _ =>
      do text <- diagnostic_display_input x;
      Ok [ILine (LEdgeQ (node_id prefix (from + base)) (node_id prefix (to + base)) "label"
                        (v_escape v text))]
  end.

Fixpoint oconcat {A} (l : list (outcome unit (list A))) : outcome unit (list A) :=
  match l with
  | [] => Ok []
  | x :: r => do a <- x; do b <- oconcat r; Ok (a ++ b)
  end.

(** the node statements: start state, regular states, accepting states *)
Definition node_lines (v : variant) (base : N) (d : dfa) (prefix : string) : list item :=
  let start := d_start d in
  let regular :=
    filter (fun s => negb (memN s (d_accepting d)) && negb (s =? start)) (get_all_states v d) in
  [ILine (LNodeDefault (if memN start (d_accepting d) then "doubleoctagon" else "octagon"));
   state_line prefix base start]
  ++ [ILine (LNodeDefault "circle")] ++ map (state_line prefix base) regular
  ++ [ILine LBlank; ILine (LNodeDefault "doublecircle")]
  ++ map (state_line prefix base) (d_accepting d) ++ [ILine LBlank].

Definition cluster_block (prefix : string) (id : N) (inner : list item) : item :=
  IBlock ("cluster_" +++ prefix +++ dec id)
         (ILine (LAssignQ "label" ("subword " +++ dec id))
          :: ILine (LAssign "color" "grey91")
          :: ILine (LAssign "style" "filled") :: inner).

(** [do_to_dot]; [nested] makes the lines of a within-word automaton (called with its own, empty,
    pool and its identifiers prefix) *)
Definition do_to_dot (v : variant) (base : N) (subs : list dfa) (d : dfa) (prefix : string)
           (nested : dfa -> string -> outcome unit (list item)) : outcome unit (list item) :=
  do ids <- get_subwords d base;
  do clusters <-
     omap (fun p : N * N =>
             do sd <- lookup_sub subs (fst p);
             do inner <- nested sd (dec (snd p) +++ "_");
             Ok (cluster_block prefix (snd p) inner)) ids;
  do edges <- oconcat (map (transition_lines v base subs ids d prefix) (iter_transitions d));
  Ok (node_lines v base d prefix ++ clusters ++ edges).

Definition dfa_items (v : variant) (base : N) (c : cdfa) : outcome unit (list item) :=
  do body <- do_to_dot v base (c_subs c) (c_main c) ""
               (fun sd p => do_to_dot v base [] sd p
                              (fun _ _ => Panic "within-word automaton inside a within-word automaton"));
  Ok (ILine (LAssign "rankdir" "LR") :: body).

Definition of_dfa_with (v : variant) (base : N) (c : cdfa) : outcome unit string :=
  do items <- dfa_items v base c; Ok (render_doc "dfa" items).

(** [DFA::to_dot] as it is now *)
Definition of_dfa (base : N) (c : cdfa) : outcome unit string := of_dfa_with current base c.

(** ** Regex side: arena and inputs as cg-dump prints them ([(regex (root i) .. (inputs ..) (nodes ..))]) *)
Inductive rinput :=
| RLit (text : string) (descr : option string)
| RNonterm (name : string)
| RCmd (cmd : string)
| RSub (rid : N).

Inductive rnode :=
| REps
| RTerm (p : N) | RNt (p : N) | RCommand (p : N) | RSubword (p : N) | REnd (p : N)
| RCat (l : list N) | ROr (l : list N)
| RStar (c : N).

Record regex := mkregex { r_root : N; r_inputs : list rinput; r_nodes : list rnode }.

Definition rpool := list (N * regex).

Definition parent_edge (parent : option string) (me : string) : list item :=
  match parent with Some p => [ILine (LEdge p me)] | None => [] end.

Definition rx_input (r : regex) (p : N) : outcome unit rinput :=
  match nthN (r_inputs r) p with
  | Some x => Ok x
  | None => Panic "input_from_position: index out of range"
  end.

(** [do_to_dot] of regex.rs; the visited set of within-word regexes is threaded *)
Fixpoint rx_items (fuel : nat) (v : variant) (pool : rpool) (r : regex) (node : N)
         (parent : option string) (prefix : string) (visited : list N)
  : outcome unit (list item * list N) :=
  match fuel with
  | O => OutOfFuel
  | S f =>
      let me := node_id prefix node in
      match nthN (r_nodes r) node with
      | None => Panic "arena: index out of range"
      | Some n =>
          match n with
          | RSubword pos =>
              do i <- rx_input r pos;
              match i with
              | RSub rid =>
                  match assocN rid pool with
                  | None => Panic "RegexInternPool::lookup"
                  | Some sr =>
                      let pre :=
                        parent_edge parent me
                        ++ [ILine (LNode me (dec pos +++ ": Subword " +++ dec rid));
                            ILine (LEdge me (node_id (dec rid +++ "_") (r_root sr)))] in
                      if memN rid visited then Ok (pre, visited)
                      else
                        do res <- rx_items f v pool sr (r_root sr) None (dec rid +++ "_") (rid :: visited);
                        let '(inner, visited') := res in
                        Ok (pre ++ [IBlock ("cluster_" +++ dec rid)
                                           (ILine (LAssignQ "label" ("SUBWORD " +++ dec rid))
                                            :: ILine (LAssign "color" "grey91")
                                            :: ILine (LAssign "style" "filled") :: inner)],
                            visited')
                  end
              | _ => Panic "unreachable: Subword node without Subword input"
              end
          | REps => Ok (ILine (LNode me "Epsilon") :: parent_edge parent me, visited)
          | RTerm pos =>
              do i <- rx_input r pos;
              match i with
              | RLit lit descr =>
                  let body :=
                    match descr with
                    | Some d => dec pos +++ ": " +++ bs +++ dq +++ v_rx_escape v lit +++ bs +++ dq +++ bs +++ "n"
                                    +++ bs +++ dq +++ v_rx_escape v d +++ bs +++ dq
                    | None => dec pos +++ ": " +++ bs +++ dq +++ v_rx_escape v lit +++ bs +++ dq
                    end in
                  Ok (ILine (LNode me body) :: parent_edge parent me, visited)
              | _ => Panic "unreachable: Terminal node without Literal input"
              end
          | RNt pos =>
              do i <- rx_input r pos;
              match i with
              | RNonterm name =>
                  Ok (ILine (LNode me (dec pos +++ ": <" +++ v_rx_escape v name +++ ">"))
                      :: parent_edge parent me, visited)
              | _ => Panic "unreachable: Nonterminal node without Nonterminal input"
              end
          | RCommand pos =>
              do i <- rx_input r pos;
              match i with
              | RCmd cmd =>
                  Ok (ILine (LNode me (escape_dot (dec pos +++ ": " +++ cmd)))
                      :: parent_edge parent me, visited)
              | _ => Panic "unreachable: Command node without Command input"
              end
          | RCat children | ROr children =>
              let label := match n with RCat _ => "Cat" | _ => "Or" end in
              do res <-
                 (fix go (l : list N) (visited : list N) : outcome unit (list item * list N) :=
                    match l with
                    | [] => Ok ([], visited)
                    | c :: rest =>
                        do a <- rx_items f v pool r c (Some me) prefix visited;
                        do b <- go rest (snd a);
                        Ok (fst a ++ fst b, snd b)
                    end) children visited;
              Ok (ILine (LNode me label) :: fst res ++ parent_edge parent me, snd res)
          | RStar _ => Ok (ILine (LNode me "Star") :: parent_edge parent me, visited)
          | REnd pos => Ok (ILine (LNode me (dec pos +++ ": EndMarker")) :: parent_edge parent me, visited)
          end
      end
  end.

Definition rx_fuel (pool : rpool) (r : regex) : nat :=
  S (S (List.length (r_nodes r) + fold_right (fun p acc => List.length (r_nodes (snd p)) + acc) 0 pool))%nat.

Definition regex_items (v : variant) (pool : rpool) (r : regex) : outcome unit (list item) :=
  do res <- rx_items (rx_fuel pool r) v pool r (r_root r) None "" [];
  Ok (fst res).

Definition of_regex_with (v : variant) (pool : rpool) (r : regex) : outcome unit string :=
  do items <- regex_items v pool r; Ok (render_doc "rx" items).

(** [Regex::to_dot] as it is now *)
Definition of_regex (pool : rpool) (r : regex) : outcome unit string := of_regex_with current pool r.

(** ** The finding classes of C16 (decidable; extracted).  The first, second and fourth were fixed by
    commit 0e66d33 and now only describe where the [old] variant is refuted; [known_phantom] is the
    one class left for the current code, and is empty on what [minimize] returns ([starts_at_zero]).

    [known_labels]: a transition whose display text contains a backslash (a backslash in a literal
    or a command, or a description that [{:?}] has to escape: double quote, backslash, control
    character).  The old code writes such a text with only its double quotes escaped, so the
    label renders wrongly or -- backslash directly before a double quote -- the quoted string ends
    early and the file is not DOT at all.
    [known_subacc]: numbering base 1 (fish, zsh) and a transition on a within-word automaton that
    has an accepting state: the dashed edge out of the cluster names the state without the base.
    [known_phantom]: state 0 is not a state of the automaton ([get_all_states] inserts it anyway).
    Cannot happen for the automata [minimize] returns (renumbering makes the start state 0).
    [known_rx]: a literal, description or nonterminal name with a double quote or a backslash:
    the --regex printer writes them verbatim inside a quoted label. *)
Definition display_has_backslash (i : inp) : bool :=
  match diagnostic_display_input i with
  | Ok t => contains_char "\"%char t
  | _ => false
  end.

Definition labels_need_escape (d : dfa) : bool :=
  existsb (fun t : N * N * N =>
             match nthN (d_inputs d) (snd (fst t)) with
             | Some (ISub _ _) | None => false
             | Some x => display_has_backslash x
             end) (iter_transitions d).

Definition used_subs (c : cdfa) : list dfa :=
  flat_map (fun t : N * N * N =>
              match nthN (d_inputs (c_main c)) (snd (fst t)) with
              | Some (ISub k _) => match nthN (c_subs c) k with Some sd => [sd] | None => [] end
              | _ => []
              end) (iter_transitions (c_main c)).

Definition known_labels (c : cdfa) : bool :=
  labels_need_escape (c_main c) || existsb labels_need_escape (used_subs c).

Definition known_subacc (base : N) (c : cdfa) : bool :=
  negb (base =? 0)
  && existsb (fun sd => match d_accepting sd with [] => false | _ => true end) (used_subs c).

Definition phantom_zero (d : dfa) : bool :=
  negb (memN 0 (d_start d :: trans_states d ++ d_accepting d)).

Definition known_phantom (c : cdfa) : bool :=
  phantom_zero (c_main c) || existsb phantom_zero (used_subs c).

Definition known_C16_old (base : N) (c : cdfa) : bool :=
  known_labels c || known_subacc base c || known_phantom c.

(** what [minimize] guarantees ([renumber_states] gives the start state number 0), checked on every
    run on Rust's MIN automaton: then state 0 is a state and the class [known_phantom] is empty *)
Definition starts_at_zero (c : cdfa) : bool :=
  (d_start (c_main c) =? 0) && forallb (fun sd => d_start sd =? 0) (used_subs c).

Definition needs_dot_escape (s : string) : bool :=
  contains_char """"%char s || contains_char "\"%char s.

Definition rinput_raw_unsafe (i : rinput) : bool :=
  match i with
  | RLit t None => needs_dot_escape t
  | RLit t (Some d) => needs_dot_escape t || needs_dot_escape d
  | RNonterm n => needs_dot_escape n
  | RCmd _ | RSub _ => false
  end.

Definition known_rx (pool : rpool) (r : regex) : bool :=
  existsb rinput_raw_unsafe (r_inputs r)
  || existsb (fun i => match i with
                       | RSub rid => match assocN rid pool with
                                     | Some sr => existsb rinput_raw_unsafe (r_inputs sr)
                                     | None => false
                                     end
                       | _ => false
                       end) (r_inputs r).

(** the same over the whole pool (the dump's pool holds exactly the within-word regexes in use) *)
Definition known_rx_all (pool : rpool) (r : regex) : bool :=
  existsb rinput_raw_unsafe (r_inputs r)
  || existsb (fun q : N * regex => existsb rinput_raw_unsafe (r_inputs (snd q))) pool.

(** ** Well-formedness of an automaton as the dump gives it (checked on every run on Rust's MIN):
    every transition's input id is in the pool, the accepting states are listed once, every
    within-word automaton a transition names is in the pool and has no within-word transitions. *)
Definition inputs_in_range (d : dfa) : bool :=
  forallb (fun t : N * N * N => match nthN (d_inputs d) (snd (fst t)) with Some _ => true | None => false end)
          (iter_transitions d).

Fixpoint nodupb (l : list N) : bool :=
  match l with [] => true | x :: r => negb (memN x r) && nodupb r end.

Definition wf_dfa (d : dfa) : bool := inputs_in_range d && nodupb (d_accepting d).

Definition no_sub_trans (d : dfa) : bool :=
  forallb (fun t : N * N * N => match nthN (d_inputs d) (snd (fst t)) with Some (ISub _ _) => false | _ => true end)
          (iter_transitions d).

Definition wf_cdfa (c : cdfa) : bool :=
  wf_dfa (c_main c)
  && forallb (fun t : N * N * N =>
                match nthN (d_inputs (c_main c)) (snd (fst t)) with
                | Some (ISub k _) =>
                    match nthN (c_subs c) k with
                    | Some sd => wf_dfa sd && no_sub_trans sd
                    | None => false
                    end
                | _ => true
                end) (iter_transitions (c_main c)).

(** ** Well-formedness of a regex arena as the dump gives it (checked on every run on Rust's REGEX
    stage): the within-word regexes contain no within-word node, and every position has its leaf
    node, of the kind of its input, reachable from the root through [Cat] / [Or] nodes only. *)
Definition rnode_leaf_eqb (n : rnode) (want : rnode) : bool :=
  match n, want with
  | RTerm a, RTerm b | RNt a, RNt b | RCommand a, RCommand b | RSubword a, RSubword b => a =? b
  | _, _ => false
  end.

Definition rx_leaf_for (inp : rinput) (pos : N) : rnode :=
  match inp with
  | RLit _ _ => RTerm pos
  | RNonterm _ => RNt pos
  | RCmd _ => RCommand pos
  | RSub _ => RSubword pos
  end.

Fixpoint rx_reach (fuel : nat) (r : regex) (n : N) : list N :=
  match fuel with
  | O => []
  | S f =>
      n :: match nthN (r_nodes r) n with
           | Some (RCat l) | Some (ROr l) => flat_map (rx_reach f r) l
           | _ => []
           end
  end.

Fixpoint rx_cover_from (r : regex) (reach : list N) (pos : N) (inputs : list rinput) : bool :=
  match inputs with
  | [] => true
  | inp :: rest =>
      existsb (fun m => match nthN (r_nodes r) m with
                        | Some n => rnode_leaf_eqb n (rx_leaf_for inp pos)
                        | None => false
                        end) reach
      && rx_cover_from r reach (pos + 1) rest
  end.

Definition rx_cover_b (r : regex) : bool :=
  rx_cover_from r (rx_reach (S (List.length (r_nodes r))) r (r_root r)) 0 (r_inputs r).

Definition rx_flat_b (r : regex) : bool :=
  forallb (fun n => match n with RSubword _ => false | _ => true end) (r_nodes r).

Definition rx_wf_b (pool : rpool) (r : regex) : bool :=
  rx_cover_b r && forallb (fun q : N * regex => rx_flat_b (snd q) && rx_cover_b (snd q)) pool.

(** what makes [rx_items] return (no panic, fuel suffices): the children of a node have smaller
    indices (the arena is built bottom-up by [alloc]), every leaf's position holds an input of the
    leaf's kind, every within-word input names a regex of the pool, the root exists *)
Definition rx_node_ok (pool : rpool) (r : regex) (n : N) (x : rnode) : bool :=
  match x with
  | REps | REnd _ | RStar _ => true
  | RCat l | ROr l => forallb (fun c => c <? n) l
  | RTerm pos => match nthN (r_inputs r) pos with Some (RLit _ _) => true | _ => false end
  | RNt pos => match nthN (r_inputs r) pos with Some (RNonterm _) => true | _ => false end
  | RCommand pos => match nthN (r_inputs r) pos with Some (RCmd _) => true | _ => false end
  | RSubword pos =>
      match nthN (r_inputs r) pos with
      | Some (RSub rid) => match assocN rid pool with Some _ => true | None => false end
      | _ => false
      end
  end.

Fixpoint rx_nodes_ok (pool : rpool) (r : regex) (n : N) (l : list rnode) : bool :=
  match l with
  | [] => true
  | x :: rest => rx_node_ok pool r n x && rx_nodes_ok pool r (n + 1) rest
  end.

Definition rx_arena_ok (pool : rpool) (r : regex) : bool :=
  (r_root r <? lenN (r_nodes r)) && rx_nodes_ok pool r 0 (r_nodes r).

Definition rx_total_b (pool : rpool) (r : regex) : bool :=
  rx_arena_ok pool r && forallb (fun q : N * regex => rx_arena_ok pool (snd q) && rx_flat_b (snd q)) pool.
