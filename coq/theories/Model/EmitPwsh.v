(** Model of src/pwsh.rs [write_completion_script]: the WHOLE PowerShell script, from the templates the
    translator regenerates (coq/gen/TplPwsh.v) and the data printers of [EmitData.P].  [write!] = [fmt],
    [writeln!] = [fmtln].  Parameters that are not computed here: the signature line, the literal orders
    (inside the tables) and the order of the shape groups (DESIGN 4.3), as for bash. *)
From CG Require Import Base.Prelude Model.Ast Model.Dfa Model.Tpl Model.Quote Model.Tables Model.EmitBash Model.EmitData.
From CGgen Require Import Consts.
From CGgen Require TplPwsh.
Import TplPwsh.
Open Scope N_scope.
Open Scope list_scope.

Definition env_cmd (command : string) : list (string * string) := [("command", command)].

Definition write_subword_fn (command : string) (nc ns : bool) : string :=
  let env := env_cmd command in
  sconcat [ fmtln write_subword_fn_0 env;
            (if nc then fmt write_subword_fn_1 env else EmptyString);
            (if ns then fmt write_subword_fn_2 env else EmptyString);
            fmt write_subword_fn_3 env;
            (if nc then fmt write_subword_fn_4 env else EmptyString);
            fmt write_subword_fn_5 env ].

Definition group_text (command : string) (a : alltables) (sid : N) (group : list N) : res string :=
  group_block (P.wrapper command) (P.shape_fn command) (P.shape_wrapper command) a sid group.

Definition script (command sig : string) (start_state : N) (nd : needs) (a : alltables)
           (groups : list (list N)) : res string :=
  let env := env_cmd command in
  let main := a_main a in
  do groups_part <-
    (if n_subwords nd then
       do gs <- omap (fun ig => group_text command a (fst ig) (snd ig)) (number_from 0 groups);
       Ok (sconcat gs)
     else Ok EmptyString);
  do rows <- (if n_subwords nd then resolve_rows a else Ok []);
  Ok (sconcat [
    append "# " (append sig nl);
    fmt write_completion_script_0 env;
    sconcat (map (fun ic => fmtln write_completion_script_1 (("id", sN (fst ic)) :: ("cmd", P.cmd_body (snd ic)) :: env))
                 (number_from 0 (a_commands a)));
    groups_part;
    (if n_subwords nd then write_subword_fn command (n_sub_cmd nd) (n_sub_star nd) else EmptyString);
    fmtln write_completion_script_2 env;
    fmtln write_completion_script_3 env;
    P.write_literals (t_literals main);
    P.write_matching_tables main;
    (if n_subwords nd then
       append (fmtln write_completion_script_4 [])
              (sconcat (map (fun row => fmtln write_completion_script_5
                                          [("state", sN (fst row)); ("state_transitions", join ";" (map P.pkv (snd row)))]) rows))
     else EmptyString);
    fmt write_completion_script_6 (("starting_state", sN start_state) :: env);
    (if n_subwords nd then fmt write_completion_script_7 env else EmptyString);
    (if n_top_cmd nd then fmt write_completion_script_8 env else EmptyString);
    (if n_top_star nd then fmt write_completion_script_9 env else EmptyString);
    fmt write_completion_script_10 env;
    P.write_completion_tables main;
    (if n_subwords nd then
       sconcat (map (fun kl =>
                       fmtln write_completion_script_12
                         [("level", sN (fst kl));
                          ("initializer",
                           join "; " (map (fun r => fmt write_completion_script_11
                                                      [("from_state", sN (fst r)); ("0", join "," (map sN (snd r)))])
                                          (snd kl)))])
                    (number_from 0 (a_csub a)))
     else EmptyString);
    fmt write_completion_script_13 (("max_fallback_level", sN (t_maxlevel main)) :: env);
    (if n_subwords nd then fmt write_completion_script_14 env else EmptyString);
    (if n_top_cmd nd then fmt write_completion_script_15 env else EmptyString);
    fmt write_completion_script_16 env ]).

Definition script_of_dfa (command sig : string) (c : cdfa) (ord_main : list (string * string))
           (ord_subs : list (N * list (string * string))) (groups : list (list N)) : res (string * bool) :=
  do na <- all_tables Pwsh c ord_main ord_subs;
  do s <- script command sig (d_start (c_main c)) (fst na) (snd na) groups;
  Ok (s, valid_orders c ord_main ord_subs && valid_grouping (snd na) groups).
