(** Model of the token-level functions of [parse.rs] (nom 8 + nom_locate), over byte strings with an
    explicit position state.

    An [input] is what a [LocatedSpan<&str>] is for the parser: the remaining text plus the two
    numbers nom_locate derives from its offset, [location_line()] (1-based, one more per LF consumed)
    and [get_column()] (1-based *byte* column: bytes since the last LF consumed, plus one).  The byte
    offset itself never reaches an output, so it is not part of the state.

    Every nom error in parse.rs is a recoverable [Err::Error]; it is modelled by [Err tt].
    [OutOfFuel] is kept apart (a loop that stops silently on [Err] must not stop on [OutOfFuel]).

    Mirrored functions: [comment], [form_feed], [blanks], [multiblanks0], [multiblanks1], [terminal]
    (regular run, escape run, fewer-than-three-dots run, [consumed == 0] exit), [parse_literal],
    [parse_escaped_char], [parse_escaped_whitespace], [parse_fragment], [description_inner],
    [description], [nonterm], [triple_bracket_command] (+ [str::trim]), [nonterm_specialization],
    [HumanSpan::from_range], [HumanSpan::from_machine].

    The character classes come from [CGgen.Consts] (regenerated from parse.rs on every run), and so
    do the two flags that say whether [terminal] re-wraps the remaining text into a fresh
    [LocatedSpan] (offset 0, line 1, column 1) after a backslash and after the escaped character
    (`input = after.into()` from a bare `&str`). *)
From CG Require Import Base.Prelude Model.Ast.
From CGgen Require Import Consts.

(** *** Positions *)

Record pos := mkpos { pline : N; pcol : N }.

Definition pos0 : pos := mkpos 1 1.

Definition LF : ascii := ascii_of_N 10.

Definition adv_char (c : ascii) (p : pos) : pos :=
  if Ascii.eqb c LF then mkpos (pline p + 1) 1 else mkpos (pline p) (pcol p + 1).

Fixpoint adv_str (w : string) (p : pos) : pos :=
  match w with
  | EmptyString => p
  | String c r => adv_str r (adv_char c p)
  end.

Record input := mkin { rest : string; at_ : pos }.

Definition start (s : string) : input := mkin s pos0.

(** [LocatedSpan::new(remaining)]: same text, offset 0, line 1. *)
Definition respan (i : input) : input := mkin (rest i) pos0.

Definition from_range (before after : input) : span :=
  mkspan (pline (at_ before)) (pcol (at_ before)) (pcol (at_ after)).

Definition from_machine (i : input) : span :=
  mkspan (pline (at_ i)) (pcol (at_ i)) (pcol (at_ i) + 1).

Definition pres (A : Type) : Type := outcome unit (A * input).

Definition fail {A} : pres A := Err tt.

(** Ordered choice / "if let Ok": only a recoverable error falls through. *)
Notation "x <|> y" := (match x with Err _ => y | Ok r => Ok r | Panic s => Panic s | OutOfFuel => OutOfFuel end)
  (at level 60, right associativity).

(** *** Character classes *)

Definition is_alnum (c : ascii) : bool :=
  let n := N_of_ascii c in
  ((N.leb 48 n) && (N.leb n 57)) || ((N.leb 65 n) && (N.leb n 90)) || ((N.leb 97 n) && (N.leb n 122)).

Definition is_regular (c : ascii) : bool :=
  (terminal_regular_alnum && is_alnum c) || contains_char c terminal_regular_punct.

Definition is_escapable (c : ascii) : bool := contains_char c terminal_escapable.

(** nom's [multispace1]: space, tab, CR, LF. *)
Definition is_multispace (c : ascii) : bool :=
  let n := N_of_ascii c in (N.eqb n 32) || (N.eqb n 9) || (N.eqb n 13) || (N.eqb n 10).

Definition BACKSLASH : ascii := ascii_of_N 92.
Definition DQUOTE : ascii := ascii_of_N 34.
Definition DOT : ascii := ascii_of_N 46.

(** *** nom primitives *)

(** [take_while(p)]: the longest prefix of characters satisfying [p] (possibly empty). *)
Fixpoint span_while (p : ascii -> bool) (s : string) : string * string :=
  match s with
  | EmptyString => (EmptyString, EmptyString)
  | String c r => if p c then let (a, b) := span_while p r in (String c a, b) else (EmptyString, s)
  end.

Definition take_while (p : ascii -> bool) (i : input) : string * input :=
  let (a, b) := span_while p (rest i) in (a, mkin b (adv_str a (at_ i))).

(** [take_while1]-like primitives ([multispace1], [is_not]): fail on an empty match. *)
Definition take_while1 (p : ascii -> bool) (i : input) : pres string :=
  let (a, i') := take_while p i in
  match a with EmptyString => fail | _ => Ok (a, i') end.

(** [char(c)] *)
Definition char_p (c : ascii) (i : input) : pres unit :=
  match rest i with
  | String d r => if Ascii.eqb d c then Ok (tt, mkin r (adv_char d (at_ i))) else fail
  | EmptyString => fail
  end.

Fixpoint strip_prefix (t s : string) : option string :=
  match t with
  | EmptyString => Some s
  | String a t' => match s with
                   | String b s' => if Ascii.eqb a b then strip_prefix t' s' else None
                   | EmptyString => None
                   end
  end.

Definition starts_with (t s : string) : bool :=
  match strip_prefix t s with Some _ => true | None => false end.

(** [tag(t)] *)
Definition tag_p (t : string) (i : input) : pres unit :=
  match strip_prefix t (rest i) with
  | Some r => Ok (tt, mkin r (adv_str t (at_ i)))
  | None => fail
  end.

(** *** Blanks *)

Definition comment (i : input) : pres unit :=
  do (_, i1) <- char_p comment_start_char i;
  let (_, i2) := take_while (fun c => negb (Ascii.eqb c comment_end_char)) i1 in
  Ok (tt, i2).

Definition form_feed (i : input) : pres unit := char_p form_feed_char i.

Definition blanks (i : input) : pres unit :=
  (do (_, i1) <- take_while1 is_multispace i; Ok (tt, i1)) <|> comment i <|> form_feed i.

Fixpoint multiblanks0_f (fuel : nat) (i : input) : pres unit :=
  match fuel with
  | O => OutOfFuel
  | S f => match blanks i with
           | Ok (_, i1) => multiblanks0_f f i1
           | Err _ => Ok (tt, i)
           | Panic s => Panic s
           | OutOfFuel => OutOfFuel
           end
  end.

(** Every successful [blanks] consumes at least one byte, so the length of the text (+1) is enough. *)
Definition multiblanks0 (i : input) : pres unit :=
  multiblanks0_f (S (String.length (rest i))) i.

Definition multiblanks1 (i : input) : pres unit :=
  do (_, i1) <- blanks i; multiblanks0 i1.

(** *** terminal *)

Definition is_dot (c : ascii) : bool := Ascii.eqb c DOT.

(** The escape run: [while let Some(after) = input.strip_prefix('\\')]. *)
Fixpoint escape_run (rb re : bool) (fuel : nat) (i : input) : pres string :=
  match fuel with
  | O => OutOfFuel
  | S f =>
      match rest i with
      | String b after =>
          if Ascii.eqb b BACKSLASH then
            let i1 := mkin after (adv_char b (at_ i)) in
            let i1 := if rb then respan i1 else i1 in
            match rest i1 with
            | String c after2 =>
                if is_escapable c then
                  let i2 := mkin after2 (adv_char c (at_ i1)) in
                  let i2 := if re then respan i2 else i2 in
                  do (more, i3) <- escape_run rb re f i2;
                  Ok (String c more, i3)
                else fail
            | EmptyString => fail
            end
          else Ok (EmptyString, i)
      | EmptyString => Ok (EmptyString, i)
      end
  end.

Definition slen (s : string) : N := N.of_nat (String.length s).

Fixpoint terminal_loop (rb re : bool) (fuel : nat) (i : input) : pres string :=
  match fuel with
  | O => OutOfFuel
  | S f =>
      let (reg, i1) := take_while is_regular i in
      do (esc, i2) <- escape_run rb re (S (String.length (rest i1))) i1;
      if starts_with "..." (rest i2) then Ok (append reg esc, i2)
      else
        let (dots, i3) := take_while is_dot i2 in
        let consumed := slen reg + slen esc + slen dots in
        if N.eqb consumed 0 then Ok (append reg (append esc dots), i3)
        else
          do (more, i4) <- terminal_loop rb re f i3;
          Ok (append reg (append esc (append dots more)), i4)
  end.

Definition terminal_with (rb re : bool) (i : input) : pres string :=
  do (term, i1) <- terminal_loop rb re (S (String.length (rest i))) i;
  match term with
  | EmptyString => fail
  | _ => Ok (term, i1)
  end.

(** *** description *)

Definition not_quote_backslash (c : ascii) : bool :=
  negb (Ascii.eqb c DQUOTE) && negb (Ascii.eqb c BACKSLASH).

Inductive fragment := FLiteral (s : string) | FEscapedChar (c : ascii) | FEscapedWS.

Definition parse_literal (i : input) : pres string := take_while1 not_quote_backslash i.

Definition parse_escaped_char (i : input) : pres ascii :=
  do (_, i1) <- char_p BACKSLASH i;
  (do (_, i2) <- char_p BACKSLASH i1; Ok (BACKSLASH, i2))
  <|> (do (_, i2) <- char_p DQUOTE i1; Ok (DQUOTE, i2)).

Definition parse_escaped_whitespace (i : input) : pres unit :=
  do (_, i1) <- char_p BACKSLASH i;
  do (_, i2) <- take_while1 is_multispace i1;
  Ok (tt, i2).

Definition parse_fragment (i : input) : pres fragment :=
  (do (s, i1) <- parse_literal i; Ok (FLiteral s, i1))
  <|> (do (c, i1) <- parse_escaped_char i; Ok (FEscapedChar c, i1))
  <|> (do (_, i1) <- parse_escaped_whitespace i; Ok (FEscapedWS, i1)).

(** [fold_many0(parse_fragment, ..)]; every fragment consumes at least one byte. *)
Fixpoint description_inner_f (fuel : nat) (i : input) : pres string :=
  match fuel with
  | O => OutOfFuel
  | S f =>
      match parse_fragment i with
      | Ok (fr, i1) =>
          do (more, i2) <- description_inner_f f i1;
          Ok (match fr with
              | FLiteral s => append s more
              | FEscapedChar c => String c more
              | FEscapedWS => more
              end, i2)
      | Err _ => Ok (EmptyString, i)
      | Panic s => Panic s
      | OutOfFuel => OutOfFuel
      end
  end.

Definition description_inner (i : input) : pres string :=
  description_inner_f (S (String.length (rest i))) i.

Definition description (i : input) : pres string :=
  do (_, i1) <- char_p DQUOTE i;
  do (d, i2) <- description_inner i1;
  do (_, i3) <- char_p DQUOTE i2;
  Ok (d, i3).

(** [opt(preceded(multiblanks0, description))] *)
Definition opt_description (i : input) : pres (option string) :=
  match (do (_, i1) <- multiblanks0 i; description i1) with
  | Ok (d, i2) => Ok (Some d, i2)
  | Err _ => Ok (None, i)
  | Panic s => Panic s
  | OutOfFuel => OutOfFuel
  end.

(** *** nonterminals *)

Definition LT : ascii := ascii_of_N 60.
Definition GT : ascii := ascii_of_N 62.
Definition AT : ascii := ascii_of_N 64.

Definition nonterm (i : input) : pres (string * span) :=
  do (_, i1) <- char_p LT i;
  do (name, i2) <- take_while1 (fun c => negb (Ascii.eqb c GT)) i1;
  do (_, i3) <- char_p GT i2;
  Ok ((name, from_range i i3), i3).

Definition nonterm_specialization (i : input) : pres (string * span * string * span) :=
  do (_, i1) <- char_p LT i;
  do (name, i2) <- take_while1 (fun c => negb (Ascii.eqb c GT) && negb (Ascii.eqb c AT)) i1;
  do (_, i3) <- char_p AT i2;
  do (shell, i4) <- take_while1 (fun c => negb (Ascii.eqb c GT)) i3;
  let shell_span := from_range i3 i4 in
  do (_, i5) <- char_p GT i4;
  Ok ((name, from_range i i5, shell, shell_span), i5).

(** *** {{{ command }}} *)

(** [take_until("}}}")]: the text before the first occurrence, or failure when there is none. *)
Fixpoint split_until (t s : string) : option (string * string) :=
  if starts_with t s then Some (EmptyString, s)
  else match s with
       | EmptyString => None
       | String c r => match split_until t r with
                       | Some (a, b) => Some (String c a, b)
                       | None => None
                       end
       end.

Definition take_until (t : string) (i : input) : pres string :=
  match split_until t (rest i) with
  | Some (a, b) => Ok (a, mkin b (adv_str a (at_ i)))
  | None => fail
  end.

(** [str::trim]: strips characters with the Unicode White_Space property at both ends.  On the
    UTF-8 bytes of a valid [&str] these are exactly the encodings below (a lead byte determines
    the length of its sequence, so matching byte sequences at either end is exact):
    U+0009..U+000D, U+0020, U+0085 (C2 85), U+00A0 (C2 A0), U+1680 (E1 9A 80),
    U+2000..U+200A (E2 80 80..8A), U+2028/9 (E2 80 A8/A9), U+202F (E2 80 AF), U+205F (E2 81 9F),
    U+3000 (E3 80 80). *)
Definition ascii_ws (n : N) : bool := ((N.leb 9 n) && (N.leb n 13)) || (N.eqb n 32).

Definition ws3 (a b c : N) : bool :=
  ((N.eqb a 225) && (N.eqb b 154) && (N.eqb c 128))
  || ((N.eqb a 226) && (N.eqb b 128) && (((N.leb 128 c) && (N.leb c 138)) || (N.eqb c 168) || (N.eqb c 169) || (N.eqb c 175)))
  || ((N.eqb a 226) && (N.eqb b 129) && (N.eqb c 159))
  || ((N.eqb a 227) && (N.eqb b 128) && (N.eqb c 128)).

Definition ws2 (a b : N) : bool := (N.eqb a 194) && ((N.eqb b 133) || (N.eqb b 160)).

Fixpoint trim_start (s : string) : string :=
  match s with
  | String a r1 =>
      if ascii_ws (N_of_ascii a) then trim_start r1
      else match r1 with
           | String b r2 =>
               if ws2 (N_of_ascii a) (N_of_ascii b) then trim_start r2
               else match r2 with
                    | String c r3 =>
                        if ws3 (N_of_ascii a) (N_of_ascii b) (N_of_ascii c) then trim_start r3 else s
                    | EmptyString => s
                    end
           | EmptyString => s
           end
  | EmptyString => s
  end.

(** The same on the reversed string (byte sequences reversed). *)
Fixpoint trim_rev (s : string) : string :=
  match s with
  | String a r1 =>
      if ascii_ws (N_of_ascii a) then trim_rev r1
      else match r1 with
           | String b r2 =>
               if ws2 (N_of_ascii b) (N_of_ascii a) then trim_rev r2
               else match r2 with
                    | String c r3 =>
                        if ws3 (N_of_ascii c) (N_of_ascii b) (N_of_ascii a) then trim_rev r3 else s
                    | EmptyString => s
                    end
           | EmptyString => s
           end
  | EmptyString => s
  end.

Fixpoint rev_append (s acc : string) : string :=
  match s with
  | EmptyString => acc
  | String c r => rev_append r (String c acc)
  end.

Definition srev (s : string) : string := rev_append s EmptyString.

Definition trim_end (s : string) : string := srev (trim_rev (srev s)).

Definition trim (s : string) : string := trim_end (trim_start s).

Definition triple_bracket_command (i : input) : pres string :=
  do (_, i1) <- tag_p "{{{" i;
  do (cmd, i2) <- take_until "}}}" i1;
  do (_, i3) <- tag_p "}}}" i2;
  Ok (trim cmd, i3).

(** [many1_tag]: [multiblanks0] then ["..."]. *)
Definition many1_tag (i : input) : pres unit :=
  do (_, i1) <- multiblanks0 i;
  tag_p "..." i1.

(** [end_of_statement]: [';'] or end of input. *)
Definition SEMI : ascii := ascii_of_N 59.

Definition end_of_statement (i : input) : pres unit :=
  char_p SEMI i <|> (match rest i with EmptyString => Ok (tt, i) | _ => fail end).
