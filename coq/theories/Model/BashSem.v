(** BashSem: an executable interpreter of the bash completion script that src/bash.rs emits, over
    the tables the emitter prints ([Dfa.alltables], as dumped by cg-dump's TABLES stage).

    INTERFACE
    - [env]: COMP_WORDBREAKS, the fixed stdout text of every command id (a command that is not listed prints
      nothing), `completion-ignore-case`.
    - [run_from v start tabs env words prefix : outcome string result]
        [v]      which within-word literal loop: [Pinned] = the template in /repo now, [Fixed] = the proposed
                 repair (REPORT-bashsem.md);
        [start]  the value of `local state=N` (0 after minimisation; lib/vf/t2.py reads it from the script);
        [words]  the complete words after the command name, [prefix] the word under the cursor;
        result   [r_rc] (return code of _<cmd>), [r_reply] (COMPREPLY), [r_log] (every command-function call
                 as (command id, $1, $2), in execution order).
      [Err msg]   = the query leaves the modelled domain (a glob construct Model/Glob.v does not cover, a
                    non-printable prefix given to printf %q, a command id without function): no verdict.
      [OutOfFuel] = the within-word loop does not terminate (an empty candidate line on a cycle): the fuel
                    [(|word|+1) * (|states|+1)] exceeds the number of distinct loop configurations.
    - [run] = [run_from Pinned 0].

    The code follows the script block by block; the names are the script's.  Appendix B of DESIGN.md lists
    the bash behaviours reproduced here (associative-array key order, `read -r f1 _`, `echo "$f1"`,
    unquoted right-hand sides of ==, printf %q, sort -nrk2,2 -rk3, arrays not reset between levels). *)
From CG Require Import Base.Prelude Model.Dfa Model.Glob.
From Coq Require Import DecimalString.

Record env := mkenv {
  e_wordbreaks : string;
  e_outputs : list (N * string);
  e_ignore_case : bool
}.

Definition invocation : Type := N * string * string.

Record result := mkresult {
  r_rc : N;
  r_reply : list string;
  r_log : list invocation
}.

Definition M (A : Type) : Type := outcome string A.

(** [Pinned]: the templates of /repo when the model was first written.  [Fixed]: [Pinned] + the repair of the
    within-word stop test (patches/c12-within-word-stop-test.patch).  [Repaired]: the whole proposed repair
    (patches/combined-within-word-and-candidates.patch): quoted operands (string comparisons instead of glob
    matches), candidates = text before the first tab of every line, empty candidates never consumed, no
    `word_index+1 == cword` escape, candidate arrays reset at every fallback level. *)
Inductive variant := Pinned | Fixed | Repaired.

Definition quirky (v : variant) : bool := match v with Repaired => false | _ => true end.

(** *** bash: keys of an associative array
    hash_string = FNV-1 (32 bit) over the key's bytes; 1024 buckets; a new key goes to the head of its
    bucket; "${!a[@]}" walks the buckets in increasing order. *)
Definition fnv_prime : N := 16777619.
Definition fnv_offset : N := 2166136261.
Definition two32 : N := 4294967296.

Fixpoint fnv1 (h : N) (s : string) : N :=
  match s with
  | EmptyString => h
  | String c r => fnv1 (N.lxor ((h * fnv_prime) mod two32) (N_of_ascii c)) r
  end.

Definition dec (n : N) : string := NilZero.string_of_uint (N.to_uint n).

Definition bucket (k : N) : N := N.land (fnv1 fnv_offset (dec k)) 1023.

(** insert [k] (already known to be absent) behind the entries of strictly smaller bucket *)
Fixpoint bucket_insert {V} (k : N) (v : V) (l : list (N * V)) : list (N * V) :=
  match l with
  | [] => [(k, v)]
  | (k', v') :: r =>
    if N.ltb (bucket k') (bucket k) then (k', v') :: bucket_insert k v r
    else (k, v) :: l
  end.

Fixpoint replace_val {V} (k : N) (v : V) (l : list (N * V)) : list (N * V) :=
  match l with
  | [] => []
  | (k', v') :: r => if N.eqb k k' then (k, v) :: r else (k', v') :: replace_val k v r
  end.

(** [local -A a=([k]=v ...)]: the entries in the order "${!a[@]}" enumerates them *)
Definition assoc_of {V} (entries : list (N * V)) : list (N * V) :=
  fold_left (fun acc kv =>
               match assocN (fst kv) acc with
               | Some _ => replace_val (fst kv) (snd kv) acc
               | None => bucket_insert (fst kv) (snd kv) acc
               end) entries [].

(** *** bash: cmd | while read -r f1 _; do echo "$f1"; done, read back with readarray -t *)
Definition c_nl : ascii := ch 10.
Definition c_tab : ascii := ch 9.
Definition c_sp : ascii := ch 32.
Definition is_blank (c : ascii) : bool := aeq c c_sp || aeq c c_tab.

(** the complete lines of a text (a last line without newline is dropped by `while read`) *)
Fixpoint lines_acc (s : string) (cur : string) : list string :=
  match s with
  | EmptyString => []
  | String c r =>
    if aeq c c_nl then cur :: lines_acc r EmptyString
    else lines_acc r (cur ++ String c EmptyString)%string
  end.
Definition complete_lines (s : string) : list string := lines_acc s EmptyString.

Fixpoint skip_blanks (s : string) : string :=
  match s with
  | String c r => if is_blank c then skip_blanks r else s
  | EmptyString => s
  end.

Fixpoint until_blank (s : string) : string :=
  match s with
  | String c r => if is_blank c then EmptyString else String c (until_blank r)
  | EmptyString => EmptyString
  end.

(** read -r f1 _ : first field of the line (IFS = space, tab, newline) *)
Definition first_field (line : string) : string := until_blank (skip_blanks line).

Fixpoint all_in (set s : string) : bool :=
  match s with
  | EmptyString => true
  | String c r => contains_char c set && all_in set r
  end.

(** echo "$f1" : "-" followed by one or more of n, e, E is an option word *)
Definition echo_text (f1 : string) : string :=
  match f1 with
  | String c (String d r) =>
    if aeq c c_minus && all_in "neE" (String d r)
    then (if contains_char "n"%char (String d r) then EmptyString else String c_nl EmptyString)
    else (f1 ++ String c_nl EmptyString)%string
  | _ => (f1 ++ String c_nl EmptyString)%string
  end.

(** readarray -t: split at newlines; a last piece without newline is an element unless empty *)
Fixpoint readarray_acc (s : string) (cur : string) : list string :=
  match s with
  | EmptyString => match cur with EmptyString => [] | _ => [cur] end
  | String c r =>
    if aeq c c_nl then cur :: readarray_acc r EmptyString
    else readarray_acc r (cur ++ String c EmptyString)%string
  end.

Definition sconcat (l : list string) : string := fold_right append EmptyString l.

Definition filter_lines (output : string) : list string :=
  readarray_acc (sconcat (map (fun l => echo_text (first_field l)) (complete_lines output))) EmptyString.

(** what the property calls the candidates of a command: the text before the first tab of each line *)
Fixpoint until_tab (s : string) : string :=
  match s with
  | String c r => if aeq c c_tab then EmptyString else String c (until_tab r)
  | EmptyString => EmptyString
  end.

(** [Repaired]: cmd | while IFS= read -r line; do printf '%s\n' "${line%%$'\t'*}"; done, read back with readarray -t *)
Definition filter_lines_repaired (output : string) : list string :=
  readarray_acc (sconcat (map (fun l => (until_tab l ++ String c_nl EmptyString)%string) (complete_lines output)))
                EmptyString.

Definition command_lines (v : variant) (output : string) : list string :=
  if quirky v then filter_lines output else filter_lines_repaired output.

(** *** bash: ... | sort -nrk2,2 -rk3 | cut -f1 -d' '   over the lines "i len text"
    The option letters before [k] are GLOBAL options of sort(1), so both keys are numeric and reversed:
    length decreasing; then the text read as a decimal number (sign, digits, fraction; anything else is 0)
    decreasing; then the whole line, bytewise, decreasing (the last-resort comparison, also reversed). *)
Definition is_digit (c : ascii) : bool :=
  let n := N_of_ascii c in N.leb 48 n && N.leb n 57.

Fixpoint take_digits (s : string) : string * string :=
  match s with
  | String c r => if is_digit c then let (d, t) := take_digits r in (String c d, t) else (EmptyString, s)
  | EmptyString => (EmptyString, EmptyString)
  end.

Fixpoint strip_zeros (s : string) : string :=
  match s with
  | String c r => if aeq c "0"%char then strip_zeros r else s
  | EmptyString => s
  end.

(** trailing zeros of a fraction *)
Fixpoint strip_trailing_zeros (s : string) : string :=
  match s with
  | EmptyString => EmptyString
  | String c r =>
    match strip_trailing_zeros r with
    | EmptyString => if aeq c "0"%char then EmptyString else String c EmptyString
    | r' => String c r'
    end
  end.

(** (negative, integer digits without leading zeros, fraction digits without trailing zeros); zero is
    (false, "", "") *)
Definition numkey (s : string) : bool * string * string :=
  let '(neg, r) := match s with
                   | String c r => if aeq c c_minus then (true, r) else (false, s)
                   | EmptyString => (false, s)
                   end in
  let '(ip, r1) := take_digits r in
  let fp := match r1 with
            | String c r2 => if aeq c c_dot then fst (take_digits r2) else EmptyString
            | EmptyString => EmptyString
            end in
  let ip' := strip_zeros ip in
  let fp' := strip_trailing_zeros fp in
  match ip', fp' with
  | EmptyString, EmptyString => (false, EmptyString, EmptyString)
  | _, _ => (neg, ip', fp')
  end.

Definition mag_compare (a b : string * string) : comparison :=
  match Nat.compare (String.length (fst a)) (String.length (fst b)) with
  | Eq => match String.compare (fst a) (fst b) with
          | Eq => String.compare (snd a) (snd b)
          | c => c
          end
  | c => c
  end.

Definition num_compare (a b : string) : comparison :=
  let '(na, ia, fa) := numkey a in
  let '(nb, ib, fb) := numkey b in
  match na, nb with
  | false, false => mag_compare (ia, fa) (ib, fb)
  | true, true => mag_compare (ib, fb) (ia, fa)
  | true, false => Lt
  | false, true => Gt
  end.

Definition sort_line (ic : N * string) : string :=
  (dec (fst ic) ++ " " ++ dec (N.of_nat (String.length (snd ic))) ++ " " ++ snd ic)%string.

(** does line [a] come before line [b] in sort's output? *)
Definition cand_before (a b : N * string) : bool :=
  match Nat.compare (String.length (snd a)) (String.length (snd b)) with
  | Gt => true
  | Lt => false
  | Eq =>
    match num_compare (snd a) (snd b) with
    | Gt => true
    | Lt => false
    | Eq => match String.compare (sort_line a) (sort_line b) with Gt => true | _ => false end
    end
  end.

Fixpoint insert_desc (x : N * string) (l : list (N * string)) : list (N * string) :=
  match l with
  | [] => [x]
  | y :: r => if cand_before y x then y :: insert_desc x r else x :: l
  end.

(** array elements with their index *)
Fixpoint indexed_from {A} (i : N) (l : list A) : list (N * A) :=
  match l with
  | [] => []
  | x :: r => (i, x) :: indexed_from (i + 1) r
  end.

Definition sort_desc (l : list string) : list string :=
  map snd (fold_right insert_desc [] (indexed_from 0 l)).

(** *** __complgen_match *)
Definition lower_ascii (c : ascii) : ascii :=
  let n := N_of_ascii c in
  if N.leb 65 n && N.leb n 90 then ascii_of_N (n + 32) else c.
Fixpoint lower (s : string) : string :=
  match s with EmptyString => EmptyString | String c r => String (lower_ascii c) (lower r) end.

Definition globm (pat s : string) : M bool :=
  match glob_match true pat s with
  | Some b => Ok b
  | None => Err ("unsupported pattern: " ++ pat)%string
  end.

Fixpoint filterM {A} (f : A -> M bool) (l : list A) : M (list A) :=
  match l with
  | [] => Ok []
  | x :: r => do b <- f x; do rs <- filterM f r; Ok (if b then x :: rs else rs)
  end.

(** the lines of [cands] that [__complgen_match prefix cands out] appends to [out] *)
Definition match_fn (e : env) (prefix : string) (cands : list string) : M (list string) :=
  match prefix with
  | EmptyString => Ok cands
  | _ =>
    let p := if e_ignore_case e then lower prefix else prefix in
    match printf_q p with
    | None => Err ("printf %q of a non-printable prefix: " ++ p)%string
    | Some q =>
      filterM (fun line => globm (q ++ "*")%string (if e_ignore_case e then lower line else line)) cands
    end
  end.

(** *** running a command function *)
Definition cmd_output (e : env) (cid : N) : string :=
  match assocN cid (e_outputs e) with Some o => o | None => EmptyString end.

Definition run_cmd (v : variant) (tabs : alltables) (e : env) (cid : N) (a1 a2 : string) (log : list invocation)
  : M (list string * list invocation) :=
  match nthN (a_commands tabs) cid with
  | None => Err ("no command function with id " ++ dec cid)%string
  | Some _ => Ok (command_lines v (cmd_output e cid), (cid, a1, a2) :: log)
  end.

(** *** table access as the script does it *)
Definition literal_texts (T : tables) : list string := map (fun x => snd (fst x)) (t_literals T).

(** ${literals[$id]}: an unset element expands to nothing *)
Definition literal_at (T : tables) (id : N) : string :=
  match nthN (literal_texts T) id with Some t => t | None => EmptyString end.

(** ${name_level_L[$state]} split into ids *)
Definition level_row (lv : list (list (N * list N))) (level : nat) (state : N) : list N :=
  match nth_error lv level with
  | Some rows => match assocN state rows with Some ids => ids | None => [] end
  | None => []
  end.

(** *** _<cmd>_subword: the matching loop *)
Inductive step :=
| SCont (st : N) (adv : nat)    (* continue the while loop in state [st], char_index advanced by [adv] *)
| SBreak                        (* break out of the while loop (matched stays 0) *)
| SNone.                        (* fall through to the next block *)

(** the literal loop of the template in /repo: exact match, stop-if-typed-text-is-a-prefix, consume *)
Fixpoint lit_loop_pinned (lits : list (N * string)) (st : list (N * N)) (sub : string) : M step :=
  match lits with
  | [] => Ok SNone
  | (lid, lit) :: r =>
    do m1 <- globm lit sub;
    match (if m1 then assocN lid st else None) with
    | Some to => Ok (SCont to (String.length lit))
    | None =>
      do m2 <- globm (sub ++ "*")%string lit;
      if m2 then Ok SBreak
      else
        do m3 <- globm (lit ++ "*")%string sub;
        match (if m3 then assocN lid st else None) with
        | Some to => Ok (SCont to (String.length lit))
        | None => lit_loop_pinned r st sub
        end
    end
  end.

(** the repaired loop: the stop test only when completing, and only for literals that have a transition *)
Fixpoint lit_loop_fixed (complete : bool) (lits : list (N * string)) (st : list (N * N)) (sub : string) : M step :=
  match lits with
  | [] => Ok SNone
  | (lid, lit) :: r =>
    match assocN lid st with
    | None => lit_loop_fixed complete r st sub
    | Some to =>
      do m1 <- globm lit sub;
      if m1 then Ok (SCont to (String.length lit))
      else
        do m2 <- (if complete then globm (sub ++ "*")%string lit else Ok false);
        if m2 then Ok SBreak
        else
          do m3 <- globm (lit ++ "*")%string sub;
          if m3 then Ok (SCont to (String.length lit))
          else lit_loop_fixed complete r st sub
    end
  end.

(** [Repaired]: the same three tests with quoted operands, i.e. on plain strings *)
Fixpoint lit_loop_str (complete : bool) (lits : list (N * string)) (st : list (N * N)) (sub : string) : step :=
  match lits with
  | [] => SNone
  | (lid, lit) :: r =>
    match assocN lid st with
    | None => lit_loop_str complete r st sub
    | Some to =>
      if String.eqb lit sub then SCont to (String.length lit)
      else if complete && String.prefix sub lit then SBreak
      else if String.prefix lit sub then SCont to (String.length lit)
      else lit_loop_str complete r st sub
    end
  end.

Definition lit_loop (v : variant) (complete : bool) (lits : list (N * string)) (st : list (N * N)) (sub : string)
  : M step :=
  match v with
  | Pinned => lit_loop_pinned lits st sub
  | Fixed => lit_loop_fixed complete lits st sub
  | Repaired => Ok (lit_loop_str complete lits st sub)
  end.

(** [Repaired]: [[ $candidate == "$subword" ]], [[ $mode = complete && $candidate == "$subword"* ]],
    [[ -n $candidate && $subword == "$candidate"* ]] *)
Fixpoint cand_loop_str (complete : bool) (cands : list string) (to : N) (sub : string) : step :=
  match cands with
  | [] => SNone
  | c :: r =>
    if String.eqb sub c then SCont to (String.length c)
    else if complete && String.prefix sub c then SBreak
    else if (match c with EmptyString => false | _ => true end) && String.prefix c sub then SCont to (String.length c)
    else cand_loop_str complete r to sub
  end.

(** the loop over the sorted candidates of one command ([to] = state_commands[$cmd_id]) *)
Fixpoint cand_loop_glob (v : variant) (complete : bool) (cands : list string) (to : N) (sub : string) : M step :=
  match cands with
  | [] => Ok SNone
  | c :: r =>
    do m1 <- globm sub c;
    if m1 then Ok (SCont to (String.length c))
    else
      do m2 <- (match v with
                | Pinned => globm (sub ++ "*")%string c
                | _ => if complete then globm (sub ++ "*")%string c else Ok false
                end);
      if m2 then Ok SBreak
      else
        do m3 <- globm (c ++ "*")%string sub;
        if m3 then Ok (SCont to (String.length c))
        else cand_loop_glob v complete r to sub
  end.

Definition cand_loop (v : variant) (complete : bool) (cands : list string) (to : N) (sub : string) : M step :=
  if quirky v then cand_loop_glob v complete cands to sub else Ok (cand_loop_str complete cands to sub).

(** for cmd_id in "${!state_commands[@]}" *)
Fixpoint cmd_loop (v : variant) (complete : bool) (tabs : alltables) (e : env)
         (cmds : list (N * N)) (sub mp : string) (log : list invocation)
  : M (step * list invocation) :=
  match cmds with
  | [] => Ok (SNone, log)
  | (cid, to) :: r =>
    do (cands, log1) <- run_cmd v tabs e cid sub mp log;
    match cands with
    | [] => cmd_loop v complete tabs e r sub mp log1
    | _ =>
      do s <- cand_loop v complete (sort_desc cands) to sub;
      match s with
      | SNone => cmd_loop v complete tabs e r sub mp log1
      | _ => Ok (s, log1)
      end
    end
  end.

Definition has_key {V} (k : N) (l : list (N * V)) : bool :=
  match assocN k l with Some _ => true | None => false end.

(** [Repaired] (greedy-shadow fix): in matching mode a state that expects an undefined nonterminal
    accepts whatever is left, and that is decided before the literals are tried *)
Definition star_first (v : variant) (complete : bool) (T : tables) (state : N) : bool :=
  negb (quirky v) && negb complete
  && match t_mstar T with Some stars => has_key state stars | None => false end.

(** the while loop; returns (matched, subword_state, char_index, log) *)
Fixpoint sw_loop (fuel : nat) (v : variant) (complete : bool) (tabs : alltables) (e : env) (T : tables)
         (acc : list N) (word : string) (state : N) (ci : nat) (log : list invocation)
  : M (bool * N * nat * list invocation) :=
  match fuel with
  | O => OutOfFuel
  | S fuel' =>
    (* [Repaired] (df274e8): a complete word is matched only when it is exhausted in an accepting state *)
    if Nat.leb (String.length word) ci then Ok (quirky v || complete || memN state acc, state, ci, log)
    else if star_first v complete T state then Ok (true, state, ci, log)
    else
      let sub := sdrop ci word in
      do s1 <- match assocN state (t_mlit T) with
               | Some st => lit_loop v complete (indexed_from 0 (literal_texts T)) st sub
               | None => Ok SNone
               end;
      match s1 with
      | SCont st adv => sw_loop fuel' v complete tabs e T acc word st (ci + adv) log
      | SBreak => Ok (false, state, ci, log)
      | SNone =>
        do (s2, log2) <- match t_mcmd T with
                          | Some ct =>
                            match assocN state ct with
                            | Some row => cmd_loop v complete tabs e (assoc_of row) sub (stake ci word) log
                            | None => Ok (SNone, log)
                            end
                          | None => Ok (SNone, log)
                          end;
        match s2 with
        | SCont st adv => sw_loop fuel' v complete tabs e T acc word st (ci + adv) log2
        | SBreak => Ok (false, state, ci, log2)
        | SNone =>
          match t_mstar T with
          | Some stars => if has_key state stars then Ok (true, state, ci, log2) else Ok (false, state, ci, log2)
          | None => Ok (false, state, ci, log2)
          end
        end
      end
  end.

Definition count_entries (t : list (N * list (N * N))) : nat :=
  fold_right (fun r a => (List.length (snd r) + a)%nat) 0%nat t.

(** every state the loop visits except 0 is the target of a table entry, and the loop is a function of
    (state, char_index): more rounds than configurations means it never ends *)
Definition sw_fuel (T : tables) (word : string) : nat :=
  S (S (String.length word)
     * S (count_entries (t_mlit T) + match t_mcmd T with Some l => count_entries l | None => 0 end)).

(** *** _<cmd>_subword: the completion part (one fallback level) *)
Fixpoint sw_cmds_level (v : variant) (tabs : alltables) (e : env) (cids : list N) (cp mp : string)
         (sc sm : list string) (log : list invocation)
  : M (list string * list string * list invocation) :=
  match cids with
  | [] => Ok (sc, sm, log)
  | cid :: r =>
    do (cands, log1) <- run_cmd v tabs e cid cp mp log;
    do filtered <- match_fn e cp cands;
    sw_cmds_level v tabs e r cp mp cands (sm ++ map (append mp) filtered) log1
  end.

(** levels [level .. level+n-1]; [sc] = subword_candidates, [sm] = subword_matches.
    Returns what is appended to the caller's [matches]. *)
Fixpoint sw_levels (n : nat) (level : nat) (v : variant) (tabs : alltables) (e : env) (T : tables)
         (state : N) (mp cp : string) (sc sm : list string) (log : list invocation)
  : M (list string * list invocation) :=
  match n with
  | O => Ok ([], log)
  | S n' =>
    let sc0 := if quirky v then sc else [] in       (* [Repaired]: subword_candidates=() at every level *)
    let sc1 := sc0 ++ map (fun id => (mp ++ literal_at T id)%string) (level_row (t_clit T) level state) in
    do m <- match_fn e (mp ++ cp)%string sc1;
    let sm1 := sm ++ m in
    do (sc2, sm2, log2) <- match t_ccmd T with
                            | Some cc => sw_cmds_level v tabs e (level_row cc level state) cp mp sc1 sm1 log
                            | None => Ok (sc1, sm1, log)
                            end;
    match sm2 with
    | [] => sw_levels n' (S level) v tabs e T state mp cp sc2 sm2 log2
    | _ => Ok (sm2, log2)
    end
  end.

(** the two halves of _<cmd>_subword started in an arbitrary loop configuration (the script starts in
    state 0 at character 0) *)
Definition subword_matches_from (v : variant) (tabs : alltables) (e : env) (T : tables) (acc : list N) (word : string)
           (state : N) (ci : nat) (log : list invocation) : M (bool * list invocation) :=
  do (matched, _, _, log1) <- sw_loop (sw_fuel T word) v false tabs e T acc word state ci log;
  Ok (matched, log1).

Definition subword_complete_from (v : variant) (tabs : alltables) (e : env) (T : tables) (word : string)
           (state : N) (ci : nat) (log : list invocation) : M (list string * list invocation) :=
  do (_, state1, ci1, log1) <- sw_loop (sw_fuel T word) v true tabs e T [] word state ci log;
  sw_levels (S (N.to_nat (t_maxlevel T))) 0 v tabs e T state1 (stake ci1 word) (sdrop ci1 word) [] [] log1.

(** _<cmd>_subword_<id> matches "$word"  ->  (return code = 0, log) *)
Definition subword_matches (v : variant) (tabs : alltables) (e : env) (T : tables) (acc : list N) (word : string)
           (log : list invocation) : M (bool * list invocation) :=
  subword_matches_from v tabs e T acc word 0 0 log.

(** local -A accepting_states=(...) of the wrapper _<cmd>_subword_<id> *)
Definition sub_accepting (tabs : alltables) (sid : N) : list N :=
  match assocN sid (a_subaccepting tabs) with Some l => l | None => [] end.

(** _<cmd>_subword_<id> complete "$word"  ->  (what it appends to matches, log) *)
Definition subword_complete (v : variant) (tabs : alltables) (e : env) (T : tables) (word : string)
           (log : list invocation) : M (list string * list invocation) :=
  subword_complete_from v tabs e T word 0 0 log.

(** tables of the within-word function _<cmd>_subword_<script id> *)
Fixpoint subword_tables (subs : list (N * N * tables)) (sid : N) : option tables :=
  match subs with
  | [] => None
  | (_, id, T) :: r => if N.eqb id sid then Some T else subword_tables r sid
  end.

Fixpoint script_id (subs : list (N * N * tables)) (pool : N) : option N :=
  match subs with
  | [] => None
  | (p, id, _) :: r => if N.eqb p pool then Some id else script_id r pool
  end.

(** subword_transitions[$state]="([script id]=to ...)" -- the dump keys the row by pool index *)
Fixpoint sub_row (subs : list (N * N * tables)) (row : list (N * N)) : M (list (N * N)) :=
  match row with
  | [] => Ok []
  | (pool, to) :: r =>
    match script_id subs pool with
    | None => Err "within-word automaton without script id"
    | Some id => do rs <- sub_row subs r; Ok ((id, to) :: rs)
    end
  end.

(** *** _<cmd>: the walk over the complete words *)
(** the literal loop: first literal id (array order) equal to the word that has a transition *)
Fixpoint top_lit_loop (lits : list (N * string)) (st : list (N * N)) (word : string) : option N :=
  match lits with
  | [] => None
  | (lid, lit) :: r =>
    if String.eqb lit word then
      match assocN lid st with Some to => Some to | None => top_lit_loop r st word end
    else top_lit_loop r st word
  end.

Fixpoint top_sub_loop (v : variant) (tabs : alltables) (e : env) (row : list (N * N)) (word : string)
         (log : list invocation) : M (option N * list invocation) :=
  match row with
  | [] => Ok (None, log)
  | (sid, to) :: r =>
    match subword_tables (a_subwords tabs) sid with
    | None => Err "no within-word function with this id"
    | Some T =>
      do (m, log1) <- subword_matches v tabs e T (sub_accepting tabs sid) word log;
      if m then Ok (Some to, log1) else top_sub_loop v tabs e r word log1
    end
  end.

Fixpoint any_glob (word : string) (cands : list string) : M bool :=
  match cands with
  | [] => Ok false
  | c :: r => do m <- globm word c; if m then Ok true else any_glob word r
  end.

Inductive wstep :=
| WNext (st : N)     (* the word was consumed *)
| WEscape            (* break 3: word_index + 1 == cword after a command with candidates did not match *)
| WNone.

(** for cmd_id in "${!state_commands[@]}" at top level; [last] = (word_index + 1 == cword) *)
Fixpoint top_cmd_loop (v : variant) (tabs : alltables) (e : env) (cmds : list (N * N)) (word : string) (last : bool)
         (log : list invocation) : M (wstep * list invocation) :=
  match cmds with
  | [] => Ok (WNone, log)
  | (cid, to) :: r =>
    do (cands, log1) <- run_cmd v tabs e cid EmptyString EmptyString log;
    match cands with
    | [] => top_cmd_loop v tabs e r word last log1
    | _ =>
      (* [Repaired]: [[ $candidate == "$word" ]] and no escape *)
      do m <- (if quirky v then any_glob word (sort_desc cands)
               else Ok (existsb (String.eqb word) (sort_desc cands)));
      if m then Ok (WNext to, log1)
      else if last && quirky v then Ok (WEscape, log1)
      else top_cmd_loop v tabs e r word last log1
    end
  end.

(** -> (Some state: completion starts there | None: return 1), log *)
Fixpoint walk (v : variant) (tabs : alltables) (e : env) (state : N) (words : list string)
         (log : list invocation) : M (option N * list invocation) :=
  match words with
  | [] => Ok (Some state, log)
  | word :: rest =>
    let T := a_main tabs in
    let last := match rest with [] => true | _ => false end in
    match (match assocN state (t_mlit T) with
           | Some st => top_lit_loop (indexed_from 0 (literal_texts T)) st word
           | None => None
           end) with
    | Some to => walk v tabs e to rest log
    | None =>
      do (s1, log1) <- match assocN state (a_subtrans tabs) with
                        | Some row =>
                          do srow <- sub_row (a_subwords tabs) row;
                          top_sub_loop v tabs e (assoc_of srow) word log
                        | None => Ok (None, log)
                        end;
      match s1 with
      | Some to => walk v tabs e to rest log1
      | None =>
        do (s2, log2) <- match t_mcmd T with
                          | Some ct =>
                            match assocN state ct with
                            | Some row => top_cmd_loop v tabs e (assoc_of row) word last log1
                            | None => Ok (WNone, log1)
                            end
                          | None => Ok (WNone, log1)
                          end;
        match s2 with
        | WNext to => walk v tabs e to rest log2
        | WEscape => Ok (Some state, log2)
        | WNone =>
          match (match t_mstar T with Some stars => assocN state stars | None => None end) with
          | Some to => walk v tabs e to rest log2
          | None => Ok (None, log2)
          end
        end
      end
    end
  end.

(** *** _<cmd>: completion *)
Fixpoint top_subs_level (v : variant) (tabs : alltables) (e : env) (sids : list N) (prefix : string)
         (matches : list string) (log : list invocation) : M (list string * list invocation) :=
  match sids with
  | [] => Ok (matches, log)
  | sid :: r =>
    match subword_tables (a_subwords tabs) sid with
    | None => Err "no within-word function with this id"
    | Some T =>
      do (add, log1) <- subword_complete v tabs e T prefix log;
      top_subs_level v tabs e r prefix (matches ++ add) log1
    end
  end.

Fixpoint top_cmds_level (v : variant) (tabs : alltables) (e : env) (cids : list N) (prefix : string)
         (cands matches : list string) (log : list invocation)
  : M (list string * list string * list invocation) :=
  match cids with
  | [] => Ok (cands, matches, log)
  | cid :: r =>
    do (cands1, log1) <- run_cmd v tabs e cid prefix EmptyString log;
    do m <- match cands1 with [] => Ok [] | _ => match_fn e prefix cands1 end;
    top_cmds_level v tabs e r prefix cands1 (matches ++ m) log1
  end.

(** ${prefix##*$char} for every character of COMP_WORDBREAKS: the shortest remainder *)
Fixpoint shortest_suffix (breaks : string) (prefix : string) (best : string) : M string :=
  match breaks with
  | EmptyString => Ok best
  | String c r =>
    match rm_longest_prefix (String c_star (String c EmptyString)) prefix with
    | None => Err "unsupported COMP_WORDBREAKS character"
    | Some cand =>
      shortest_suffix r prefix (if Nat.ltb (String.length cand) (String.length best) then cand else best)
    end
  end.

Definition strip_reply (e : env) (prefix : string) (matches : list string) : M (list string) :=
  do sh <- shortest_suffix (e_wordbreaks e) prefix prefix;
  do sup <- (if String.eqb sh prefix then Ok EmptyString
             else match rm_shortest_suffix sh prefix with
                  | Some s => Ok s
                  | None => Err "unsupported pattern in ${prefix%$shortest_suffix}"
                  end);
  omap (fun m => match rm_shortest_prefix sup m with
                 | Some s => Ok s
                 | None => Err "unsupported pattern in ${matches[@]#$superfluous_prefix}"
                 end) matches.

Fixpoint top_levels (n : nat) (level : nat) (v : variant) (tabs : alltables) (e : env) (state : N)
         (prefix : string) (cands matches : list string) (log : list invocation)
  : M (list string * list invocation) :=
  match n with
  | O => Ok ([], log)
  | S n' =>
    let T := a_main tabs in
    let cands0 := if quirky v then cands else [] in  (* [Repaired]: candidates=() at every level *)
    let cands1 := cands0 ++ map (fun id => (literal_at T id ++ " ")%string) (level_row (t_clit T) level state) in
    do m <- match cands1 with [] => Ok [] | _ => match_fn e prefix cands1 end;
    let matches1 := matches ++ m in
    do (matches2, log2) <- top_subs_level v tabs e (level_row (a_csub tabs) level state) prefix matches1 log;
    do (cands3, matches3, log3) <- match t_ccmd T with
                                    | Some cc => top_cmds_level v tabs e (level_row cc level state) prefix cands1 matches2 log2
                                    | None => Ok (cands1, matches2, log2)
                                    end;
    match matches3 with
    | [] => top_levels n' (S level) v tabs e state prefix cands3 matches3 log3
    | _ => do reply <- strip_reply e prefix matches3; Ok (reply, log3)
    end
  end.

Definition run_from (v : variant) (start : N) (tabs : alltables) (e : env) (words : list string)
           (prefix : string) : M result :=
  do (st, log) <- walk v tabs e start words [];
  match st with
  | None => Ok (mkresult 1 [] (rev log))
  | Some state =>
    do (reply, log1) <- top_levels (S (N.to_nat (t_maxlevel (a_main tabs)))) 0 v tabs e state prefix [] [] log;
    Ok (mkresult 0 reply (rev log1))
  end.

Definition run : alltables -> env -> list string -> string -> M result := run_from Pinned 0.
