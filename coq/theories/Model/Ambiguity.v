(** Model of [DFA::check_ambiguity_best_effort] (dfa.rs): depth-first walk over the states
    reachable from the start state; at every state (1) two or more star inputs of which at least
    one does not lead to an accepting state => [AmbiguousDFA path inputs]; (2) the literal inputs
    sorted by text (stable), consecutive duplicates of (text, description) removed, two neighbours
    with the same text and different descriptions => [ConflictingDescriptions path text l r].
    The path is the list of inputs from the start state to the state (first discovery). *)
From CG Require Import Base.Prelude Model.Dfa.

Inductive aerror :=
| AmbiguousDFA (path : list inp) (inputs : list inp)
| ConflictingDescriptions (path : list inp) (lit left right : string).

Definition ares := outcome aerror.

Definition transitions_from (d : dfa) (s : N) : list (N * N) :=
  match assocN s (d_trans d) with Some r => r | None => [] end.

Definition input_of (d : dfa) (i : N) : ares inp :=
  match nthN (d_inputs d) i with
  | Some x => Ok x
  | None => Panic "check_ambiguity_best_effort: get_input"
  end.

(** byte-wise lexicographic comparison of strings ([Ustr]'s [Ord] is [str]'s) *)
Fixpoint str_leb (a b : string) : bool :=
  match a, b with
  | EmptyString, _ => true
  | String _ _, EmptyString => false
  | String x r, String y s =>
      if N.ltb (N_of_ascii x) (N_of_ascii y) then true
      else if N.ltb (N_of_ascii y) (N_of_ascii x) then false
      else str_leb r s
  end.

(** stable insertion sort by the literal text ([sort_by_key] is a stable merge sort) *)
Fixpoint insert_by_text (x : string * option string) (l : list (string * option string))
  : list (string * option string) :=
  match l with
  | [] => [x]
  | y :: r => if str_leb (fst y) (fst x) then y :: insert_by_text x r else x :: l
  end.

Definition sort_by_text (l : list (string * option string)) : list (string * option string) :=
  fold_left (fun acc x => insert_by_text x acc) l [].

Definition lit_eqb (a b : string * option string) : bool :=
  String.eqb (fst a) (fst b) && option_eqb String.eqb (snd a) (snd b).

(** [Vec::dedup_by_key]: drops an element equal to the one kept before it *)
Fixpoint dedup (l : list (string * option string)) : list (string * option string) :=
  match l with
  | x :: ((y :: _) as r) => if lit_eqb x y then dedup r else x :: dedup r
  | _ => l
  end.

Fixpoint first_conflict (l : list (string * option string))
  : option (string * option string * option string) :=
  match l with
  | (t1, d1) :: (((t2, d2) :: _) as r) =>
      if String.eqb t1 t2 && negb (option_eqb String.eqb d1 d2) then Some (t1, d1, d2)
      else first_conflict r
  | _ => None
  end.

Definition descr_or_empty (d : option string) : string :=
  match d with Some x => x | None => EmptyString end.

Definition check_state (d : dfa) (s : N) (path : list inp) : ares unit :=
  do ins <- omap (fun p => do x <- input_of d (fst p); Ok (x, snd p)) (transitions_from d s);
  let stars := filter (fun p => match fst p with IStar => true | _ => false end) ins in
  if (Nat.leb 2 (List.length stars)) && existsb (fun p => negb (is_accepting d (snd p))) stars
  then Err (AmbiguousDFA path (map fst stars))
  else
    let lits := flat_map (fun p => match fst p with ILit t de _ => [(t, de)] | _ => [] end) ins in
    match first_conflict (dedup (sort_by_text lits)) with
    | Some (t, l, r) => Err (ConflictingDescriptions path t (descr_or_empty l) (descr_or_empty r))
    | None => Ok tt
    end.

(** the recursive walk; [visited] is threaded; fuel = number of states + 1 suffices *)
Fixpoint walk (fuel : nat) (d : dfa) (s : N) (visited : list N) (path : list inp)
  : ares (list N) :=
  match fuel with
  | O => OutOfFuel
  | S fuel' =>
      do _ <- check_state d s path;
      (fix each (ts : list (N * N)) (visited : list N) : ares (list N) :=
         match ts with
         | [] => Ok visited
         | (i, to) :: r =>
             if memN to visited then each r visited
             else
               do x <- input_of d i;
               do v' <- walk fuel' d to (to :: visited) (path ++ [x]);
               each r v'
         end) (transitions_from d s) visited
  end.

Definition check_ambiguity_best_effort (d : dfa) : ares unit :=
  do _ <- walk (S (S (List.length (trans_states d)))) d (d_start d) [] [];
  Ok tt.
